(* The reference: what ONE GraphQL server owning the merged schema and all the data answers
   (GraphQL spec, section 6: CollectFields with response-key merging, @skip/@include, type
   conditions on the runtime type, __typename), over the harness's data graph and resolvers. *)
From Coq Require Import String List Bool Arith.
From GW Require Import Base.GoStr Base.Json Gql.Syntax.
Import ListNotations.
Open Scope string_scope.
Open Scope list_scope.

(* field values of the data graph *)
Inductive fval := FNull | FScalar (j : json) | FRef (id : string) | FList (l : list fval).

Record obj := { b_id : string; b_type : string; b_fields : list (string * fval) }.

Record world := {
  w_objs : list obj;
  w_roots : list (string * fval);                (* "Query.q0" -> value *)
  w_possible : list (string * list string);      (* abstract or concrete type -> possible runtime types *)
  w_ftypes : list (string * string)              (* "Type.field" -> named type it returns *)
}.

Fixpoint find_obj (id : string) (l : list obj) : option obj :=
  match l with [] => None | o :: r => if String.eqb (b_id o) id then Some o else find_obj id r end.

Fixpoint lookup {A} (k : string) (m : list (string * A)) : option A :=
  match m with [] => None | (k', v) :: r => if String.eqb k k' then Some v else lookup k r end.

Definition type_matches (w : world) (cond runtime : string) : bool :=
  String.eqb cond "" || String.eqb cond runtime ||
  match lookup cond (w_possible w) with Some l => str_mem runtime l | None => false end.

(* the value of an argument under the variables: only what the harness's resolvers read *)
Definition arg_json (vars : list (string * json)) (v : value) : json :=
  match v with
  | VVar n => match lookup n vars with Some j => j | None => JNull end
  | VStr s => JStr s
  | VInt s => JNum s
  | VFloat s => JNum s
  | VBool b => JBool b
  | VEnum s => JStr s
  | _ => JNull
  end.

Definition arg_bool (vars : list (string * json)) (v : value) : bool :=
  match arg_json vars v with JBool b => b | _ => false end.

(* @skip / @include *)
Definition skipped (vars : list (string * json)) (dirs : list directive) : bool :=
  existsb (fun d =>
    match lookup "if" (d_args d) with
    | Some v => (String.eqb (d_name d) "skip" && arg_bool vars v) ||
                (String.eqb (d_name d) "include" && negb (arg_bool vars v))
    | None => false
    end) dirs.

(* how the harness's services print an echoed argument *)
Definition echo (j : json) : string :=
  match j with
  | JNull => "x=null"
  | JStr s => "x=" ++ s
  | JNum s => "x=" ++ s
  | JBool true => "x=true"
  | JBool false => "x=false"
  | _ => "x=?"
  end.

(* one collected response key: its first field (which decides the resolver) and the merged sub-selections *)
Record collected := { c_key : string; c_name : string; c_args : list (string * value); c_sub : list sel }.

Fixpoint add_collected (k n : string) (args : list (string * value)) (sub : list sel) (acc : list collected) : list collected :=
  match acc with
  | [] => [{| c_key := k; c_name := n; c_args := args; c_sub := sub |}]
  | c :: r => if String.eqb (c_key c) k
              then {| c_key := k; c_name := c_name c; c_args := c_args c; c_sub := c_sub c ++ sub |} :: r
              else c :: add_collected k n args sub r
  end.

(* CollectFields; one unit of fuel per fragment spread followed *)
Fixpoint collect (fuel : nat) (w : world) (frags : list fragdef) (vars : list (string * json)) (rt : string)
         (visited : list string) (sels : list sel) (acc : list collected) {struct fuel} : list collected * list string :=
  match fuel with
  | O => (acc, visited)
  | S fuel' =>
      (fix go (sels : list sel) (acc : list collected) (visited : list string) {struct sels} : list collected * list string :=
         match sels with
         | [] => (acc, visited)
         | Field alias name args dirs sub :: rest =>
             if skipped vars dirs then go rest acc visited
             else go rest (add_collected (rkey alias name) name args sub acc) visited
         | Inline tcond dirs sub :: rest =>
             if skipped vars dirs || negb (type_matches w tcond rt) then go rest acc visited
             else let '(acc', visited') := collect fuel' w frags vars rt visited sub acc in go rest acc' visited'
         | Spread name dirs :: rest =>
             if skipped vars dirs || str_mem name visited then go rest acc visited
             else match frag_for name frags with
                  | None => go rest acc (name :: visited)
                  | Some f =>
                      if negb (type_matches w (f_tcond f) rt) then go rest acc (name :: visited)
                      else let '(acc', visited') := collect fuel' w frags vars rt (name :: visited) (f_sel f) acc in
                           go rest acc' visited'
                  end
         end) sels acc visited
  end.

(* the harness's echo resolvers: a String field with an argument x answers "x=<value>" *)
Definition echoes (w : world) (rt : string) (c : collected) : bool :=
  match lookup "x" (c_args c) with
  | Some _ => match lookup (rt ++ "." ++ c_name c)%string (w_ftypes w) with
              | Some t => String.eqb t "String"
              | None => false
              end
  | None => false
  end.

Definition echo_of (vars : list (string * json)) (c : collected) : string :=
  match lookup "x" (c_args c) with Some a => echo (arg_json vars a) | None => "x=null" end.

(* ExecuteSelectionSet on an object (None = the root of type rt) and CompleteValue *)
Fixpoint exec (fuel : nat) (w : world) (frags : list fragdef) (vars : list (string * json))
         (o : option obj) (rt : string) (sels : list sel) {struct fuel} : json :=
  match fuel with
  | O => JNull
  | S fuel' =>
      let complete :=
        fix complete (sub : list sel) (v : fval) {struct v} : json :=
          match v with
          | FNull => JNull
          | FScalar j => j
          | FRef id => match find_obj id (w_objs w) with
                       | Some o' => exec fuel' w frags vars (Some o') (b_type o') sub
                       | None => JNull
                       end
          | FList l => JArr (map (complete sub) l)
          end in
      let cs := fst (collect fuel' w frags vars rt [] sels []) in
      JObj (map (fun c =>
        let v :=
          if String.eqb (c_name c) "__typename" then FScalar (JStr rt)
          else match o with
               | None =>
                   if String.eqb rt "Query" && String.eqb (c_name c) "node" then
                     match lookup "id" (c_args c) with
                     | Some a => match arg_json vars a with
                                 | JStr id => match find_obj id (w_objs w) with Some _ => FRef id | None => FNull end
                                 | _ => FNull
                                 end
                     | None => FNull
                     end
                   else if String.eqb (c_name c) "hello" || echoes w rt c then FScalar (JStr (echo_of vars c))
                   else match lookup (rt ++ "." ++ c_name c)%string (w_roots w) with Some x => x | None => FNull end
               | Some ob =>
                   if String.eqb (c_name c) "id" then FScalar (JStr (b_id ob))
                   else if echoes w rt c then FScalar (JStr (echo_of vars c))
                   else match lookup (c_name c) (b_fields ob) with Some x => x | None => FNull end
               end in
        (c_key c, complete (c_sub c) v)) cs)
  end.

(* the answer to one operation of a document *)
Definition root_type (t : optype) : string :=
  match t with OQuery => "Query" | OMutation => "Mutation" | OSubscription => "Subscription" end.

Definition eval_op (fuel : nat) (w : world) (frags : list fragdef) (vars : list (string * json)) (o : opdef) : json :=
  exec fuel w frags vars None (root_type (o_type o)) (o_sel o).

(* Syntactic classes of queries on which nautilus/gateway is known to violate C01/C02/C04 (the
   known findings of /verif/known_findings.json).  Each guard is an executable predicate of the
   client's document alone; a failing input is a known finding iff it falsifies a listed guard. *)
From Coq Require Import String Ascii List Bool Arith.
From GW Require Import Base.GoStr Gql.Syntax.
Import ListNotations.
Open Scope string_scope.
Open Scope list_scope.

Section Guards.
  Variable frags : list fragdef.
  Variable ftypes : list (string * string).   (* "Type.field" -> named type *)

  Fixpoint lookup_s (k : string) (m : list (string * string)) : option string :=
    match m with [] => None | (k', v) :: r => if String.eqb k k' then Some v else lookup_s k r end.

  (* generic traversal with fuel for fragment spreads: exists a selection satisfying p, where p also
     sees the type the selection is made on and whether it sits under a type condition that differs
     from the enclosing field's type *)
  Fixpoint exists_sel (fuel : nat) (p : string -> bool -> sel -> bool) (ptype : string) (narrowed : bool) (s : sel) {struct fuel} : bool :=
    match fuel with
    | O => false
    | S fuel' =>
        (fix one (ptype : string) (narrowed : bool) (s : sel) {struct s} : bool :=
           let many := fix many (ptype : string) (narrowed : bool) (l : list sel) {struct l} : bool :=
                         match l with [] => false | x :: r => one ptype narrowed x || many ptype narrowed r end in
           p ptype narrowed s ||
           match s with
           | Field alias name _ _ sub =>
               match lookup_s (ptype ++ "." ++ name)%string ftypes with
               | Some t => many t false sub
               | None => many "" false sub
               end
           | Inline tcond _ sub =>
               let t := if String.eqb tcond "" then ptype else tcond in
               many t (narrowed || negb (String.eqb t ptype)) sub
           | Spread name _ =>
               match frag_for name frags with
               | Some f => existsb (exists_sel fuel' p (f_tcond f) (narrowed || negb (String.eqb (f_tcond f) ptype))) (f_sel f)
               | None => false
               end
           end) ptype narrowed s
    end.

  Fixpoint has_dup_s (l : list string) : bool :=
    match l with [] => false | x :: r => str_mem x r || has_dup_s r end.

  (* guard 1: an alias "id" on a field that is not id *)
  Definition g_alias_id (ptype : string) (narrowed : bool) (s : sel) : bool :=
    match s with Field alias name _ _ _ => String.eqb alias "id" && negb (String.eqb name "id") | _ => false end.

  (* guard 3: a response key selected more than once at one path where some occurrence is under a
     @skip/@include (its own or an enclosing fragment's), or the key id under such a directive *)
  Fixpoint occ_dirs (fuel : nat) (path : string) (under : bool) (s : sel) {struct fuel} : list (string * bool) :=
    match fuel with
    | O => []
    | S fuel' =>
        (fix one (path : string) (under : bool) (s : sel) {struct s} : list (string * bool) :=
           let many := fix many (path : string) (under : bool) (l : list sel) {struct l} : list (string * bool) :=
                         match l with [] => [] | x :: r => one path under x ++ many path under r end in
           let has (d : list directive) := negb (match d with [] => true | _ => false end) in
           match s with
           | Field alias name _ dirs sub =>
               let p := (path ++ "/" ++ rkey alias name)%string in
               (p, under || has dirs) :: many p false sub
           | Inline _ dirs sub => many path (under || has dirs) sub
           | Spread name dirs =>
               match frag_for name frags with
               | Some f => flat_map (occ_dirs fuel' path (under || has dirs || has (f_dirs f))) (f_sel f)
               | None => []
               end
           end) path under s
    end.

  Fixpoint dup_with_dir (l : list (string * bool)) : bool :=
    match l with
    | [] => false
    | (p, d) :: r =>
        existsb (fun q => String.eqb (fst q) p && (d || snd q)) r || dup_with_dir r
    end.

  Definition ends_with_id (p : string) : bool :=
    match rev (split "/"%char p) with k :: _ => String.eqb k "id" | [] => false end.

  Definition g_directive_b (fuel : nat) (sels : list sel) : bool :=
    let occs := flat_map (occ_dirs fuel "" false) sels in
    dup_with_dir occs || existsb (fun o => snd o && ends_with_id (fst o)) occs.

  (* guard 3, third clause: a fragment (inline or spread) under @skip/@include in a selection set
     that does not also select id plainly: the join id the planner adds for what leaves to another
     service lands inside the conditional fragment and is left out with it *)
  Definition cond_frag (s : sel) : bool :=
    match s with
    | Inline _ (_ :: _) _ => true
    | Spread _ (_ :: _) => true
    | _ => false
    end.
  Definition plain_id (s : sel) : bool :=
    match s with
    | Field alias name _ [] _ => String.eqb name "id" && String.eqb (rkey alias name) "id"
    | _ => false
    end.
  Definition g_cond_frag_without_id (ptype : string) (narrowed : bool) (s : sel) : bool :=
    match s with
    | Field _ _ _ _ sub => existsb cond_frag sub && negb (existsb plain_id sub)
    | Inline _ _ sub => existsb cond_frag sub && negb (existsb plain_id sub)
    | Spread _ _ => false
    end.

  (* guard 7: a response key with a sub-selection selected more than once in one selection set: the
     planner treats every occurrence on its own, and what both occurrences send to another
     service is planned (and fetched) once per occurrence *)
  Fixpoint occ_comp (fuel : nat) (path : string) (s : sel) {struct fuel} : list string :=
    match fuel with
    | O => []
    | S fuel' =>
        (fix one (path : string) (s : sel) {struct s} : list string :=
           let many := fix many (path : string) (l : list sel) {struct l} : list string :=
                         match l with [] => [] | x :: r => one path x ++ many path r end in
           match s with
           | Field alias name _ _ sub =>
               let p := (path ++ "/" ++ rkey alias name)%string in
               match sub with [] => [] | _ => p :: many p sub end
           | Inline _ _ sub => many path sub
           | Spread name _ =>
               match frag_for name frags with
               | Some f => flat_map (occ_comp fuel' path) (f_sel f)
               | None => []
               end
           end) path s
    end.

  Definition g_repeated_composite (fuel : nat) (sels : list sel) : bool :=
    has_dup_s (flat_map (occ_comp fuel "") sels).

  (* guard 8: one selection set holds two fragments (inline or spread) that select a same response
     key through fragments nested inside them: a fragment that holds fragments stays where its
     parent is and is extracted on its own, so what both send to another service becomes one step
     per fragment at the same insertion point *)
  Fixpoint frag_keys (fuel : nat) (s : sel) {struct fuel} : list string :=
    match fuel with
    | O => []
    | S fuel' =>
        (fix one (s : sel) {struct s} : list string :=
           let many := fix many (l : list sel) {struct l} : list string :=
                         match l with [] => [] | x :: r => one x ++ many r end in
           match s with
           | Field alias name _ _ _ => [rkey alias name]
           | Inline _ _ sub => many sub
           | Spread name _ =>
               match frag_for name frags with
               | Some f => flat_map (frag_keys fuel') (f_sel f)
               | None => []
               end
           end) s
    end.

  Fixpoint dedup_s (l : list string) : list string :=
    match l with [] => [] | x :: r => if str_mem x r then dedup_s r else x :: dedup_s r end.

  (* the keys a fragment selects through the fragments nested directly inside it *)
  Definition nested_keys (fuel : nat) (s : sel) : list string :=
    let inner := flat_map (fun x => match x with Field _ _ _ _ _ => [] | _ => frag_keys fuel x end) in
    match s with
    | Field _ _ _ _ _ => []
    | Inline _ _ sub => inner sub
    | Spread name _ => match frag_for name frags with Some f => inner (f_sel f) | None => [] end
    end.

  Definition set_repeats (fuel : nat) (sels : list sel) : bool :=
    has_dup_s (flat_map (fun s => dedup_s (nested_keys fuel s)) sels).

  Fixpoint rep_sets (fuel : nat) (s : sel) {struct fuel} : bool :=
    match fuel with
    | O => false
    | S fuel' =>
        (fix one (s : sel) {struct s} : bool :=
           let many := fix many (l : list sel) {struct l} : bool :=
                         match l with [] => false | x :: r => one x || many r end in
           match s with
           | Field _ _ _ _ sub => set_repeats fuel sub || many sub
           | Inline _ _ sub => set_repeats fuel sub || many sub
           | Spread name _ =>
               match frag_for name frags with
               | Some f => set_repeats fuel' (f_sel f) || existsb (rep_sets fuel') (f_sel f)
               | None => false
               end
           end) s
    end.

  Definition g_repeated_in_fragments (fuel : nat) (sels : list sel) : bool :=
    set_repeats fuel sels || existsb (rep_sets fuel) sels.

  (* guard 4: the key id requested only under a type condition that narrows the enclosing type *)
  Definition g_id_narrowed (ptype : string) (narrowed : bool) (s : sel) : bool :=
    match s with Field alias name _ _ _ => narrowed && String.eqb (rkey alias name) "id" | _ => false end.

  (* guard 9: a fragment whose type condition narrows the type it is spread on and which holds a
     fragment of its own: what the inner fragment sends to another service is queued from inside
     both, the join id is selected inside them too, and the objects of the other types of the
     enclosing list come back without one *)
  Definition is_frag (s : sel) : bool := match s with Field _ _ _ _ _ => false | _ => true end.
  Definition g_nested_narrowing (ptype : string) (narrowed : bool) (s : sel) : bool :=
    match s with
    | Inline tcond _ sub =>
        negb (String.eqb tcond "") && negb (String.eqb tcond ptype) && existsb is_frag sub
    | Spread name _ =>
        match frag_for name frags with
        | Some f => negb (String.eqb (f_tcond f) ptype) && existsb is_frag (f_sel f)
        | None => false
        end
    | Field _ _ _ _ _ => false
    end.

  (* guard 5: a named fragment spread inside a fragment definition, or a fragment spread more than once *)
  Fixpoint spreads_in (fuel : nat) (s : sel) {struct fuel} : list string :=
    match fuel with
    | O => []
    | S fuel' =>
        (fix one (s : sel) {struct s} : list string :=
           let many := fix many (l : list sel) {struct l} : list string :=
                         match l with [] => [] | x :: r => one x ++ many r end in
           match s with
           | Field _ _ _ _ sub => many sub
           | Inline _ _ sub => many sub
           | Spread name _ => name :: match frag_for name frags with
                                      | Some f => flat_map (spreads_in fuel') (f_sel f)
                                      | None => []
                                      end
           end) s
    end.

  Fixpoint has_dup (l : list string) : bool :=
    match l with [] => false | x :: r => str_mem x r || has_dup r end.

  Definition g_fragments (fuel : nat) (sels : list sel) : bool :=
    has_dup (flat_map (spreads_in fuel) sels) ||
    existsb (fun f => negb (match flat_map (spreads_in 1) (f_sel f) with [] => true | _ => false end)) frags.

  (* the guards a query falsifies, as codes (2 = a variable called id) *)
  Definition guards_of (fuel : nat) (root : string) (varnames : list string) (sels : list sel) : list nat :=
    (if existsb (exists_sel fuel g_alias_id root false) sels then [1] else []) ++
    (if str_mem "id" varnames then [2] else []) ++
    (if g_directive_b fuel sels || existsb (exists_sel fuel g_cond_frag_without_id root false) sels then [3] else []) ++
    (if existsb (exists_sel fuel g_id_narrowed root false) sels then [4] else []) ++
    (if g_fragments fuel sels then [5] else []) ++
    (if g_repeated_composite fuel sels then [7] else []) ++
    (if g_repeated_in_fragments fuel sels then [8] else []) ++
    (if existsb (exists_sel fuel g_nested_narrowing root false) sels then [9] else []).
End Guards.

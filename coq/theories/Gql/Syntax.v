(* GraphQL executable documents, as far as the gateway's planner and executor look at them. *)
From Coq Require Import String List Bool.
From GW Require Import Base.Json.
Import ListNotations.
Open Scope string_scope.

(* argument / directive-argument values *)
Inductive value : Type :=
| VVar (name : string)
| VInt (lit : string)
| VFloat (lit : string)
| VStr (s : string)
| VBool (b : bool)
| VNull
| VEnum (s : string)
| VList (l : list value)
| VObj (m : list (string * value)).

Record directive := { d_name : string; d_args : list (string * value) }.

(* a selection; [alias] is the response key (gqlparser sets Alias = Name when none is written;
   fields synthesised by the planner have the empty alias) *)
Inductive sel : Type :=
| Field (alias name : string) (args : list (string * value)) (dirs : list directive) (sub : list sel)
| Inline (tcond : string) (dirs : list directive) (sub : list sel)
| Spread (name : string) (dirs : list directive).

Section SelInd.
  Variable P : sel -> Prop.
  Hypothesis HField : forall a n args dirs sub, Forall P sub -> P (Field a n args dirs sub).
  Hypothesis HInline : forall t dirs sub, Forall P sub -> P (Inline t dirs sub).
  Hypothesis HSpread : forall n dirs, P (Spread n dirs).
  Fixpoint sel_ind' (s : sel) : P s :=
    let fix go (l : list sel) : Forall P l :=
      match l with [] => Forall_nil _ | x :: r => Forall_cons _ (sel_ind' x) (go r) end in
    match s with
    | Field a n args dirs sub => HField a n args dirs sub (go sub)
    | Inline t dirs sub => HInline t dirs sub (go sub)
    | Spread n dirs => HSpread n dirs
    end.
End SelInd.

Record fragdef := { f_name : string; f_tcond : string; f_dirs : list directive; f_sel : list sel }.

Fixpoint frag_for (name : string) (fs : list fragdef) : option fragdef :=
  match fs with
  | [] => None
  | f :: r => if String.eqb (f_name f) name then Some f else frag_for name r
  end.

Inductive optype := OQuery | OMutation | OSubscription.

Record vardef := { v_name : string; v_type : string (* printed type, e.g. "[ID!]!" *) ; v_default : option value }.

Record opdef := { o_name : string; o_type : optype; o_vars : list vardef; o_dirs : list directive; o_sel : list sel }.

Record doc := { d_ops : list opdef; d_frags : list fragdef }.

(* response key of a field *)
Definition rkey (alias name : string) : string := if String.eqb alias "" then name else alias.

Fixpoint sel_size (s : sel) : nat :=
  match s with
  | Field _ _ _ _ sub => S (fold_right (fun x acc => sel_size x + acc) 0 sub)
  | Inline _ _ sub => S (fold_right (fun x acc => sel_size x + acc) 0 sub)
  | Spread _ _ => 1
  end.
Definition sels_size (l : list sel) : nat := fold_right (fun x acc => sel_size x + acc) 0 l.

(* GraphQL type-system definitions, as far as merge.go and gateway.go read them. *)
From Coq Require Import String List Bool.
From GW Require Import Base.GoStr.
Import ListNotations.
Open Scope string_scope.

(* ast.Type: NamedType/NonNull, or Elem/NonNull *)
Inductive ty : Type :=
| TNamed (name : string) (nonnull : bool)
| TList (elem : ty) (nonnull : bool).

Fixpoint ty_eqb (a b : ty) : bool :=
  match a, b with
  | TNamed x n, TNamed y m => String.eqb x y && Bool.eqb n m
  | TList x n, TList y m => ty_eqb x y && Bool.eqb n m
  | _, _ => false
  end.

Fixpoint ty_name (t : ty) : string := match t with TNamed n _ => n | TList e _ => ty_name e end.

(* a constant value: its ast.ValueKind and its printed form (Value.String()) *)
Record gval := { gv_kind : nat; gv_str : string }.
Definition gval_eqb (a b : gval) : bool := Nat.eqb (gv_kind a) (gv_kind b) && String.eqb (gv_str a) (gv_str b).

(* an applied directive: @name(arg: value, ...) *)
Record dirapp := { da_name : string; da_args : list (string * option gval) }.

Record argdef := { ad_name : string; ad_desc : string; ad_type : option ty; ad_default : option gval;
                   ad_dirs : list dirapp }.

Record fielddef := {
  fd_name : string; fd_desc : string; fd_type : option ty; fd_args : list argdef;
  fd_default : option gval; fd_dirs : list dirapp }.

Record enumval := { ev_name : string; ev_desc : string; ev_dirs : list dirapp }.

Inductive kind := KScalar | KObject | KInterface | KUnion | KEnum | KInputObject.
Definition kind_eqb (a b : kind) : bool :=
  match a, b with
  | KScalar, KScalar | KObject, KObject | KInterface, KInterface | KUnion, KUnion
  | KEnum, KEnum | KInputObject, KInputObject => true
  | _, _ => false
  end.

Record definition := {
  df_kind : kind; df_name : string; df_desc : string;
  df_fields : list fielddef;      (* object / interface / input fields *)
  df_ifaces : list string;        (* implemented interfaces *)
  df_members : list string;       (* union members *)
  df_enums : list enumval;
  df_dirs : list dirapp }.

Record dirdef := {
  dd_name : string; dd_desc : string; dd_locs : list string; dd_args : list argdef;
  dd_builtin : bool;              (* Position.Src.BuiltIn *)
  dd_repeatable : bool            (* IsRepeatable *) }.

(* one service's schema: Types and Directives maps (keys are the definitions' names) *)
Record schema := { s_types : list definition; s_dirs : list dirdef }.

Fixpoint find_field (n : string) (l : list fielddef) : option fielddef :=
  match l with [] => None | f :: r => if String.eqb (fd_name f) n then Some f else find_field n r end.
Fixpoint find_arg (n : string) (l : list argdef) : option argdef :=
  match l with [] => None | a :: r => if String.eqb (ad_name a) n then Some a else find_arg n r end.
Fixpoint find_enum (n : string) (l : list enumval) : option enumval :=
  match l with [] => None | a :: r => if String.eqb (ev_name a) n then Some a else find_enum n r end.
Fixpoint find_dir (n : string) (l : list dirapp) : option dirapp :=
  match l with [] => None | a :: r => if String.eqb (da_name a) n then Some a else find_dir n r end.
Fixpoint find_def (n : string) (l : list definition) : option definition :=
  match l with [] => None | a :: r => if String.eqb (df_name a) n then Some a else find_def n r end.

(* Correspondence and property oracles for the merge properties C03, C09, C10. *)
From Coq Require Import String Ascii List Bool Arith.
From GW Require Import Base.Res Base.GoStr Gql.Schema Gw.Merge.
Import ListNotations.
Open Scope string_scope.
Open Scope list_scope.

(* ---------- structural equality on the merged schema ---------- *)

Definition opt_eqb {A} (e : A -> A -> bool) (a b : option A) : bool :=
  match a, b with None, None => true | Some x, Some y => e x y | _, _ => false end.

Fixpoint list_eqb {A} (e : A -> A -> bool) (a b : list A) : bool :=
  match a, b with
  | [], [] => true
  | x :: a', y :: b' => e x y && list_eqb e a' b'
  | _, _ => false
  end.

Definition applarg_eqb (a b : string * option gval) : bool :=
  String.eqb (fst a) (fst b) && opt_eqb gval_eqb (snd a) (snd b).
Definition dirapp_eqb (a b : dirapp) : bool :=
  String.eqb (da_name a) (da_name b) && list_eqb applarg_eqb (da_args a) (da_args b).
Definition argdef_eqb (descs : bool) (a b : argdef) : bool :=
  String.eqb (ad_name a) (ad_name b) && (negb descs || String.eqb (ad_desc a) (ad_desc b)) &&
  opt_eqb ty_eqb (ad_type a) (ad_type b) && opt_eqb gval_eqb (ad_default a) (ad_default b) &&
  list_eqb dirapp_eqb (ad_dirs a) (ad_dirs b).
Definition fielddef_eqb (descs : bool) (a b : fielddef) : bool :=
  String.eqb (fd_name a) (fd_name b) && (negb descs || String.eqb (fd_desc a) (fd_desc b)) &&
  opt_eqb ty_eqb (fd_type a) (fd_type b) && list_eqb (argdef_eqb descs) (fd_args a) (fd_args b) &&
  opt_eqb gval_eqb (fd_default a) (fd_default b) && list_eqb dirapp_eqb (fd_dirs a) (fd_dirs b).
Definition enumval_eqb (descs : bool) (a b : enumval) : bool :=
  String.eqb (ev_name a) (ev_name b) && (negb descs || String.eqb (ev_desc a) (ev_desc b)) &&
  list_eqb dirapp_eqb (ev_dirs a) (ev_dirs b).
Definition definition_eqb (descs : bool) (a b : definition) : bool :=
  kind_eqb (df_kind a) (df_kind b) && String.eqb (df_name a) (df_name b) &&
  (negb descs || String.eqb (df_desc a) (df_desc b)) &&
  list_eqb (fielddef_eqb descs) (df_fields a) (df_fields b) &&
  list_eqb String.eqb (df_ifaces a) (df_ifaces b) && list_eqb String.eqb (df_members a) (df_members b) &&
  list_eqb (enumval_eqb descs) (df_enums a) (df_enums b) && list_eqb dirapp_eqb (df_dirs a) (df_dirs b).
Definition dirdef_eqb (descs : bool) (a b : dirdef) : bool :=
  String.eqb (dd_name a) (dd_name b) && (negb descs || String.eqb (dd_desc a) (dd_desc b)) &&
  list_eqb String.eqb (dd_locs a) (dd_locs b) && list_eqb (argdef_eqb descs) (dd_args a) (dd_args b) &&
  Bool.eqb (dd_repeatable a) (dd_repeatable b).

Definition subset (a b : list string) : bool := forallb (fun x => str_mem x b) a.
Definition set_eqb (a b : list string) : bool := subset a b && subset b a.

Fixpoint find_dirdef (n : string) (l : list dirdef) : option dirdef :=
  match l with [] => None | a :: r => if String.eqb (dd_name a) n then Some a else find_dirdef n r end.
Fixpoint assoc_l (k : string) (m : list (string * list string)) : list string :=
  match m with [] => [] | (k', v) :: r => if String.eqb k k' then v else assoc_l k r end.

(* same types (looked up by name), same directives, same possible types and implements as sets *)
Definition merged_matches (descs : bool) (a b : merged) : bool :=
  Nat.eqb (length (m_types a)) (length (m_types b)) &&
  forallb (fun d => match find_def (df_name d) (m_types b) with
                    | Some d' => definition_eqb descs d d'
                    | None => false end) (m_types a) &&
  Nat.eqb (length (m_dirs a)) (length (m_dirs b)) &&
  forallb (fun d => match find_dirdef (dd_name d) (m_dirs b) with
                    | Some d' => dirdef_eqb descs d d'
                    | None => false end) (m_dirs a) &&
  forallb (fun kv => set_eqb (snd kv) (assoc_l (fst kv) (m_possible b))) (m_possible a) &&
  forallb (fun kv => set_eqb (snd kv) (assoc_l (fst kv) (m_possible a))) (m_possible b) &&
  forallb (fun kv => set_eqb (snd kv) (assoc_l (fst kv) (m_implements b))) (m_implements a) &&
  forallb (fun kv => set_eqb (snd kv) (assoc_l (fst kv) (m_implements a))) (m_implements b) &&
  list_eqb String.eqb (m_roots a) (m_roots b).

(* ---------- what the harness observed for one ordering of the sources ---------- *)

Record observed := {
  ob_perm : list nat;            (* the ordering: indexes into the case's source list *)
  ob_cls : cls;
  ob_merged : merged;            (* meaningful when ob_cls = COk *)
  ob_urls : urlmap }.

Definition permute {A} (l : list A) (p : list nat) : list A :=
  flat_map (fun i => match nth_error l i with Some x => [x] | None => [] end) p.

Definition urls_match (a b : urlmap) : bool :=
  Nat.eqb (length a) (length b) &&
  forallb (fun kv => list_eqb String.eqb (snd kv) (assoc_l (fst kv) b)) a.

(* model vs implementation, for every observed ordering *)
Definition model_agrees (internal_loc : string) (sources : list (string * schema)) (internal : schema)
           (obs : list observed) : bool :=
  forallb (fun o =>
    let srcs := permute sources (ob_perm o) in
    let r := merge_schemas (map snd srcs ++ [internal]) in
    cls_eqb (cls_of r) (ob_cls o) &&
    match r with
    | Ok m => merged_matches true m (ob_merged o) &&
              urls_match (gateway_urls internal_loc srcs internal ["Node"]) (ob_urls o)
    | _ => true
    end) obs.

(* ---------- C09: the property's list of incompatibilities, written on its own ---------- *)

Definition names_of_fields (l : list fielddef) := map fd_name l.
Definition names_of_args (l : list argdef) := map ad_name l.

Definition argdefs_differ (check_default : bool) (a b : list argdef) : bool :=
  negb (set_eqb (names_of_args a) (names_of_args b)) ||
  existsb (fun x => match find_arg (ad_name x) b with
                    | Some y => negb (opt_eqb ty_eqb (ad_type x) (ad_type y)) ||
                                (check_default && negb (opt_eqb gval_eqb (ad_default x) (ad_default y)))
                    | None => false end) a.

(* different field type, nullability, arguments or defaults *)
Definition fields_differ (f g : fielddef) : bool :=
  negb (opt_eqb ty_eqb (fd_type f) (fd_type g)) || argdefs_differ true (fd_args f) (fd_args g) ||
  negb (opt_eqb gval_eqb (fd_default f) (fd_default g)).

Definition common_field_differs (a b : list fielddef) : bool :=
  existsb (fun f => match find_field (fd_name f) b with Some g => fields_differ f g | None => false end) a.

Definition incompatible (a b : definition) : bool :=
  negb (kind_eqb (df_kind a) (df_kind b)) ||
  match df_kind a with
  | KObject => common_field_differs (df_fields a) (df_fields b)
  | KInterface | KInputObject =>
      negb (set_eqb (names_of_fields (df_fields a)) (names_of_fields (df_fields b))) ||
      common_field_differs (df_fields a) (df_fields b)
  | KEnum => negb (set_eqb (map ev_name (df_enums a)) (map ev_name (df_enums b)))
  | KUnion => negb (set_eqb (df_members a) (df_members b))
  | KScalar => false
  end.

Definition dirdefs_incompatible (a b : dirdef) : bool :=
  negb (Bool.eqb (dd_repeatable a) (dd_repeatable b)) ||
  negb (set_eqb (executable_locs (dd_locs a)) (executable_locs (dd_locs b))) ||
  argdefs_differ (negb (dd_builtin a || dd_builtin b)) (dd_args a) (dd_args b).

Definition some_incompatible (all : list schema) : bool :=
  let defs := filter (fun d => negb (is_internal_name (df_name d))) (flat_map s_types all) in
  existsb (fun a => existsb (fun b => String.eqb (df_name a) (df_name b) && incompatible a b) defs) defs ||
  let dirs := flat_map s_dirs all in
  existsb (fun a => existsb (fun b => String.eqb (dd_name a) (dd_name b) && dirdefs_incompatible a b) dirs) dirs.

(* C09 on the observation alone: an incompatible pair anywhere => every ordering is an error
   (never ok, never a panic); and no ordering ever panics *)
Definition c09_holds (sources : list (string * schema)) (internal : schema) (obs : list observed) : bool :=
  forallb (fun o => negb (cls_eqb (ob_cls o) CPanic)) obs &&
  (negb (some_incompatible (map snd sources ++ [internal])) || forallb (fun o => cls_eqb (ob_cls o) CErr) obs).

(* order-insensitive comparison of two merged type systems, descriptions aside *)
Definition argdefs_equiv (a b : list argdef) : bool :=
  Nat.eqb (length a) (length b) &&
  forallb (fun x => match find_arg (ad_name x) b with Some y => argdef_eqb false x y | None => false end) a.
Definition field_equiv (f g : fielddef) : bool :=
  opt_eqb ty_eqb (fd_type f) (fd_type g) && argdefs_equiv (fd_args f) (fd_args g) &&
  opt_eqb gval_eqb (fd_default f) (fd_default g) && list_eqb dirapp_eqb (fd_dirs f) (fd_dirs g).
Definition fields_equiv (a b : list fielddef) : bool :=
  Nat.eqb (length a) (length b) &&
  forallb (fun f => match find_field (fd_name f) b with Some g => field_equiv f g | None => false end) a.
Definition definition_equiv (a b : definition) : bool :=
  kind_eqb (df_kind a) (df_kind b) && String.eqb (df_name a) (df_name b) &&
  fields_equiv (df_fields a) (df_fields b) && set_eqb (df_ifaces a) (df_ifaces b) &&
  set_eqb (df_members a) (df_members b) && set_eqb (map ev_name (df_enums a)) (map ev_name (df_enums b)) &&
  list_eqb dirapp_eqb (df_dirs a) (df_dirs b).
Definition dirdef_equiv (a b : dirdef) : bool :=
  String.eqb (dd_name a) (dd_name b) && set_eqb (dd_locs a) (dd_locs b) && argdefs_equiv (dd_args a) (dd_args b).
Definition merged_equiv (a b : merged) : bool :=
  Nat.eqb (length (m_types a)) (length (m_types b)) &&
  forallb (fun d => match find_def (df_name d) (m_types b) with Some d' => definition_equiv d d' | None => false end) (m_types a) &&
  Nat.eqb (length (m_dirs a)) (length (m_dirs b)) &&
  forallb (fun d => match find_dirdef (dd_name d) (m_dirs b) with Some d' => dirdef_equiv d d' | None => false end) (m_dirs a) &&
  forallb (fun kv => set_eqb (snd kv) (assoc_l (fst kv) (m_possible b))) (m_possible a) &&
  forallb (fun kv => set_eqb (snd kv) (assoc_l (fst kv) (m_possible a))) (m_possible b) &&
  forallb (fun kv => set_eqb (snd kv) (assoc_l (fst kv) (m_implements b))) (m_implements a) &&
  forallb (fun kv => set_eqb (snd kv) (assoc_l (fst kv) (m_implements a))) (m_implements b) &&
  list_eqb String.eqb (m_roots a) (m_roots b).

(* C10 on the observation alone: same outcome and, descriptions aside, same type system for all orderings *)
Definition c10_holds (obs : list observed) : bool :=
  match obs with
  | [] => true
  | o :: r => forallb (fun o' => cls_eqb (ob_cls o) (ob_cls o') &&
                                 match ob_cls o with
                                 | COk => merged_equiv (ob_merged o) (ob_merged o')
                                 | _ => true end) r
  end.

(* C03 on the observation alone: a successful merge contains every definition of every source
   with the same signature, nothing else, and the routing table lists exactly the declaring
   services *)
Definition argdefs_same (a b : list argdef) : bool :=
  set_eqb (names_of_args a) (names_of_args b) &&
  forallb (fun x => match find_arg (ad_name x) b with
                    | Some y => opt_eqb ty_eqb (ad_type x) (ad_type y) && opt_eqb gval_eqb (ad_default x) (ad_default y)
                    | None => false end) a.

Definition field_in (f : fielddef) (fs : list fielddef) : bool :=
  match find_field (fd_name f) fs with
  | Some g => opt_eqb ty_eqb (fd_type f) (fd_type g) && argdefs_same (fd_args f) (fd_args g) &&
              opt_eqb gval_eqb (fd_default f) (fd_default g)
  | None => false
  end.

Definition def_contained (d m : definition) : bool :=
  kind_eqb (df_kind d) (df_kind m) &&
  forallb (fun f => field_in f (df_fields m)) (df_fields d) &&
  subset (df_ifaces d) (df_ifaces m) && subset (df_members d) (df_members m) &&
  subset (map ev_name (df_enums d)) (map ev_name (df_enums m)).

Definition def_only (all : list definition) (m : definition) : bool :=
  let same := filter (fun d => String.eqb (df_name d) (df_name m)) all in
  forallb (fun f => existsb (fun d => field_in f (df_fields d)) same) (df_fields m) &&
  forallb (fun i => existsb (fun d => str_mem i (df_ifaces d)) same) (df_ifaces m) &&
  forallb (fun i => existsb (fun d => str_mem i (df_members d)) same) (df_members m) &&
  forallb (fun v => existsb (fun d => str_mem (ev_name v) (map ev_name (df_enums d))) same) (df_enums m) &&
  negb (match same with [] => true | _ => false end).

Fixpoint ty_refs_closed (types : list definition) (t : ty) : bool :=
  match t with
  | TNamed n _ => match find_def n types with Some _ => true | None => false end
  | TList e _ => ty_refs_closed types e
  end.

Definition refs_closed (types : list definition) : bool :=
  forallb (fun d =>
    forallb (fun f => match fd_type f with Some t => ty_refs_closed types t | None => true end &&
                      forallb (fun a => match ad_type a with Some t => ty_refs_closed types t | None => true end) (fd_args f))
            (df_fields d) &&
    forallb (fun i => match find_def i types with Some _ => true | None => false end) (df_ifaces d ++ df_members d)) types.

(* expected routing entry for Type.field: the services declaring it, in source order, then the
   gateway for its own fields *)
Definition declares (s : schema) (t f : string) : bool :=
  match find_def t (s_types s) with
  | Some d => String.eqb f "__typename" || match find_field f (df_fields d) with Some _ => true | None => false end
  | None => false
  end.

Definition c03_urls_ok (internal_loc : string) (srcs : list (string * schema)) (internal : schema) (urls : urlmap) : bool :=
  forallb (fun kv =>
    (* no introspection field or type is routed to a service *)
    forallb (fun loc => String.eqb loc internal_loc ||
                        existsb (fun src => String.eqb (fst src) loc &&
                                            existsb (fun d => negb (is_internal_name (df_name d)) &&
                                              (String.eqb (fst kv) (df_name d ++ ".__typename")%string ||
                                               existsb (fun f => String.eqb (fst kv) (df_name d ++ "." ++ fd_name f)%string &&
                                                                 negb (String.eqb (df_name d) "Query" && is_internal_name (fd_name f)))
                                                       (df_fields d))) (s_types (snd src))) srcs) (snd kv)) urls &&
  (* every field declared by a service is routed to it, exactly once *)
  forallb (fun src =>
    forallb (fun d =>
      is_internal_name (df_name d) ||
      forallb (fun f =>
        (String.eqb (df_name d) "Query" && is_internal_name (fd_name f)) ||
        Nat.eqb (count_occ string_dec (assoc_l (df_name d ++ "." ++ fd_name f)%string urls) (fst src)) 1)
        (df_fields d)) (s_types (snd src))) srcs &&
  (* ... and so is __typename on every composite type it declares (objects, interfaces and unions:
     the types a valid query may select __typename on) *)
  forallb (fun src =>
    forallb (fun d =>
      is_internal_name (df_name d) ||
      negb (kind_eqb (df_kind d) KObject || kind_eqb (df_kind d) KInterface || kind_eqb (df_kind d) KUnion) ||
      Nat.eqb (count_occ string_dec (assoc_l (df_name d ++ ".__typename")%string urls) (fst src)) 1)
      (s_types (snd src))) srcs.

Definition c03_holds (internal_loc : string) (sources : list (string * schema)) (internal : schema) (obs : list observed) : bool :=
  forallb (fun o =>
    match ob_cls o with
    | COk =>
        let srcs := permute sources (ob_perm o) in
        let all := flat_map s_types (map snd srcs ++ [internal]) in
        let m := ob_merged o in
        forallb (fun d => match find_def (df_name d) (m_types m) with
                          | Some md => def_contained d md
                          | None => false end) all &&
        forallb (def_only all) (m_types m) &&
        refs_closed (m_types m) &&
        (* a root operation type of any service is that root of the merged schema, and no other type is
           (otherwise an operation valid against the service would not be one of the gateway) *)
        list_eqb String.eqb (m_roots m)
          (map (fun n => if existsb (fun d => String.eqb (df_name d) n) all then n else "") ["Query"; "Mutation"; "Subscription"]) &&
        c03_urls_ok internal_loc srcs internal (ob_urls o)
    | _ => true
    end) obs.

(* plan.go: groupSelectionSet / extractSelection / wrapSelectionSet and the step queue of
   generatePlans, for all documents: fields, arguments, directives, inline fragments and named
   fragment spreads to any nesting.  Every step carries its own fragment definitions: the part of
   each fragment that lives at the step's location.  The step being built has mutable state in Go
   (step.FragmentDefinitions); here it is threaded through extractSelection.

   Go iterates its per-location maps in an arbitrary order: here locations are kept in order of
   first appearance, and plans are compared after matching sibling steps (PlanCheck2.v). *)
From Coq Require Import String List Bool Arith.
From GW Require Import Base.Res Base.GoStr Gql.Syntax Gw.Locate Gw.Plan.
Import ListNotations.
Open Scope string_scope.
Open Scope list_scope.

Inductive fstep := FStep (loc ptype : string) (ipoint : list string) (sels : list sel) (frags : list fragdef) (thens : list fstep).

Record fpayload := {
  fp_loc : string; fp_ptype : string; fp_ipoint : list string; fp_wrapper : list sel;
  fp_sels : list sel; fp_frags : list fragdef }.

(* per-location fragment definitions *)
Fixpoint lf_get (l : string) (m : list (string * list fragdef)) : list fragdef :=
  match m with [] => [] | (l', fs) :: r => if String.eqb l l' then fs else lf_get l r end.

Fixpoint lf_set (l : string) (fs : list fragdef) (m : list (string * list fragdef)) : list (string * list fragdef) :=
  match m with
  | [] => [(l, fs)]
  | (l', fs') :: r => if String.eqb l l' then (l', fs) :: r else (l', fs') :: lf_set l fs r
  end.

(* defn.SelectionSet = ss on the first definition with that name *)
Fixpoint set_frag_sel (name : string) (ss : list sel) (fs : list fragdef) : list fragdef :=
  match fs with
  | [] => []
  | f :: r => if String.eqb (f_name f) name
              then {| f_name := f_name f; f_tcond := f_tcond f; f_dirs := f_dirs f; f_sel := ss |} :: r
              else f :: set_frag_sel name ss r
  end.

Section Planner2.
  Variable prios : list string.
  Variable urls : urlmap.
  Variable ft : ftypes.
  Variable planfrags : list fragdef.      (* plan.FragmentDefinitions: the document's own *)

  Notation choose := (choose prios urls).
  Notation split_inline := (split_inline prios urls).

  Definition find_defn (name : string) (sfrags : list fragdef) : res fragdef :=
    match frag_for name sfrags with
    | Some f => Ok f
    | None => match frag_for name planfrags with
              | Some f => Ok f
              | None => Err "Could not find definition for directive"
              end
    end.

  (* groupSelectionSet: the per-location selections and the per-location fragment definitions *)
  Fixpoint group2 (sfrags : list fragdef) (ptype ploc : string) (sels : list sel)
           (acc : list (string * list sel)) (lf : list (string * list fragdef))
    : res (list (string * list sel) * list (string * list fragdef)) :=
    match sels with
    | [] => Ok (acc, lf)
    | Field alias name args dirs sub :: rest =>
        l <- choose ptype name ploc ;;
        group2 sfrags ptype ploc rest (add_at l (Field alias name args dirs sub) acc) lf
    | Inline tcond dirs sub :: rest =>
        parts <- split_inline (if String.eqb tcond "" then ptype else tcond) ploc sub [] ;;
        group2 sfrags ptype ploc rest
               (fold_left (fun acc lp => add_at (fst lp) (Inline tcond dirs (snd lp)) acc) parts acc) lf
    | Spread name dirs :: rest =>
        defn <- find_defn name sfrags ;;
        parts <- split_inline (f_tcond defn) ploc (f_sel defn) [] ;;
        let acc' := fold_left (fun acc lp => add_at (fst lp) (Spread name dirs) acc) parts acc in
        let lf' := fold_left (fun lf lp =>
                      let here := lf_get (fst lp) lf in
                      match frag_for name here with
                      | Some _ => lf
                      | None => lf_set (fst lp) (here ++ [{| f_name := name; f_tcond := f_tcond defn; f_dirs := []; f_sel := snd lp |}]) lf
                      end) parts lf in
        group2 sfrags ptype ploc rest acc' lf'
    end.

  (* wrapSelectionSet: the selection wrapped in the enclosing fragments, and the definitions the
     wrapping spreads need at the new location *)
  Fixpoint wrap2 (parent_type : string) (wrapper : list sel) (ss : list sel) (lfl : list fragdef)
    : res (list sel * list fragdef) :=
    match wrapper with
    | [] => Ok (ss, lfl)
    | Inline tcond dirs _ :: r =>
        inner <- wrap2 parent_type r ss lfl ;;
        Ok ([Inline tcond dirs (fst inner)], snd inner)
    | Spread name dirs :: r =>
        let lfl1 := lfl ++ [{| f_name := name; f_tcond := parent_type; f_dirs := []; f_sel := [] |}] in
        inner <- wrap2 parent_type r ss lfl1 ;;
        Ok ([Spread name dirs], set_frag_sel name (fst inner) (snd inner))
    | Field _ _ _ _ _ :: _ => Err "a field cannot wrap"
    end.

  Fixpoint queue_others2 (ptype ploc : string) (ipoint : list string) (wrapper : list sel)
           (lf : list (string * list fragdef)) (gs : list (string * list sel)) : res (list fpayload) :=
    match gs with
    | [] => Ok []
    | (l, ss) :: r =>
        rest <- queue_others2 ptype ploc ipoint wrapper lf r ;;
        if String.eqb l ploc then Ok rest
        else
          w <- (match wrapper with [] => Ok (ss, lf_get l lf) | _ => wrap2 ptype wrapper ss (lf_get l lf) end) ;;
          Ok ({| fp_loc := l; fp_ptype := ptype; fp_ipoint := ipoint; fp_wrapper := wrapper;
                 fp_sels := fst w; fp_frags := snd w |} :: rest)
    end.

  (* the result of extracting one level: what stays, what is queued, the step's definitions *)
  Definition ext := (list sel * list fpayload * list fragdef)%type.

  Definition keep_with2 (below : list fragdef -> string -> list string -> list sel -> list sel -> res ext)
             (ptype : string) (ipoint : list string) (wrapper : list sel) (lf_here : list fragdef)
    : list sel -> list fragdef -> res ext :=
    fix keep (cur : list sel) (sfrags : list fragdef) : res ext :=
      match cur with
      | [] => Ok ([], [], sfrags)
      | s :: r =>
          here <- (match s with
                   | Field alias name args dirs [] => Ok ([Field alias name args dirs []], [], sfrags)
                   | Field alias name args dirs sub =>
                       match assoc (url_key ptype name) ft with
                       | None => Err "no type for field"
                       | Some t =>
                           (* only a named fragment at the head of the wrapper survives a field *)
                           let w := match wrapper with Spread n d :: _ => [Spread n d] | _ => [] end in
                           b <- below sfrags t (ipoint ++ [alias]) w sub ;;
                           let '(ks, ps, sf) := b in
                           Ok ([Field alias name args dirs ks], ps, sf)
                       end
                   | Inline tcond dirs sub =>
                       b <- below sfrags (if String.eqb tcond "" then ptype else tcond) ipoint (wrapper ++ [Inline tcond dirs sub]) sub ;;
                       let '(ks, ps, sf) := b in
                       Ok ([Inline tcond dirs ks], ps, sf)
                   | Spread name dirs =>
                       let own := frag_for name sfrags in
                       defn <- find_defn name sfrags ;;
                       let fragsel := match frag_for name lf_here with Some d => f_sel d | None => f_sel defn end in
                       b <- below sfrags (f_tcond defn) ipoint [Spread name dirs] fragsel ;;
                       let '(ks, ps, sf) := b in
                       let sf1 := match own with
                                  | Some _ => sf
                                  | None => sf ++ [{| f_name := name; f_tcond := f_tcond defn; f_dirs := f_dirs defn; f_sel := [] |}]
                                  end in
                       Ok ([Spread name dirs], ps, set_frag_sel name ks sf1)
                   end) ;;
          let '(hs, hps, sf') := here in
          more <- keep r sf' ;;
          let '(ms, mps, sf'') := more in
          Ok (hs ++ ms, hps ++ mps, sf'')
      end.

  Fixpoint extract2 (fuel : nat) (sfrags : list fragdef) (ptype ploc : string) (ipoint : list string)
           (wrapper : list sel) (sels : list sel) {struct fuel} : res ext :=
    match fuel with
    | O => Err "selection nesting exceeds fuel"
    | S fuel' =>
        g <- group2 sfrags ptype ploc sels [] [] ;;
        let '(groups, lf) := g in
        others <- queue_others2 ptype ploc ipoint wrapper lf groups ;;
        let current := match get_at ploc groups with Some ss => ss | None => [] end in
        let current := match others with [] => current | _ => current ++ [id_field] end in
        kept <- keep_with2 (fun sf t ip w sub => extract2 fuel' sf t ploc ip w sub) ptype ipoint wrapper (lf_get ploc lf) current sfrags ;;
        let '(ks, ps, sf) := kept in
        Ok (ks, others ++ ps, sf)
    end.

  Fixpoint build2 (fuel : nat) (p : fpayload) {struct fuel} : res fstep :=
    match fuel with
    | O => Err "step nesting exceeds fuel"
    | S fuel' =>
        e <- extract2 fuel (fp_frags p) (fp_ptype p) (fp_loc p) (fp_ipoint p) (fp_wrapper p) (fp_sels p) ;;
        let '(ks, ps, sf) := e in
        thens <- map_res (build2 fuel') ps ;;
        Ok (FStep (fp_loc p) (fp_ptype p) (fp_ipoint p) ks sf thens)
    end.

  Definition plan_operation2 (fuel : nat) (root : string) (sels : list sel) : res fstep :=
    build2 fuel {| fp_loc := ""; fp_ptype := root; fp_ipoint := []; fp_wrapper := []; fp_sels := sels; fp_frags := [] |}.
End Planner2.

(* plan.go / execute.go: which client variables a step's query declares and which values travel
   with it.  The planner adds to step.Variables the variables of every argument and directive it
   leaves in the step's selection and fragment definitions (plan.go:449-457, 469, 554); the query
   declares the operation's definitions of those (plan.go:248-255), plus `$id: ID!` for a follow-up
   fetch unless the client already defined `id` (plan.go:1028-1035); the executor passes the client's
   values of those variables, and the parent object's id as `id` (execute.go:205-232). *)
From Coq Require Import String List Bool.
From GW Require Import Base.GoStr Base.Json Gql.Syntax.
Import ListNotations.
Open Scope string_scope.
Open Scope list_scope.

(* graphql.ExtractVariables *)
Fixpoint value_vars (v : value) : list string :=
  match v with
  | VVar n => [n]
  | VList l => (fix go (l : list value) := match l with [] => [] | x :: r => value_vars x ++ go r end) l
  | VObj m => (fix go (m : list (string * value)) := match m with [] => [] | (_, x) :: r => value_vars x ++ go r end) m
  | _ => []
  end.

Definition args_vars (args : list (string * value)) : list string := flat_map (fun kv => value_vars (snd kv)) args.
Definition dirs_vars (dirs : list directive) : list string := flat_map (fun d => args_vars (d_args d)) dirs.

Fixpoint sel_vars (s : sel) : list string :=
  match s with
  | Field _ _ args dirs sub =>
      args_vars args ++ dirs_vars dirs ++ (fix go (l : list sel) := match l with [] => [] | x :: r => sel_vars x ++ go r end) sub
  | Inline _ dirs sub =>
      dirs_vars dirs ++ (fix go (l : list sel) := match l with [] => [] | x :: r => sel_vars x ++ go r end) sub
  | Spread _ dirs => dirs_vars dirs
  end.

Definition sels_vars (l : list sel) : list string := flat_map sel_vars l.

(* every variable occurring in what the step sends: its selection and the fragment definitions it carries *)
Definition step_used (sels : list sel) (frags : list fragdef) : list string :=
  sels_vars sels ++ flat_map (fun f => sels_vars (f_sel f)) frags.

(* the variable definitions of the step's query *)
Definition step_declared (stepvars : list string) (opvars : list string) (dependent : bool) : list string :=
  let own := filter (fun n => str_mem n opvars) stepvars in
  if dependent && negb (str_mem "id" own) then own ++ ["id"] else own.

(* the values sent with it *)
Fixpoint pick (stepvars : list string) (client : list (string * json)) : list (string * json) :=
  match stepvars with
  | [] => []
  | n :: r => match jget n client with Some v => (n, v) :: pick r client | None => pick r client end
  end.

Definition step_passed (stepvars : list string) (client : list (string * json)) (parent_id : option string) : list (string * json) :=
  match parent_id with
  | Some id => jset "id" (JStr id) (pick stepvars client)
  | None => pick stepvars client
  end.

(* correspondence: the planner's set equals the variables occurring in what the step sends *)
Definition subset (a b : list string) : bool := forallb (fun x => str_mem x b) a.
Definition vars_agree (sels : list sel) (frags : list fragdef) (stepvars : list string) (opvars : list string)
           (dependent : bool) (declared : list string) : bool :=
  subset (step_used sels frags) stepvars && subset stepvars (step_used sels frags) &&
  subset (step_declared stepvars opvars dependent) declared && subset declared (step_declared stepvars opvars dependent).

(* ... and every definition the step's query carries is the client's own definition of that
   variable (type, default value, directives, compared as printed), or `$id: ID!` of a follow-up
   fetch (plan.go:248-255 appends the operation's *ast.VariableDefinition itself) *)
Fixpoint assoc_s (n : string) (l : list (string * string)) : option string :=
  match l with [] => None | (k, v) :: r => if String.eqb k n then Some v else assoc_s n r end.

Definition defs_agree (opdefs stepdefs : list (string * string)) (dependent : bool) (stepvars : list string) : bool :=
  let own := filter (fun n => match assoc_s n opdefs with Some _ => true | None => false end) stepvars in
  forallb (fun d => if dependent && String.eqb (fst d) "id" && negb (str_mem "id" own)
                    then String.eqb (snd d) "ID!"
                    else match assoc_s (fst d) opdefs with
                         | Some t => String.eqb t (snd d)
                         | None => false
                         end) stepdefs.

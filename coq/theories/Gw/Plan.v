(* plan.go: groupSelectionSet / extractSelection / wrapSelectionSet and the step queue of
   generatePlans, for documents without named fragment spreads (fields, arguments, directives,
   typed and untyped inline fragments to any nesting).  The result is the tree of steps with, for
   each, its location, parent type, insertion point and the selection set it sends.

   Go iterates its per-location maps in an arbitrary order: here locations are kept in order of
   first appearance, and plans are compared after sorting sibling steps (PlanCheck.v). *)
From Coq Require Import String List Bool Arith.
From GW Require Import Base.Res Base.GoStr Gql.Syntax Gw.Locate.
Import ListNotations.
Open Scope string_scope.
Open Scope list_scope.

Inductive pstep := PStep (loc ptype : string) (ipoint : list string) (sels : list sel) (thens : list pstep).

(* a step still to be built (newQueryPlanStepPayload) *)
Record payload := {
  pl_loc : string; pl_ptype : string; pl_ipoint : list string; pl_wrapper : list sel; pl_sels : list sel }.

(* per-location selection sets, locations in order of first appearance *)
Fixpoint add_at (l : string) (s : sel) (m : list (string * list sel)) : list (string * list sel) :=
  match m with
  | [] => [(l, [s])]
  | (l', ss) :: r => if String.eqb l l' then (l', ss ++ [s]) :: r else (l', ss) :: add_at l s r
  end.

Fixpoint get_at (l : string) (m : list (string * list sel)) : option (list sel) :=
  match m with
  | [] => None
  | (l', ss) :: r => if String.eqb l l' then Some ss else get_at l r
  end.

(* the synthesised join field: &ast.Field{Name: "id"} has no alias *)
Definition id_field : sel := Field "" "id" [] [] [].

(* map with errors *)
Definition map_res {A B} (f : A -> res B) : list A -> res (list B) :=
  fix go (l : list A) : res (list B) :=
    match l with
    | [] => Ok []
    | x :: r => y <- f x ;; rest <- go r ;; Ok (y :: rest)
    end.

Section Planner.
  Variable prios : list string.
  Variable urls : urlmap.
  Variable ft : ftypes.

  Definition choose (ptype name ploc : string) : res string :=
    possible <- url_for urls ptype name ;; Ok (selectLocation prios possible ploc).

  (* the selections directly inside an inline fragment, by location: fields by the chooser on the
     fragment's type, nested fragments with the enclosing location *)
  Fixpoint split_inline (tc ploc : string) (sub : list sel) (m : list (string * list sel)) : res (list (string * list sel)) :=
    match sub with
    | [] => Ok m
    | Field alias name args dirs sub' :: r =>
        l <- choose tc name ploc ;; split_inline tc ploc r (add_at l (Field alias name args dirs sub') m)
    | other :: r => split_inline tc ploc r (add_at ploc other m)
    end.

  (* groupSelectionSet *)
  Fixpoint group (ptype ploc : string) (sels : list sel) (acc : list (string * list sel)) : res (list (string * list sel)) :=
    match sels with
    | [] => Ok acc
    | Field alias name args dirs sub :: rest =>
        l <- choose ptype name ploc ;;
        group ptype ploc rest (add_at l (Field alias name args dirs sub) acc)
    | Inline tcond dirs sub :: rest =>
        parts <- split_inline (if String.eqb tcond "" then ptype else tcond) ploc sub [] ;;
        group ptype ploc rest
              (fold_left (fun acc lp => add_at (fst lp) (Inline tcond dirs (snd lp)) acc) parts acc)
    | Spread _ _ :: _ => Err "named fragment spreads are outside this model"
    end.

  (* wrapSelectionSet for a wrapper made of inline fragments *)
  Fixpoint wrap (wrapper : list sel) (ss : list sel) : res (list sel) :=
    match wrapper with
    | [] => Ok ss
    | Inline tcond dirs _ :: r => inner <- wrap r ss ;; Ok [Inline tcond dirs inner]
    | _ :: _ => Err "named fragment spreads are outside this model"
    end.

  (* the payloads for the groups of other locations (wrapped in the enclosing fragments) *)
  Fixpoint queue_others (ptype ploc : string) (ipoint : list string) (wrapper : list sel)
           (gs : list (string * list sel)) : res (list payload) :=
    match gs with
    | [] => Ok []
    | (l, ss) :: r =>
        rest <- queue_others ptype ploc ipoint wrapper r ;;
        if String.eqb l ploc then Ok rest
        else
          wrapped <- (match wrapper with [] => Ok ss | _ => wrap wrapper ss end) ;;
          Ok ({| pl_loc := l; pl_ptype := ptype; pl_ipoint := ipoint; pl_wrapper := wrapper; pl_sels := wrapped |} :: rest)
    end.

  (* the selections that stay: fields with sub-selections and inline fragments are extracted in turn
     ([below] is extractSelection one level down: type, insertion point, wrapper, selection) *)
  Definition keep_with (below : string -> list string -> list sel -> list sel -> res (list sel * list payload))
             (ptype : string) (ipoint : list string) (wrapper : list sel)
    : list sel -> res (list sel * list payload) :=
    fix keep (cur : list sel) : res (list sel * list payload) :=
      match cur with
      | [] => Ok ([], [])
      | s :: r =>
          here <- (match s with
                   | Field alias name args dirs [] => Ok (Field alias name args dirs [], [])
                   | Field alias name args dirs sub =>
                       match assoc (url_key ptype name) ft with
                       | None => Err "no type for field"
                       | Some t =>
                           (* the wrapper survives a field only when it starts with a named fragment: never here *)
                           b <- below t (ipoint ++ [alias]) [] sub ;;
                           Ok (Field alias name args dirs (fst b), snd b)
                       end
                   | Inline tcond dirs sub =>
                       b <- below (if String.eqb tcond "" then ptype else tcond) ipoint (wrapper ++ [Inline tcond dirs sub]) sub ;;
                       Ok (Inline tcond dirs (fst b), snd b)
                   | Spread _ _ => Err "named fragment spreads are outside this model"
                   end) ;;
          more <- keep r ;;
          Ok (fst here :: fst more, snd here ++ snd more)
      end.

  (* extractSelection: the selection that stays at ploc, and the payloads it queues *)
  Fixpoint extract (fuel : nat) (ptype ploc : string) (ipoint : list string) (wrapper : list sel) (sels : list sel)
           {struct fuel} : res (list sel * list payload) :=
    match fuel with
    | O => Err "selection nesting exceeds fuel"
    | S fuel' =>
        groups <- group ptype ploc sels [] ;;
        others <- queue_others ptype ploc ipoint wrapper groups ;;
        let current := match get_at ploc groups with Some ss => ss | None => [] end in
        let current := match others with [] => current | _ => current ++ [id_field] end in
        kept <- keep_with (fun t ip w sub => extract fuel' t ploc ip w sub) ptype ipoint wrapper current ;;
        Ok (fst kept, others ++ snd kept)
    end.

  (* generatePlans' loop: build the step of a payload and, below it, the steps of what it queued *)
  Fixpoint build (fuel : nat) (p : payload) {struct fuel} : res pstep :=
    match fuel with
    | O => Err "step nesting exceeds fuel"
    | S fuel' =>
        e <- extract fuel (pl_ptype p) (pl_loc p) (pl_ipoint p) (pl_wrapper p) (pl_sels p) ;;
        thens <- map_res (build fuel') (snd e) ;;
        Ok (PStep (pl_loc p) (pl_ptype p) (pl_ipoint p) (fst e) thens)
    end.

  Definition plan_operation (fuel : nat) (root : string) (sels : list sel) : res pstep :=
    build fuel {| pl_loc := ""; pl_ptype := root; pl_ipoint := []; pl_wrapper := []; pl_sels := sels |}.
End Planner.

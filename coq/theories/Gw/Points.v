(* execute.go: the insertion-point machinery — executorGetPointData, isListElement,
   executorFindInsertionPoints, executorExtractValue, executorInsertObject, executorMergeObject /
   executorMergeValue — and middlewares.go: scrubInsertionIDs.

   A realised insertion point is a list of strings "<key>", "<key>#<id>", "<key>:<index>" or
   "<key>:<index>#<id>".  Go mutates the response map in place; the model returns the new value.
   The selection sets the walk consults are given flattened (graphql.ApplyFragments, a library
   function outside the gateway, is an input of the model): one entry per response key with the
   list-ness and nullability of the field's declared type. *)
From Coq Require Import String Ascii List Bool Arith ZArith.
From GW Require Import Base.Res Base.GoStr Base.Json.
Import ListNotations.
Open Scope string_scope.
Open Scope list_scope.

(* ---------- the point codec ---------- *)
Record pdata := { pd_field : string; pd_index : Z (* -1: none *); pd_id : string }.

(* strings.SplitN(s, sep, 2) when sep occurs: the text before and after its first occurrence *)
Fixpoint cut (sep : ascii) (s : string) : option (string * string) :=
  match s with
  | EmptyString => None
  | String c r =>
      if Ascii.eqb c sep then Some (EmptyString, r)
      else match cut sep r with Some (a, b) => Some (String c a, b) | None => None end
  end.

Definition get_point_data (point : string) : res pdata :=
  let '(field, id) := match cut "#" point with Some (a, b) => (a, b) | None => (point, "") end in
  if contains_char ":" field then
    match split ":" field with
    | f :: i :: _ =>
        match atoi i with
        | Some z => Ok {| pd_field := f; pd_index := z; pd_id := id |}
        | None => Err "strconv.Atoi"
        end
    | _ => Panic "index out of range"
    end
  else Ok {| pd_field := field; pd_index := (-1)%Z; pd_id := id |}.

Definition is_list_element (p : string) : bool :=
  match cut "#" p with
  | Some (String c a, _) => contains_char ":" (String c a)
  | _ => contains_char ":" p
  end.

(* fmt.Sprintf("%v", id) for the ids services return *)
Definition fmt_v (j : json) : string :=
  match j with
  | JStr s => s
  | JNum lit => lit
  | JBool true => "true"
  | JBool false => "false"
  | JNull => "<nil>"
  | _ => "?"
  end.

Definition enc_elem (key : string) (i : nat) : string := key ++ ":" ++ itoa i.
Definition with_id (p id : string) : string := p ++ "#" ++ id.

(* ---------- executorMergeObject / executorMergeValue ---------- *)
Fixpoint merge_value (existing : option json) (value : json) {struct value} : json :=
  match value with
  | JObj src =>
      match existing with
      | Some (JObj tgt) =>
          JObj ((fix go (src : list (string * json)) (tgt : list (string * json)) {struct src} :=
                   match src with
                   | [] => tgt
                   | (k, v) :: r => go r (jset k (merge_value (jget k tgt) v) tgt)
                   end) src tgt)
      | _ => value
      end
  | JArr vs =>
      match existing with
      | Some (JArr es) =>
          if Nat.eqb (length es) (length vs) then
            JArr ((fix go (vs es : list json) {struct vs} :=
                     match vs, es with
                     | v :: vr, e :: er => merge_value (Some e) v :: go vr er
                     | _, _ => []
                     end) vs es)
          else value
      | _ => value
      end
  | _ => value
  end.

Fixpoint merge_obj (tgt src : list (string * json)) : list (string * json) :=
  match src with
  | [] => tgt
  | (k, v) :: r => merge_obj (jset k (merge_value (jget k tgt) v) tgt) r
  end.

(* ---------- executorExtractValue (+ what the caller does with the value it returns) ---------- *)
(* the element a list point focuses on: missing places are filled with empty objects *)
Definition rd (l : list json) (i : nat) : json := match nth_error l i with Some e => e | None => JObj [] end.
Definition extend (l : list json) (i : nat) : list json :=
  if Nat.leb (length l) i then l ++ repeat (JObj []) (i + 1 - length l) else l.

(* [walk path recent f]: follow the path from recent, creating the empty containers Go creates on
   the way, apply f to the value reached, and return the updated [recent]. *)
Fixpoint walk (path : list string) (recent : json) (f : json -> res json) {struct path} : res json :=
  match path with
  | [] => f recent
  | point :: rest =>
      pd <- get_point_data point ;;
      match recent with
      | JObj m =>
          if is_list_element point then
            match (match jget (pd_field pd) m with Some v => v | None => JArr [] end) with
            | JArr l =>
                if (pd_index pd <? 0)%Z then Panic "index out of range"
                else
                  let i := Z.to_nat (pd_index pd) in
                  e' <- walk rest (rd l i) f ;; Ok (JObj (jset (pd_field pd) (JArr (upd_nth (extend l i) i e')) m))
            | _ => Err "did not encounter a list when expected"
            end
          else
            let target := match jget (pd_field pd) m with
                          | None | Some JNull => JObj []
                          | Some v => v
                          end in
            t' <- walk rest target f ;; Ok (JObj (jset (pd_field pd) t' m))
      | _ => Err "target was not an object"
      end
  end.

(* the value executorExtractValue returns *)
Fixpoint extract_value (path : list string) (recent : json) {struct path} : res json :=
  match path with
  | [] => Ok recent
  | point :: rest =>
      pd <- get_point_data point ;;
      match recent with
      | JObj m =>
          if is_list_element point then
            match (match jget (pd_field pd) m with Some v => v | None => JArr [] end) with
            | JArr l =>
                if (pd_index pd <? 0)%Z then Panic "index out of range"
                else
                  extract_value rest (rd l (Z.to_nat (pd_index pd)))
            | _ => Err "did not encounter a list when expected"
            end
          else
            extract_value rest (match jget (pd_field pd) m with
                                | None | Some JNull => JObj []
                                | Some v => v
                                end)
      | _ => Err "target was not an object"
      end
  end.

(* executorInsertObject(target, path, value) *)
Definition insert_object (target : json) (path : list string) (value : json) : res json :=
  match path with
  | [] =>
      match value, target with
      | JObj src, JObj tgt => Ok (JObj (merge_obj tgt src))
      | _, _ => Err "something went wrong"
      end
  | _ =>
      walk path target (fun obj =>
        match obj with
        | JObj tgt => match value with JObj src => Ok (JObj (merge_obj tgt src)) | _ => Ok obj end
        | _ => Err "target object is not an object"
        end)
  end.

(* ---------- executorFindInsertionPoints ---------- *)
(* a flattened selection: response key, whether the field's type is a list, whether it is non-null *)
Inductive fsel := FS (key : string) (is_list nonnull : bool) (sub : list fsel).
Definition fs_key f := match f with FS k _ _ _ => k end.

Fixpoint find_selection (point : string) (l : list fsel) : option fsel :=
  match l with
  | [] => None
  | f :: r => if String.eqb (fs_key f) point then Some f else find_selection point r
  end.

(* the entries of a list value: null entries are skipped; every other entry must be an object and
   contributes the points found below it, under "<key>:<index>" (with "#<id>" at the last target) *)
Definition find_entries (last : bool) (point : string)
           (below : list (string * json) -> list string -> res (list (list string))) (branch : list string)
  : list json -> nat -> res (list (list string)) :=
  fix entries (l : list json) (i : nat) {struct l} : res (list (list string)) :=
    match l with
    | [] => Ok []
    | JNull :: r => entries r (S i)
    | JObj m :: r =>
        ep <- (if last then
                 match jget "id" m with
                 | Some id => Ok (with_id (enc_elem point i) (fmt_v id))
                 | None => Err "Could not find the id for elements in target list"
                 end
               else Ok (enc_elem point i)) ;;
        here <- below m (branch ++ [ep]) ;;
        more <- entries r (S i) ;;
        Ok (here ++ more)
    | _ :: _ => Err "entry in result wasn't a map"
    end.

(* [find_points targets sels chunk branch]: the walk over the target points still to be matched,
   with the (single) branch built so far.  Structural in the target points. *)
Fixpoint find_points (targets : list string) (sels : list fsel) (chunk : list (string * json))
         (branch : list string) {struct targets} : res (list (list string)) :=
  match targets with
  | [] => Ok [branch]
  | point :: rest =>
      match find_selection point sels with
      | None => Ok []
      | Some (FS key is_list nonnull sub) =>
          match jget point chunk with
          | None => Ok []
          | Some JNull => if nonnull then Err "Received null for required field" else Ok []
          | Some root =>
              let last := match rest with [] => true | _ => false end in
              if is_list then
                match root with
                | JArr l => find_entries last point (fun m br => find_points rest sub m br) branch l 0
                | _ => Err "Root value of result chunk was not a list"
                end
              else
                let chunk' := match root with JObj m => m | _ => chunk end in
                if last then
                  match root with
                  | JArr l =>
                      match l with
                      | JObj m :: _ =>
                          match jget "id" m with
                          | Some id => Ok [branch ++ [with_id (enc_elem point 0) (fmt_v id)]]
                          | None => Err "Could not find the id for the object"
                          end
                      | [] => Err "Root value of result chunk has no item"
                      | _ => Err "Item in root list isn't a map"
                      end
                  | JObj m =>
                      Ok [branch ++ [with_id point (fmt_v (match jget "id" m with Some id => id | None => JNull end))]]
                  | _ => Err "Root value of result chunk was not an object"
                  end
                else find_points rest sub chunk' (branch ++ [point])
          end
      end
  end.

(* executorFindInsertionPoints(targetPoints, selectionSet, result, [start]): the first
   len(start) target points are taken as already realised by start *)
Definition find_insertion_points (targets : list string) (sels : list fsel) (result : list (string * json))
           (start : list string) : res (list (list string)) :=
  if Nat.ltb (length targets) (length start) then Panic "index out of range"
  else find_points (skipn (length start) targets) sels result start.

(* ---------- middlewares.go: scrubInsertionIDs for one field and one location ---------- *)
Definition scrub_at (field : string) (response : json) (point : list string) : res json :=
  walk point response (fun obj =>
    match obj with
    | JObj m => Ok (JObj (jdel field m))
    | _ => Err "Can not scrub field from non object"
    end).

Fixpoint scrub_points (field : string) (response : json) (points : list (list string)) : res json :=
  match points with
  | [] => Ok response
  | p :: r => response' <- scrub_at field response p ;; scrub_points field response' r
  end.

Definition scrub_location (field : string) (sels : list fsel) (response : json) (location : list string) : res json :=
  match response with
  | JObj m => points <- find_insertion_points location sels m [] ;; scrub_points field response points
  | _ => Err "response is not an object"
  end.

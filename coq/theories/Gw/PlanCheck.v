(* Correspondence of the planner model (Gw/Plan.v) with the plans MinQueriesPlanner builds. *)
From Coq Require Import String List Bool Arith.
From GW Require Import Base.Res Base.GoStr Gql.Syntax Gw.Locate Gw.Plan.
Import ListNotations.
Open Scope string_scope.
Open Scope list_scope.

Fixpoint value_eqb (a b : value) {struct a} : bool :=
  match a, b with
  | VVar x, VVar y => String.eqb x y
  | VInt x, VInt y => String.eqb x y
  | VFloat x, VFloat y => String.eqb x y
  | VStr x, VStr y => String.eqb x y
  | VBool x, VBool y => Bool.eqb x y
  | VNull, VNull => true
  | VEnum x, VEnum y => String.eqb x y
  | VList x, VList y =>
      (fix go (x y : list value) {struct x} : bool :=
         match x, y with
         | [], [] => true
         | p :: x', q :: y' => value_eqb p q && go x' y'
         | _, _ => false
         end) x y
  | VObj x, VObj y =>
      (fix go (x y : list (string * value)) {struct x} : bool :=
         match x, y with
         | [], [] => true
         | (k, p) :: x', (k', q) :: y' => String.eqb k k' && value_eqb p q && go x' y'
         | _, _ => false
         end) x y
  | _, _ => false
  end.

Fixpoint args_eqb (a b : list (string * value)) : bool :=
  match a, b with
  | [], [] => true
  | (k, p) :: a', (k', q) :: b' => String.eqb k k' && value_eqb p q && args_eqb a' b'
  | _, _ => false
  end.

Fixpoint dirs_eqb (a b : list directive) : bool :=
  match a, b with
  | [], [] => true
  | d :: a', e :: b' => String.eqb (d_name d) (d_name e) && args_eqb (d_args d) (d_args e) && dirs_eqb a' b'
  | _, _ => false
  end.

Fixpoint sel_eqb (a b : sel) {struct a} : bool :=
  let sels_eqb := fix go (x y : list sel) {struct x} : bool :=
                    match x, y with
                    | [], [] => true
                    | p :: x', q :: y' => sel_eqb p q && go x' y'
                    | _, _ => false
                    end in
  match a, b with
  | Field al n args dirs sub, Field al' n' args' dirs' sub' =>
      String.eqb al al' && String.eqb n n' && args_eqb args args' && dirs_eqb dirs dirs' && sels_eqb sub sub'
  | Inline t dirs sub, Inline t' dirs' sub' => String.eqb t t' && dirs_eqb dirs dirs' && sels_eqb sub sub'
  | Spread n dirs, Spread n' dirs' => String.eqb n n' && dirs_eqb dirs dirs'
  | _, _ => false
  end.

Fixpoint sels_eqb (x y : list sel) : bool :=
  match x, y with
  | [], [] => true
  | p :: x', q :: y' => sel_eqb p q && sels_eqb x' y'
  | _, _ => false
  end.

Fixpoint strs_eqb (a b : list string) : bool :=
  match a, b with
  | [], [] => true
  | x :: a', y :: b' => String.eqb x y && strs_eqb a' b'
  | _, _ => false
  end.

(* steps are equal when their own data agree and their dependents match one to one in some order
   (Go's map iteration decides the order in which sibling steps are created); equality being an
   equivalence, taking the first equal sibling loses nothing *)
Fixpoint pstep_eqb (fuel : nat) (a b : pstep) {struct fuel} : bool :=
  match fuel with
  | O => false
  | S f =>
      match a, b with
      | PStep l t ip ss th, PStep l' t' ip' ss' th' =>
          String.eqb l l' && String.eqb t t' && strs_eqb ip ip' && sels_eqb ss ss' &&
          Nat.eqb (length th) (length th') &&
          (fix match_all (xs ys : list pstep) {struct xs} : bool :=
             match xs with
             | [] => match ys with [] => true | _ => false end
             | x :: xr =>
                 (fix pick (pre ys : list pstep) {struct ys} : bool :=
                    match ys with
                    | [] => false
                    | y :: yr => if pstep_eqb f x y then match_all xr (pre ++ yr) else pick (pre ++ [y]) yr
                    end) [] ys
             end) th th'
      end
  end.

Definition has_spread (frags : list fragdef) : bool := negb (match frags with [] => true | _ => false end).

(* the model's plan for the operation against the observed one; documents with named fragments
   are outside the model (the harness passes the fragment definitions so that this is decided here) *)
Definition plan_agrees (fuel : nat) (prios : list string) (urls : urlmap) (ft : ftypes) (frags : list fragdef)
           (root : string) (sels : list sel) (observed : pstep) : bool :=
  if has_spread frags then true
  else match plan_operation prios urls ft fuel root sels with
       | Ok p => pstep_eqb fuel p observed
       | _ => false
       end.

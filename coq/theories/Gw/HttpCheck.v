(* Correspondence and property oracles for C15 / C16. *)
From Coq Require Import String Ascii List Bool ZArith Arith.
From GW Require Import Base.Res Base.GoStr Base.Json Gw.Http.
Import ListNotations.
Open Scope string_scope.
Open Scope list_scope.

(* projection of one response object: (data, number of errors, echoed hash) *)
Definition proj_entry (j : json) : option entry :=
  match j with
  | JObj m =>
      let d := match jget "data" m with Some v => v | None => JNull end in
      let n := match jget "errors" m with Some (JArr l) => length l | _ => 0 end in
      let h := match jget "extensions" m with
               | Some (JObj e) => match jget "persistedQuery" e with
                                  | Some (JObj pq) => match jget "sha265Hash" pq with Some (JStr s) => Some s | _ => None end
                                  | _ => None end
               | _ => None end in
      Some (d, n, h)
  | _ => None
  end.

Fixpoint proj_entries (l : list json) : option (list entry) :=
  match l with
  | [] => Some []
  | j :: r => match proj_entry j, proj_entries r with Some e, Some es => Some (e :: es) | _, _ => None end
  end.

Definition proj_body (j : json) : option body :=
  match j with
  | JArr l => option_map BBatch (proj_entries l)
  | _ => option_map BSingle (proj_entry j)
  end.

Definition opt_str_eqb (a b : option string) : bool :=
  match a, b with None, None => true | Some x, Some y => String.eqb x y | _, _ => false end.

Definition entry_eqb (a b : entry) : bool :=
  let '(d1, n1, h1) := a in let '(d2, n2, h2) := b in
  json_equiv d1 d2 && Nat.eqb n1 n2 && opt_str_eqb h1 h2.

Fixpoint entries_eqb (a b : list entry) : bool :=
  match a, b with [], [] => true | x :: a', y :: b' => entry_eqb x y && entries_eqb a' b' | _, _ => false end.

Definition body_eqb (a b : body) : bool :=
  match a, b with
  | BSingle x, BSingle y => entry_eqb x y
  | BBatch x, BBatch y => entries_eqb x y
  | _, _ => false
  end.

Fixpoint bools_eqb (a b : list bool) : bool :=
  match a, b with [] , [] => true | x :: a', y :: b' => Bool.eqb x y && bools_eqb a' b' | _, _ => false end.

Record observed := {
  ob_panic : bool;
  ob_status : nat;
  ob_body : option json;       (* None: the body is not JSON *)
  ob_ran : list bool           (* per operation of the request, in order: was it executed *)
}.

Definition model_agrees (r : request) (outs : list outcome) (o : observed) : bool :=
  match handle r outs with
  | Ok (st, bd, ran) =>
      negb (ob_panic o) && Nat.eqb st (ob_status o) &&
      match ob_body o with
      | Some j => match proj_body j with Some b => body_eqb bd b | None => false end
      | None => false
      end && match ran with [] => forallb negb (ob_ran o) | _ => bools_eqb ran (ob_ran o) end
  | Err _ => false
  | Panic _ => ob_panic o
  end.

(* ---- C15 on the observation alone ---- *)
Definition error_entry_ok (j : json) : bool :=
  match j with JObj m => match jget "message" m with Some (JStr _) => true | _ => false end | _ => false end.

Definition response_shaped (j : json) : bool :=
  match j with
  | JObj m =>
      match jget "data" m, jget "errors" m with
      | None, None => false
      | _, Some (JArr l) => negb (Nat.eqb (length l) 0) && forallb error_entry_ok l
      | _, Some _ => false
      | Some _, None => true
      end
  | _ => false
  end.

Definition body_shaped (j : json) : bool :=
  match j with JArr l => forallb response_shaped l | _ => response_shaped j end.

Definition has_errors (j : json) : bool :=
  let one x := match x with JObj m => match jget "errors" m with Some (JArr (_ :: _)) => true | _ => false end | _ => false end in
  match j with JArr l => existsb one l | _ => one j end.

(* requests that are malformed whatever the planner thinks: wrong method, unknown content type,
   a body that is not JSON or neither an object nor a list of objects, GET variables that are not
   a JSON object, GET extensions that are not a JSON object *)
Definition malformed (r : request) : bool :=
  let bad (o : option (option json)) :=
    match o with
    | None | Some (Some (JObj _)) | Some (Some JNull) => false
    | _ => true
    end in
  match r with
  | ROther => true
  | RGet g => bad (g_vars g) || bad (g_ext g)
  | RPostJSON ct b =>
      negb (ctype_ok ct) ||
      match b with
      | None => true
      | Some (JObj _) => false
      | Some (JArr l) => negb (forallb (fun j => match j with JObj _ => true | _ => false end) l)
      | Some _ => true
      end
  end.

Definition c15_holds (r : request) (o : observed) : bool :=
  negb (ob_panic o) &&
  (negb (malformed r) || (Nat.leb 400 (ob_status o) && Nat.ltb (ob_status o) 500 && forallb negb (ob_ran o))) &&
  match ob_body o with
  | None => false
  | Some j =>
      body_shaped j &&
      (Nat.eqb (ob_status o) 200 || (Nat.leb 400 (ob_status o) && Nat.ltb (ob_status o) 500 && has_errors j)) &&
      (* an answer that is one bare error object with a 4xx status means nothing was served *)
      (Nat.eqb (ob_status o) 200 || match j with JArr _ => true | _ => forallb negb (ob_ran o) end) &&
      (* status 200 means every operation was served *)
      (negb (Nat.eqb (ob_status o) 200) || forallb (fun b => b) (ob_ran o))
  end.

(* ---- C16 on the observation alone: element i of the list is what operation i gets alone ---- *)
Definition c16_holds (singles : list json) (o : observed) : bool :=
  negb (ob_panic o) &&
  match ob_body o with
  | Some (JArr l) =>
      match proj_entries l, proj_entries singles with
      | Some es, Some ss => entries_eqb es ss
      | _, _ => false
      end
  | _ => false
  end.

(* Correspondence of the full planner model (Gw/Plan2.v) with the plans MinQueriesPlanner builds. *)
From Coq Require Import String List Bool Arith.
From GW Require Import Base.Res Base.GoStr Gql.Syntax Gw.Locate Gw.Plan Gw.PlanCheck Gw.Plan2.
Import ListNotations.
Open Scope string_scope.
Open Scope list_scope.

Definition frag_eqb (a b : fragdef) : bool :=
  String.eqb (f_name a) (f_name b) && String.eqb (f_tcond a) (f_tcond b) && sels_eqb (f_sel a) (f_sel b).

(* the same definitions, in any order *)
Fixpoint frags_match (xs ys : list fragdef) : bool :=
  match xs with
  | [] => match ys with [] => true | _ => false end
  | x :: xr =>
      (fix pick (pre ys : list fragdef) {struct ys} : bool :=
         match ys with
         | [] => false
         | y :: yr => if frag_eqb x y then frags_match xr (pre ++ yr) else pick (pre ++ [y]) yr
         end) [] ys
  end.

Fixpoint fstep_eqb (fuel : nat) (a b : fstep) {struct fuel} : bool :=
  match fuel with
  | O => false
  | S f =>
      match a, b with
      | FStep l t ip ss fr th, FStep l' t' ip' ss' fr' th' =>
          String.eqb l l' && String.eqb t t' && strs_eqb ip ip' && sels_eqb ss ss' && frags_match fr fr' &&
          Nat.eqb (length th) (length th') &&
          (fix match_all (xs ys : list fstep) {struct xs} : bool :=
             match xs with
             | [] => match ys with [] => true | _ => false end
             | x :: xr =>
                 (fix pick (pre ys : list fstep) {struct ys} : bool :=
                    match ys with
                    | [] => false
                    | y :: yr => if fstep_eqb f x y then match_all xr (pre ++ yr) else pick (pre ++ [y]) yr
                    end) [] ys
             end) th th'
      end
  end.

Definition plan2_agrees (fuel : nat) (prios : list string) (urls : urlmap) (ft : ftypes) (frags : list fragdef)
           (root : string) (sels : list sel) (observed : fstep) : bool :=
  match plan_operation2 prios urls ft frags fuel root sels with
  | Ok p => fstep_eqb fuel p observed
  | _ => false
  end.

(* Correspondence and property oracles for the insertion-point functions (Gw/Points.v). *)
From Coq Require Import String Ascii List Bool Arith ZArith.
From GW Require Import Base.Res Base.GoStr Base.Json Gw.Points.
Import ListNotations.
Open Scope string_scope.
Open Scope list_scope.

(* what the implementation did: 0 returned, 1 error, 2 panic *)
Definition cls_nat {A} (r : res A) : nat := match r with Ok _ => 0 | Err _ => 1 | Panic _ => 2 end.

Fixpoint strs_eqb (a b : list string) : bool :=
  match a, b with
  | [], [] => true
  | x :: a', y :: b' => String.eqb x y && strs_eqb a' b'
  | _, _ => false
  end.

Fixpoint paths_eqb (a b : list (list string)) : bool :=
  match a, b with
  | [], [] => true
  | x :: a', y :: b' => strs_eqb x y && paths_eqb a' b'
  | _, _ => false
  end.

(* ---- codec ---- *)
Definition point_agrees (p : string) (ocls : nat) (ofield : string) (oindex : Z) (oid : string) (olist : bool) : bool :=
  Bool.eqb (is_list_element p) olist &&
  match get_point_data p with
  | Ok d => Nat.eqb ocls 0 && String.eqb (pd_field d) ofield && Z.eqb (pd_index d) oindex && String.eqb (pd_id d) oid
  | Err _ => Nat.eqb ocls 1
  | Panic _ => Nat.eqb ocls 2
  end.

(* ---- find ---- *)
Definition find_agrees (targets : list string) (sels : list fsel) (result : list (string * json)) (start : list string)
           (ocls : nat) (opoints : list (list string)) : bool :=
  match find_insertion_points targets sels result start with
  | Ok l => Nat.eqb ocls 0 && paths_eqb l opoints
  | Err _ => Nat.eqb ocls 1
  | Panic _ => Nat.eqb ocls 2
  end.

(* an independent reading of "every non-null object at the path, each once": the objects the
   static path reaches in the data, through lists, as (position, id) *)
Fixpoint objs_at (targets : list string) (v : json) (pos : list (string * option nat)) {struct targets}
  : list (list (string * option nat) * json) :=
  match targets with
  | [] => [(pos, v)]
  | k :: rest =>
      match v with
      | JObj m =>
          match jget k m with
          | Some (JArr l) =>
              (fix go (l : list json) (i : nat) :=
                 match l with
                 | [] => []
                 | JNull :: r => go r (S i)
                 | e :: r => objs_at rest e (pos ++ [(k, Some i)]) ++ go r (S i)
                 end) l 0
          | Some JNull | None => []
          | Some e => objs_at rest e (pos ++ [(k, None)])
          end
      | _ => []
      end
  end.

Definition decode_point (p : string) : option (string * option nat) :=
  match get_point_data p with
  | Ok d => Some (pd_field d, if (pd_index d <? 0)%Z then None else Some (Z.to_nat (pd_index d)))
  | _ => None
  end.

Definition pos_eqb (a b : string * option nat) : bool :=
  String.eqb (fst a) (fst b) &&
  match snd a, snd b with
  | None, None => true
  | Some x, Some y => Nat.eqb x y
  | _, _ => false
  end.

Fixpoint poss_eqb (a b : list (string * option nat)) : bool :=
  match a, b with
  | [], [] => true
  | x :: a', y :: b' => pos_eqb x y && poss_eqb a' b'
  | _, _ => false
  end.

Definition decode_path (p : list string) : option (list (string * option nat)) :=
  fold_right (fun s acc => match decode_point s, acc with Some d, Some l => Some (d :: l) | _, _ => None end) (Some []) p.

Definition last_id (p : list string) : string :=
  match rev p with
  | s :: _ => match get_point_data s with Ok d => pd_id d | _ => "" end
  | [] => ""
  end.

(* when the data has the shape its selection promises (well_shaped: harness flag), a successful
   search returns exactly the non-null objects at the path, in order, each once, with their ids *)
Definition find_holds (well_shaped : bool) (targets : list string) (result : list (string * json))
           (ocls : nat) (opoints : list (list string)) : bool :=
  negb well_shaped || negb (Nat.eqb ocls 0) ||
  let expected := objs_at targets (JObj result) [] in
  Nat.eqb (length expected) (length opoints) &&
  forallb (fun pe =>
    match decode_path (fst pe) with
    | Some pos =>
        poss_eqb pos (fst (snd pe)) &&
        match snd (snd pe) with
        | JObj m => match targets with
                    | [] => true
                    | _ => String.eqb (last_id (fst pe)) (fmt_v (match jget "id" m with Some i => i | None => JNull end))
                    end
        | _ => false
        end
    | None => false
    end) (combine opoints expected).

(* ---- extract / insert / scrub ---- *)
Definition json_res_agrees (m : res json) (ocls : nat) (o : json) : bool :=
  match m with
  | Ok v => Nat.eqb ocls 0 && json_equiv v o
  | Err _ => Nat.eqb ocls 1
  | Panic _ => Nat.eqb ocls 2
  end.

Definition extract_agrees (path : list string) (source : json) (ocls : nat) (o : json) : bool :=
  json_res_agrees (extract_value path source) ocls o.

Definition insert_agrees (target : json) (path : list string) (value : json) (ocls : nat) (o : json) : bool :=
  json_res_agrees (insert_object target path value) ocls o.

Definition scrub_agrees (field : string) (sels : list fsel) (response : json) (location : list string) (ocls : nat) (o : json) : bool :=
  json_res_agrees (scrub_location field sels response location) ocls o.

(* reading along decoded positions, no creation *)
Fixpoint read_pos (pos : list (string * option nat)) (v : json) : option json :=
  match pos with
  | [] => Some v
  | (k, i) :: rest =>
      match v with
      | JObj m =>
          match jget k m, i with
          | Some (JArr l), Some n => match nth_error l n with Some e => read_pos rest e | None => None end
          | Some e, None => read_pos rest e
          | _, _ => None
          end
      | _ => None
      end
  end.

(* an insert at one found point gives that object the new fields (every key of the value is
   there afterwards) and leaves the objects at all the other found points as they were *)
Definition insert_holds (points : list (list string)) (which : nat) (value before after : json) (ocls : nat) : bool :=
  negb (Nat.eqb ocls 0) ||
  match nth_error points which with
  | None => true
  | Some p =>
      match decode_path p, value with
      | Some pos, JObj src =>
          match read_pos pos after with
          | Some (JObj m) => forallb (fun kv => match jget (fst kv) m with Some _ => true | None => false end) src
          | _ => false
          end &&
          forallb (fun q =>
            strs_eqb q p ||
            match decode_path q with
            | Some qpos =>
                (* q below p is changed only through p; compare the others *)
                (Nat.ltb (length pos) (length qpos) && poss_eqb pos (firstn (length pos) qpos)) ||
                (Nat.ltb (length qpos) (length pos) && poss_eqb qpos (firstn (length qpos) pos)) ||
                (* (a point found leniently in data of the wrong shape may name no place the strict
                   reader can reach: then it must name none afterwards either) *)
                match read_pos qpos before, read_pos qpos after with
                | Some a, Some b => json_equiv a b
                | None, None => true
                | _, _ => false
                end
            | None => false
            end) points
      | _, _ => true
      end
  end.

(* scrubbing one location removes the field from the objects there and changes nothing else:
   putting the removed values back gives the response before *)
Definition scrub_holds (field : string) (points : list (list string)) (before after : json) (ocls : nat) : bool :=
  negb (Nat.eqb ocls 0) ||
  forallb (fun p =>
    match decode_path p with
    | Some pos => match read_pos pos after with
                  | Some (JObj m) => match jget field m with None => true | Some _ => false end
                  | _ => match read_pos pos before with None => true | Some _ => false end
                  end
    | None => false
    end) points.

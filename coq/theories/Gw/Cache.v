(* cache.go: AutomaticQueryPlanCache as a state machine over request histories with a clock.
   The planner and sha256 are parameters; expiry may run at any time (the code can have several
   sweepers, and a sweeper's timer is not always reset), which is why the sweep's own condition,
   not its timing, is what protects recently used entries. *)
From Coq Require Import String List Bool ZArith Arith Lia.
From GW Require Import Base.Res Base.GoStr.
Import ListNotations.
Open Scope string_scope.
Open Scope list_scope.

Section Cache.
  Variable plan_t : Type.
  Variable plan : string -> res plan_t.      (* planner.Plan on the query text: an error or the plans *)
  Variable sha : string -> string.           (* hex(sha256(text)) *)
  Variable ttl : Z.

  Record entry := { e_plans : plan_t; e_last : Z }.
  Definition cache := list (string * entry).

  Fixpoint lookup (k : string) (c : cache) : option entry :=
    match c with [] => None | (k', e) :: r => if String.eqb k k' then Some e else lookup k r end.

  Fixpoint touch (k : string) (now : Z) (c : cache) : cache :=
    match c with
    | [] => []
    | (k', e) :: r => if String.eqb k k' then (k', {| e_plans := e_plans e; e_last := now |}) :: r
                      else (k', e) :: touch k now r
    end.

  (* sync.Map.LoadOrStore + "actual.LastUsed.Store(...)" when the key exists *)
  Definition load_or_store (k : string) (p : plan_t) (now : Z) (c : cache) : cache :=
    match lookup k c with
    | Some _ => touch k now c
    | None => c ++ [(k, {| e_plans := p; e_last := now |})]
    end.

  Inductive answer := APlans (p : plan_t) | ANotFound | APlanError.

  Record request := { r_query : string; r_hash : string }.   (* "" = not sent *)

  (* Retrieve: (new cache, answer, the key handed back through *hash) *)
  Definition retrieve (c : cache) (r : request) (now : Z) : cache * answer * string :=
    match lookup (r_hash r) c with
    | Some e => (touch (r_hash r) now c, APlans (e_plans e), r_hash r)
    | None =>
        if String.eqb (r_query r) "" then (c, ANotFound, r_hash r)
        else match plan (r_query r) with
             | Ok p => let k := if String.eqb (r_hash r) "" then sha (r_query r) else r_hash r in
                       (load_or_store k p now c, APlans p, k)
             | _ => (c, APlanError, r_hash r)
             end
    end.

  (* the sweep: "if lastUsed.Before(time.Now().Add(-c.ttl)) { c.cache.Delete(key) }" *)
  Definition sweep (c : cache) (now : Z) : cache :=
    filter (fun ke => negb (e_last (snd ke) <? now - ttl)%Z) c.

  Inductive event := Req (r : request) (now : Z) | Sweep (now : Z).

  Fixpoint run (c : cache) (h : list event) : cache * list (answer * string) :=
    match h with
    | [] => (c, [])
    | Req r now :: rest => let '(c', a, k) := retrieve c r now in
                           let '(c'', out) := run c' rest in (c'', (a, k) :: out)
    | Sweep now :: rest => run (sweep c now) rest
    end.

  (* ---- the cache-less gateway, for the query a key stands for ---- *)
  Definition cacheless (q : string) : answer :=
    match plan q with Ok p => APlans p | _ => APlanError end.

  (* ---- concurrent lookups: Retrieve as its atomic steps ---- *)
  Inductive phase :=
  | PStart                       (* before cache.Load *)
  | PMissed                      (* Load missed, planning (no shared state) *)
  | PDone (a : answer) (k : string).

  Definition task := (request * phase)%type.

  (* one atomic step of task number i at time now *)
  Definition task_step (c : cache) (t : task) (now : Z) : cache * task :=
    let '(r, ph) := t in
    match ph with
    | PStart =>
        match lookup (r_hash r) c with
        | Some e => (touch (r_hash r) now c, (r, PDone (APlans (e_plans e)) (r_hash r)))
        | None => if String.eqb (r_query r) "" then (c, (r, PDone ANotFound (r_hash r))) else (c, (r, PMissed))
        end
    | PMissed =>
        match plan (r_query r) with
        | Ok p => let k := if String.eqb (r_hash r) "" then sha (r_query r) else r_hash r in
                  (load_or_store k p now c, (r, PDone (APlans p) k))
        | _ => (c, (r, PDone APlanError (r_hash r)))
        end
    | PDone _ _ => (c, t)
    end.

  Inductive cevent := CStep (i : nat) (now : Z) | CSweep (now : Z).

  Fixpoint set_nth {A} (l : list A) (n : nat) (x : A) : list A :=
    match l, n with [], _ => [] | _ :: r, O => x :: r | a :: r, S n' => a :: set_nth r n' x end.

  Fixpoint crun (c : cache) (ts : list task) (sched : list cevent) : cache * list task :=
    match sched with
    | [] => (c, ts)
    | CStep i now :: rest =>
        match nth_error ts i with
        | Some t => let '(c', t') := task_step c t now in crun c' (set_nth ts i t') rest
        | None => crun c ts rest
        end
    | CSweep now :: rest => crun (sweep c now) ts rest
    end.
End Cache.

(* Model of merge.go (mergeSchemas and its helpers) and of gateway.go:fieldURLs. One Gallina
   function per Go function, same case split; Go maps are visited in the order of their first
   insertion (the groups per name are independent of one another, so the visiting order only
   selects which of several errors is reported, and error texts are not compared). *)
From Coq Require Import String Ascii List Bool Arith.
From GW Require Import Base.Res Base.GoStr Gql.Schema.
Import ListNotations.
Open Scope string_scope.
Open Scope list_scope.

Definition first_desc (a b : string) : string := if String.eqb a "" then b else a.

(* mergeValuesEqual *)
Definition values_equal (a b : option gval) : bool :=
  match a, b with
  | None, None => true
  | Some x, Some y => gval_eqb x y
  | _, _ => false
  end.

(* mergeTypesEqual *)
Definition types_equal (a b : option ty) : bool :=
  match a, b with
  | None, None => true
  | Some x, Some y => ty_eqb x y
  | _, _ => false
  end.

(* mergeArgumentListEqual / mergeArgumentsEqual (arguments of applied directives) *)
Fixpoint find_appl_arg (n : string) (l : list (string * option gval)) : option (option gval) :=
  match l with [] => None | (k, v) :: r => if String.eqb k n then Some v else find_appl_arg n r end.

Definition appl_args_equal (l1 l2 : list (string * option gval)) : bool :=
  Nat.eqb (length l1) (length l2) &&
  forallb (fun a1 => match find_appl_arg (fst a1) l2 with
                     | Some v2 => values_equal (snd a1) v2
                     | None => false
                     end) l1.

(* mergeDirectiveListsEqual / mergeDirectiveEqual: a repeatable directive can be applied more than
   once; the n-th application of a directive is compared with the n-th application of that
   directive in the other list *)
Fixpoint nth_named (n : nat) (name : string) (l : list dirapp) : option dirapp :=
  match l with
  | [] => None
  | d :: r => if String.eqb (da_name d) name
              then match n with O => Some d | S n' => nth_named n' name r end
              else nth_named n name r
  end.

Fixpoint count_named (name : string) (l : list dirapp) : nat :=
  match l with [] => O | d :: r => (if String.eqb (da_name d) name then 1 else 0) + count_named name r end.

Fixpoint dirs_cmp (seen l1 l2 : list dirapp) : bool :=
  match l1 with
  | [] => true
  | d1 :: r =>
      match nth_named (count_named (da_name d1) seen) (da_name d1) l2 with
      | Some d2 => appl_args_equal (da_args d1) (da_args d2) && dirs_cmp (seen ++ [d1]) r l2
      | None => false
      end
  end.

Definition dirlists_equal (l1 l2 : list dirapp) : bool :=
  Nat.eqb (length l1) (length l2) && dirs_cmp [] l1 l2.

(* mergeArgumentDefinitions *)
Definition merge_argdef (ignore_default : bool) (p n : argdef) : res argdef :=
  if negb (types_equal (ad_type p) (ad_type n)) then Err "types"
  else if negb ignore_default && negb (values_equal (ad_default p) (ad_default n)) then Err "default"
  else if negb (dirlists_equal (ad_dirs p) (ad_dirs n)) then Err "inconsistent directives"
  else Ok {| ad_name := ad_name p; ad_desc := first_desc (ad_desc p) (ad_desc n);
             ad_type := ad_type p; ad_default := ad_default p; ad_dirs := ad_dirs p |}.

Fixpoint res_map {A B} (f : A -> res B) (l : list A) : res (list B) :=
  match l with
  | [] => Ok []
  | x :: r => y <- f x ;; ys <- res_map f r ;; Ok (y :: ys)
  end.

(* mergeArgumentDefinitionList *)
Definition merge_argdefs (ignore_default : bool) (l1 l2 : list argdef) : res (list argdef) :=
  if negb (Nat.eqb (length l1) (length l2)) then Err "inconsistent number of arguments"
  else res_map (fun a1 => match find_arg (ad_name a1) l2 with
                          | None => Err "could not find the argument"
                          | Some a2 => merge_argdef ignore_default a1 a2
                          end) l1.

(* mergeFields *)
Definition merge_field (f1 f2 : fielddef) : res fielddef :=
  if negb (types_equal (fd_type f1) (fd_type f2)) then Err "fields are not equal: type"
  else args <- merge_argdefs false (fd_args f1) (fd_args f2) ;;
       if negb (values_equal (fd_default f1) (fd_default f2)) then Err "fields are not equal: default"
       else if negb (dirlists_equal (fd_dirs f1) (fd_dirs f2)) then Err "fields are not equal: directives"
       else Ok {| fd_name := fd_name f1; fd_desc := first_desc (fd_desc f1) (fd_desc f2);
                  fd_type := fd_type f1; fd_args := args; fd_default := fd_default f1; fd_dirs := fd_dirs f1 |}.

Definition with_desc_fields (d : definition) (desc : string) (fs : list fielddef) : definition :=
  {| df_kind := df_kind d; df_name := df_name d; df_desc := desc; df_fields := fs;
     df_ifaces := df_ifaces d; df_members := df_members d; df_enums := df_enums d; df_dirs := df_dirs d |}.

(* mergeInterfaceNames: union, sorted *)
Fixpoint insert_sorted (x : string) (l : list string) : list string :=
  match l with
  | [] => [x]
  | y :: r => if String.eqb x y then l else if String.ltb x y then x :: l else y :: insert_sorted x r
  end.
Definition sort_union (a b : list string) : list string :=
  fold_right insert_sorted [] (a ++ b).

(* mergeInterfaces *)
Definition merge_interfaces (p n : definition) : res definition :=
  if negb (Nat.eqb (length (df_fields p)) (length (df_fields n))) then Err "inconsistent number of fields"
  else fs <- res_map (fun f => match find_field (fd_name f) (df_fields n) with
                               | None => Err "could not find field"
                               | Some g => merge_field f g
                               end) (df_fields p) ;;
       if negb (dirlists_equal (df_dirs p) (df_dirs n)) then Err "inconsistent directives"
       else Ok {| df_kind := df_kind p; df_name := df_name p; df_desc := first_desc (df_desc p) (df_desc n);
                  df_fields := fs; df_ifaces := sort_union (df_ifaces p) (df_ifaces n);
                  df_members := df_members p; df_enums := df_enums p; df_dirs := df_dirs p |}.

Fixpoint replace_field (f : fielddef) (l : list fielddef) : list fielddef :=
  match l with
  | [] => []
  | g :: r => if String.eqb (fd_name g) (fd_name f) then f :: r else g :: replace_field f r
  end.

(* the loop "for _, newField := range newDefinition.Fields" of mergeObjectTypes *)
Fixpoint merge_object_fields (acc : list fielddef) (news : list fielddef) : res (list fielddef) :=
  match news with
  | [] => Ok acc
  | nf :: r =>
      match find_field (fd_name nf) acc with
      | Some pf => m <- merge_field pf nf ;; merge_object_fields (replace_field m acc) r
      | None => merge_object_fields (acc ++ [nf]) r
      end
  end.

(* mergeObjectTypes *)
Definition merge_objects (p n : definition) : res definition :=
  fs <- merge_object_fields (df_fields p) (df_fields n) ;;
  if negb (dirlists_equal (df_dirs p) (df_dirs n)) then Err "inconsistent directives"
  else Ok {| df_kind := df_kind p; df_name := df_name p; df_desc := first_desc (df_desc p) (df_desc n);
             df_fields := fs; df_ifaces := sort_union (df_ifaces p) (df_ifaces n);
             df_members := df_members p; df_enums := df_enums p; df_dirs := df_dirs p |}.

(* mergeFieldList + mergeInputObjects (which returns object1 itself) *)
Definition merge_inputs (p n : definition) : res definition :=
  if negb (Nat.eqb (length (df_fields p)) (length (df_fields n))) then Err "inconsistent number of fields"
  else _ <- res_map (fun f => match find_field (fd_name f) (df_fields n) with
                              | None => Err "could not find field"
                              | Some g => merge_field f g
                              end) (df_fields p) ;;
       if negb (dirlists_equal (df_dirs p) (df_dirs n)) then Err "inconsistent directives"
       else Ok p.

Definition is_internal_name (n : string) : bool :=
  match n with String "_"%char (String "_"%char _) => true | _ => false end.

(* mergeEnums / mergeEnumValues *)
Definition merge_enums (p n : definition) : res definition :=
  if is_internal_name (df_name p) then Ok p
  else if negb (Nat.eqb (length (df_enums p)) (length (df_enums n))) then Err "inconsistent enum"
  else vs <- res_map (fun v => match find_enum (ev_name v) (df_enums n) with
                               | None => Err "inconsistent enum"
                               | Some w => if negb (dirlists_equal (ev_dirs v) (ev_dirs w)) then Err "enum value directives"
                                           else Ok {| ev_name := ev_name v; ev_desc := first_desc (ev_desc v) (ev_desc w);
                                                      ev_dirs := ev_dirs v |}
                               end) (df_enums p) ;;
       if negb (dirlists_equal (df_dirs p) (df_dirs n)) then Err "inconsistent directives"
       else Ok {| df_kind := df_kind p; df_name := df_name p; df_desc := first_desc (df_desc p) (df_desc n);
                  df_fields := df_fields p; df_ifaces := df_ifaces p; df_members := df_members p;
                  df_enums := vs; df_dirs := df_dirs p |}.

(* mergeScalars *)
Definition merge_scalars (p n : definition) : res definition :=
  if negb (dirlists_equal (df_dirs p) (df_dirs n)) then Err "scalar directives"
  else Ok (with_desc_fields p (first_desc (df_desc p) (df_desc n)) (df_fields p)).

(* mergeStringSliceEquivalent *)
Definition slices_equivalent (s1 s2 : list string) : bool :=
  Nat.eqb (length s1) (length s2) && forallb (fun x => str_mem x s1) s2.

(* mergeUnions *)
Definition merge_unions (p n : definition) : res definition :=
  if slices_equivalent (df_members p) (df_members n)
  then (if negb (dirlists_equal (df_dirs p) (df_dirs n)) then Err "inconsistent directives" else Ok p)
  else Err "union members".

(* the body of the loop over the definitions of one name in mergeSchemas (after the first) *)
Definition merge2 (p n : definition) : res definition :=
  if is_internal_name (df_name n) then Ok p
  else if negb (kind_eqb (df_kind p) (df_kind n)) then Err "different kinds"
  else match df_kind n with
       | KObject => merge_objects p n
       | KInterface => merge_interfaces p n
       | KInputObject => merge_inputs p n
       | KEnum => merge_enums p n
       | KScalar => merge_scalars p n
       | KUnion => merge_unions p n
       end.

Fixpoint merge_group (p : definition) (rest : list definition) : res definition :=
  match rest with
  | [] => Ok p
  | n :: r => p' <- merge2 p n ;; merge_group p' r
  end.

(* ---- directive definitions ---- *)

Definition type_system_location (l : string) : bool :=
  str_mem l ["SCHEMA"; "SCALAR"; "OBJECT"; "FIELD_DEFINITION"; "ARGUMENT_DEFINITION"; "INTERFACE";
             "UNION"; "ENUM"; "ENUM_VALUE"; "INPUT_OBJECT"; "INPUT_FIELD_DEFINITION"].

Definition executable_locs (l : list string) : list string := filter (fun x => negb (type_system_location x)) l.

(* mergeDirectiveLocations *)
Definition merge_locations (l1 l2 : list string) : res (list string) :=
  let e1 := executable_locs l1 in
  let e2 := executable_locs l2 in
  if forallb (fun x => str_mem x e2) e1 && forallb (fun x => str_mem x e1) e2
  then Ok (sort_union l1 l2) else Err "do not have the same executable locations".

(* mergeDirectives *)
Definition merge_dirdef (p n : dirdef) : res dirdef :=
  if negb (Bool.eqb (dd_repeatable p) (dd_repeatable n)) then Err "conflict in repeatability"
  else
  locs <- merge_locations (dd_locs p) (dd_locs n) ;;
  args <- merge_argdefs (dd_builtin p) (dd_args p) (dd_args n) ;;
  Ok {| dd_name := dd_name p; dd_desc := first_desc (dd_desc p) (dd_desc n); dd_locs := locs;
        dd_args := args; dd_builtin := dd_builtin p; dd_repeatable := dd_repeatable p |}.

Fixpoint merge_dir_group (p : dirdef) (rest : list dirdef) : res dirdef :=
  match rest with
  | [] => Ok p
  | n :: r => p' <- merge_dirdef p n ;; merge_dir_group p' r
  end.

(* ---- grouping per name (the first pass of mergeSchemas) ---- *)

(* per name, the definitions in source order; names in order of first appearance *)
Fixpoint dedup (l : list string) : list string :=
  match l with
  | [] => []
  | x :: r => x :: filter (fun y => negb (String.eqb x y)) (dedup r)
  end.

Definition group_by {A} (name : A -> string) (l : list A) : list (string * list A) :=
  map (fun k => (k, filter (fun x => String.eqb (name x) k) l)) (dedup (map name l)).

Definition is_iface (d : definition) : bool := kind_eqb (df_kind d) KInterface.

Record merged := {
  m_types : list definition;
  m_dirs : list dirdef;
  m_possible : list (string * list string);   (* abstract or concrete type -> names of possible types *)
  m_implements : list (string * list string); (* type -> interfaces registered for it *)
  m_roots : list string                       (* the names of schema.Query, .Mutation, .Subscription ("" when nil) *)
}.

Definition merge_named_group (g : string * list definition) : res definition :=
  match snd g with
  | [] => Err "empty group"
  | d :: r => merge_group d r
  end.

(* interfaces first, then everything else; a name present in both passes meets its interface
   definition as [previous] in the second pass *)
Definition merge_types (all : list definition) : res (list definition) :=
  let ifaces := group_by df_name (filter is_iface all) in
  let others := group_by df_name (filter (fun d => negb (is_iface d)) all) in
  merged_ifaces <- res_map merge_named_group ifaces ;;
  merged_others <- res_map (fun g =>
                     match find_def (fst g) merged_ifaces with
                     | Some i => merge_group i (snd g)
                     | None => merge_named_group g
                     end) others ;;
  Ok (filter (fun i => negb (str_mem (df_name i) (map fst others))) merged_ifaces ++ merged_others).

Definition possible_of (types : list definition) (d : definition) : list (string * string) :=
  match df_kind d with
  | KUnion => map (fun m => (df_name d, m)) (filter (fun m => match find_def m types with Some _ => true | None => false end) (df_members d))
  | _ => (df_name d, df_name d) :: map (fun i => (i, df_name d)) (df_ifaces d)
  end.

Fixpoint group_pairs (l : list (string * string)) (acc : list (string * list string)) : list (string * list string) :=
  match l with
  | [] => acc
  | (k, v) :: r =>
      group_pairs r ((fix add (acc : list (string * list string)) :=
                        match acc with
                        | [] => [(k, [v])]
                        | (k', vs) :: t => if String.eqb k k' then (k', vs ++ [v]) :: t else (k', vs) :: add t
                        end) acc)
  end.

Definition merge_schemas (sources : list schema) : res merged :=
  types <- merge_types (flat_map s_types sources) ;;
  dirs <- res_map (fun g => match snd g with [] => Err "empty" | d :: r => merge_dir_group d r end)
                  (group_by dd_name (flat_map s_dirs sources)) ;;
  Ok {| m_types := types; m_dirs := dirs;
        m_possible := group_pairs (flat_map (possible_of types) types) [];
        m_implements := map (fun d => (df_name d, filter (fun i => match find_def i types with Some _ => true | None => false end) (df_ifaces d)))
                            (filter (fun d => negb (kind_eqb (df_kind d) KUnion)) types);
        m_roots := map (fun n => match find_def n types with Some _ => n | None => "" end) ["Query"; "Mutation"; "Subscription"] |}.

(* ---- gateway.go: fieldURLs, Concat, RegisterURL (the routing table) ---- *)

Definition urlmap := list (string * list string).

Fixpoint register_url (key loc : string) (m : urlmap) : urlmap :=
  match m with
  | [] => [(key, [loc])]
  | (k, l) :: r => if String.eqb k key then (k, l ++ [loc]) :: r else (k, l) :: register_url key loc r
  end.

Definition has_prefix2 (n : string) : bool := is_internal_name n.

(* fieldURLs(schemas, stripInternal) *)
Definition field_urls (sources : list (string * schema)) (strip : bool) : urlmap :=
  fold_left (fun m src =>
    let '(url, sch) := src in
    fold_left (fun m d =>
      if negb (has_prefix2 (df_name d)) || negb strip then
        let m := register_url (df_name d ++ ".__typename")%string url m in
        fold_left (fun m f =>
          if negb (String.eqb (df_name d) "Query" && has_prefix2 (fd_name f)) then
            register_url (df_name d ++ "." ++ fd_name f)%string url m
          else if negb strip then register_url (df_name d ++ "." ++ fd_name f)%string url m
          else m) (df_fields d) m
      else m) (s_types sch) m) sources [].

(* FieldURLMap.Concat *)
Definition concat_urls (m other : urlmap) : urlmap :=
  fold_left (fun m kv => fold_left (fun m loc => register_url (fst kv) loc m) (snd kv) m) other m.

(* the table built by gateway.New: sources (introspection stripped), then the internal schema,
   then "<type of each gateway query field>.id" at the gateway *)
Definition gateway_urls (internal_loc : string) (sources : list (string * schema)) (internal : schema)
           (query_field_types : list string) : urlmap :=
  let m := concat_urls (field_urls sources true) (field_urls [(internal_loc, internal)] false) in
  fold_left (fun m t => register_url (t ++ ".id")%string internal_loc m) query_field_types m.

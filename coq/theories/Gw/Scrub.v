(* plan.go: generateScrubFields / generateScrubFieldsWalk / containsPath -- which insertion points
   had their id added by the planner and must lose it again before the response goes out.  The
   client's selection is consulted flattened (graphql.ApplyFragments, a library function: an input
   of the model): one entry per response key with alias, name and flattened sub-selection. *)
From Coq Require Import String List Bool Arith.
From GW Require Import Base.Res Base.GoStr Gql.Syntax Gw.Plan.
Import ListNotations.
Open Scope string_scope.
Open Scope list_scope.

Inductive ksel := KS (alias name : string) (sub : list ksel).
Definition ks_alias k := match k with KS a _ _ => a end.
Definition ks_name k := match k with KS _ n _ => n end.
Definition ks_sub k := match k with KS _ _ s => s end.

(* the field whose response key is the point: its alias, or its name when it has none *)
Fixpoint find_key (point : string) (l : list ksel) : option ksel :=
  match l with
  | [] => None
  | k :: r =>
      if String.eqb (ks_alias k) point || (String.eqb (ks_alias k) "" && String.eqb (ks_name k) point)
      then Some k else find_key point r
  end.

(* the client's selection at the end of an insertion point *)
Fixpoint descend (ipoint : list string) (sel0 : list ksel) : res (list ksel) :=
  match ipoint with
  | [] => Ok sel0
  | p :: r => match find_key p sel0 with
              | Some k => descend r (ks_sub k)
              | None => Err "error adding scrub fields: could not find field for point"
              end
  end.

(* the client asked for the response key id there *)
Definition natural_id (l : list ksel) : bool := existsb (fun k => String.eqb (ks_alias k) "id") l.

Fixpoint path_eqb (a b : list string) : bool :=
  match a, b with
  | [], [] => true
  | x :: a', y :: b' => String.eqb x y && path_eqb a' b'
  | _, _ => false
  end.

Definition contains_path (paths : list (list string)) (p : list string) : bool := existsb (path_eqb p) paths.

(* generateScrubFieldsWalk: this step's insertion point unless the id is natural there, then the
   dependents', in order *)
Fixpoint scrub_walk (fuel : nat) (client : list ksel) (s : pstep) {struct fuel} : res (list (list string)) :=
  match fuel with
  | O => Err "step nesting exceeds fuel"
  | S f =>
      match s with
      | PStep _ _ ipoint _ thens =>
          target <- descend ipoint client ;;
          let own := if negb (natural_id target) && negb (match ipoint with [] => true | _ => false end) then [ipoint] else [] in
          below <- (fix go (l : list pstep) : res (list (list string)) :=
                      match l with
                      | [] => Ok []
                      | x :: r => a <- scrub_walk f client x ;; b <- go r ;; Ok (a ++ b)
                      end) thens ;;
          Ok (own ++ below)
      end
  end.

Fixpoint dedupe (paths acc : list (list string)) : list (list string) :=
  match paths with
  | [] => acc
  | p :: r => if contains_path acc p then dedupe r acc else dedupe r (acc ++ [p])
  end.

(* generateScrubFields for one plan: the walks of the root step's dependents, without repeats *)
Definition scrub_fields (fuel : nat) (client : list ksel) (root : pstep) : res (list (list string)) :=
  match root with
  | PStep _ _ _ _ thens =>
      all <- (fix go (l : list pstep) : res (list (list string)) :=
                match l with
                | [] => Ok []
                | x :: r => a <- scrub_walk fuel client x ;; b <- go r ;; Ok (a ++ b)
                end) thens ;;
      Ok (dedupe all [])
  end.

(* correspondence: the same set of paths (sibling steps are created in Go's map order) *)
Definition paths_subset (a b : list (list string)) : bool := forallb (contains_path b) a.
Definition scrub_fields_agree (fuel : nat) (client : list ksel) (root : pstep) (observed : list (list string)) : bool :=
  match scrub_fields fuel client root with
  | Ok ps => paths_subset ps observed && paths_subset observed ps && Nat.eqb (length ps) (length observed)
  | _ => false
  end.

(* Model of http.go:injectFile (multipart file placement) and the reference semantics of
   the GraphQL multipart request map it is checked against.  One Gallina function per Go
   function / loop; in-place updates of maps and slices are made functional. *)
From Coq Require Import String Ascii List ZArith Bool Lia.
From GW Require Import Base.Res Base.GoStr Base.Json.
Import ListNotations.
Open Scope string_scope.

(* ---------- the code ---------- *)

(* the loop "for i := 1; i < len(parts); i++" of injectFile over the current container *)
Fixpoint walk (file : json) (cur : json) (parts : list string) : res json :=
  match parts with
  | [] => Ok cur
  | p :: rest =>
      match cur with
      | JObj m =>
          match jget p m with
          | None => Err "key not found in variables"
          | Some v =>
              match rest with
              | [] => match v with
                      | JNull => Ok (JObj (jset p file m))
                      | _ => Err "expected nil value"
                      end
              | _ => v' <- walk file v rest ;; Ok (JObj (jset p v' m))
              end
          end
      | JArr l =>
          match atoi p with
          | None => Err "expected numeric index"
          | Some i =>
              if ((i <? 0) || (Z.of_nat (length l) <=? i))%Z then Err "file index out of bound"
              else
                match nth_error l (Z.to_nat i) with
                | None => Err "file index out of bound"
                | Some v =>
                    match rest with
                    | [] => match v with
                            | JNull => Ok (JArr (upd_nth l (Z.to_nat i) file))
                            | _ => Err "expected nil value"
                            end
                    | _ => v' <- walk file v rest ;; Ok (JArr (upd_nth l (Z.to_nat i) v'))
                    end
                end
          end
      | _ => Err "not inside an object or a list"
      end
  end.

(* an *HTTPOperation, as far as injectFile reads it: nil, or its Variables map (a nil map
   reads as an empty one) *)
Definition opv := option (list (string * json)).

(* the prologue of the loop body: optional batch index, "variables", at least one more part *)
Definition address (batch : bool) (path : string) : res (Z * list string) :=
  let parts := split "."%char path in
  r <- (if batch then
          match parts with
          | [] => Err "no parts"
          | h :: t => match atoi h with None => Err "atoi" | Some i => Ok (i, t) end
          end
        else Ok (0%Z, parts)) ;;
  let '(idx, parts) := r in
  match parts with
  | [] => Err "file locator doesn't have variables in it"
  | p0 :: rest =>
      if negb (String.eqb p0 "variables") then Err "file locator doesn't have variables in it"
      else match rest with
           | [] => Err "invalid number of parts in path"
           | _ => Ok (idx, rest)
           end
  end.

Definition inject_path (ops : list opv) (file : json) (batch : bool) (path : string) : res (list opv) :=
  a <- address batch path ;;
  let '(idx, rest) := a in
  if ((idx <? 0) || (Z.of_nat (length ops) <=? idx))%Z then Err "operation index out of bound"
  else match nth_error ops (Z.to_nat idx) with
       | None | Some None => Err "operation index out of bound"
       | Some (Some vars) =>
           r <- walk file (JObj vars) rest ;;
           match r with
           | JObj vars' => Ok (upd_nth ops (Z.to_nat idx) (Some vars'))
           | _ => Panic "unreachable: walk keeps the root an object"
           end
       end.

(* for _, path := range paths *)
Fixpoint inject (ops : list opv) (file : json) (batch : bool) (paths : list string) : res (list opv) :=
  match paths with
  | [] => Ok ops
  | p :: r => ops' <- inject_path ops file batch p ;; inject ops' file batch r
  end.

(* for filePos, paths := range filePosMap (one file after another) *)
Fixpoint inject_files (ops : list opv) (batch : bool) (files : list (json * list string)) : res (list opv) :=
  match files with
  | [] => Ok ops
  | (f, ps) :: r => ops' <- inject ops f batch ps ;; inject_files ops' batch r
  end.

(* ---------- the reference: positions in a JSON tree ---------- *)

Inductive step := SKey (k : string) | SIdx (n : nat).

Definition step_eqb (a b : step) : bool :=
  match a, b with
  | SKey x, SKey y => String.eqb x y
  | SIdx x, SIdx y => Nat.eqb x y
  | _, _ => false
  end.

Definition child (j : json) (s : step) : option json :=
  match j, s with
  | JObj m, SKey k => jget k m
  | JArr l, SIdx n => nth_error l n
  | _, _ => None
  end.

Fixpoint get_c (j : json) (p : list step) : option json :=
  match p with
  | [] => Some j
  | s :: r => match child j s with Some v => get_c v r | None => None end
  end.

Definition put_child (j : json) (s : step) (v : json) : json :=
  match j, s with
  | JObj m, SKey k => JObj (jset k v m)
  | JArr l, SIdx n => JArr (upd_nth l n v)
  | _, _ => j
  end.

(* replace the value at an existing position *)
Fixpoint put_c (j : json) (p : list step) (v : json) : json :=
  match p with
  | [] => v
  | s :: r => match child j s with
              | Some c => put_child j s (put_c c r v)
              | None => j
              end
  end.

(* how one textual path part designates a child of a container: a key of an object, a
   decimal index of a list *)
Definition part_step (j : json) (part : string) : option step :=
  match j with
  | JObj m => match jget part m with Some _ => Some (SKey part) | None => None end
  | JArr l => match atoi part with
              | Some i => if ((0 <=? i) && (i <? Z.of_nat (length l)))%Z then Some (SIdx (Z.to_nat i)) else None
              | None => None
              end
  | _ => None
  end.

Fixpoint resolve (j : json) (parts : list string) : option (list step) :=
  match parts with
  | [] => Some []
  | p :: rest =>
      match part_step j p with
      | None => None
      | Some s => match child j s with
                  | None => None
                  | Some c => match resolve c rest with Some r => Some (s :: r) | None => None end
                  end
      end
  end.

Fixpoint is_prefix (a b : list step) : bool :=
  match a, b with
  | [], _ => true
  | x :: a', y :: b' => step_eqb x y && is_prefix a' b'
  | _ :: _, [] => false
  end.

(* The reference application of one map entry to one variables tree: the path must
   resolve to a position holding null; that position, and only it, becomes the file. *)
Definition ref_apply (file : json) (j : json) (parts : list string) : option json :=
  match parts with
  | [] => None
  | _ => match resolve j parts with
         | None => None
         | Some cp => match get_c j cp with
                      | Some JNull => Some (put_c j cp file)
                      | _ => None
                      end
         end
  end.

(* The reference reading of a whole map entry: "[<batch index>.]variables.<part>.<part>..." *)
Definition ref_address (batch : bool) (path : string) : option (nat * list string) :=
  let parts := split "."%char path in
  let r := if batch then
             match parts with
             | h :: t => match atoi h with
                         | Some i => if (0 <=? i)%Z then Some (Z.to_nat i, t) else None
                         | None => None
                         end
             | [] => None
             end
           else Some (O, parts) in
  match r with
  | Some (idx, p0 :: rest) =>
      if String.eqb p0 "variables" then match rest with [] => None | _ => Some (idx, rest) end
      else None
  | _ => None
  end.

Definition ref_inject_path (ops : list opv) (file : json) (batch : bool) (path : string) : option (list opv) :=
  match ref_address batch path with
  | None => None
  | Some (idx, rest) =>
      match nth_error ops idx with
      | Some (Some vars) =>
          match ref_apply file (JObj vars) rest with
          | Some (JObj vars') => Some (upd_nth ops idx (Some vars'))
          | _ => None
          end
      | _ => None
      end
  end.

Fixpoint ref_inject (ops : list opv) (file : json) (batch : bool) (paths : list string) : option (list opv) :=
  match paths with
  | [] => Some ops
  | p :: r => match ref_inject_path ops file batch p with
              | Some ops' => ref_inject ops' file batch r
              | None => None
              end
  end.

Fixpoint ref_inject_files (ops : list opv) (batch : bool) (files : list (json * list string)) : option (list opv) :=
  match files with
  | [] => Some ops
  | (f, ps) :: r => match ref_inject ops f batch ps with
                    | Some ops' => ref_inject_files ops' batch r
                    | None => None
                    end
  end.

(* ---------- comparing with what the implementation did ---------- *)

Definition opv_json (o : opv) : json := match o with None => JNull | Some m => JObj m end.
Definition ops_json (ops : list opv) : json := JArr (map opv_json ops).

(* what the harness observed: outcome class and, when ok, the operations' variables *)
Record observed := { o_cls : cls; o_ops : list opv }.

(* the model predicts the observation *)
Definition model_agrees (ops : list opv) (batch : bool) (files : list (json * list string)) (o : observed) : bool :=
  let r := inject_files ops batch files in
  cls_eqb (cls_of r) (o_cls o) &&
  match r with
  | Ok ops' => json_equiv (ops_json ops') (ops_json (o_ops o))
  | _ => true
  end.

(* the property, evaluated on the observation alone (the model of the code is not used) *)
Definition property_holds (ops : list opv) (batch : bool) (files : list (json * list string)) (o : observed) : bool :=
  match ref_inject_files ops batch files with
  | Some ops' => cls_eqb (o_cls o) COk && json_equiv (ops_json ops') (ops_json (o_ops o))
  | None => cls_eqb (o_cls o) CErr
  end.

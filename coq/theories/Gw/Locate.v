(* plan.go: selectLocation (the single chooser), FieldURLMap.URLFor, and the assignment of every
   field of a query to a location that groupSelectionSet/extractSelection realise with it. *)
From Coq Require Import String List Bool.
From GW Require Import Base.Res Base.GoStr Gql.Syntax.
Import ListNotations.
Open Scope string_scope.
Open Scope list_scope.

(* internal.go: internalSchemaLocation *)
Definition internal_loc : string := "🎉".

(* FieldURLMap: "Type.field" -> locations, in registration order *)
Definition urlmap := list (string * list string).

Fixpoint assoc {A} (k : string) (m : list (string * A)) : option A :=
  match m with [] => None | (k', v) :: r => if String.eqb k k' then Some v else assoc k r end.

Definition url_key (parent field : string) : string := parent ++ "." ++ field.

Definition url_for (m : urlmap) (parent field : string) : res (list string) :=
  match assoc (url_key parent field) m with
  | Some l => Ok l
  | None => Err "Could not find location"
  end.

Fixpoint first_possible (cands possible : list string) : option string :=
  match cands with
  | [] => None
  | c :: r => if str_mem c possible then Some c else first_possible r possible
  end.

(* func (p *MinQueriesPlanner) selectLocation(possibleLocations, config) *)
Definition selectLocation (prios possible : list string) (parent : string) : string :=
  match possible with
  | [x] => x
  | _ => if str_mem internal_loc possible then internal_loc
         else match first_possible (prios ++ [parent; internal_loc]) possible with
              | Some p => p
              | None => hd "" possible       (* possibleLocations[0]; URLFor never returns an empty list *)
              end
  end.

(* ---- the rule of the property, stated on its own ---- *)

(* [spec_loc prios possible parent l]: l offers the field; the gateway's own fields are answered by
   the gateway; otherwise l is the first configured priority that offers the field; failing that
   the enclosing object's own service if it offers it *)
Definition spec_loc (prios possible : list string) (parent l : string) : Prop :=
  In l possible /\
  (In internal_loc possible -> l = internal_loc) /\
  (~ In internal_loc possible -> forall p, first_possible prios possible = Some p -> l = p) /\
  (~ In internal_loc possible -> first_possible prios possible = None -> In parent possible -> l = parent).

Definition spec_locb (prios possible : list string) (parent l : string) : bool :=
  str_mem l possible &&
  if str_mem internal_loc possible then String.eqb l internal_loc
  else match first_possible prios possible with
       | Some p => String.eqb l p
       | None => if str_mem parent possible then String.eqb l parent else true
       end.

(* ---- which location every field of a selection ends up at ---- *)

(* schema facts the planner reads: the named type a field returns (coreFieldType(..).Name()) *)
Definition ftypes := list (string * string).   (* "Type.field" -> named type *)

Record routed := { r_path : list string; r_name : string; r_tcond : string; r_loc : string }.

(* the concatenated results of f over a selection list *)
Definition route_map (f : sel -> res (list routed)) : list sel -> res (list routed) :=
  fix go (l : list sel) : res (list routed) :=
    match l with
    | [] => Ok []
    | x :: r => a <- f x ;; b <- go r ;; Ok (a ++ b)
    end.

(* Structural in the fuel: one unit per fragment spread followed (validated documents have no
   fragment cycles, so fuel = number of fragments + 1 is never exhausted). *)
Fixpoint route (fuel : nat) (prios : list string) (urls : urlmap) (ft : ftypes) (frags : list fragdef)
         (ptype ploc : string) (path : list string) (s : sel) {struct fuel} : res (list routed) :=
  match fuel with
  | O => Err "fragment nesting exceeds fuel"
  | S fuel' =>
      (fix route_one (ptype ploc : string) (path : list string) (s : sel) {struct s} : res (list routed) :=
         match s with
         | Field alias name _ _ sub =>
             possible <- url_for urls ptype name ;;
             let loc := selectLocation prios possible ploc in
             let here := {| r_path := path ++ [rkey alias name]; r_name := name; r_tcond := ptype; r_loc := loc |} in
             match sub with
             | [] => Ok [here]
             | _ => match assoc (url_key ptype name) ft with
                    | None => Err "no type for field"
                    | Some t => below <- route_map (route_one t loc (path ++ [rkey alias name])) sub ;; Ok (here :: below)
                    end
             end
         | Inline tcond _ sub =>
             route_map (route_one (if String.eqb tcond "" then ptype else tcond) ploc path) sub
         | Spread name _ =>
             match frag_for name frags with
             | None => Err "Could not find definition for fragment"
             | Some f => route_map (route fuel' prios urls ft frags (f_tcond f) ploc path) (f_sel f)
             end
         end) ptype ploc path s
  end.

Definition route_sels (fuel : nat) prios urls ft frags (ptype ploc : string) (path : list string) (l : list sel)
  : res (list routed) :=
  route_map (route fuel prios urls ft frags ptype ploc path) l.

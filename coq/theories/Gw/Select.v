(* gateway.go: Gateway.Execute's choice of the plan to run, and plan.go: QueryPlanList.ForOperation.
   One plan per operation of the document, in document order. *)
From Coq Require Import String List Bool.
From GW Require Import Base.Res.
Import ListNotations.
Open Scope string_scope.
Open Scope list_scope.

Section Select.
  Variable plan : Type.
  Variable name_of : plan -> string.       (* plan.Operation.Name *)

  Fixpoint for_operation (plans : list plan) (name : string) : res plan :=
    match plans with
    | [] => Err "could not find query for operation"
    | p :: r => if String.eqb (name_of p) name then Ok p else for_operation r name
    end.

  Definition choose_plan (plans : list plan) (name : string) : res plan :=
    match plans with
    | [p] => Ok p
    | _ => if String.eqb name "" then Err "please provide an operation name" else for_operation plans name
    end.

  (* Gateway.Execute: nothing is executed unless a plan was chosen *)
  Definition execute {R} (run : plan -> R) (plans : list plan) (name : string) : res R :=
    match choose_plan plans name with
    | Ok p => Ok (run p)
    | Err e => Err e
    | Panic e => Panic e
    end.
End Select.

(* generateScrubFields: every plan gets the scrub paths computed from its own operation *)
Definition scrub_all {plan S} (scrub_of : plan -> S) (plans : list plan) : list (plan * S) :=
  map (fun p => (p, scrub_of p)) plans.

(* the harness's view: the operation names of a document, the requested name, and whether the
   gateway ran something (and which operation the services were asked for) *)
Definition select_agrees (names : list string) (name : string) (ran : bool) (ran_name : string) : bool :=
  match choose_plan string (fun n => n) names name with
  | Ok n => ran && (String.eqb ran_name "<none>" || String.eqb n ran_name)
  | _ => negb ran
  end.

(* Property oracles of the federation-level checks (C01, C02, C04, C07, C13, C17): the
   implementation's observed behaviour on one request against the reference of Gql/Spec.v. *)
From Coq Require Import String List Bool Arith.
From GW Require Import Base.Res Base.GoStr Base.Json Gql.Syntax Gql.Spec Gql.Guards.
Import ListNotations.
Open Scope string_scope.
Open Scope list_scope.

(* one outbound call as the target service saw it *)
Record ocall := {
  oc_service : string;
  oc_valid : bool;                       (* the service's own validation of the received query (gqlparser) *)
  oc_optype : string;                    (* query | mutation | subscription *)
  oc_root : bool;                        (* it is not a node(id:) follow-up *)
  oc_declared : list string;             (* variables the received operation declares *)
  oc_used : list string;                 (* variables occurring in it *)
  oc_passed : list (string * json);      (* variable values that came with it *)
  oc_frag_defs : list string;            (* fragment definitions carried *)
  oc_frag_spreads : list string;         (* fragments spread (transitively from the operation) *)
  oc_key : string                        (* service | canonical query | variables: identity of the fetch *)
}.

Record observed := {
  ob_class : nat;                        (* 0 ok; 1 planning error; 2 execution error(s); 3 panic; 4 hang *)
  ob_data : json;
  ob_nerrors : nat;
  ob_calls : list ocall;
  ob_effects : list (string * nat)       (* mutation root field -> how often a service executed it *)
}.

(* data equality modulo object key order *)
Definition same_data (a b : json) : bool := json_equiv a b.

(* every key/value of a is in b: for partial data returned with errors *)
Fixpoint jsub (a b : json) {struct a} : bool :=
  match a, b with
  | JNull, _ => true
  | JObj ma, JObj mb =>
      (fix go (m : list (string * json)) : bool :=
         match m with
         | [] => true
         | (k, v) :: r => match jget k mb with Some v' => jsub v v' | None => false end && go r
         end) ma
  | JArr la, JArr lb =>
      (fix go (x y : list json) : bool :=
         match x, y with
         | [], [] => true
         | a' :: x', b' :: y' => jsub a' b' && go x' y'
         | _, _ => false
         end) la lb
  | _, _ => json_eqb a b
  end.

Definition subset (a b : list string) : bool := forallb (fun x => str_mem x b) a.
Definition set_eq (a b : list string) : bool := subset a b && subset b a.

Fixpoint has_dup (l : list string) : bool :=
  match l with [] => false | x :: r => str_mem x r || has_dup r end.

(* C01: a valid query is answered, with exactly the reference data *)
Definition c01_holds (expected : json) (o : observed) : bool :=
  Nat.eqb (ob_class o) 0 && same_data (ob_data o) expected.

(* C02: every outbound request validates at its service, declares what it uses and uses what it
   declares, carries exactly the fragments it spreads, has the right operation type, and comes
   with values only for variables it declares, the client's values unchanged *)
Definition c02_holds (client_optype : string) (client_vars : list (string * json)) (o : observed) : bool :=
  forallb (fun c =>
    oc_valid c &&
    set_eq (oc_declared c) (oc_used c) &&
    set_eq (oc_frag_defs c) (oc_frag_spreads c) && negb (has_dup (oc_frag_defs c)) &&
    (if oc_root c then String.eqb (oc_optype c) client_optype else String.eqb (oc_optype c) "query") &&
    forallb (fun kv =>
      str_mem (fst kv) (oc_declared c) &&
      (String.eqb (fst kv) "id" && negb (oc_root c) ||
       match jget (fst kv) client_vars with Some v => json_eqb v (snd kv) | None => false end)) (oc_passed c) &&
    (* ... and every value the client bound to a variable the request declares travels with it,
       an explicit null included (the follow-up fetch's own id aside) *)
    forallb (fun n =>
      (String.eqb n "id" && negb (oc_root c)) ||
      match jget n client_vars with
      | Some v => match jget n (oc_passed c) with Some v' => json_eqb v v' | None => false end
      | None => true
      end) (oc_declared c))
    (ob_calls o).

(* C04 without faults is C01's data equality; with faults: no extra key anywhere *)
Definition c04_partial_holds (expected : json) (o : observed) : bool :=
  match ob_class o with
  | 0 => same_data (ob_data o) expected
  | 2 => jsub (ob_data o) expected
  | _ => false
  end.

(* root steps answered by the gateway itself (node, introspection) reach no service *)
Definition nroot_service_calls (nroot : nat) (o : observed) : nat :=
  length (filter oc_root (ob_calls o)).

(* C13: every realised insertion point is spawned once per step hanging at its path (a follow-up
   fetch exactly once per parent object), the services see exactly one call per root step and per
   spawn, a mutation's root fields are executed exactly once, and a query answerable by the
   service of its root field takes one request *)
Definition count_s (x : string) (l : list string) : nat := length (filter (String.eqb x) l).

Definition c13_holds (single_hop_expected : bool) (nroot : nat) (spawns : list (string * string))
           (steps_at : list (string * nat)) (o : observed) : bool :=
  forallb (fun sp => match find (fun kv => String.eqb (fst kv) (snd sp)) steps_at with
                     | Some kv => Nat.eqb (count_s (fst sp) (map fst spawns)) (snd kv)
                     | None => false
                     end) spawns &&
  (negb (Nat.eqb (ob_class o) 0) || Nat.eqb (length (ob_calls o)) (nroot_service_calls nroot o + length spawns)) &&
  forallb (fun e => Nat.eqb (snd e) 1) (ob_effects o) &&
  (negb single_hop_expected || Nat.leb (length (ob_calls o)) 1).

(* C17: the named operation inside its document behaves as the reduced document does *)
Definition c17_holds (expected : json) (in_doc reduced : observed) : bool :=
  Nat.eqb (ob_class in_doc) 0 && Nat.eqb (ob_class reduced) 0 &&
  same_data (ob_data in_doc) (ob_data reduced) && same_data (ob_data in_doc) expected.

Definition c17_unknown_name_holds (o : observed) : bool :=
  negb (Nat.eqb (ob_class o) 0) && match ob_calls o with [] => true | _ => false end.

(* ... also when the same plan list is looked up again and again (the plan cache hands one list to
   every request): each lookup answers as a freshly planned request for that name does *)
Definition c17_reuse_holds (pairs : list (observed * observed)) : bool :=
  forallb (fun p => Nat.eqb (ob_class (fst p)) (ob_class (snd p)) &&
                    (negb (Nat.eqb (ob_class (fst p)) 0) || same_data (ob_data (fst p)) (ob_data (snd p)))) pairs.

(* C07: no panic; the error list has one entry per failed call and none otherwise; the data is the
   reference data minus what lies beneath failed calls (never a foreign or misplaced value) *)
Definition c07_holds (expected : json) (nfaults : nat) (o : observed) : bool :=
  match ob_class o with
  | 0 => Nat.eqb nfaults 0 && Nat.eqb (ob_nerrors o) 0 && same_data (ob_data o) expected
  | 2 => negb (Nat.eqb nfaults 0) && Nat.eqb (ob_nerrors o) nfaults && jsub (ob_data o) expected
  | _ => false
  end.

(* C07, containment at the root: every response key a root call that did not fail was asked for, and
   that the reference answers, is a key of the data returned (the data is not dropped as a whole,
   nor that call's share of it, because some other call failed) *)
Definition root_keys_kept (keys : list string) (expected : json) (o : observed) : bool :=
  let obj (j : json) := match j with JObj m => m | _ => [] end in
  forallb (fun k => match jget k (obj expected) with
                    | Some _ => match jget k (obj (ob_data o)) with Some _ => true | None => false end
                    | None => true
                    end) keys.

(* C11: N requests on shared plans.  Per request: its own variables, what a solitary execution on
   a freshly planned plan gave, what it gave when run together with the others on the shared plans,
   and what it gave when run once more afterwards on the same plans. *)
Record req_obs := { ro_vars : list (string * json); ro_solo : observed; ro_conc : observed; ro_again : observed;
                    ro_full : observed (* planned and executed while the others are *) }.

Fixpoint strs_eqb (a b : list string) : bool :=
  match a, b with
  | [], [] => true
  | x :: a', y :: b' => String.eqb x y && strs_eqb a' b'
  | _, _ => false
  end.

(* the plans are what they were: snapshot digests before and after *)
Definition plans_unchanged (before after : list string) : bool := strs_eqb before after.

Definition same_calls (a b : observed) : bool :=
  let ka := map oc_key (ob_calls a) in
  let kb := map oc_key (ob_calls b) in
  forallb (fun k => Nat.eqb (count_s k ka) (count_s k kb)) (ka ++ kb).

Definition same_outcome (a b : observed) : bool :=
  Nat.eqb (ob_class a) (ob_class b) && same_data (ob_data a) (ob_data b) &&
  Nat.eqb (ob_nerrors a) (ob_nerrors b) && same_calls a b.

(* every value a call of this request carried is this request's own (or the join id) *)
Definition own_values (vars : list (string * json)) (o : observed) : bool :=
  forallb (fun c =>
    forallb (fun kv =>
      (String.eqb (fst kv) "id" && negb (oc_root c)) ||
      match jget (fst kv) vars with Some v => json_eqb v (snd kv) | None => false end) (oc_passed c))
    (ob_calls o).

Definition c11_holds (stray_calls : nat) (rs : list req_obs) : bool :=
  Nat.eqb stray_calls 0 &&
  forallb (fun r =>
    (* the calls (service, query, variable values) and the answer are those of the solitary run:
       in particular no call carries a value of another request *)
    same_outcome (ro_conc r) (ro_solo r) && same_outcome (ro_again r) (ro_solo r) && same_outcome (ro_full r) (ro_solo r) ||
    (* a request whose solitary run already ends in errors is no reference: which of its calls are
       still made then depends on the order of the plan's steps, which differs from plan to plan *)
    negb (Nat.eqb (ob_class (ro_solo r)) 0)) rs.

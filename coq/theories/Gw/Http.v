(* http.go: parseRequest / parseGetRequest / parsePostRequest / parseOperations and the
   status / shape logic of GraphQLHandler, over decoded JSON values.  Planning and execution of
   one operation are inputs (what the same operation yields when sent alone). *)
From Coq Require Import String Ascii List Bool ZArith Arith.
From GW Require Import Base.Res Base.GoStr Base.Json.
Import ListNotations.
Open Scope string_scope.
Open Scope list_scope.

Record httpop := {
  op_query : string;
  op_vars : option (list (string * json));     (* nil map or a map *)
  op_name : string;
  op_hash : option string                      (* extensions.persistedQuery present: its sha256Hash *)
}.

(* encoding/json into a string field: absent or null leaves "", a string sets it, anything else is an error *)
Definition dec_string (o : option json) : res string :=
  match o with
  | None | Some JNull => Ok ""
  | Some (JStr s) => Ok s
  | Some _ => Err "cannot unmarshal into string"
  end.

Definition dec_int_ok (o : option json) : bool :=
  match o with
  | None | Some JNull => true
  | Some (JNum lit) => match atoi lit with Some _ => true | None => false end
  | Some _ => false
  end.

(* json.Unmarshal into *HTTPOperation: Ok None is the nil pointer a JSON null produces *)
Definition decode_op (j : json) : res (option httpop) :=
  match j with
  | JNull => Ok None
  | JObj m =>
      q <- dec_string (jget "query" m) ;;
      vars <- match jget "variables" m with
              | None | Some JNull => Ok None
              | Some (JObj v) => Ok (Some v)
              | Some _ => Err "cannot unmarshal into map"
              end ;;
      name <- dec_string (jget "operationName" m) ;;
      hash <- match jget "extensions" m with
              | None | Some JNull => Ok None
              | Some (JObj e) =>
                  match jget "persistedQuery" e with
                  | None | Some JNull => Ok None
                  | Some (JObj pq) =>
                      if dec_int_ok (jget "version" pq) then
                        h <- dec_string (jget "sha256Hash" pq) ;; Ok (Some h)
                      else Err "cannot unmarshal into int"
                  | Some _ => Err "cannot unmarshal into struct"
                  end
              | Some _ => Err "cannot unmarshal into struct"
              end ;;
      Ok (Some {| op_query := q; op_vars := vars; op_name := name; op_hash := hash |})
  | _ => Err "cannot unmarshal into struct"
  end.

Fixpoint decode_batch (l : list json) : res (list httpop) :=
  match l with
  | [] => Ok []
  | j :: r => o <- decode_op j ;;
              match o with
              | None => Err "operation must be an object, not null"
              | Some op => ops <- decode_batch r ;; Ok (op :: ops)
              end
  end.

(* parseOperations; the input is None when the bytes are not valid JSON *)
Definition parse_operations (b : option json) : res (list httpop * bool) :=
  match b with
  | None => Err "encountered error parsing operationsJSON"
  | Some j =>
      match decode_op j with
      | Ok (Some op) => Ok ([op], false)
      | Ok None => Err "operation must be an object, not null"
      | _ => match j with
             | JArr l => ops <- decode_batch l ;; Ok (ops, true)
             | _ => Err "encountered error parsing operationsJSON"
             end
      end
  end.

Inductive meth := MGet | MPost | MOther.

(* a GET request, as url.Values: the first value of each parameter that is present; variables
   and extensions already run through json (None = not valid JSON) *)
Record getreq := {
  g_query : option string;
  g_vars : option (option json);
  g_name : option string;
  g_ext : option (option json)
}.

Definition parse_get (g : getreq) : res (list httpop) :=
  let q := match g_query g with Some s => s | None => "" end in
  let vars_r : res (option (list (string * json))) :=
    match g_vars g with
    | None => Ok None
    | Some (Some (JObj v)) => Ok (Some v)
    | Some (Some JNull) => Ok (Some [])          (* unmarshalling null leaves the fresh empty map *)
    | Some _ => Err "variables must be a json object"
    end in
  let ext_r : res (option string) :=
    match g_ext g with
    | None => Ok None
    | Some None => Err "invalid extensions"
    | Some (Some JNull) => Ok None
    | Some (Some (JObj e)) =>
        match jget "persistedQuery" e with
        | None | Some JNull => Ok None
        | Some (JObj pq) =>
            if dec_int_ok (jget "version" pq) then h <- dec_string (jget "sha256Hash" pq) ;; Ok (Some h)
            else Err "cannot unmarshal into int"
        | Some _ => Err "cannot unmarshal into struct"
        end
    | Some (Some _) => Err "cannot unmarshal into struct"
    end in
  vars <- vars_r ;; hash <- ext_r ;;
  Ok [{| op_query := q; op_vars := vars; op_name := match g_name g with Some s => s | None => "" end; op_hash := hash |}].

(* what one operation does when it is planned and executed on its own *)
Inductive outcome :=
| PlanError                                  (* GetPlans fails *)
| ExecOk (data : json)                       (* data, no error *)
| ExecErr (data : json) (nerrs : nat).       (* data (JNull when none) and a non-empty error list *)

(* the response entry of one operation: (data, number of errors, echoed hash) *)
Definition entry := (json * nat * option string)%type.

Definition cache_key (op : httpop) : string := match op_hash op with Some h => h | None => "" end.

Definition runs (op : httpop) (o : outcome) : bool :=
  negb (String.eqb (op_query op) "" && String.eqb (cache_key op) "") &&
  match o with PlanError => false | _ => true end.

Definition op_entry (op : httpop) (o : outcome) : entry * option nat (* status override *) :=
  if String.eqb (op_query op) "" && String.eqb (cache_key op) "" then ((JNull, 1, None), Some 422)
  else match o with
       | PlanError => ((JNull, 1, None), Some 400)
       | ExecOk d => ((d, 0, if String.eqb (cache_key op) "" then None else Some (cache_key op)), None)
       | ExecErr d n => ((d, n, None), None)
       end.

Definition last_status (l : list (option nat)) : nat :=
  fold_left (fun acc s => match s with Some c => c | None => acc end) l 200.

Inductive body := BSingle (e : entry) | BBatch (l : list entry).

(* one outcome per operation (a missing one counts as a planning failure) *)
Fixpoint zip_outs (ops : list httpop) (outs : list outcome) : list (httpop * outcome) :=
  match ops, outs with
  | [], _ => []
  | op :: r, o :: r' => (op, o) :: zip_outs r r'
  | op :: r, [] => (op, PlanError) :: zip_outs r []
  end.

(* GraphQLHandler once the payload is parsed: the operations and what each yields on its own *)
Definition respond (ops : list httpop) (batch : bool) (outs : list outcome) : res (nat * body) :=
  let es := map (fun p => op_entry (fst p) (snd p)) (zip_outs ops outs) in
  let status := last_status (map snd es) in
  if batch then Ok (status, BBatch (map fst es))
  else match es with
       | e :: _ => Ok (status, BSingle (fst e))
       | [] => Panic "index out of range [0] with length 0"
       end.

(* the whole handler for JSON posts and GETs; a payload error answers with one error entry *)
Inductive request :=
| RGet (g : getreq)
| RPostJSON (ctype : string) (b : option json)
| ROther.

Definition ctype_ok (ct : string) : bool :=
  match split ";" ct with
  | c :: _ => String.eqb c "text/plain" || String.eqb c "application/json" || String.eqb c ""
  | [] => false
  end.

Definition handle (r : request) (outs : list outcome) : res (nat * body * list bool (* which operations ran *)) :=
  match r with
  | ROther => Ok (405, BSingle (JNull, 1, None), [])
  | RGet g =>
      match parse_get g with
      | Ok ops => x <- respond ops false outs ;; Ok (fst x, snd x, map (fun p => runs (fst p) (snd p)) (zip_outs ops outs))
      | _ => Ok (422, BSingle (JNull, 1, None), [])
      end
  | RPostJSON ct b =>
      if negb (ctype_ok ct) then Ok (422, BSingle (JNull, 1, None), [])
      else match parse_operations b with
           | Ok (ops, batch) => x <- respond ops batch outs ;; Ok (fst x, snd x, map (fun p => runs (fst p) (snd p)) (zip_outs ops outs))
           | _ => Ok (422, BSingle (JNull, 1, None), [])
           end
  end.

(* ---- the batch as a concurrent program: each operation stores its entry at its own index;
        the completion order is an arbitrary sequence of the indexes ---- *)
Definition store_all {A} (k : nat) (resp : nat -> A) (order : list nat) : list (option A) :=
  fold_left (fun acc i => upd_nth acc i (Some (resp i))) order (repeat None k).

(* execute.go: ParallelExecutor.Execute / executeStep / the result collector, as a labelled
   transition system over a *realised call tree* (one node per (step, realised insertion point)).
   Written from the skeletons verified_execute_Execute and verified_execute_executeStep
   (Verified.v): a step task calls its service, adds its dependents to the wait group, sends its
   result into the bounded result channel, then spawns one task per dependent and ends; the single
   collector takes results in FIFO order, stitches them, records the error of a failed step, and
   marks the step done; Execute returns when the wait group reaches zero. *)
From Coq Require Import List Arith Bool Lia.
Import ListNotations.

Inductive ctree := Node (id : nat) (fails : bool) (kids : list ctree).
Definition kids_of t := match t with Node _ _ k => k end.
Definition id_of t := match t with Node i _ _ => i end.
Definition fails_of t := match t with Node _ f _ => f end.

(* program counter of a step task *)
Inductive pc :=
| PCall                       (* about to call the service *)
| PAdded                      (* called; dependents added to the wait group; about to send *)
| PSent (rest : list ctree).  (* result sent; these dependents are still to be spawned (non-empty) *)

Record task := { t_node : ctree; t_pc : pc }.

Record st := {
  tasks : list task;
  rch : list (nat * bool);    (* the result channel, oldest first *)
  wg : nat;                   (* the wait group counter *)
  called : list nat;          (* service calls issued, in order *)
  ins : list nat;             (* results stitched, in order *)
  errs : list nat;            (* errors recorded, in order *)
  ret : bool                  (* Execute has returned *)
}.

Section WithCap.
  Variable rcap : nat.        (* maxResultBuffer *)

  Definition set_tasks (s : st) (ts : list task) : st :=
    {| tasks := ts; rch := rch s; wg := wg s; called := called s; ins := ins s; errs := errs s; ret := ret s |}.

  (* the steps task t (at position pre|t|post) can take *)
  Definition task_steps (s : st) (pre : list task) (t : task) (post : list task) : list st :=
    let n := t_node t in
    match t_pc t with
    | PCall =>
        [ {| tasks := pre ++ {| t_node := n; t_pc := PAdded |} :: post; rch := rch s;
             wg := wg s + length (kids_of n); called := called s ++ [id_of n];
             ins := ins s; errs := errs s; ret := ret s |} ]
    | PAdded =>
        if length (rch s) <? rcap then
          let after := match kids_of n with
                       | [] => pre ++ post
                       | ks => pre ++ {| t_node := n; t_pc := PSent ks |} :: post
                       end in
          [ {| tasks := after; rch := rch s ++ [(id_of n, fails_of n)]; wg := wg s; called := called s;
               ins := ins s; errs := errs s; ret := ret s |} ]
        else []
    | PSent [] => [ set_tasks s (pre ++ post) ]
    | PSent [k] => [ set_tasks s (pre ++ post ++ [ {| t_node := k; t_pc := PCall |} ]) ]
    | PSent (k :: ks) =>
        [ set_tasks s (pre ++ {| t_node := n; t_pc := PSent ks |} :: post ++ [ {| t_node := k; t_pc := PCall |} ]) ]
    end.

  Fixpoint all_task_steps (s : st) (pre : list task) (l : list task) : list st :=
    match l with
    | [] => []
    | t :: post => task_steps s pre t post ++ all_task_steps s (pre ++ [t]) post
    end.

  (* the collector: take the oldest result, stitch it, record its error if it failed, Done *)
  Definition coll_steps (s : st) : list st :=
    match rch s with
    | (i, f) :: r =>
        [ {| tasks := tasks s; rch := r; wg := wg s - 1; called := called s; ins := ins s ++ [i];
             errs := if f then errs s ++ [i] else errs s; ret := ret s |} ]
    | [] => []
    end.

  (* Execute: stepWg.Wait() returns when the counter is zero *)
  Definition main_steps (s : st) : list st :=
    if wg s =? 0 then
      [ {| tasks := tasks s; rch := rch s; wg := 0; called := called s; ins := ins s; errs := errs s; ret := true |} ]
    else [].

  Definition steps (s : st) : list st :=
    if ret s then [] else all_task_steps s [] (tasks s) ++ coll_steps s ++ main_steps s.

  Definition init (roots : list ctree) : st :=
    {| tasks := map (fun r => {| t_node := r; t_pc := PCall |}) roots; rch := []; wg := length roots;
       called := []; ins := []; errs := []; ret := false |}.

  (* reachability *)
  Inductive reach (roots : list ctree) : st -> Prop :=
  | reach_init : reach roots (init roots)
  | reach_step s s' : reach roots s -> In s' (steps s) -> reach roots s'.
End WithCap.

(* ---- sizes and node lists ---- *)
Fixpoint ids (t : ctree) : list nat :=
  match t with Node i _ k => i :: flat_map ids k end.

Fixpoint failing (t : ctree) : list nat :=
  match t with Node i f k => (if f then [i] else []) ++ flat_map failing k end.

(* remaining work of a subtree: call, send, collect, and per dependent one spawn plus its work *)
Fixpoint work (t : ctree) : nat :=
  match t with Node _ _ k => 3 + fold_right (fun c acc => 1 + work c + acc) 0 k end.

Definition works (l : list ctree) : nat := fold_right (fun c acc => 1 + work c + acc) 0 l.

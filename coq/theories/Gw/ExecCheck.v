(* Correspondence and property oracles for the executor protocol (C05, C06, C07, C13). *)
From Coq Require Import List Arith Bool.
From GW Require Import Gw.ExecLTS.
Import ListNotations.

(* a deterministic scheduler: always the first enabled step *)
Fixpoint run_first (rcap fuel : nat) (s : st) : st :=
  match fuel with
  | O => s
  | S f => match steps rcap s with s' :: _ => run_first rcap f s' | [] => s end
  end.

(* another one: the last enabled step (the collector lags, Wait comes last) *)
Fixpoint run_last (rcap fuel : nat) (s : st) : st :=
  match fuel with
  | O => s
  | S f => match rev (steps rcap s) with s' :: _ => run_last rcap f s' | [] => s end
  end.

Definition measure0 (roots : list ctree) : nat := works roots + 1.

Definition count (x : nat) (l : list nat) : nat := length (filter (Nat.eqb x) l).
Definition same_multiset (a b : list nat) : bool :=
  Nat.eqb (length a) (length b) && forallb (fun x => Nat.eqb (count x a) (count x b)) a.

Fixpoint index_of (x : nat) (l : list nat) : option nat :=
  match l with [] => None | y :: r => if Nat.eqb x y then Some 0 else option_map S (index_of x r) end.

(* (parent id, child id) pairs of a forest *)
Fixpoint edges (t : ctree) : list (nat * nat) :=
  match t with Node i _ k => map (fun c => (i, id_of c)) k ++ flat_map edges k end.

Definition before (a b : nat) (l : list nat) : bool :=
  match index_of a l, index_of b l with Some i, Some j => Nat.ltb i j | _, _ => false end.

Record observed := {
  ob_returned : bool;          (* Execute returned (no hang) *)
  ob_called : list nat;        (* node ids in the order the services saw the calls *)
  ob_ins : list nat;           (* node ids in the order the collector stitched them *)
  ob_errs : list nat;          (* node ids whose failure is in the returned error list *)
  ob_late_calls : nat;         (* service calls that started after Execute returned *)
  ob_outstanding : nat;        (* service calls still running when Execute returned *)
  ob_changed_after : bool;     (* the response changed after Execute returned *)
  ob_leaked : nat              (* goroutines left over after a settle delay *)
}.

(* the model, under two different schedulers, ends returned with exactly the observed multisets *)
Definition model_agrees (rcap : nat) (roots : list ctree) (o : observed) : bool :=
  let f := run_first rcap (measure0 roots + 1) (init roots) in
  let l := run_last rcap (measure0 roots + 1) (init roots) in
  ret f && ret l && ob_returned o &&
  same_multiset (called f) (ob_called o) && same_multiset (ins f) (ob_ins o) && same_multiset (errs f) (ob_errs o) &&
  same_multiset (called l) (ob_called o) && same_multiset (ins l) (ob_ins o) && same_multiset (errs l) (ob_errs o).

(* the properties, on the observation alone *)
Definition all_ids (roots : list ctree) : list nat := flat_map ids roots.
Definition all_failing (roots : list ctree) : list nat := flat_map failing roots.

(* C06: returns, after all its work, leaving nothing behind *)
Definition c06_holds (roots : list ctree) (o : observed) : bool :=
  ob_returned o && same_multiset (ob_called o) (all_ids roots) && same_multiset (ob_ins o) (all_ids roots) &&
  Nat.eqb (ob_late_calls o) 0 && Nat.eqb (ob_outstanding o) 0 && negb (ob_changed_after o) && Nat.eqb (ob_leaked o) 0.

(* ... the same for plans the transition system does not speak of (two steps that deliver one key,
   the later reply leaving nothing to stitch the dependents' results into): Execute returned, no
   call was issued or still running afterwards, nothing is left behind, the response stays as it is *)
Definition quiescent_return (o : observed) : bool :=
  ob_returned o && Nat.eqb (ob_late_calls o) 0 && Nat.eqb (ob_outstanding o) 0 && negb (ob_changed_after o) && Nat.eqb (ob_leaked o) 0.

(* C07 (protocol part): the error list holds exactly the failures that occurred *)
Definition c07_errors_exact (roots : list ctree) (o : observed) : bool :=
  ob_returned o && same_multiset (ob_errs o) (all_failing roots).

(* C13 (protocol part): every realised fetch is issued exactly once *)
Definition c13_once (roots : list ctree) (o : observed) : bool :=
  same_multiset (ob_called o) (all_ids roots).

(* C05 (protocol part): a parent's result is stitched before any of its children's, and a child
   is only called after its parent *)
Definition c05_order (roots : list ctree) (o : observed) : bool :=
  forallb (fun pc => before (fst pc) (snd pc) (ob_ins o) && before (fst pc) (snd pc) (ob_called o)) (flat_map edges roots).

(* C14 oracle: the gateway's answer to an introspection query against the specification's
   (Gw/Introspect.v).  Objects are compared modulo key order.  Where the specification prescribes
   null for a list-valued meta field on a kind it does not apply to (fields of a scalar, enumValues
   of an object, ...) the wrapper library the gateway uses answers the empty list: the two are
   taken as equal (a deliberate leniency, see DESIGN.md). *)
From Coq Require Import String List Bool Arith.
From GW Require Import Base.GoStr Base.Json Gql.Syntax Gql.Schema Gql.Spec.
From GW Require Import Gw.Introspect.
Import ListNotations.
Open Scope string_scope.
Open Scope list_scope.

Fixpoint lenient_eqb (a b : json) {struct a} : bool :=
  match a, b with
  | JNull, JArr [] => true
  | JArr [], JNull => true
  | JArr x, JArr y =>
      (fix go (x y : list json) {struct x} : bool :=
         match x, y with
         | [], [] => true
         | p :: x', q :: y' => lenient_eqb p q && go x' y'
         | _, _ => false
         end) x y
  | JObj x, JObj y =>
      (fix go (x y : list (string * json)) {struct x} : bool :=
         match x, y with
         | [], [] => true
         | (k, p) :: x', (k', q) :: y' => String.eqb k k' && lenient_eqb p q && go x' y'
         | _, _ => false
         end) x y
  | _, _ => json_eqb a b
  end.

Definition intro_equiv (a b : json) : bool := lenient_eqb (canon a) (canon b).

(* the known-finding class of C14: a document that uses @skip or @include anywhere *)
Definition cond_dir (d : directive) : bool := String.eqb (d_name d) "skip" || String.eqb (d_name d) "include".
Fixpoint sel_has_cond (s : sel) : bool :=
  match s with
  | Field _ _ _ dirs sub => existsb cond_dir dirs || (fix go (l : list sel) := match l with [] => false | x :: r => sel_has_cond x || go r end) sub
  | Inline _ dirs sub => existsb cond_dir dirs || (fix go (l : list sel) := match l with [] => false | x :: r => sel_has_cond x || go r end) sub
  | Spread _ dirs => existsb cond_dir dirs
  end.
Definition c14_guards (frags : list fragdef) (sels : list sel) : list nat :=
  if existsb sel_has_cond sels || existsb (fun f => existsb sel_has_cond (f_sel f)) frags then [6] else [].

Definition c14_holds (isch : ischema) (frags : list fragdef) (vars : list (string * json)) (fuel : nat)
           (sels : list sel) (cls : nat) (data : json) : bool :=
  Nat.eqb cls 0 && intro_equiv (JObj (intro_root isch frags vars fuel "Query" sels)) data.

(* where two answers differ (for replay files and debugging): paths of the first differences *)
Fixpoint jdiff (fuel : nat) (path : string) (a b : json) {struct fuel} : list string :=
  match fuel with
  | O => []
  | S f =>
      match a, b with
      | JNull, JArr [] => []
      | JArr [], JNull => []
      | JArr x, JArr y =>
          if negb (Nat.eqb (length x) (length y)) then [(path ++ ": list lengths differ")%string]
          else flat_map (fun pq => jdiff f (path ++ "[]")%string (fst pq) (snd pq)) (combine x y)
      | JObj x, JObj y =>
          flat_map (fun kv => match jget (fst kv) y with
                              | Some v => jdiff f (path ++ "." ++ fst kv)%string (snd kv) v
                              | None => [(path ++ "." ++ fst kv ++ ": missing in the answer")%string]
                              end) x ++
          flat_map (fun kv => match jget (fst kv) x with
                              | Some _ => []
                              | None => [(path ++ "." ++ fst kv ++ ": not in the reference")%string]
                              end) y
      | _, _ => if json_eqb a b then [] else [(path ++ ": values differ")%string]
      end
  end.

Definition c14_diff (isch : ischema) (frags : list fragdef) (vars : list (string * json)) (fuel : nat)
           (sels : list sel) (data : json) : list string :=
  firstn 6 (jdiff 40 "" (JObj (intro_root isch frags vars fuel "Query" sels)) data).

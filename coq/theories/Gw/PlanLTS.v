(* plan.go: generatePlans.  For every operation of the document the planner keeps a list of steps
   still to be built; it takes the first, builds it (extractSelection), which can fail and can add
   further steps at the end of the list, and goes on until the list is empty.  One loop, no
   goroutine, no channel: nothing bounds the list and nothing runs when the function has returned
   (regenerated skeleton: coq/obligations/Obl_C08.v).

   A planning run is abstracted to its *step tree*: one node per payload, whether building it fails,
   and the payloads it adds. *)
From Coq Require Import String List Arith Bool Lia.
From GW Require Import Base.Res.
Import ListNotations.
Open Scope string_scope.
Open Scope list_scope.

Inductive ptree := PNode (fails : bool) (kids : list ptree).

Fixpoint psize (t : ptree) : nat :=
  match t with PNode _ kids => S (fold_right (fun k acc => psize k + acc) 0 kids) end.
Definition psizes (l : list ptree) : nat := fold_right (fun k acc => psize k + acc) 0 l.

(* some payload fails to build *)
Fixpoint pfails (t : ptree) : bool :=
  match t with PNode f kids => f || existsb pfails kids end.

(* the loop of generatePlans for one operation: steps built so far, or the error *)
Fixpoint plan_loop (fuel : nat) (steps : list ptree) (built : nat) : res nat :=
  match fuel with
  | O => Panic "out of fuel"
  | S fuel' =>
      match steps with
      | [] => Ok built
      | PNode fails kids :: rest =>
          if fails then Err "planning error" else plan_loop fuel' (rest ++ kids) (S built)
      end
  end.

(* generatePlans: one plan per operation, the first error ends planning *)
Fixpoint plan_all (fuel : nat) (ops : list ptree) : res (list nat) :=
  match ops with
  | [] => Ok []
  | o :: r =>
      n <- plan_loop fuel [o] 0 ;;
      rest <- plan_all fuel r ;;
      Ok (n :: rest)
  end.

(* what the harness sees of one planning run *)
Definition plan_outcome_agrees (t : ptree) (returned_plan : bool) (nsteps : nat) : bool :=
  match plan_loop (S (psize t)) [t] 0 with
  | Ok n => returned_plan && Nat.eqb n nsteps
  | Err _ => negb returned_plan
  | Panic _ => false
  end.

(* the oracle of C08 on one observed planning run: it returned (a plan or an error: no panic, no
   hang), with a plan when the document is valid, with the expected number of steps when that is
   known, and nothing it started is still running *)
Definition c08_holds (valid : bool) (expect_steps : nat) (cls nsteps gbefore gafter : nat) : bool :=
  (Nat.eqb cls 0 || Nat.eqb cls 1) && (negb valid || Nat.eqb cls 0) &&
  (Nat.eqb expect_steps 0 || negb (Nat.eqb cls 0) || Nat.eqb nsteps expect_steps) &&
  Nat.leb gafter gbefore.

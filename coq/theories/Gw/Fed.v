(* The whole request path as one executable function, for documents without named fragment spreads
   and runs without faults: plan (Gw/Plan.v) -> one call per step and realised insertion point,
   answered by the services (Gql/Spec.v on the shared data graph; a follow-up fetch is
   node(id) { ... on T { step's selection } }) -> insertion points (Gw/Points.v) -> stitching
   (Gw/Points.v) -> scrubbing of the join ids (Gw/Scrub.v, Gw/Points.v).  It is compared, case by
   case, with what the gateway returns and with the reference answer. *)
From Coq Require Import String List Bool Arith ZArith.
From GW Require Import Base.Res Base.GoStr Base.Json Gql.Syntax Gql.Spec Gw.Locate Gw.Plan Gw.Points Gw.Scrub.
Import ListNotations.
Open Scope string_scope.
Open Scope list_scope.

(* per field: the named type it returns, whether it is a list, whether it is non-null *)
Definition fshape := list (string * (string * (bool * bool))).

Fixpoint shape_of (k : string) (m : fshape) : option (string * (bool * bool)) :=
  match m with [] => None | (k', v) :: r => if String.eqb k k' then Some v else shape_of k r end.

(* graphql.ApplyFragments on a step's selection, with the declared shape of every field: one entry
   per response key, sub-selections merged *)
Fixpoint add_fsel (key : string) (is_list nonnull : bool) (sub : list fsel) (acc : list fsel) : list fsel :=
  match acc with
  | [] => [FS key is_list nonnull sub]
  | FS k l n s :: r => if String.eqb k key then FS k l n (s ++ sub) :: r else FS k l n s :: add_fsel key is_list nonnull sub r
  end.

(* the entries of one level are merged by response key first, and only then each merged
   sub-selection in turn (fieldSet.Add recurses into one set per key) *)
Fixpoint merge_fsels (fuel : nat) (l : list fsel) : list fsel :=
  match fuel with
  | O => l
  | S f => map (fun x => match x with FS k li nn sub => FS k li nn (merge_fsels f sub) end)
               (fold_left (fun acc x => match x with FS k li nn sub => add_fsel k li nn sub acc end) l [])
  end.

Fixpoint flat_sel (fuel : nat) (sh : fshape) (ptype : string) (s : sel) {struct fuel} : list fsel :=
  match fuel with
  | O => []
  | S f =>
      match s with
      | Field alias name _ _ sub =>
          let key := rkey alias name in
          match shape_of (ptype ++ "." ++ name)%string sh with
          | Some (t, (li, nn)) => [FS key li nn (flat_map (flat_sel f sh t) sub)]
          | None => [FS key false false (flat_map (flat_sel f sh "") sub)]
          end
      | Inline tcond _ sub => flat_map (flat_sel f sh (if String.eqb tcond "" then ptype else tcond)) sub
      | Spread _ _ => []
      end
  end.

Definition flatten (fuel : nat) (sh : fshape) (ptype : string) (sels : list sel) : list fsel :=
  merge_fsels fuel (flat_map (flat_sel fuel sh ptype) sels).

Section Fed.
  Variable w : world.
  Variable vars : list (string * json).
  Variable sh : fshape.
  Variable fuel : nat.

  Definition last_point_id (p : list string) : string :=
    match rev p with
    | s :: _ => match get_point_data s with Ok d => pd_id d | _ => "" end
    | [] => ""
    end.

  (* what the service answers to a follow-up fetch of [sels] on type [ptype] for the object [id];
     execute.go binds the variable id to the point's id for every follow-up fetch, over whatever
     the client bound under that name *)
  Definition node_answer (ptype : string) (sels : list sel) (id : string) : res json :=
    match find_obj id (w_objs w) with
    | Some o => Ok (exec fuel w [] (("id", JStr id) :: vars) (Some o) (b_type o) [Inline ptype [] sels])
    | None => Err "service returned no object for node"
    end.

  Definition obj_fields (j : json) : list (string * json) := match j with JObj m => m | _ => [] end.

  (* a step has been answered with [result] and stitched at [start]; now its dependents *)
  Fixpoint run_thens (n : nat) (sels_of_parent : list sel) (ptype_of_parent : string) (thens : list pstep)
           (start : list string) (result : json) (acc : json) {struct n} : res json :=
    match n with
    | O => Err "step nesting exceeds fuel"
    | S n' =>
        fold_left (fun racc c =>
          acc0 <- racc ;;
          match c with
          | PStep _ ptype ipoint sels thens' =>
              pts <- find_insertion_points ipoint (flatten fuel sh ptype_of_parent sels_of_parent) (obj_fields result) start ;;
              fold_left (fun racc2 p =>
                acc1 <- racc2 ;;
                r <- node_answer ptype sels (last_point_id p) ;;
                acc2 <- insert_object acc1 p r ;;
                run_thens n' sels ptype thens' p r acc2) pts (Ok acc0)
          end) thens (Ok acc)
    end.

  (* Execute: the root steps, each answered at the root and stitched at the top *)
  Definition run_plan (root_type : string) (plan : pstep) : res json :=
    match plan with
    | PStep _ _ _ _ roots =>
        fold_left (fun racc c =>
          acc0 <- racc ;;
          match c with
          | PStep _ ptype _ sels thens' =>
              let r := exec fuel w [] vars None root_type sels in
              acc1 <- insert_object acc0 [] r ;;
              run_thens fuel sels ptype thens' [] r acc1
          end) roots (Ok (JObj []))
    end.

  (* the built-in first response middleware *)
  Definition scrub_all_paths (client : list fsel) (paths : list (list string)) (data : json) : res json :=
    fold_left (fun racc p => d <- racc ;; scrub_location "id" client d p) paths (Ok data).
End Fed.

(* the whole path for one operation *)
Definition gateway_answer (fuel : nat) (prios : list string) (urls : urlmap) (ft : ftypes) (sh : fshape)
           (w : world) (vars : list (string * json)) (root_type : string) (sels : list sel) (client : list ksel) : res json :=
  plan <- plan_operation prios urls ft fuel root_type sels ;;
  data <- run_plan w vars sh fuel root_type plan ;;
  paths <- scrub_fields fuel client plan ;;
  scrub_all_paths (flatten fuel sh root_type sels) paths data.

Definition fed_agrees (fuel : nat) prios urls ft sh w vars (root_type : string) (sels : list sel) (client : list ksel)
           (frags : list fragdef) (observed_class : nat) (observed : json) : bool :=
  match frags with
  | _ :: _ => true
  | [] =>
      negb (Nat.eqb observed_class 0) ||
      match gateway_answer fuel prios urls ft sh w vars root_type sels client with
      | Ok d => json_equiv d observed
      | _ => false
      end
  end.

(* ---------- the same with named fragments: the full planner model, each step's own definitions ---------- *)
From GW Require Import Gw.Plan2.

Fixpoint flat_sel2 (fuel : nat) (sh : fshape) (frags : list fragdef) (ptype : string) (s : sel) {struct fuel} : list fsel :=
  match fuel with
  | O => []
  | S f =>
      match s with
      | Field alias name _ _ sub =>
          let key := rkey alias name in
          match shape_of (ptype ++ "." ++ name)%string sh with
          | Some (t, (li, nn)) => [FS key li nn (flat_map (flat_sel2 f sh frags t) sub)]
          | None => [FS key false false (flat_map (flat_sel2 f sh frags "") sub)]
          end
      | Inline tcond _ sub => flat_map (flat_sel2 f sh frags (if String.eqb tcond "" then ptype else tcond)) sub
      | Spread name _ =>
          match frag_for name frags with
          | Some d => flat_map (flat_sel2 f sh frags (f_tcond d)) (f_sel d)
          | None => []
          end
      end
  end.

Definition flatten2 (fuel : nat) (sh : fshape) (frags : list fragdef) (ptype : string) (sels : list sel) : list fsel :=
  merge_fsels fuel (flat_map (flat_sel2 fuel sh frags ptype) sels).

Section Fed2.
  Variable w : world.
  Variable vars : list (string * json).
  Variable sh : fshape.
  Variable fuel : nat.

  Definition node_answer2 (frags : list fragdef) (ptype : string) (sels : list sel) (id : string) : res json :=
    match find_obj id (w_objs w) with
    | Some o => Ok (exec fuel w frags (("id", JStr id) :: vars) (Some o) (b_type o) [Inline ptype [] sels])
    | None => Err "service returned no object for node"
    end.

  Fixpoint run_thens2 (n : nat) (sels_of_parent : list sel) (frags_of_parent : list fragdef) (ptype_of_parent : string)
           (thens : list fstep) (start : list string) (result : json) (acc : json) {struct n} : res json :=
    match n with
    | O => Err "step nesting exceeds fuel"
    | S n' =>
        fold_left (fun racc c =>
          acc0 <- racc ;;
          match c with
          | FStep _ ptype ipoint sels frags thens' =>
              pts <- find_insertion_points ipoint (flatten2 fuel sh frags_of_parent ptype_of_parent sels_of_parent) (obj_fields result) start ;;
              fold_left (fun racc2 p =>
                acc1 <- racc2 ;;
                r <- node_answer2 frags ptype sels (last_point_id p) ;;
                acc2 <- insert_object acc1 p r ;;
                run_thens2 n' sels frags ptype thens' p r acc2) pts (Ok acc0)
          end) thens (Ok acc)
    end.

  Definition run_plan2 (root_type : string) (plan : fstep) : res json :=
    match plan with
    | FStep _ _ _ _ _ roots =>
        fold_left (fun racc c =>
          acc0 <- racc ;;
          match c with
          | FStep _ ptype _ sels frags thens' =>
              let r := exec fuel w frags vars None root_type sels in
              acc1 <- insert_object acc0 [] r ;;
              run_thens2 fuel sels frags ptype thens' [] r acc1
          end) roots (Ok (JObj []))
    end.
End Fed2.

(* the scrub walk only looks at insertion points and dependents *)
Fixpoint forget_frags (s : fstep) : pstep :=
  match s with
  | FStep l t ip ss _ th => PStep l t ip ss ((fix go (l : list fstep) := match l with [] => [] | x :: r => forget_frags x :: go r end) th)
  end.

Definition gateway_answer2 (fuel : nat) (prios : list string) (urls : urlmap) (ft : ftypes) (sh : fshape)
           (w : world) (vars : list (string * json)) (frags : list fragdef) (root_type : string) (sels : list sel)
           (client : list ksel) : res json :=
  plan <- plan_operation2 prios urls ft frags fuel root_type sels ;;
  data <- run_plan2 w vars sh fuel root_type plan ;;
  paths <- scrub_fields fuel client (forget_frags plan) ;;
  scrub_all_paths (flatten2 fuel sh frags root_type sels) paths data.

Definition fed2_agrees (fuel : nat) prios urls ft sh w vars (frags : list fragdef) (root_type : string) (sels : list sel)
           (client : list ksel) (observed_class : nat) (observed : json) : bool :=
  negb (Nat.eqb observed_class 0) ||
  match gateway_answer2 fuel prios urls ft sh w vars frags root_type sels client with
  | Ok d => json_equiv d observed
  | _ => false
  end.

(* gateway.go: the split of middlewares by kind in New, and the post-execution loop of
   Gateway.Execute; execute.go:245-251: request middlewares handed to every capable queryer. *)
From Coq Require Import String List Bool Arith.
From GW Require Import Base.Res Base.Json.
Import ListNotations.
Open Scope string_scope.
Open Scope list_scope.

(* what a response middleware does in the harness: it logs its id, may set one key of the data it
   is handed (when there is data), and may fail *)
Record respmw := { rm_id : nat; rm_edit : option (string * json); rm_fails : bool }.

Inductive middleware := MResp (m : respmw) | MReq (id : nat).

(* New: "switch mware := mware.(type)" *)
Definition response_mws (l : list middleware) : list respmw :=
  flat_map (fun m => match m with MResp r => [r] | MReq _ => [] end) l.
Definition request_mws (l : list middleware) : list nat :=
  flat_map (fun m => match m with MReq i => [i] | MResp _ => [] end) l.

Definition data := option (list (string * json)).   (* nil map or a map *)

Definition apply_edit (r : respmw) (d : data) : data :=
  match d, rm_edit r with
  | Some m, Some (k, v) => Some (jset k v m)
  | _, _ => d
  end.

Record outcome := {
  oc_log : list nat;          (* ids of the response middlewares that ran, in order *)
  oc_seen : list data;        (* the data each of them was handed *)
  oc_data : data;             (* data returned by Gateway.Execute *)
  oc_err : option nat         (* None: no error; Some 0: the executor's error; Some (S i): middleware i's *)
}.

(* for _, ware := range g.responseMiddlewares { if err := ware(ctx, result); err != nil { return nil, err } } *)
Fixpoint run_response (l : list respmw) (d : data) (exec_err : bool) (log : list nat) (seen : list data) : outcome :=
  match l with
  | [] => {| oc_log := log; oc_seen := seen; oc_data := d; oc_err := if exec_err then Some 0 else None |}
  | r :: rest =>
      let d' := apply_edit r d in
      if rm_fails r then {| oc_log := log ++ [rm_id r]; oc_seen := seen ++ [d]; oc_data := None; oc_err := Some (S (rm_id r)) |}
      else run_response rest d' exec_err (log ++ [rm_id r]) (seen ++ [d])
  end.

(* Gateway.Execute after the executor returned (exec_data, exec_err) and the built-in scrubber
   turned the data into [scrubbed] (or failed) *)
Definition is_empty (d : data) : bool := match d with None | Some [] => true | _ => false end.

Definition gateway_finish (mws : list middleware) (scrub_fails : bool) (scrubbed : data) (exec_err : bool) : outcome :=
  if scrub_fails then {| oc_log := []; oc_seen := []; oc_data := None; oc_err := Some 1 |}
  else run_response (response_mws mws) scrubbed exec_err [] [].

(* the nil-ing of an empty result when execution failed (gateway.go:94-96) *)
Definition after_executor (exec_data : data) (exec_err : bool) : data :=
  if exec_err && is_empty exec_data then None else exec_data.

(* execute.go: every call to a queryer that accepts middlewares gets the whole request list (and
   WithMiddlewares is not called at all when the list is empty) *)
Definition call_request_mws (mws : list middleware) (ncalls : nat) : list (list nat) :=
  repeat (request_mws mws) ncalls.

(* ---- comparing with the implementation ---- *)

Fixpoint nat_list_eqb (a b : list nat) : bool :=
  match a, b with [], [] => true | x :: a', y :: b' => Nat.eqb x y && nat_list_eqb a' b' | _, _ => false end.

Definition data_eqb (a b : data) : bool :=
  match a, b with
  | None, None => true
  | Some x, Some y => json_equiv (JObj x) (JObj y)
  | _, _ => false
  end.

Fixpoint datas_eqb (a b : list data) : bool :=
  match a, b with [], [] => true | x :: a', y :: b' => data_eqb x y && datas_eqb a' b' | _, _ => false end.

Definition opt_nat_eqb (a b : option nat) : bool :=
  match a, b with None, None => true | Some x, Some y => Nat.eqb x y | _, _ => false end.

Record observed := {
  ob_scrub_fails : bool;
  ob_exec_err : bool;
  ob_log : list nat;
  ob_seen : list data;
  ob_data : data;
  ob_err : option nat;          (* same coding as oc_err; Some 1 also for a scrubber failure *)
  ob_calls : list (list nat)    (* per outbound call to a capable queryer: request middleware ids applied *)
}.

Definition model_agrees (mws : list middleware) (o : observed) : bool :=
  let first_seen := match ob_seen o with d :: _ => d | [] => ob_data o end in
  let m := gateway_finish mws (ob_scrub_fails o) first_seen (ob_exec_err o) in
  (ob_scrub_fails o ||
   (nat_list_eqb (oc_log m) (ob_log o) && datas_eqb (oc_seen m) (ob_seen o) &&
    data_eqb (oc_data m) (ob_data o) && opt_nat_eqb (oc_err m) (ob_err o))) &&
  forallb (fun c => nat_list_eqb c (request_mws mws)) (ob_calls o).

(* "after the gateway's join identifiers have been removed": when the client's operation selects no
   field under the response key id anywhere, no object the first response middleware is handed has
   a key id (whatever is there was put there by the planner) *)
Fixpoint has_key (k : string) (j : json) {struct j} : bool :=
  match j with
  | JArr l => (fix any (l : list json) : bool := match l with [] => false | x :: r => has_key k x || any r end) l
  | JObj m => (fix any (m : list (string * json)) : bool :=
                 match m with [] => false | (k', v) :: r => String.eqb k k' || has_key k v || any r end) m
  | _ => false
  end.

Definition ids_removed (o : observed) : bool :=
  match ob_seen o with Some d :: _ => negb (has_key "id" (JObj d)) | _ => true end.

(* the property, on the observation alone *)
Fixpoint prefix_upto_fail (l : list respmw) : list respmw :=
  match l with [] => [] | r :: rest => if rm_fails r then [r] else r :: prefix_upto_fail rest end.

Definition first_failing (l : list respmw) : option nat :=
  match filter rm_fails l with r :: _ => Some (S (rm_id r)) | [] => None end.

Definition property_holds (mws : list middleware) (o : observed) : bool :=
  let rs := response_mws mws in
  (ob_scrub_fails o ||
   ((* exactly once each, in registration order, up to and including the first failing one *)
    nat_list_eqb (ob_log o) (map rm_id (prefix_upto_fail rs)) &&
    (* on success and on failure alike: the error is the first failing middleware's, else the executor's *)
    opt_nat_eqb (ob_err o) (match first_failing rs with Some e => Some e | None => if ob_exec_err o then Some 0 else None end) &&
    (* the data they leave is the data returned *)
    match first_failing rs with
    | Some _ => data_eqb (ob_data o) None
    | None => data_eqb (ob_data o)
                (fold_left (fun d r => apply_edit r d) rs (match ob_seen o with d :: _ => d | [] => ob_data o end))
    end)) &&
  (* every outbound call carries every request middleware, in order *)
  forallb (fun c => nat_list_eqb c (request_mws mws)) (ob_calls o).

(* Correspondence and property oracle for C20: compares the location assignment computed by the
   model (Gw.Locate.route) with the assignment read off the implementation's plan, and evaluates
   the rule of the property on the implementation's assignment alone. *)
From Coq Require Import String List Bool.
From GW Require Import Base.Res Base.GoStr Gql.Syntax Gw.Locate.
Import ListNotations.
Open Scope string_scope.
Open Scope list_scope.

Record obs_field := { of_path : list string; of_name : string; of_loc : string }.
Record observed := { ob_planned : bool; ob_fields : list obs_field }.

Definition key_of (path : list string) (name loc : string) : string :=
  (join "/" path ++ "|" ++ name ++ "|" ++ loc)%string.

Definition subset (a b : list string) : bool := forallb (fun x => str_mem x b) a.

Definition model_agrees (fuel : nat) prios urls ft frags (root : string) (sels : list sel) (o : observed) : bool :=
  match route_sels fuel prios urls ft frags root "" [] sels with
  | Ok l =>
      ob_planned o &&
      let mk := map (fun r => key_of (r_path r) (r_name r) (r_loc r)) l in
      let ok := map (fun x => key_of (of_path x) (of_name x) (of_loc x)) (ob_fields o) in
      subset mk ok && subset ok mk
  | Err _ => negb (ob_planned o)
  | Panic _ => false
  end.

(* field occurrences of the client's query, without any location: (response path, name, type it is selected on) *)
Record occ := { oc_path : list string; oc_name : string; oc_tcond : string }.

Fixpoint occs (fuel : nat) (ft : ftypes) (frags : list fragdef) (ptype : string) (path : list string) (s : sel)
  {struct fuel} : list occ :=
  match fuel with
  | O => []
  | S fuel' =>
      (fix one (ptype : string) (path : list string) (s : sel) {struct s} : list occ :=
         let many :=
           fix many (ptype : string) (path : list string) (l : list sel) {struct l} : list occ :=
             match l with [] => [] | x :: r => one ptype path x ++ many ptype path r end in
         match s with
         | Field alias name _ _ sub =>
             let p := path ++ [rkey alias name] in
             {| oc_path := p; oc_name := name; oc_tcond := ptype |} ::
             match assoc (url_key ptype name) ft with
             | Some t => many t p sub
             | None => []
             end
         | Inline tcond _ sub => many (if String.eqb tcond "" then ptype else tcond) path sub
         | Spread name _ =>
             match frag_for name frags with
             | None => []
             | Some f => flat_map (occs fuel' ft frags (f_tcond f) path) (f_sel f)
             end
         end) ptype path s
  end.

Fixpoint path_eqb (a b : list string) : bool :=
  match a, b with
  | [], [] => true
  | x :: a', y :: b' => String.eqb x y && path_eqb a' b'
  | _, _ => false
  end.

Definition parent_locs (obs : list obs_field) (path : list string) : list string :=
  match removelast path with
  | [] => [""]
  | pp => map of_loc (filter (fun o => path_eqb (of_path o) pp) obs)
  end.

Definition justified prios (urls : urlmap) (ocs : list occ) (obs : list obs_field) (o : obs_field) : bool :=
  existsb (fun oc =>
    path_eqb (oc_path oc) (of_path o) && String.eqb (oc_name oc) (of_name o) &&
    match assoc (url_key (oc_tcond oc) (oc_name oc)) urls with
    | Some possible => existsb (fun pl => spec_locb prios possible pl (of_loc o)) (parent_locs obs (of_path o))
    | None => false
    end) ocs.

Definition covered (ocs : list occ) (obs : list obs_field) : bool :=
  forallb (fun oc => existsb (fun o => path_eqb (oc_path oc) (of_path o) && String.eqb (oc_name oc) (of_name o)) obs) ocs.

Definition property_holds (fuel : nat) prios urls ft frags (root : string) (sels : list sel) (o : observed) : bool :=
  let ocs := flat_map (occs fuel ft frags root []) sels in
  ob_planned o && forallb (justified prios urls ocs (ob_fields o)) (ob_fields o) && covered ocs (ob_fields o).

(* Introspection as the GraphQL specification prescribes it (section 4, "Schema Introspection"),
   as a function of the schema and the selection: what `__schema`, `__type(name:)` and the meta
   fields of __Schema, __Type, __Field, __InputValue, __EnumValue and __Directive answer.  This is
   the reference internal.go's hand-written resolvers are compared with; it is written from the
   specification and the introspection types of the schema the gateway validates against
   (gqlparser's prelude), not from internal.go.

   Selections are collected per the execution rules (Gql/Spec.v: response keys, merged
   sub-selections, @skip/@include, fragments); every introspection type is an object type, so a
   valid fragment's type condition always matches. *)
From Coq Require Import String Ascii List Bool Arith.
From GW Require Import Base.GoStr Base.Json Gql.Syntax Gql.Schema Gql.Spec.
Import ListNotations.
Open Scope string_scope.
Open Scope list_scope.

(* what the schema record does not carry *)
Record ischema := {
  is_schema : schema;
  is_desc : string;
  is_query : string; is_mutation : string; is_subscription : string;   (* "" when absent *)
  is_repeatable : list string;                     (* names of repeatable directives *)
  is_possible : list (string * list string)        (* abstract type -> possible types, in the schema's order *)
}.

Definition no_world : world := {| w_objs := []; w_roots := []; w_possible := []; w_ftypes := [] |}.

Definition opt_str (s : string) : json := if String.eqb s "" then JNull else JStr s.

Definition kind_name (k : kind) : string :=
  match k with
  | KScalar => "SCALAR" | KObject => "OBJECT" | KInterface => "INTERFACE" | KUnion => "UNION"
  | KEnum => "ENUM" | KInputObject => "INPUT_OBJECT"
  end.

(* a __Type: a named definition, or a wrapper *)
Inductive tref := TDef (d : definition) | TNonNull (inner : ty) | TListOf (elem : ty).

Definition tref_of (types : list definition) (t : ty) : option tref :=
  match t with
  | TNamed n false => match find_def n types with Some d => Some (TDef d) | None => None end
  | TNamed n true => Some (TNonNull (TNamed n false))
  | TList e false => Some (TListOf e)
  | TList e true => Some (TNonNull (TList e false))
  end.

(* the text of a string constant: Value.String() prints it quoted *)
Definition unquote (s : string) : string :=
  match s with
  | String c r => if Ascii.eqb c """"%char then substring 0 (String.length r - 1) r else s
  | EmptyString => s
  end.

Definition deprecated_of (dirs : list dirapp) : option dirapp := find_dir "deprecated" dirs.

(* the reason argument of @deprecated; its default when the directive is applied without one *)
Definition deprecation_reason (dirs : list dirapp) : json :=
  match deprecated_of dirs with
  | None => JNull
  | Some d => match find (fun kv => String.eqb (fst kv) "reason") (da_args d) with
              | Some (_, Some v) => JStr (unquote (gv_str v))
              | _ => JStr "No longer supported"
              end
  end.

Definition is_deprecated (dirs : list dirapp) : bool := match deprecated_of dirs with Some _ => true | None => false end.

Definition is_meta (n : string) : bool :=
  match n with String c1 (String c2 _) => Ascii.eqb c1 "_"%char && Ascii.eqb c2 "_"%char | _ => false end.

Definition arg_true (vars : list (string * json)) (args : list (string * value)) (name : string) : bool :=
  match lookup name args with Some v => arg_bool vars v | None => false end.

Section Intro.
  Variable isch : ischema.
  Variable frags : list fragdef.
  Variable vars : list (string * json).
  Notation types := (s_types (is_schema isch)).

  Definition fields_of (rt : string) (sels : list sel) (fuel : nat) : list collected :=
    fst (collect fuel no_world frags vars rt [] sels []).

  (* one object of the answer: every collected response key, resolved by [resolve] *)
  Definition answer (cs : list collected) (resolve : collected -> json) : json :=
    JObj (map (fun c => (c_key c, resolve c)) cs).

  Definition default_json (d : option gval) : json := match d with Some v => JStr (gv_str v) | None => JNull end.

  Fixpoint intro_type (fuel : nat) (t : tref) (sels : list sel) {struct fuel} : json :=
    match fuel with
    | O => JNull
    | S fuel' =>
        let type_of (ty0 : option ty) (sub : list sel) : json :=
          match ty0 with
          | Some ty1 => match tref_of types ty1 with Some r => intro_type fuel' r sub | None => JNull end
          | None => JNull
          end in
        let named (n : string) (sub : list sel) : json :=
          match find_def n types with Some d => intro_type fuel' (TDef d) sub | None => JNull end in
        let input_value (a : argdef) (sub : list sel) : json :=
          answer (fields_of "__InputValue" sub fuel') (fun c =>
            match c_name c with
            | "__typename" => JStr "__InputValue"
            | "name" => JStr (ad_name a)
            | "description" => opt_str (ad_desc a)
            | "type" => type_of (ad_type a) (c_sub c)
            | "defaultValue" => default_json (ad_default a)
            | _ => JNull
            end) in
        let input_field (f : fielddef) (sub : list sel) : json :=
          answer (fields_of "__InputValue" sub fuel') (fun c =>
            match c_name c with
            | "__typename" => JStr "__InputValue"
            | "name" => JStr (fd_name f)
            | "description" => opt_str (fd_desc f)
            | "type" => type_of (fd_type f) (c_sub c)
            | "defaultValue" => default_json (fd_default f)
            | _ => JNull
            end) in
        let field (f : fielddef) (sub : list sel) : json :=
          answer (fields_of "__Field" sub fuel') (fun c =>
            match c_name c with
            | "__typename" => JStr "__Field"
            | "name" => JStr (fd_name f)
            | "description" => opt_str (fd_desc f)
            | "args" => JArr (map (fun a => input_value a (c_sub c)) (fd_args f))
            | "type" => type_of (fd_type f) (c_sub c)
            | "isDeprecated" => JBool (is_deprecated (fd_dirs f))
            | "deprecationReason" => deprecation_reason (fd_dirs f)
            | _ => JNull
            end) in
        let enum_value (e : enumval) (sub : list sel) : json :=
          answer (fields_of "__EnumValue" sub fuel') (fun c =>
            match c_name c with
            | "__typename" => JStr "__EnumValue"
            | "name" => JStr (ev_name e)
            | "description" => opt_str (ev_desc e)
            | "isDeprecated" => JBool (is_deprecated (ev_dirs e))
            | "deprecationReason" => deprecation_reason (ev_dirs e)
            | _ => JNull
            end) in
        answer (fields_of "__Type" sels fuel') (fun c =>
          let incl := arg_true vars (c_args c) "includeDeprecated" in
          match c_name c with
          | "__typename" => JStr "__Type"
          | "kind" => JStr (match t with TDef d => kind_name (df_kind d) | TNonNull _ => "NON_NULL" | TListOf _ => "LIST" end)
          | "name" => match t with TDef d => JStr (df_name d) | _ => JNull end
          | "description" => match t with TDef d => opt_str (df_desc d) | _ => JNull end
          | "fields" =>
              match t with
              | TDef d =>
                  match df_kind d with
                  | KObject | KInterface =>
                      JArr (map (fun f => field f (c_sub c))
                              (filter (fun f => negb (is_meta (fd_name f)) && (incl || negb (is_deprecated (fd_dirs f)))) (df_fields d)))
                  | _ => JNull
                  end
              | _ => JNull
              end
          | "interfaces" =>
              match t with
              | TDef d => match df_kind d with
                          | KObject => JArr (map (fun n => named n (c_sub c)) (df_ifaces d))
                          | _ => JNull
                          end
              | _ => JNull
              end
          | "possibleTypes" =>
              match t with
              | TDef d => match df_kind d with
                          | KInterface | KUnion =>
                              JArr (map (fun n => named n (c_sub c))
                                      (match lookup (df_name d) (is_possible isch) with Some l => l | None => [] end))
                          | _ => JNull
                          end
              | _ => JNull
              end
          | "enumValues" =>
              match t with
              | TDef d => match df_kind d with
                          | KEnum => JArr (map (fun e => enum_value e (c_sub c))
                                             (filter (fun e => incl || negb (is_deprecated (ev_dirs e))) (df_enums d)))
                          | _ => JNull
                          end
              | _ => JNull
              end
          | "inputFields" =>
              match t with
              | TDef d => match df_kind d with
                          | KInputObject => JArr (map (fun f => input_field f (c_sub c)) (df_fields d))
                          | _ => JNull
                          end
              | _ => JNull
              end
          | "ofType" =>
              match t with
              | TDef _ => JNull
              | TNonNull inner => type_of (Some inner) (c_sub c)
              | TListOf elem => type_of (Some elem) (c_sub c)
              end
          | "specifiedByURL" =>
              match t with
              | TDef d =>
                  match df_kind d, find_dir "specifiedBy" (df_dirs d) with
                  | KScalar, Some da => match find (fun kv => String.eqb (fst kv) "url") (da_args da) with
                                        | Some (_, Some v) => JStr (unquote (gv_str v))
                                        | _ => JNull
                                        end
                  | _, _ => JNull
                  end
              | _ => JNull
              end
          | _ => JNull
          end)
    end.

  Definition intro_named (fuel : nat) (n : string) (sels : list sel) : json :=
    if String.eqb n "" then JNull
    else match find_def n types with Some d => intro_type fuel (TDef d) sels | None => JNull end.

  Definition intro_directive (fuel : nat) (d : dirdef) (sels : list sel) : json :=
    answer (fields_of "__Directive" sels fuel) (fun c =>
      match c_name c with
      | "__typename" => JStr "__Directive"
      | "name" => JStr (dd_name d)
      | "description" => opt_str (dd_desc d)
      | "locations" => JArr (map JStr (dd_locs d))
      | "isRepeatable" => JBool (str_mem (dd_name d) (is_repeatable isch))
      | "args" =>
          JArr (map (fun a =>
            answer (fields_of "__InputValue" (c_sub c) fuel) (fun c2 =>
              match c_name c2 with
              | "__typename" => JStr "__InputValue"
              | "name" => JStr (ad_name a)
              | "description" => opt_str (ad_desc a)
              | "type" => match ad_type a with
                          | Some ty1 => match tref_of types ty1 with Some r => intro_type fuel r (c_sub c2) | None => JNull end
                          | None => JNull
                          end
              | "defaultValue" => default_json (ad_default a)
              | _ => JNull
              end)) (dd_args d))
      | _ => JNull
      end).

  Definition intro_schema (fuel : nat) (sels : list sel) : json :=
    answer (fields_of "__Schema" sels fuel) (fun c =>
      match c_name c with
      | "__typename" => JStr "__Schema"
      | "description" => opt_str (is_desc isch)
      | "types" => JArr (map (fun d => intro_type fuel (TDef d) (c_sub c)) types)
      | "queryType" => intro_named fuel (is_query isch) (c_sub c)
      | "mutationType" => intro_named fuel (is_mutation isch) (c_sub c)
      | "subscriptionType" => intro_named fuel (is_subscription isch) (c_sub c)
      | "directives" => JArr (map (fun d => intro_directive fuel d (c_sub c)) (s_dirs (is_schema isch)))
      | _ => JNull
      end).

  (* the introspection fields of a query's root selection; other root fields are not answered here *)
  Definition intro_root (fuel : nat) (root : string) (sels : list sel) : list (string * json) :=
    flat_map (fun c =>
      match c_name c with
      | "__schema" => [(c_key c, intro_schema fuel (c_sub c))]
      | "__type" =>
          [(c_key c, match lookup "name" (c_args c) with
                     | Some a => match arg_json vars a with JStr n => intro_named fuel n (c_sub c) | _ => JNull end
                     | None => JNull
                     end)]
      | "__typename" => [(c_key c, JStr root)]
      | _ => []
      end) (fields_of root sels fuel).
End Intro.

(* Correspondence and property oracle for C12. *)
From Coq Require Import String List Bool ZArith Arith.
From GW Require Import Base.Res Base.GoStr Gw.Cache.
Import ListNotations.
Open Scope string_scope.
Open Scope list_scope.

(* the harness's planner: plans are tagged with the query text; texts containing "bad" are rejected *)
Fixpoint contains_sub (sub s : string) : bool :=
  match s with
  | EmptyString => String.eqb sub ""
  | String _ r => String.prefix sub s || contains_sub sub r
  end.

Definition h_plan (q : string) : res string := if contains_sub "bad" q then Err "planner rejects" else Ok q.

Definition h_sha (table : list (string * string)) (q : string) : string :=
  match find (fun kv => String.eqb (fst kv) q) table with Some kv => snd kv | None => "sha-unknown" end.

Inductive hevent := HReq (q h : string) | HIdle.

(* logical clock: one tick per request, an idle period is three TTLs followed by the sweep *)
Definition h_ttl : Z := 1000%Z.

Fixpoint to_events (h : list hevent) (now : Z) : list event :=
  match h with
  | [] => []
  | HReq q hh :: r => Req {| r_query := q; r_hash := hh |} now :: to_events r (now + 1)%Z
  | HIdle :: r => Sweep (now + 3000)%Z :: to_events r (now + 3001)%Z
  end.

(* observed answer: tag of the plans | not found | planner error, and the key handed back *)
Inductive oanswer := OPlans (tag : string) | ONotFound | OPlanError.

Definition answer_eqb (a : answer string) (o : oanswer) : bool :=
  match a, o with
  | APlans _ p, OPlans t => String.eqb p t
  | ANotFound _, ONotFound => true
  | APlanError _, OPlanError => true
  | _, _ => false
  end.

Fixpoint outs_eqb (m : list (answer string * string)) (o : list (oanswer * string)) : bool :=
  match m, o with
  | [], [] => true
  | (a, k) :: m', (oa, ok) :: o' =>
      answer_eqb a oa && (match oa with OPlans _ => String.eqb k ok | _ => true end) && outs_eqb m' o'
  | _, _ => false
  end.

Definition model_agrees (table : list (string * string)) (h : list hevent) (obs : list (oanswer * string)) : bool :=
  outs_eqb (snd (run string h_plan (h_sha table) h_ttl [] (to_events h 0%Z))) obs.

(* ---- the property on the observations alone (for histories in which a hash always comes with
        the same text) ---- *)
Definition key_text (table : list (string * string)) (bound : list (string * string)) (k : string) : option string :=
  match find (fun kv => String.eqb (fst kv) k) bound with
  | Some kv => Some (snd kv)
  | None => match find (fun kv => String.eqb (snd kv) k) table with Some kv => Some (fst kv) | None => None end
  end.

(* walks the history keeping: hash -> text bindings seen so far, and the keys used since the last idle period *)
Fixpoint c12_walk (table bound : list (string * string)) (fresh : list string)
         (h : list hevent) (obs : list (oanswer * string)) : bool :=
  match h, obs with
  | [], [] => true
  | HIdle :: r, _ => c12_walk table bound [] r obs
  | HReq q hh :: r, (oa, ok) :: obs' =>
      let bound' := if negb (String.eqb q "") && negb (String.eqb hh "") then (hh, q) :: bound else bound in
      let key := if String.eqb hh "" then h_sha table q else hh in
      let good :=
        match oa with
        | OPlans tag =>
            (* never a wrong or foreign plan: the plans are those of the text the key stands for *)
            match key_text table bound' key with Some t => String.eqb tag t | None => false end &&
            (String.eqb q "" || String.eqb tag q) && String.eqb ok key
        | ONotFound => String.eqb q "" && negb (str_mem hh fresh)   (* only hash-only, and never for an entry used within the TTL *)
        | OPlanError => negb (String.eqb q "") && contains_sub "bad" q
        end &&
        (* a request with a text the planner accepts is answered with plans *)
        (String.eqb q "" || contains_sub "bad" q || match oa with OPlans _ => true | _ => false end) in
      good && c12_walk table bound' (match oa with OPlans _ => key :: fresh | _ => fresh end) r obs'
  | _, _ => false
  end.

Definition property_holds (table : list (string * string)) (h : list hevent) (obs : list (oanswer * string)) : bool :=
  c12_walk table [] [] h obs.

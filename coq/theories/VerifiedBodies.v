(* The bodies — control flow, conditions, loop and switch heads, calls of the package's own functions, stores
   through indexes and appends; assignments to locals and returned expressions erased — of the functions of
   nautilus/gateway that the models of the planner (Gw/Plan.v, Plan2.v, Scrub.v, Vars.v), of one executor step and
   the stitching (Gw/Points.v, Fed.v), of the gateway's Execute (Gw/Select.v, Middleware.v), of the HTTP layer
   (Gw/Http.v, Inject.v) and of the introspection resolvers (Gw/Introspect.v) were written from: output of
   /verif/translator on the tree they were written against.  Every check of the properties concerned
   regenerates them from the working tree and proves them equal to these (coq/obligations/Obl_Cxx.v). *)
From Coq Require Import String.
Open Scope string_scope.

Definition verified_plan_groupSelectionSet : string :=
  "(Range [config.selection] {(Switch (Case [*ast.Field] {(Call .URLFor)(If [err != nil] {(Return)})(Call .selectLocation)(Append locationFields[location])(StoreAt locationFields[location])})(Case [*ast.FragmentSpread] {(If [defn == nil] {(If [defn == nil] {(Return)})})(Range [defn.SelectionSet] {(Switch (Case [*ast.Field] {(Call .URLFor)(If [err != nil] {(Return)})(Call .selectLocation)(Append fragmentLocations[fieldLocation])(StoreAt fragmentLocations[fieldLocation])})(Case [*ast.FragmentSpread, *ast.InlineFragment] {(Append fragmentLocations[config.parentLocation])(StoreAt fragmentLocations[config.parentLocation])}))})(Range [fragmentLocations] {(Append locationFields[location])(StoreAt locationFields[location])(If [locationFragments[location].ForName(selection.Name) == nil] {(Append locationFragments[location])(StoreAt locationFragments[location])})})})(Case [*ast.InlineFragment] {(Range [selection.SelectionSet] {(Switch (Case [*ast.Field] {(Call .URLFor)(If [err != nil] {(Return)})(Call .selectLocation)(Append fragmentLocations[fieldLocation])(StoreAt fragmentLocations[fieldLocation])})(Case [*ast.FragmentSpread, *ast.InlineFragment] {(Append fragmentLocations[config.parentLocation])(StoreAt fragmentLocations[config.parentLocation])}))})(Range [fragmentLocations] {(Append locationFields[location])(StoreAt locationFields[location])})}))})(Return)".

Definition verified_plan_wrapSelectionSet : string :=
  "(Range [config.wrapper] {(Switch (Case [*ast.InlineFragment] {})(Case [*ast.FragmentSpread] {(Append locationFragments[location])(StoreAt locationFragments[location])}))})(If [ok] {} else {(If [ok] {(If [defn == nil] {(Return)})})})(Return)".

Definition verified_plan_extractSelection_cond : string :=
  "(Call .groupSelectionSet)(If [err != nil] {(Return)})(Range [locationFields] {(If [location == config.parentLocation] {(Continue)})(If [config.wrapper != nil && len(config.wrapper) > 0] {(Call .wrapSelectionSet)(If [err != nil] {(Return)})})(Append *config.steps)})(If [checkForID] {(Append locationFields[config.parentLocation])(StoreAt locationFields[config.parentLocation])})(If [!ok] {(Return)})(Range [currentLocationFields] {(Switch (Case [*ast.Field] {(If [len(selection.SelectionSet) > 0] {(Call copyStrings)(Append insertionPoint)(Call .extractSelection)(If [err != nil] {(Return)})})(Append finalSelection)})(Case [*ast.FragmentSpread] {(Append finalSelection)(Call .extractSelection)(If [err != nil] {(Return)})(If [addDefn] {(Append config.step.FragmentDefinitions)})})(Case [*ast.InlineFragment] {(Append newWrapper)(Call .extractSelection)(If [err != nil] {(Return)})(Append finalSelection)}))})(Return)".

Definition verified_plan_generatePlans_cond : string :=
  "(Range [query.Operations] {(Append plans)(For [len(steps) > 0] {(Call .GetQueryer)(If [payload.Parent != nil] {(Append payload.Parent.Then)})(Call .extractSelection)(If [err != nil] {(Return)})(Range [step.Variables] {(Append variableDefs)})(Call plannerBuildQuery)(If [err != nil] {(Return)})})})(Return)".

Definition verified_plan_plannerBuildQuery : string :=
  "(If [parentType == typeNameQuery || parentType == typeNameMutation || parentType == typeNameSubscription] {} else {(If [variables.ForName(""id"") == nil] {(Append operation.VariableDefinitions)})})(Return)".

Definition verified_plan_generateScrubFields : string :=
  "(Range [plans] {(If [err != nil] {(Return)})(Range [plan.RootStep.Then] {(Call .generateScrubFieldsWalk)(If [err != nil] {(Return)})(Range [childScrubs] {(Range [values] {(If [!containsPath(fieldsToScrub[field], value)] (Call containsPath){(Append fieldsToScrub[field])(StoreAt fieldsToScrub[field])})})})})})(Return)".

Definition verified_plan_generateScrubFieldsWalk : string :=
  "(Range [insertionPoint] {(Range [graphql.SelectedFields(targetSelection)] {(If [field.Alias == point || (field.Alias == """" && field.Name == point)] {(Break)})})(If [!foundField] {(Return)})})(If [!naturalID && len(insertionPoint) > 0] {(Append acc[""id""])(StoreAt acc[""id""])})(Range [step.Then] {(Call .generateScrubFieldsWalk)(If [err != nil] {(Return)})(Range [childScrubs] {(Append acc[id])(StoreAt acc[id])})})(Return)".

Definition verified_plan_containsPath : string :=
  "(Range [paths] {(If [len(candidate) != len(path)] {(Continue)})(Range [candidate] {(If [candidate[i] != path[i]] {(Break)})})(If [same] {(Return)})})(Return)".

Definition verified_plan_Plan : string :=
  "(If [e != nil] {(Return)})(If [len(parsedQuery.Operations) == 0] {(Return)})(Call .generatePlans)(If [err != nil] {(Return)})(Call .generateScrubFields)(If [err != nil] {(Return)})(Return)".

Definition verified_execute_executeOneStep : string :=
  "(Range [step.Variables] {(If [ok] {(StoreAt variables[variable])})})(If [len(insertionPoint) > 0] {(Call max)(Call executorGetPointData)(If [err != nil] {(Return)})(If [pointData.ID == """"] {(Return)})(StoreAt variables[""id""])})(If [step.Queryer == nil] {(Return)})(If [len(ctx.RequestMiddlewares) > 0] {(If [ok] {(Call .WithMiddlewares)})})(Call .Query)(If [stripNode] {(If [(!ok || node == nil) && queryErr == nil] {(Return)})(Call executorExtractValue)(If [err != nil] {(Return)})(If [!ok] {(Return)})})(If [len(step.Then) > 0] {(Range [step.Then] {(Call executorFindInsertionPoints)(If [err != nil] {(Return)})(Range [insertPoints] {(Append dependentSteps)})})})(Return)".

Definition verified_execute_findSelection : string :=
  "(If [err != nil] {(Return)})(Range [selectionSetFragments] {(If [ok && (selection.Alias == matchString || (selection.Alias == """" && selection.Name == matchString))] {(Return)})})(Return)".

Definition verified_execute_executorFindInsertionPoints_cond : string :=
  "(If [len(oldBranch) > 0] {(If [len(targetPoints) == len(oldBranch[0])] {(Return)})})(For [pointI < len(targetPoints)] {(Call findSelection)(If [err != nil] {(Return)})(If [foundSelection == nil] {(Return)})(If [!ok] {(Return)})(If [rootValue == nil] {(If [selectionType.NonNull] {(Return)})(Return)})(If [selectionType.Elem != nil] {(If [!ok] {(Return)})(Range [rootList] {(If [iEntry == nil] {(Continue)})(If [!ok] {(Return)})(Range [oldBranch] {(Append newBranchSet)(Call copyStrings)})(If [len(newBranchSet) > 0] {(Range [newBranchSet] {(If [pointI == len(targetPoints)-1] {(If [!ok] {(Return)})})(Append newBranchSet[i])(StoreAt newBranchSet[i])})} else {(Append newBranchSet)})(Call executorFindInsertionPoints)(If [err != nil] {(Return)})(Append newInsertionPoints)})(Return)})(Range [oldBranch] {(Append oldBranch[i])(StoreAt oldBranch[i])})(If [pointI == len(targetPoints)-1] {(If [ok] {(Range [oldBranch] {(If [i >= len(rootList)] {(Return)})(If [!ok] {(Return)})(Lock x0)(Unlock x0)(If [!ok] {(Return)})(StoreAt oldBranch[i][pointI])})} else {(If [!ok] {(Return)})(Range [oldBranch] {(If [!ok] {(Return)})(StoreAt oldBranch[i][pointI])})})})})(Return)".

Definition verified_execute_isListElement : string :=
  "(Return)".

Definition verified_execute_executorExtractValue_cond : string :=
  "(Range [path] {(If [isListElement(point)] (Call isListElement){(Call executorGetPointData)(If [err != nil] {(Return)})(If [!ok] {(Return)})(If [!ok] {(Lock x0)(StoreAt recentObj[pointData.Field])(Unlock x0)})(Lock x0)(Unlock x0)(If [!ok] {(Return)})(If [len(targetList) <= pointData.Index] {(For [i < pointData.Index] {(Append targetList)})(Lock x0)(StoreAt recentObj[pointData.Field])(Unlock x0)})(Lock x0)(Unlock x0)} else {(Call executorGetPointData)(If [err != nil] {(Return)})(If [!ok] {(Return)})(Lock x0)(Unlock x0)(If [i != len(path)-1 && targetObject == nil] {(Lock x0)(StoreAt recentObj[pointField])(Unlock x0)})(If [targetObject == nil] {(StoreAt recentObj[pointField])})})})(Return)".

Definition verified_execute_executorInsertObject_cond : string :=
  "(If [len(path) > 0] {(Call executorExtractValue)(If [err != nil] {(Return)})(If [!ok] {(Return)})(If [ok] {(Lock x0)(Call executorMergeObject)(Unlock x0)})} else {(If [!ok] {(Return)})(Lock x0)(Call executorMergeObject)(Unlock x0)})(Return)".

Definition verified_execute_executorMergeObject : string :=
  "(Range [source] {(Call executorMergeValue)(StoreAt target[key])})".

Definition verified_execute_executorMergeValue : string :=
  "(Switch (Case [map[string]interface{}] {(If [ok] {(Call executorMergeObject)(Return)})})(Case [[]interface{}] {(If [ok && len(existingList) == len(value)] {(Range [value] {(Call executorMergeValue)(StoreAt existingList[i])})(Return)})}))(Return)".

Definition verified_execute_executorGetPointData : string :=
  "(If [strings.Contains(field, "":"")] {(If [err != nil] {(Return)})})(Return)".

Definition verified_execute_Execute_cond : string :=
  "(MakeChan x0 maxResultBuffer)(Defer (Close x0))(MakeChan x1 0)(Defer (Close x1))(If [len(ctx.Plan.RootStep.Then) == 0] {(Return)})(Range [ctx.Plan.RootStep.Then] {(Add x2 1)(Go executeStep)})(Closure recordErr {(Lock x3)(If [errors.As(err, &errList)] {(Append errs)} else {(Append errs)})(Unlock x3)(Done x2)})(Go {(For {(Select (On (Recv x0) {(If [!ok] {(Return)})(Call executorInsertObject)(Switch (Case [payload.Err != nil] {(CallLocal recordErr)})(Case [insertErr != nil] {(CallLocal recordErr)})(Case [default] {(Done x2)}))})(On (Recv x1) {(Return)}))})})(Wait x2)(Lock x3)(Defer (Unlock x3))(If [nErrs > 0] {(Return)})(Return)".

Definition verified_middlewares_scrubInsertionIDs_cond : string :=
  "(Range [ctx.Plan.FieldsToScrub] {(Range [locations] {(Call executorFindInsertionPoints)(If [err != nil] {(Return)})(Range [insertionPoints] {(Call executorExtractValue)(If [err != nil] {(Return)})(If [!ok] {(Return)})})})})(Return)".

Definition verified_gateway_Execute_cond : string :=
  "(If [len(plans) == 1] {} else {(If [ctx.OperationName == """"] {(Return)})(Call .ForOperation)(If [err != nil] {(Return)})})(Call .Execute)(Range [g.responseMiddlewares] {(If [err != nil] {(Return)})})(Return)".

Definition verified_gateway_GetPlans : string :=
  "(Call .Retrieve)(Return)".

Definition verified_http_formatErrors : string :=
  "(Call formatErrorsWithCode)(Return)".

Definition verified_http_formatErrorsWithCode : string :=
  "(If [!errors.As(err, &errList)] {} else {(Range [errList] {(Append formatted)})})(Return)".

Definition verified_http_GraphQLHandler_cond : string :=
  "(Call parseRequest)(If [payloadErr != nil] {(Call formatErrors)(Return)})(Range [operations] {(If [operation.Query == """" && cacheKey == """"] {(Call formatErrorsWithCode)(StoreAt results[opNum])(Continue)})(Call .GetPlans)(If [err != nil] {(Call formatErrorsWithCode)(StoreAt results[opNum])(Continue)})(Add x0 1)(Go g.executeRequest)})(Wait x0)(If [err != nil] {(Call formatErrors)(If [err != nil] {(Call formatErrors)})})(Call emitResponse)".

Definition verified_http_executeRequest_cond : string :=
  "(Defer (Done x0))(Call .Execute)(If [err != nil] {(Call formatErrorsWithCode)(Return)})(If [requestContext.CacheKey != """"] {(StoreAt payload[""extensions""])})".

Definition verified_http_parseRequest : string :=
  "(Switch [r.Method] (Case [http.MethodGet] {(Call parseGetRequest)})(Case [http.MethodPost] {(Call parsePostRequest)})(Case [default] {}))(Return)".

Definition verified_http_parseGetRequest : string :=
  "(Call .Query)(Return)".

Definition verified_http_parsePostRequest : string :=
  "(If [len(contentTypes) == 0] {(Return)})(Switch [contentType] (Case [""text/plain"", ""application/json"", """"] {(If [err != nil] {(Return)})(Call parseOperations)(Return)})(Case [""multipart/form-data""] {(If [parseErr != nil] {(Return)})(Call parseOperations)(If [err != nil] {(Return)})(Range [filePosMap] {(If [err != nil] {(Return)})(Call injectFile)(If [err != nil] {(Return)})})(Return)})(Case [default] {(Return)}))".

Definition verified_http_parseOperations : string :=
  "(If [err == nil] {(If [singleQuery == nil] {(Return)})(Append operations)} else {(If [err != nil] {} else {(Range [batch] {(If [operation == nil] {(Break)})})})})(Return)".

Definition verified_http_injectFile : string :=
  "(Range [paths] {(If [batchMode] {(If [err != nil] {(Return)})})(If [len(parts) == 0 || parts[0] != ""variables""] {(Return)})(If [len(parts) < minPathParts] {(Return)})(If [idx < 0 || idx >= len(operations) || operations[idx] == nil] {(Return)})(For [i < len(parts)] {(Switch (Case [map[string]interface{}] {(If [!ok] {(Return)})(If [isTarget] {(If [val != nil] {(Return)})(StoreAt container[parts[i]])})})(Case [[]interface{}] {(If [err != nil] {(Return)})(If [index < 0 || index >= len(container)] {(Return)})(If [isTarget] {(If [container[index] != nil] {(Return)})(StoreAt container[index])})})(Case [default] {(Return)}))})})(Return)".

Definition verified_http_emitResponse : string :=
  "".

Definition verified_internal_Query : string :=
  "(If [input.QueryDocument == nil && input.Query != """"] {(Call .internalSchema)(If [err != nil] {(Return)})(If [len(loadErr) > 0] {(Return)})})(If [err != nil] {(Return)})(Range [graphql.SelectedFields(querySelection)] {(Switch [field.Name] (Case [""__typename""] {(StoreAt result[field.Alias])(If [operation.Operation == ast.Mutation] {(StoreAt result[field.Alias])} else {(If [operation.Operation == ast.Subscription] {(StoreAt result[field.Alias])})})})(Case [""__schema""] {(Call .introspectSchema)(StoreAt result[field.Alias])})(Case [""__type""] {(If [err != nil] {(Return)})(Range [introspectionSchema.Types()] {(If [*schemaType.Name() == name] {(Break)})})(If [introspectedType == nil] {(StoreAt result[field.Alias])} else {(Call .introspectType)(StoreAt result[field.Alias])})})(Case [default] {(Range [g.queryFields] {(If [field.Name == qField.Name] {(Range [field.Arguments] {(If [err != nil] {(Return)})(StoreAt args[arg.Name])})(If [err != nil] {(Return)})(StoreAt result[field.Alias])})})}))})(If [err != nil] {(Return)})(If [err != nil] {(Return)})(Return)".

Definition verified_internal_introspectSchema : string :=
  "(Range [graphql.SelectedFields(selectionSet)] {(Switch [field.Name] (Case [""__typename""] {(StoreAt result[field.Alias])})(Case [introspectDescription] {(StoreAt result[field.Alias])})(Case [""types""] {(Call .introspectTypeSlice)(StoreAt result[field.Alias])})(Case [""queryType""] {(Call .introspectType)(StoreAt result[field.Alias])})(Case [""mutationType""] {(Call .introspectType)(StoreAt result[field.Alias])})(Case [""subscriptionType""] {(Call .introspectType)(StoreAt result[field.Alias])})(Case [""directives""] {(Call .introspectDirectiveSlice)(StoreAt result[field.Alias])}))})(Return)".

Definition verified_internal_introspectType : string :=
  "(If [schemaType == nil] {(Return)})(Range [graphql.SelectedFields(selectionSet)] {(Switch [field.Name] (Case [""__typename""] {(StoreAt result[field.Alias])})(Case [introspectKind] {(StoreAt result[field.Alias])})(Case [introspectName] {(StoreAt result[field.Alias])})(Case [introspectDescription] {(StoreAt result[field.Alias])})(Case [introspectFields] {(Call .introspectFieldSlice)(StoreAt result[field.Alias])})(Case [introspectInterfaces] {(Call .introspectTypeSlice)(StoreAt result[field.Alias])})(Case [introspectPossibleTypes] {(Call .introspectTypeSlice)(StoreAt result[field.Alias])})(Case [introspectEnumValues] {(Call .introspectEnumValueSlice)(StoreAt result[field.Alias])})(Case [introspectInputFields] {(Call .introspectInputValueSlice)(StoreAt result[field.Alias])})(Case [introspectOfType] {(Call .introspectType)(StoreAt result[field.Alias])})(Case [""specifiedByURL""] {(If [schemaType.Name() != nil] {(StoreAt result[field.Alias])} else {(StoreAt result[field.Alias])})}))})(Return)".

Definition verified_internal_introspectField : string :=
  "(Range [graphql.SelectedFields(selectionSet)] {(Switch [field.Name] (Case [""__typename""] {(StoreAt result[field.Alias])})(Case [introspectName] {(StoreAt result[field.Alias])})(Case [introspectDescription] {(StoreAt result[field.Alias])})(Case [introspectArgs] {(Call .introspectInputValueSlice)(StoreAt result[field.Alias])})(Case [introspectType] {(Call .introspectType)(StoreAt result[field.Alias])})(Case [introspectIsDeprecated] {(StoreAt result[field.Alias])})(Case [introspectDeprecationReason] {(Call deprecationReason)(StoreAt result[field.Alias])}))})(Return)".

Definition verified_internal_deprecationReason : string :=
  "(If [isDeprecated && reason == nil] {(Return)})(Return)".

Definition verified_internal_introspectEnumValue : string :=
  "(Range [graphql.SelectedFields(selectionSet)] {(Switch [field.Name] (Case [""__typename""] {(StoreAt result[field.Alias])})(Case [introspectName] {(StoreAt result[field.Alias])})(Case [introspectDescription] {(StoreAt result[field.Alias])})(Case [introspectIsDeprecated] {(StoreAt result[field.Alias])})(Case [introspectDeprecationReason] {(Call deprecationReason)(StoreAt result[field.Alias])}))})(Return)".

Definition verified_internal_introspectDirective : string :=
  "(Range [graphql.SelectedFields(selectionSet)] {(Switch [field.Name] (Case [""__typename""] {(StoreAt result[field.Alias])})(Case [introspectName] {(StoreAt result[field.Alias])})(Case [introspectDescription] {(StoreAt result[field.Alias])})(Case [introspectArgs] {(Call .introspectInputValueSlice)(StoreAt result[field.Alias])})(Case [""locations""] {(StoreAt result[field.Alias])})(Case [""isRepeatable""] {(StoreAt result[field.Alias])}))})(Return)".

Definition verified_internal_introspectInputValue : string :=
  "(Range [graphql.SelectedFields(selectionSet)] {(Switch [field.Name] (Case [""__typename""] {(StoreAt result[field.Alias])})(Case [introspectName] {(StoreAt result[field.Alias])})(Case [introspectDescription] {(StoreAt result[field.Alias])})(Case [""type""] {(Call .introspectType)(StoreAt result[field.Alias])})(Case [""defaultValue""] {(StoreAt result[field.Alias])}))})(Return)".

Definition verified_internal_introspectInputValueSlice : string :=
  "(Range [values] {(Append result)(Call .introspectInputValue)})(Return)".

Definition verified_internal_introspectFieldSlice : string :=
  "(Range [fields] {(Append result)(Call .introspectField)})(Return)".

Definition verified_internal_introspectEnumValueSlice : string :=
  "(Range [values] {(Append result)(Call .introspectEnumValue)})(Return)".

Definition verified_internal_introspectTypeSlice : string :=
  "(Range [types] {(Append result)(Call .introspectType)})(Return)".

Definition verified_internal_introspectDirectiveSlice : string :=
  "(Range [directives] {(Append result)(Call .introspectDirective)})(Return)".

(* Whether two definitions of one name merge does not depend on which of them comes first.
   (The success half of C10 for two services; the result half is Proofs/MergeUnion.v.) *)
From Coq Require Import String List Bool Arith Lia.
From GW Require Import Base.Res Base.GoStr Gql.Schema Gw.Merge Gw.MergeCheck Proofs.MergeBasics Proofs.MergeProofs Proofs.DirEq.
Import ListNotations.
Open Scope string_scope.
Open Scope list_scope.

(* ---------- a generic fact: matching two lists of named things ---------- *)
Section Match.
  Variable A : Type.
  Variable name : A -> string.
  Variable find : string -> list A -> option A.
  Hypothesis find_some : forall n l a, find n l = Some a -> In a l /\ name a = n.
  Hypothesis find_in : forall l a, NoDup (map name l) -> In a l -> find (name a) l = Some a.
  Variable R : A -> A -> bool.
  Variable P : A -> Prop.
  Hypothesis R_sym : forall a b, P a -> P b -> R a b = true -> R b a = true.

  Definition all_matched (l1 l2 : list A) : bool :=
    forallb (fun a => match find (name a) l2 with Some b => R a b | None => false end) l1.

  Lemma all_matched_sym l1 l2 :
    NoDup (map name l1) -> NoDup (map name l2) -> Forall P l1 -> Forall P l2 -> length l1 = length l2 ->
    all_matched l1 l2 = true -> all_matched l2 l1 = true.
  Proof.
    unfold all_matched. intros N1 N2 P1 P2 Hl H. rewrite forallb_forall in H. rewrite Forall_forall in P1, P2.
    assert (Hincl : incl (map name l1) (map name l2)).
    { intros n Hn. apply in_map_iff in Hn. destruct Hn as [a [<- Ha]]. specialize (H a Ha).
      destruct (find (name a) l2) as [b|] eqn:E; [|discriminate]. destruct (find_some _ _ _ E) as [Hb Hnb].
      rewrite <- Hnb. apply in_map. exact Hb. }
    assert (Hincl2 : incl (map name l2) (map name l1)).
    { apply NoDup_length_incl; [exact N1|rewrite !map_length; lia|exact Hincl]. }
    apply forallb_forall. intros b Hb.
    assert (Hn : In (name b) (map name l1)) by (apply Hincl2; apply in_map; exact Hb).
    apply in_map_iff in Hn. destruct Hn as [a [Ena Ha]].
    rewrite <- Ena. rewrite (find_in l1 a N1 Ha).
    specialize (H a Ha). rewrite Ena in H. rewrite (find_in l2 b N2 Hb) in H. apply R_sym; [exact (P1 a Ha)|exact (P2 b Hb)|exact H].
  Qed.

  (* the fields both lists declare are related: for lists that need not have the same names *)
  Definition common_related (l1 l2 : list A) : bool :=
    forallb (fun b => match find (name b) l1 with Some a => R a b | None => true end) l2.

  Lemma common_related_sym l1 l2 :
    NoDup (map name l1) -> NoDup (map name l2) -> Forall P l1 -> Forall P l2 ->
    common_related l1 l2 = true -> common_related l2 l1 = true.
  Proof.
    unfold common_related. intros N1 N2 P1 P2 H. rewrite forallb_forall in H. rewrite Forall_forall in P1, P2. apply forallb_forall. intros a Ha.
    destruct (find (name a) l2) as [b|] eqn:E; [|reflexivity].
    destruct (find_some _ _ _ E) as [Hb Hnb]. specialize (H b Hb). rewrite Hnb in H.
    rewrite (find_in l1 a N1 Ha) in H. apply R_sym; [exact (P1 a Ha)|exact (P2 b Hb)|exact H].
  Qed.
End Match.

Lemma forallb_ext' {A} (f g : A -> bool) l : (forall x, f x = g x) -> forallb f l = forallb g l.
Proof. intros H. induction l as [|x r IH]; cbn [forallb]; [reflexivity|]. rewrite H, IH. reflexivity. Qed.

(* ---------- arguments ---------- *)
Lemma types_equal_sym a b : types_equal a b = types_equal b a.
Proof.
  destruct (types_equal a b) eqn:E.
  - apply types_equal_eq in E. subst. symmetry. apply types_equal_eq. reflexivity.
  - destruct (types_equal b a) eqn:E2; [|reflexivity]. apply types_equal_eq in E2. subst.
    assert (types_equal a a = true) by (apply types_equal_eq; reflexivity). congruence.
Qed.

Definition argdef_ok (ig : bool) (p n : argdef) : bool :=
  types_equal (ad_type p) (ad_type n) && (ig || values_equal (ad_default p) (ad_default n)) &&
  dirlists_equal (ad_dirs p) (ad_dirs n).

Lemma merge_argdef_is_ok ig p n : is_ok (merge_argdef ig p n) = argdef_ok ig p n.
Proof.
  unfold merge_argdef, argdef_ok. destruct (types_equal (ad_type p) (ad_type n)); cbn [negb andb]; [|reflexivity].
  destruct ig; cbn [negb andb orb].
  - destruct (dirlists_equal (ad_dirs p) (ad_dirs n)); reflexivity.
  - destruct (values_equal (ad_default p) (ad_default n)); cbn [negb andb]; [|reflexivity].
    destruct (dirlists_equal (ad_dirs p) (ad_dirs n)); reflexivity.
Qed.

Lemma argdef_ok_sym ig p n : args_wf (ad_dirs p) -> args_wf (ad_dirs n) -> argdef_ok ig p n = true -> argdef_ok ig n p = true.
Proof.
  unfold argdef_ok. intros Dp Dn H. apply andb_prop in H. destruct H as [H Hd].
  rewrite types_equal_sym, values_equal_sym, H. exact (dirlists_equal_sym _ _ Dp Dn Hd).
Qed.

(* argument definitions with distinct names whose applied directives have distinct argument names *)
Definition adwf (l : list argdef) : Prop := NoDup (map ad_name l) /\ Forall (fun a => args_wf (ad_dirs a)) l.

Definition argdefs_ok (ig : bool) (l1 l2 : list argdef) : bool :=
  Nat.eqb (length l1) (length l2) && all_matched argdef ad_name find_arg (argdef_ok ig) l1 l2.

Lemma merge_argdefs_is_ok ig l1 l2 : is_ok (merge_argdefs ig l1 l2) = argdefs_ok ig l1 l2.
Proof.
  unfold merge_argdefs, argdefs_ok, all_matched. destruct (Nat.eqb (length l1) (length l2)); cbn [negb andb]; [|reflexivity].
  rewrite res_map_ok. apply forallb_ext'. intros a. destruct (find_arg (ad_name a) l2); [apply merge_argdef_is_ok|reflexivity].
Qed.

Lemma argdefs_ok_sym ig l1 l2 : adwf l1 -> adwf l2 ->
  argdefs_ok ig l1 l2 = true -> argdefs_ok ig l2 l1 = true.
Proof.
  unfold argdefs_ok. intros [N1 D1] [N2 D2] H. apply andb_prop in H. destruct H as [Hl Hm]. apply Nat.eqb_eq in Hl.
  apply andb_true_intro. split; [apply Nat.eqb_eq; lia|].
  apply (all_matched_sym argdef ad_name find_arg find_arg_Some find_arg_In_nodup (argdef_ok ig) (fun a => args_wf (ad_dirs a)) (argdef_ok_sym ig) l1 l2 N1 N2 D1 D2 Hl Hm).
Qed.

(* ---------- fields ---------- *)
Definition field_ok (f g : fielddef) : bool :=
  types_equal (fd_type f) (fd_type g) && argdefs_ok false (fd_args f) (fd_args g) &&
  values_equal (fd_default f) (fd_default g) && dirlists_equal (fd_dirs f) (fd_dirs g).

Lemma merge_field_is_ok f g : is_ok (merge_field f g) = field_ok f g.
Proof.
  unfold merge_field, field_ok. destruct (types_equal (fd_type f) (fd_type g)); cbn [negb andb]; [|reflexivity].
  rewrite <- merge_argdefs_is_ok. destruct (merge_argdefs false (fd_args f) (fd_args g)) as [args|e|e]; cbn [bind is_ok andb]; try reflexivity.
  destruct (values_equal (fd_default f) (fd_default g)); cbn [negb andb]; [|reflexivity].
  destruct (dirlists_equal (fd_dirs f) (fd_dirs g)); reflexivity.
Qed.

(* a field whose arguments have distinct names and whose applied directives have distinct argument names *)
Definition fwf (f : fielddef) : Prop := adwf (fd_args f) /\ args_wf (fd_dirs f).

Lemma field_ok_sym f g : fwf f -> fwf g -> field_ok f g = true -> field_ok g f = true.
Proof.
  unfold field_ok. intros [Wf Df] [Wg Dg] H.
  apply andb_prop in H. destruct H as [H Hd]. apply andb_prop in H. destruct H as [H Hv]. apply andb_prop in H. destruct H as [Ht Ha].
  rewrite types_equal_sym, Ht. rewrite (argdefs_ok_sym false _ _ Wf Wg Ha). rewrite values_equal_sym, Hv.
  rewrite (dirlists_equal_sym _ _ Df Dg Hd). reflexivity.
Qed.

(* symmetric closure over lists of fields with distinct names, all well formed *)
Definition fields_wf (l : list fielddef) : Prop := NoDup (map fd_name l) /\ Forall fwf l.

Definition field_ok' (l1 l2 : list fielddef) (f g : fielddef) : bool := field_ok f g.

Lemma fields_matched_sym l1 l2 : fields_wf l1 -> fields_wf l2 -> length l1 = length l2 ->
  all_matched fielddef fd_name find_field field_ok l1 l2 = true ->
  all_matched fielddef fd_name find_field field_ok l2 l1 = true.
Proof.
  intros [N1 F1] [N2 F2] Hl H.
  (* field_ok is symmetric on the fields of these lists: restrict the relation to them *)
  unfold all_matched in *. rewrite forallb_forall in H. apply forallb_forall. intros b Hb.
  assert (Hincl : incl (map fd_name l1) (map fd_name l2)).
  { intros n Hn. apply in_map_iff in Hn. destruct Hn as [a [<- Ha]]. specialize (H a Ha).
    destruct (find_field (fd_name a) l2) as [b'|] eqn:E; [|discriminate]. destruct (find_field_Some _ _ _ E) as [Hb' Hnb].
    rewrite <- Hnb. apply in_map. exact Hb'. }
  assert (Hincl2 : incl (map fd_name l2) (map fd_name l1)).
  { apply NoDup_length_incl; [exact N1|rewrite !map_length; lia|exact Hincl]. }
  assert (Hn : In (fd_name b) (map fd_name l1)) by (apply Hincl2; apply in_map; exact Hb).
  apply in_map_iff in Hn. destruct Hn as [a [Ena Ha]].
  rewrite <- Ena. rewrite (find_field_In_nodup l1 a N1 Ha).
  specialize (H a Ha). rewrite Ena in H. rewrite (find_field_In_nodup l2 b N2 Hb) in H.
  rewrite Forall_forall in F1, F2. apply field_ok_sym; [exact (F1 a Ha)|exact (F2 b Hb)|exact H].
Qed.

Lemma fields_common_sym l1 l2 : fields_wf l1 -> fields_wf l2 ->
  common_related fielddef fd_name find_field field_ok l1 l2 = true ->
  common_related fielddef fd_name find_field field_ok l2 l1 = true.
Proof.
  intros [N1 F1] [N2 F2] H. unfold common_related in *. rewrite forallb_forall in H. apply forallb_forall. intros a Ha.
  destruct (find_field (fd_name a) l2) as [b|] eqn:E; [|reflexivity].
  destruct (find_field_Some _ _ _ E) as [Hb Hnb]. specialize (H b Hb). rewrite Hnb in H.
  rewrite (find_field_In_nodup l1 a N1 Ha) in H.
  rewrite Forall_forall in F1, F2. apply field_ok_sym; [exact (F1 a Ha)|exact (F2 b Hb)|exact H].
Qed.

(* ---------- the fields of objects ---------- *)
Lemma forallb_ext_in {A} (f g : A -> bool) l : (forall x, In x l -> f x = g x) -> forallb f l = forallb g l.
Proof.
  induction l as [|x r IH]; intros H; cbn [forallb]; [reflexivity|].
  rewrite (H x (or_introl eq_refl)). rewrite IH; [reflexivity|]. intros y Hy. apply H. right. exact Hy.
Qed.

Lemma merge_field_name f g m : merge_field f g = Ok m -> fd_name m = fd_name f.
Proof.
  unfold merge_field. destruct (types_equal (fd_type f) (fd_type g)); cbn [negb]; [|discriminate].
  destruct (merge_argdefs false (fd_args f) (fd_args g)); cbn [bind]; try discriminate.
  destruct (values_equal (fd_default f) (fd_default g)); cbn [negb]; [|discriminate].
  destruct (dirlists_equal (fd_dirs f) (fd_dirs g)); cbn [negb]; [|discriminate]. intros [= <-]. reflexivity.
Qed.

Lemma object_fields_is_ok : forall news acc, NoDup (map fd_name news) ->
  is_ok (merge_object_fields acc news) = common_related fielddef fd_name find_field field_ok acc news.
Proof.
  unfold common_related. induction news as [|nf r IH]; intros acc Hn; cbn [merge_object_fields forallb]; [reflexivity|].
  cbn [map] in Hn. inversion Hn as [|? ? Hx Hr]; subst.
  destruct (find_field (fd_name nf) acc) as [pf|] eqn:Ef.
  - rewrite <- merge_field_is_ok. destruct (merge_field pf nf) as [m|e|e] eqn:Em; cbn [bind is_ok andb]; try reflexivity.
    rewrite (IH (replace_field m acc) Hr). apply forallb_ext_in. intros x Hxr.
    pose proof (merge_field_name _ _ _ Em) as Hname. destruct (find_field_Some _ _ _ Ef) as [_ Hpf].
    rewrite find_replace_field by (rewrite Hname, Hpf, Ef; discriminate).
    destruct (String.eqb (fd_name m) (fd_name x)) eqn:E; [|reflexivity].
    apply String.eqb_eq in E. exfalso. apply Hx. rewrite <- Hpf, <- Hname, E. apply in_map. exact Hxr.
  - cbn [andb]. rewrite (IH (acc ++ [nf]) Hr). apply forallb_ext_in. intros x Hxr.
    rewrite find_app_one. destruct (find_field (fd_name x) acc); [reflexivity|].
    destruct (String.eqb (fd_name nf) (fd_name x)) eqn:E; [|reflexivity].
    apply String.eqb_eq in E. exfalso. apply Hx. rewrite E. apply in_map. exact Hxr.
Qed.

(* ---------- definitions ---------- *)
Lemma find_enum_Some n l a : find_enum n l = Some a -> In a l /\ ev_name a = n.
Proof.
  induction l as [|x r IH]; cbn [find_enum]; [discriminate|].
  destruct (String.eqb (ev_name x) n) eqn:E; [intros [= <-]; split; [left; reflexivity|apply String.eqb_eq; exact E]|].
  intros H. destruct (IH H) as [A B]. split; [right; exact A|exact B].
Qed.

Lemma find_enum_In_nodup l a : NoDup (map ev_name l) -> In a l -> find_enum (ev_name a) l = Some a.
Proof.
  induction l as [|x r IH]; intros Hn Hin; [destruct Hin|].
  cbn [map] in Hn. inversion Hn as [|? ? Hx Hr]; subst. cbn [find_enum].
  destruct Hin as [->|Hin]; [rewrite String.eqb_refl; reflexivity|].
  destruct (String.eqb (ev_name x) (ev_name a)) eqn:E; [|apply IH; assumption].
  apply String.eqb_eq in E. exfalso. apply Hx. rewrite E. apply in_map. exact Hin.
Qed.

Definition dwf (d : definition) : Prop :=
  fields_wf (df_fields d) /\
  NoDup (map ev_name (df_enums d)) /\ Forall (fun v => args_wf (ev_dirs v)) (df_enums d) /\
  NoDup (df_members d) /\ args_wf (df_dirs d).

Definition enum_ok (v w : enumval) : bool := dirlists_equal (ev_dirs v) (ev_dirs w).

Lemma slices_equivalent_sym a b : NoDup a -> NoDup b -> slices_equivalent a b = true -> slices_equivalent b a = true.
Proof.
  unfold slices_equivalent. intros Na Nb H. apply andb_prop in H. destruct H as [Hl Hf]. apply Nat.eqb_eq in Hl.
  rewrite forallb_forall in Hf. apply andb_true_intro. split; [apply Nat.eqb_eq; lia|].
  assert (Hincl : incl b a) by (intros x Hx; apply str_mem_In; apply Hf; exact Hx).
  assert (Hincl2 : incl a b) by (apply NoDup_length_incl; [exact Nb|lia|exact Hincl]).
  apply forallb_forall. intros x Hx. apply str_mem_In. apply Hincl2. exact Hx.
Qed.

Theorem merge2_ok_sym p n :
  dwf p -> dwf n -> is_internal_name (df_name p) = false -> is_internal_name (df_name n) = false ->
  is_ok (merge2 p n) = true -> is_ok (merge2 n p) = true.
Proof.
  intros (Fp & Ep & EDp & Mp & Dp) (Fn & En & EDn & Mn & Dn) Hip Hin H.
  unfold merge2 in *. rewrite Hin in H. rewrite Hip.
  destruct (kind_eqb (df_kind p) (df_kind n)) eqn:Ek; cbn [negb] in H; [|discriminate].
  assert (Ek' : kind_eqb (df_kind n) (df_kind p) = true) by (apply kind_eqb_eq; apply kind_eqb_eq in Ek; congruence).
  rewrite Ek'. cbn [negb]. apply kind_eqb_eq in Ek. rewrite Ek. clear Ek'.
  destruct (df_kind n) eqn:Kn.
  - (* scalar *)
    unfold merge_scalars in *. destruct (dirlists_equal (df_dirs p) (df_dirs n)) eqn:E; cbn [negb] in H; [|discriminate].
    rewrite (dirlists_equal_sym _ _ Dp Dn E). reflexivity.
  - (* object *)
    unfold merge_objects in *.
    destruct (merge_object_fields (df_fields p) (df_fields n)) as [fs|e|e] eqn:Ef; cbn [bind] in H; try discriminate.
    destruct (dirlists_equal (df_dirs p) (df_dirs n)) eqn:E; cbn [negb] in H; [|discriminate].
    assert (Hok : is_ok (merge_object_fields (df_fields p) (df_fields n)) = true) by (rewrite Ef; reflexivity).
    rewrite (object_fields_is_ok _ _ (proj1 Fn)) in Hok.
    pose proof (fields_common_sym _ _ Fp Fn Hok) as Hok2.
    rewrite <- (object_fields_is_ok _ _ (proj1 Fp)) in Hok2.
    destruct (merge_object_fields (df_fields n) (df_fields p)) as [fs2|e|e]; try discriminate. cbn [bind].
    rewrite (dirlists_equal_sym _ _ Dp Dn E). reflexivity.
  - (* interface *)
    unfold merge_interfaces in *.
    destruct (Nat.eqb (length (df_fields p)) (length (df_fields n))) eqn:El; cbn [negb] in H; [|discriminate].
    apply Nat.eqb_eq in El. assert (El' : Nat.eqb (length (df_fields n)) (length (df_fields p)) = true) by (apply Nat.eqb_eq; lia).
    rewrite El'. cbn [negb].
    match type of H with is_ok (bind ?r _) = true => assert (Hr : is_ok r = true) by (destruct r; [reflexivity|discriminate|discriminate]) end.
    assert (Hd : dirlists_equal (df_dirs p) (df_dirs n) = true).
    { match type of H with is_ok (bind ?r _) = true => destruct r; cbn [bind] in H; try discriminate end.
      destruct (dirlists_equal (df_dirs p) (df_dirs n)); [reflexivity|discriminate]. }
    rewrite res_map_ok in Hr.
    assert (Hm : all_matched fielddef fd_name find_field field_ok (df_fields p) (df_fields n) = true).
    { unfold all_matched. erewrite forallb_ext'; [exact Hr|]. intros f. cbn beta.
      destruct (find_field (fd_name f) (df_fields n)); [symmetry; apply merge_field_is_ok|reflexivity]. }
    pose proof (fields_matched_sym _ _ Fp Fn El Hm) as Hm2.
    match goal with |- is_ok (bind ?r _) = true => assert (Hr2 : is_ok r = true) end.
    { rewrite res_map_ok. unfold all_matched in Hm2. erewrite forallb_ext'; [exact Hm2|]. intros f. cbn beta.
      destruct (find_field (fd_name f) (df_fields p)); [apply merge_field_is_ok|reflexivity]. }
    match goal with |- is_ok (bind ?r _) = true => destruct r; try discriminate end. cbn [bind].
    rewrite (dirlists_equal_sym _ _ Dp Dn Hd). reflexivity.
  - (* union *)
    unfold merge_unions in *. destruct (slices_equivalent (df_members p) (df_members n)) eqn:E; [|discriminate].
    destruct (dirlists_equal (df_dirs p) (df_dirs n)) eqn:Ed; cbn [negb] in H; [|discriminate].
    rewrite (slices_equivalent_sym _ _ Mp Mn E), (dirlists_equal_sym _ _ Dp Dn Ed). reflexivity.
  - (* enum *)
    unfold merge_enums in *. rewrite Hip in H. rewrite Hin.
    destruct (Nat.eqb (length (df_enums p)) (length (df_enums n))) eqn:El; cbn [negb] in H; [|discriminate].
    apply Nat.eqb_eq in El. assert (El' : Nat.eqb (length (df_enums n)) (length (df_enums p)) = true) by (apply Nat.eqb_eq; lia).
    rewrite El'. cbn [negb].
    match type of H with is_ok (bind ?r _) = true => assert (Hr : is_ok r = true) by (destruct r; [reflexivity|discriminate|discriminate]) end.
    assert (Hd : dirlists_equal (df_dirs p) (df_dirs n) = true).
    { match type of H with is_ok (bind ?r _) = true => destruct r; cbn [bind] in H; try discriminate end.
      destruct (dirlists_equal (df_dirs p) (df_dirs n)); [reflexivity|discriminate]. }
    rewrite res_map_ok in Hr.
    assert (Hm : all_matched enumval ev_name find_enum enum_ok (df_enums p) (df_enums n) = true).
    { unfold all_matched, enum_ok. erewrite forallb_ext'; [exact Hr|]. intros v. cbn beta.
      destruct (find_enum (ev_name v) (df_enums n)) as [w|]; [|reflexivity].
      destruct (dirlists_equal (ev_dirs v) (ev_dirs w)); reflexivity. }
    assert (Hm2 : all_matched enumval ev_name find_enum enum_ok (df_enums n) (df_enums p) = true).
    { unfold all_matched in *. rewrite forallb_forall in Hm. apply forallb_forall. intros b Hb.
      assert (Hincl : incl (map ev_name (df_enums p)) (map ev_name (df_enums n))).
      { intros x Hx. apply in_map_iff in Hx. destruct Hx as [a [<- Ha]]. specialize (Hm a Ha).
        destruct (find_enum (ev_name a) (df_enums n)) as [b'|] eqn:E; [|discriminate]. destruct (find_enum_Some _ _ _ E) as [Hb' Hnb].
        rewrite <- Hnb. apply in_map. exact Hb'. }
      assert (Hincl2 : incl (map ev_name (df_enums n)) (map ev_name (df_enums p))).
      { apply NoDup_length_incl; [exact Ep|rewrite !map_length; lia|exact Hincl]. }
      assert (Hx : In (ev_name b) (map ev_name (df_enums p))) by (apply Hincl2; apply in_map; exact Hb).
      apply in_map_iff in Hx. destruct Hx as [a [Ena Ha]].
      rewrite <- Ena. rewrite (find_enum_In_nodup _ a Ep Ha).
      specialize (Hm a Ha). rewrite Ena in Hm. rewrite (find_enum_In_nodup _ b En Hb) in Hm.
      unfold enum_ok in *. rewrite Forall_forall in EDp, EDn. apply dirlists_equal_sym; [exact (EDp a Ha)|exact (EDn b Hb)|exact Hm]. }
    match goal with |- is_ok (bind ?r _) = true => assert (Hr2 : is_ok r = true) end.
    { rewrite res_map_ok. unfold all_matched, enum_ok in Hm2. erewrite forallb_ext'; [exact Hm2|]. intros v. cbn beta.
      destruct (find_enum (ev_name v) (df_enums p)) as [w|]; [|reflexivity].
      destruct (dirlists_equal (ev_dirs v) (ev_dirs w)); reflexivity. }
    match goal with |- is_ok (bind ?r _) = true => destruct r; try discriminate end. cbn [bind].
    rewrite (dirlists_equal_sym _ _ Dp Dn Hd). reflexivity.
  - (* input object *)
    unfold merge_inputs in *.
    destruct (Nat.eqb (length (df_fields p)) (length (df_fields n))) eqn:El; cbn [negb] in H; [|discriminate].
    apply Nat.eqb_eq in El. assert (El' : Nat.eqb (length (df_fields n)) (length (df_fields p)) = true) by (apply Nat.eqb_eq; lia).
    rewrite El'. cbn [negb].
    match type of H with is_ok (bind ?r _) = true => assert (Hr : is_ok r = true) by (destruct r; [reflexivity|discriminate|discriminate]) end.
    assert (Hd : dirlists_equal (df_dirs p) (df_dirs n) = true).
    { match type of H with is_ok (bind ?r _) = true => destruct r; cbn [bind] in H; try discriminate end.
      destruct (dirlists_equal (df_dirs p) (df_dirs n)); [reflexivity|discriminate]. }
    rewrite res_map_ok in Hr.
    assert (Hm : all_matched fielddef fd_name find_field field_ok (df_fields p) (df_fields n) = true).
    { unfold all_matched. erewrite forallb_ext'; [exact Hr|]. intros f. cbn beta.
      destruct (find_field (fd_name f) (df_fields n)); [symmetry; apply merge_field_is_ok|reflexivity]. }
    pose proof (fields_matched_sym _ _ Fp Fn El Hm) as Hm2.
    match goal with |- is_ok (bind ?r _) = true => assert (Hr2 : is_ok r = true) end.
    { rewrite res_map_ok. unfold all_matched in Hm2. erewrite forallb_ext'; [exact Hm2|]. intros f. cbn beta.
      destruct (find_field (fd_name f) (df_fields p)); [apply merge_field_is_ok|reflexivity]. }
    match goal with |- is_ok (bind ?r _) = true => destruct r; try discriminate end. cbn [bind].
    rewrite (dirlists_equal_sym _ _ Dp Dn Hd). reflexivity.
Qed.

(* What is scrubbed: only insertion points of the plan's own steps, none twice, and never a point
   at which the client asked for the response key id. *)
From Coq Require Import String List Bool Arith.
From GW Require Import Base.Res Base.GoStr Gql.Syntax Gw.Plan Gw.Scrub.
Import ListNotations.
Open Scope string_scope.
Open Scope list_scope.

Lemma bind_ok_inv {A B} (r : res A) (f : A -> res B) y : bind r f = Ok y -> exists x, r = Ok x /\ f x = Ok y.
Proof. destruct r; simpl; intros H; try discriminate. eauto. Qed.

Lemma path_eqb_eq a : forall b, path_eqb a b = true <-> a = b.
Proof.
  induction a as [|x a IH]; destruct b as [|y b]; cbn [path_eqb]; try (split; [discriminate|discriminate]); [tauto|].
  rewrite andb_true_iff, String.eqb_eq, IH. split; [intros [-> ->]; reflexivity|intros [= -> ->]; auto].
Qed.

Lemma contains_path_In paths p : contains_path paths p = true <-> In p paths.
Proof.
  unfold contains_path. rewrite existsb_exists. split.
  - intros [q [Hq E]]. apply path_eqb_eq in E. subst. exact Hq.
  - intros H. exists p. split; [exact H|apply path_eqb_eq; reflexivity].
Qed.

(* every path the walk yields is the insertion point of a step at which the client did not ask
   for the key id *)
Definition scrubbed_ok (client : list ksel) (p : list string) : Prop :=
  p <> [] /\ exists target, descend p client = Ok target /\ natural_id target = false.

Lemma scrub_walk_sound : forall fuel client s ps,
  scrub_walk fuel client s = Ok ps -> Forall (scrubbed_ok client) ps.
Proof.
  induction fuel as [|fuel IH]; intros client s ps H; [discriminate|].
  destruct s as [loc ptype ipoint sels thens]. cbn [scrub_walk] in H.
  apply bind_ok_inv in H. destruct H as [target [Ht H]]. apply bind_ok_inv in H. destruct H as [below [Hb H]].
  injection H as <-. apply Forall_app. split.
  - destruct (natural_id target) eqn:En; cbn [negb andb]; [constructor|].
    destruct ipoint as [|p0 r0]; cbn [negb]; [constructor|]. constructor; [|constructor].
    split; [discriminate|]. exists target. auto.
  - clear Ht. revert below Hb. induction thens as [|x r IHr]; intros below Hb.
    + injection Hb as <-. constructor.
    + apply bind_ok_inv in Hb. destruct Hb as [a [Ha Hb]]. apply bind_ok_inv in Hb. destruct Hb as [b [Hb' Hb]].
      injection Hb as <-. apply Forall_app. split; [eapply IH; exact Ha|apply IHr; exact Hb'].
Qed.

Lemma dedupe_spec : forall paths acc,
  NoDup acc -> NoDup (dedupe paths acc) /\ (forall p, In p (dedupe paths acc) <-> In p acc \/ In p paths).
Proof.
  induction paths as [|q r IH]; intros acc Hacc; cbn [dedupe].
  - split; [exact Hacc|]. intros p. cbn [In]. tauto.
  - destruct (contains_path acc q) eqn:E.
    + destruct (IH acc Hacc) as [A B]. split; [exact A|]. intros p. rewrite B. cbn [In].
      apply contains_path_In in E. split; [tauto|]. intros [H|[<-|H]]; auto.
    + assert (Hn: ~ In q acc) by (intros Hin; apply contains_path_In in Hin; congruence).
      assert (Hacc': NoDup (acc ++ [q])).
      { clear - Hacc Hn. induction acc as [|y t IHt]; cbn [app]; [constructor; [intros []|constructor]|].
        inversion Hacc as [|? ? Hy Ht]; subst. constructor.
        - intros Hin. apply in_app_or in Hin. destruct Hin as [Hin|[<-|[]]]; [contradiction|]. apply Hn. left. reflexivity.
        - apply IHt; [exact Ht|]. intros Hin. apply Hn. right. exact Hin. }
      destruct (IH (acc ++ [q]) Hacc') as [A B]. split; [exact A|]. intros p. rewrite B, in_app_iff. cbn [In]. tauto.
Qed.

Theorem scrub_fields_sound fuel client root ps :
  scrub_fields fuel client root = Ok ps -> NoDup ps /\ Forall (scrubbed_ok client) ps.
Proof.
  destruct root as [loc ptype ipoint sels thens]. unfold scrub_fields.
  intros H. apply bind_ok_inv in H. destruct H as [all [Ha H]]. injection H as <-.
  destruct (dedupe_spec all [] (NoDup_nil _)) as [A B]. split; [exact A|].
  assert (Hall: Forall (scrubbed_ok client) all).
  { clear A B. revert all Ha. induction thens as [|x r IHr]; intros all Ha.
    - injection Ha as <-. constructor.
    - apply bind_ok_inv in Ha. destruct Ha as [a [Hx Ha]]. apply bind_ok_inv in Ha. destruct Ha as [b [Hr Ha]].
      injection Ha as <-. apply Forall_app. split; [eapply scrub_walk_sound; exact Hx|apply IHr; exact Hr]. }
  apply Forall_forall. intros p Hp. apply B in Hp. destruct Hp as [[]|Hp]. rewrite Forall_forall in Hall. apply Hall. exact Hp.
Qed.

(* ---------- completeness: every step's insertion point is a candidate ---------- *)
Definition ipoint_of (s : pstep) : list string := match s with PStep _ _ ip _ _ => ip end.
Definition thens_of (s : pstep) : list pstep := match s with PStep _ _ _ _ t => t end.

(* c is s or a step below s *)
Inductive substep (c : pstep) : pstep -> Prop :=
| sub_self : substep c c
| sub_below s x : In x (thens_of s) -> substep c x -> substep c s.

Lemma scrub_walk_covers : forall fuel client s ps,
  scrub_walk fuel client s = Ok ps ->
  forall c target, substep c s -> ipoint_of c <> [] ->
    descend (ipoint_of c) client = Ok target -> natural_id target = false -> In (ipoint_of c) ps.
Proof.
  induction fuel as [|fuel IH]; intros client s ps H c target Hsub Hne Hd Hn; [discriminate|].
  destruct s as [loc ptype ipoint sels thens]. cbn [scrub_walk] in H.
  apply bind_ok_inv in H. destruct H as [tgt [Ht H]]. apply bind_ok_inv in H. destruct H as [below [Hb H]].
  injection H as <-. inversion Hsub as [|? x Hx Hcx]; subst.
  - (* the step itself *)
    cbn [ipoint_of] in *. rewrite Hd in Ht. injection Ht as <-. rewrite Hn. cbn [negb andb].
    destruct ipoint as [|p0 r0]; [congruence|]. cbn [negb]. apply in_or_app. left. left. reflexivity.
  - (* a step below one of the dependents *)
    apply in_or_app. right. cbn [thens_of] in Hx. clear Ht Hsub.
    revert below Hb. induction thens as [|y r IHr]; intros below Hb; [destruct Hx|].
    apply bind_ok_inv in Hb. destruct Hb as [a [Ha Hb]]. apply bind_ok_inv in Hb. destruct Hb as [b [Hb' Hb]].
    injection Hb as <-. apply in_or_app. destruct Hx as [<-|Hx].
    + left. exact (IH client y a Ha c target Hcx Hne Hd Hn).
    + right. exact (IHr Hx b Hb').
Qed.

(* no injected id is forgotten: the insertion point of every step of the plan below the root steps'
   level is scrubbed, unless the client asked for the key id there *)
Theorem scrub_fields_complete fuel client root ps :
  scrub_fields fuel client root = Ok ps ->
  forall x c target, In x (thens_of root) -> substep c x -> ipoint_of c <> [] ->
    descend (ipoint_of c) client = Ok target -> natural_id target = false -> In (ipoint_of c) ps.
Proof.
  destruct root as [loc ptype ipoint sels thens]. unfold scrub_fields. cbn [thens_of].
  intros H x c target Hx Hsub Hne Hd Hn. apply bind_ok_inv in H. destruct H as [all [Ha H]]. injection H as <-.
  destruct (dedupe_spec all [] (NoDup_nil _)) as [_ B]. apply B. right. clear B.
  revert all Ha. induction thens as [|y r IHr]; intros all Ha; [destruct Hx|].
  apply bind_ok_inv in Ha. destruct Ha as [a [Hy Ha]]. apply bind_ok_inv in Ha. destruct Ha as [b [Hr Ha]].
  injection Ha as <-. apply in_or_app. destruct Hx as [<-|Hx].
  - left. exact (scrub_walk_covers fuel client y a Hy c target Hsub Hne Hd Hn).
  - right. exact (IHr Hx b Hr).
Qed.

(* What is scrubbed: only insertion points of the plan's own steps, none twice, and never a point
   at which the client asked for the response key id. *)
From Coq Require Import String List Bool Arith.
From GW Require Import Base.Res Base.GoStr Gql.Syntax Gw.Plan Gw.Scrub.
Import ListNotations.
Open Scope string_scope.
Open Scope list_scope.

Lemma bind_ok_inv {A B} (r : res A) (f : A -> res B) y : bind r f = Ok y -> exists x, r = Ok x /\ f x = Ok y.
Proof. destruct r; simpl; intros H; try discriminate. eauto. Qed.

Lemma path_eqb_eq a : forall b, path_eqb a b = true <-> a = b.
Proof.
  induction a as [|x a IH]; destruct b as [|y b]; cbn [path_eqb]; try (split; [discriminate|discriminate]); [tauto|].
  rewrite andb_true_iff, String.eqb_eq, IH. split; [intros [-> ->]; reflexivity|intros [= -> ->]; auto].
Qed.

Lemma contains_path_In paths p : contains_path paths p = true <-> In p paths.
Proof.
  unfold contains_path. rewrite existsb_exists. split.
  - intros [q [Hq E]]. apply path_eqb_eq in E. subst. exact Hq.
  - intros H. exists p. split; [exact H|apply path_eqb_eq; reflexivity].
Qed.

(* every path the walk yields is the insertion point of a step at which the client did not ask
   for the key id *)
Definition scrubbed_ok (client : list ksel) (p : list string) : Prop :=
  p <> [] /\ exists target, descend p client = Ok target /\ natural_id target = false.

Lemma scrub_walk_sound : forall fuel client s ps,
  scrub_walk fuel client s = Ok ps -> Forall (scrubbed_ok client) ps.
Proof.
  induction fuel as [|fuel IH]; intros client s ps H; [discriminate|].
  destruct s as [loc ptype ipoint sels thens]. cbn [scrub_walk] in H.
  apply bind_ok_inv in H. destruct H as [target [Ht H]]. apply bind_ok_inv in H. destruct H as [below [Hb H]].
  injection H as <-. apply Forall_app. split.
  - destruct (natural_id target) eqn:En; cbn [negb andb]; [constructor|].
    destruct ipoint as [|p0 r0]; cbn [negb]; [constructor|]. constructor; [|constructor].
    split; [discriminate|]. exists target. auto.
  - clear Ht. revert below Hb. induction thens as [|x r IHr]; intros below Hb.
    + injection Hb as <-. constructor.
    + apply bind_ok_inv in Hb. destruct Hb as [a [Ha Hb]]. apply bind_ok_inv in Hb. destruct Hb as [b [Hb' Hb]].
      injection Hb as <-. apply Forall_app. split; [eapply IH; exact Ha|apply IHr; exact Hb'].
Qed.

Lemma dedupe_spec : forall paths acc,
  NoDup acc -> NoDup (dedupe paths acc) /\ (forall p, In p (dedupe paths acc) <-> In p acc \/ In p paths).
Proof.
  induction paths as [|q r IH]; intros acc Hacc; cbn [dedupe].
  - split; [exact Hacc|]. intros p. cbn [In]. tauto.
  - destruct (contains_path acc q) eqn:E.
    + destruct (IH acc Hacc) as [A B]. split; [exact A|]. intros p. rewrite B. cbn [In].
      apply contains_path_In in E. split; [tauto|]. intros [H|[<-|H]]; auto.
    + assert (Hn: ~ In q acc) by (intros Hin; apply contains_path_In in Hin; congruence).
      assert (Hacc': NoDup (acc ++ [q])).
      { clear - Hacc Hn. induction acc as [|y t IHt]; cbn [app]; [constructor; [intros []|constructor]|].
        inversion Hacc as [|? ? Hy Ht]; subst. constructor.
        - intros Hin. apply in_app_or in Hin. destruct Hin as [Hin|[<-|[]]]; [contradiction|]. apply Hn. left. reflexivity.
        - apply IHt; [exact Ht|]. intros Hin. apply Hn. right. exact Hin. }
      destruct (IH (acc ++ [q]) Hacc') as [A B]. split; [exact A|]. intros p. rewrite B, in_app_iff. cbn [In]. tauto.
Qed.

Theorem scrub_fields_sound fuel client root ps :
  scrub_fields fuel client root = Ok ps -> NoDup ps /\ Forall (scrubbed_ok client) ps.
Proof.
  destruct root as [loc ptype ipoint sels thens]. unfold scrub_fields.
  intros H. apply bind_ok_inv in H. destruct H as [all [Ha H]]. injection H as <-.
  destruct (dedupe_spec all [] (NoDup_nil _)) as [A B]. split; [exact A|].
  assert (Hall: Forall (scrubbed_ok client) all).
  { clear A B. revert all Ha. induction thens as [|x r IHr]; intros all Ha.
    - injection Ha as <-. constructor.
    - apply bind_ok_inv in Ha. destruct Ha as [a [Hx Ha]]. apply bind_ok_inv in Ha. destruct Ha as [b [Hr Ha]].
      injection Ha as <-. apply Forall_app. split; [eapply scrub_walk_sound; exact Hx|apply IHr; exact Hr]. }
  apply Forall_forall. intros p Hp. apply B in Hp. destruct Hp as [[]|Hp]. rewrite Forall_forall in Hall. apply Hall. exact Hp.
Qed.

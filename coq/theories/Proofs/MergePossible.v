(* Possible types and implemented interfaces are computed from the merged definitions, so they
   do not depend on the order of the services either. *)
From Coq Require Import String List Bool Arith Lia Permutation.
From GW Require Import Base.Res Base.GoStr Gql.Schema Gw.Merge Gw.MergeCheck Proofs.MergeBasics Proofs.MergeProofs
  Proofs.MergeUnion Proofs.MergeWhole Proofs.MergeResult Proofs.MergeIfaces.
Import ListNotations.
Open Scope string_scope.
Open Scope list_scope.

(* ---------- the table of pairs ---------- *)
Definition add_pair (k v : string) : list (string * list string) -> list (string * list string) :=
  fix add (acc : list (string * list string)) :=
    match acc with
    | [] => [(k, [v])]
    | (k', vs) :: t => if String.eqb k k' then (k', vs ++ [v]) :: t else (k', vs) :: add t
    end.

Lemma add_pair_nil k v : add_pair k v [] = [(k, [v])].
Proof. reflexivity. Qed.
Lemma add_pair_cons k v k' vs t :
  add_pair k v ((k', vs) :: t) = if String.eqb k k' then (k', vs ++ [v]) :: t else (k', vs) :: add_pair k v t.
Proof. reflexivity. Qed.

Lemma group_pairs_cons k v r acc : group_pairs ((k, v) :: r) acc = group_pairs r (add_pair k v acc).
Proof. reflexivity. Qed.

Lemma assoc_add_pair k' k v : forall acc,
  assoc_l k' (add_pair k v acc) = if String.eqb k' k then assoc_l k acc ++ [v] else assoc_l k' acc.
Proof.
  induction acc as [|[k0 vs] t IH]; [rewrite add_pair_nil|rewrite add_pair_cons].
  - cbn [assoc_l]. destruct (String.eqb k' k); reflexivity.
  - destruct (String.eqb k k0) eqn:E0.
    + apply String.eqb_eq in E0. subst k0. cbn [assoc_l]. rewrite String.eqb_refl. destruct (String.eqb k' k); reflexivity.
    + cbn [assoc_l]. rewrite E0. destruct (String.eqb k' k0) eqn:E1.
      * destruct (String.eqb k' k) eqn:E; [|reflexivity].
        apply String.eqb_eq in E, E1. subst. rewrite String.eqb_refl in E0. discriminate.
      * rewrite IH. reflexivity.
Qed.

Lemma group_pairs_assoc k v : forall l acc,
  In v (assoc_l k (group_pairs l acc)) <-> In v (assoc_l k acc) \/ In (k, v) l.
Proof.
  induction l as [|[k0 v0] r IH]; intros acc.
  - cbn [group_pairs In]. tauto.
  - rewrite group_pairs_cons, IH, assoc_add_pair. cbn [In].
    destruct (String.eqb k k0) eqn:E.
    + apply String.eqb_eq in E. subst k0. rewrite in_app_iff. cbn [In]. split.
      * intros [[H|[H|[]]]|H]; [left; exact H|right; left; congruence|right; right; exact H].
      * intros [H|[H|H]]; [left; left; exact H|left; right; left; congruence|right; exact H].
    + apply String.eqb_neq in E. split.
      * intros [H|H]; [left; exact H|right; right; exact H].
      * intros [H|[H|H]]; [left; exact H|congruence|right; exact H].
Qed.

(* ---------- the merged names are distinct ---------- *)
Lemma nodup_app_intro {A} (a b : list A) : NoDup a -> NoDup b -> (forall x, In x a -> In x b -> False) -> NoDup (a ++ b).
Proof.
  induction a as [|x r IH]; intros Ha Hb Hd; cbn [app]; [exact Hb|]. inversion Ha as [|? ? Hx Hr]; subst. constructor.
  - intros Hin. apply in_app_or in Hin. destruct Hin as [Hin|Hin]; [exact (Hx Hin)|exact (Hd x (or_introl eq_refl) Hin)].
  - apply IH; [exact Hr|exact Hb|]. intros y Hy. apply Hd. right. exact Hy.
Qed.

Lemma dedup_nodup l : NoDup (dedup l).
Proof.
  induction l as [|x r IH]; cbn [dedup]; [constructor|]. constructor.
  - intros H. apply filter_In in H. destruct H as [_ H]. rewrite String.eqb_refl in H. discriminate.
  - apply NoDup_filter. exact IH.
Qed.

Lemma names_of_groups (f : string * list definition -> res definition) (src : string -> list definition) : forall ks out,
  (forall k o, In k ks -> f (k, src k) = Ok o -> df_name o = k) ->
  res_map f (map (fun k => (k, src k)) ks) = Ok out -> map df_name out = ks.
Proof.
  induction ks as [|k ks IH]; intros out Hn H.
  - cbn [map res_map] in H. assert (out = []) by congruence. subst. reflexivity.
  - cbn [map res_map] in H.
    match type of H with (bind ?X _ = _) => destruct X as [o|e|e] eqn:E0; cbn [bind] in H; try discriminate end.
    match type of H with (bind ?X _ = _) => destruct X as [out'|e|e] eqn:Er; cbn [bind] in H; try discriminate end.
    injection H as <-. cbn [map]. rewrite (Hn k o (or_introl eq_refl) E0).
    rewrite (IH out' (fun k' o' Hk' => Hn k' o' (or_intror Hk')) eq_refl). reflexivity.
Qed.

Lemma first_named k (l : list definition) d r : filter (named k) l = d :: r -> df_name d = k.
Proof.
  intros E. assert (Hd : In d (filter (named k) l)) by (rewrite E; left; reflexivity).
  apply filter_In in Hd. destruct Hd as [_ Hd]. apply String.eqb_eq. exact Hd.
Qed.

Theorem merge_types_names_nodup all out : merge_types all = Ok out -> NoDup (map df_name out).
Proof.
  unfold merge_types. fold (I_of all). fold (O_of all). intros H.
  destruct (res_map merge_named_group (group_by df_name (I_of all))) as [mi|e|e] eqn:Em; cbn [bind] in H; try discriminate.
  match type of H with (bind ?X _ = _) => destruct X as [mo|e|e] eqn:Eo; cbn [bind] in H; try discriminate end.
  injection H as <-.
  assert (Hfst : map fst (group_by df_name (O_of all)) = dedup (map df_name (O_of all))).
  { unfold group_by. rewrite map_map. cbn [fst]. apply map_id. }
  rewrite Hfst.
  assert (Nmi : map df_name mi = dedup (map df_name (I_of all))).
  { unfold group_by in Em. apply (names_of_groups merge_named_group (fun k => filter (fun x => String.eqb (df_name x) k) (I_of all)) _ _) in Em; [exact Em|].
    intros k o Hk Ho. apply (proj1 (dedup_In _ _)) in Hk. destruct (filter_nonempty k (I_of all) Hk) as [d [r E]].
    unfold merge_named_group in Ho. cbn [snd] in Ho. fold (named k) in Ho. rewrite E in Ho.
    destruct (merge_group_name_kind _ _ _ Ho) as [Hn _]. rewrite Hn. exact (first_named k _ d r E). }
  assert (Nmo : map df_name mo = dedup (map df_name (O_of all))).
  { unfold group_by in Eo.
    apply (names_of_groups _ (fun k => filter (fun x => String.eqb (df_name x) k) (O_of all)) _ _) in Eo; [exact Eo|].
    intros k o Hk Ho. apply (proj1 (dedup_In _ _)) in Hk. destruct (filter_nonempty k (O_of all) Hk) as [d [r E]].
    cbn [fst snd] in Ho. fold (named k) in Ho. rewrite E in Ho.
    pose proof (find_merged (I_of all) k (dedup (map df_name (I_of all))) mi (fun k' Hk' => proj1 (dedup_In _ _) Hk') Em) as Hf.
    destruct (find_def k mi) as [i|] eqn:Ei.
    - destruct (merge_group_name_kind _ _ _ Ho) as [Hn _]. rewrite Hn.
      destruct (find_def_Some _ _ _ Ei) as [_ Hni]. exact Hni.
    - unfold merge_named_group in Ho. cbn [snd] in Ho.
      destruct (merge_group_name_kind _ _ _ Ho) as [Hn _]. rewrite Hn. exact (first_named k _ d r E). }
  rewrite map_app. apply nodup_app_intro.
  - rewrite <- (map_id (filter _ mi)). rewrite map_map.
    assert (Hsub : forall l, NoDup (map df_name l) -> NoDup (map df_name (filter (fun i => negb (str_mem (df_name i) (dedup (map df_name (O_of all))))) l))).
    { induction l as [|x r IH]; cbn [filter map]; [constructor|]. intros Hnd. inversion Hnd as [|? ? Hx Hr]; subst.
      destruct (negb _); [|apply IH; exact Hr]. cbn [map]. constructor; [|apply IH; exact Hr].
      intros Hin. apply Hx. apply in_map_iff in Hin. destruct Hin as [y [Ey Hy]]. apply filter_In in Hy. rewrite <- Ey. apply in_map. tauto. }
    cbn beta. apply Hsub. rewrite Nmi. apply dedup_nodup.
  - rewrite Nmo. apply dedup_nodup.
  - intros x Hx1 Hx2. rewrite Nmo in Hx2. apply in_map_iff in Hx1. destruct Hx1 as [y [Ey Hy]]. apply filter_In in Hy.
    destruct Hy as [_ Hy]. apply negb_true_iff in Hy. rewrite Ey in Hy.
    assert (str_mem x (dedup (map df_name (O_of all))) = true) by (apply str_mem_In; exact Hx2). congruence.
Qed.

(* ---------- definitions of the two results correspond ---------- *)
Definition kinds_ok (d : definition) : Prop := implementing (df_kind d) \/ df_ifaces d = [].

Lemma find_def_In_nodup l d : NoDup (map df_name l) -> In d l -> find_def (df_name d) l = Some d.
Proof.
  induction l as [|x r IH]; intros Hn Hin; [destruct Hin|]. cbn [map] in Hn. inversion Hn as [|? ? Hx Hr]; subst. cbn [find_def].
  destruct Hin as [->|Hin]; [rewrite String.eqb_refl; reflexivity|].
  destruct (String.eqb (df_name x) (df_name d)) eqn:E; [|apply IH; assumption].
  apply String.eqb_eq in E. exfalso. apply Hx. rewrite E. apply in_map. exact Hin.
Qed.

Lemma merge2_keeps_ifaces p n p' : merge2 p n = Ok p' -> ~ implementing (df_kind p) -> df_ifaces p' = df_ifaces p.
Proof.
  unfold merge2. destruct (is_internal_name (df_name n)); [intros [= <-]; reflexivity|].
  destruct (kind_eqb (df_kind p) (df_kind n)) eqn:Ek; cbn [negb]; [|discriminate]. apply kind_eqb_eq in Ek. rewrite <- Ek.
  intros H Hk. destruct (df_kind p) eqn:Kp.
  - unfold merge_scalars in H. destruct (negb _) in H; [discriminate|]. injection H as <-. reflexivity.
  - exfalso. apply Hk. left. reflexivity.
  - exfalso. apply Hk. right. reflexivity.
  - unfold merge_unions in H. destruct (slices_equivalent _ _) in H; [|discriminate]. destruct (negb _) in H; [discriminate|].
    injection H as <-. reflexivity.
  - unfold merge_enums in H. destruct (is_internal_name (df_name p)) in H; [injection H as <-; reflexivity|].
    destruct (negb _) in H; [discriminate|].
    match type of H with (bind ?X _ = _) => destruct X; cbn [bind] in H; try discriminate end.
    destruct (negb _) in H; [discriminate|]. injection H as <-. reflexivity.
  - unfold merge_inputs in H. destruct (negb _) in H; [discriminate|].
    match type of H with (bind ?X _ = _) => destruct X; cbn [bind] in H; try discriminate end.
    destruct (negb _) in H; [discriminate|]. injection H as <-. reflexivity.
Qed.

Lemma merge_group_keeps_ifaces : forall ds p out, merge_group p ds = Ok out -> ~ implementing (df_kind p) -> df_ifaces out = df_ifaces p.
Proof.
  induction ds as [|n r IH]; intros p out H Hk; cbn [merge_group] in H; [injection H as <-; reflexivity|].
  destruct (merge2 p n) as [p'|e|e] eqn:E; cbn [bind] in H; try discriminate.
  destruct (merge2_name_kind _ _ _ E) as [_ Hkind].
  rewrite (IH p' out H); [apply (merge2_keeps_ifaces _ _ _ E Hk)|rewrite Hkind; exact Hk].
Qed.

Lemma implementing_dec k : {implementing k} + {~ implementing k}.
Proof. destruct k; try (left; left; reflexivity); try (left; right; reflexivity); right; intros [H|H]; discriminate. Qed.

Theorem defined_iff all out k : merge_types all = Ok out -> (find_def k out <> None <-> In k (map df_name all)).
Proof.
  intros H. pose proof (merge_types_find all out k H) as F. destruct (find_def k out) as [o|].
  - destruct F as [d [r [P _]]]. split; [intros _|intros _; discriminate].
    assert (Hd : In d (filter (named k) all)) by (eapply Permutation_in; [apply Permutation_sym; exact P|left; reflexivity]).
    apply filter_In in Hd. destruct Hd as [Hin Hn]. apply String.eqb_eq in Hn. rewrite <- Hn. apply in_map. exact Hin.
  - split; [intros Hc; exfalso; apply Hc; reflexivity|intros Hin; exfalso; exact (F Hin)].
Qed.

(* every definition of one result has a counterpart in the other: same name and kind, the same
   interfaces, the same members *)
Theorem counterpart all all' out out' d :
  Permutation all all' -> Forall wf_def all -> Forall kinds_ok all ->
  merge_types all = Ok out -> merge_types all' = Ok out' ->
  In d out -> is_internal_name (df_name d) = false ->
  exists d', In d' out' /\ df_name d' = df_name d /\ df_kind d' = df_kind d /\
             (forall i, In i (df_ifaces d) <-> In i (df_ifaces d')) /\
             (df_kind d = KUnion -> forall x, In x (df_members d) <-> In x (df_members d')).
Proof.
  intros Hp Hw Hko H1 H2 Hd Hk.
  pose proof (find_def_In_nodup out d (merge_types_names_nodup all out H1) Hd) as Fa.
  pose proof (merge_types_result_order_independent all all' out out' (df_name d) Hp Hw Hk H1 H2) as Hs. rewrite Fa in Hs.
  destruct (find_def (df_name d) out') as [d'|] eqn:Fb; [|destruct Hs].
  destruct (find_def_Some _ _ _ Fb) as [Hin' Hn']. exists d'. split; [exact Hin'|]. split; [exact Hn'|].
  destruct Hs as [Hkk Hrel]. split; [symmetry; exact Hkk|]. split.
  - destruct (implementing_dec (df_kind d)) as [Hi|Hni].
    + exact (merge_types_ifaces_order_independent all all' out out' (df_name d) d d' Hp Hw Hk H1 H2 Fa Fb Hi).
    + (* neither an object nor an interface: no interfaces on either side *)
      assert (Hempty : forall al o x, merge_types al = Ok o -> Forall kinds_ok al -> find_def (df_name d) o = Some x ->
                                      ~ implementing (df_kind x) -> df_ifaces x = []).
      { intros al o x Hm Hal Fx Hnx. pose proof (merge_types_find al o (df_name d) Hm) as F. rewrite Fx in F.
        destruct F as [d0 [r [P G]]]. destruct (merge_group_name_kind _ _ _ G) as [_ K0].
        rewrite (merge_group_keeps_ifaces _ _ _ G); [|rewrite <- K0; exact Hnx].
        assert (Hd0 : In d0 al).
        { assert (Hf : In d0 (filter (named (df_name d)) al)) by (eapply Permutation_in; [apply Permutation_sym; exact P|left; reflexivity]).
          apply filter_In in Hf. tauto. }
        rewrite Forall_forall in Hal. destruct (Hal d0 Hd0) as [Hi0|He0]; [|exact He0]. exfalso. apply Hnx. rewrite K0. exact Hi0. }
      rewrite (Hempty all out d H1 Hko Fa Hni).
      rewrite (Hempty all' out' d' H2 (Permutation_Forall Hp Hko) Fb); [tauto|]. rewrite <- Hkk. exact Hni.
  - intros Ku. rewrite Ku in Hrel. destruct Hrel as [_ Hrel]. rewrite Ku in Hrel. exact Hrel.
Qed.

(* ---------- possible types ---------- *)
Theorem possible_pairs_order_independent all all' out out' k v :
  Permutation all all' -> Forall wf_def all -> Forall kinds_ok all ->
  merge_types all = Ok out -> merge_types all' = Ok out' ->
  is_internal_name k = false -> is_internal_name v = false ->
  In (k, v) (flat_map (possible_of out) out) -> In (k, v) (flat_map (possible_of out') out').
Proof.
  intros Hp Hw Hko H1 H2 Hk Hv Hin. apply in_flat_map in Hin. destruct Hin as [d [Hd Hpair]].
  apply in_flat_map. unfold possible_of in Hpair. destruct (df_kind d) eqn:Kd.
  1,2,3,5,6:
    (assert (Hvd : v = df_name d) by
       (destruct Hpair as [Hpair|Hpair]; [congruence|apply in_map_iff in Hpair; destruct Hpair as [i [Ei _]]; congruence]);
     assert (Hnd : is_internal_name (df_name d) = false) by (rewrite <- Hvd; exact Hv);
     destruct (counterpart all all' out out' d Hp Hw Hko H1 H2 Hd Hnd) as [d' [Hd' [Hn' [Hk' [Hif _]]]]];
     exists d'; split; [exact Hd'|]; unfold possible_of; rewrite Hk', Kd, Hn';
     destruct Hpair as [Hpair|Hpair]; [left; exact Hpair|right];
     apply in_map_iff in Hpair; destruct Hpair as [i [Ei Hi]]; apply in_map_iff; exists i; split; [exact Ei|apply Hif; exact Hi]).
  (* union *)
  apply in_map_iff in Hpair. destruct Hpair as [m [Em Hm]]. apply filter_In in Hm. destruct Hm as [Hm Hdef].
  assert (Hkd : k = df_name d) by congruence. assert (Hvm : v = m) by congruence. subst m.
  assert (Hnd : is_internal_name (df_name d) = false) by (rewrite <- Hkd; exact Hk).
  destruct (counterpart all all' out out' d Hp Hw Hko H1 H2 Hd Hnd) as [d' [Hd' [Hn' [Hk' [_ Hmem]]]]].
  exists d'. split; [exact Hd'|]. unfold possible_of. rewrite Hk', Kd, Hn'. apply in_map_iff. exists v. split; [congruence|].
  apply filter_In. split; [apply (Hmem Kd); exact Hm|].
  assert (Hdv : find_def v out <> None) by (destruct (find_def v out); [discriminate|discriminate]).
  apply (defined_iff all out v H1) in Hdv.
  assert (Hdv' : find_def v out' <> None).
  { apply (defined_iff all' out' v H2). eapply Permutation_in; [apply Permutation_map; exact Hp|exact Hdv]. }
  destruct (find_def v out'); [reflexivity|exfalso; apply Hdv'; reflexivity].
Qed.

(* ---------- implemented interfaces, as registered ---------- *)
Definition implements_of (types : list definition) : list (string * list string) :=
  map (fun d => (df_name d, filter (fun i => match find_def i types with Some _ => true | None => false end) (df_ifaces d)))
      (filter (fun d => negb (kind_eqb (df_kind d) KUnion)) types).

Lemma assoc_implements types k : forall l,
  assoc_l k (map (fun d => (df_name d, filter (fun i => match find_def i types with Some _ => true | None => false end) (df_ifaces d)))
                 (filter (fun d => negb (kind_eqb (df_kind d) KUnion)) l)) =
  match find_def k (filter (fun d => negb (kind_eqb (df_kind d) KUnion)) l) with
  | Some d => filter (fun i => match find_def i types with Some _ => true | None => false end) (df_ifaces d)
  | None => []
  end.
Proof.
  intros l. induction (filter (fun d => negb (kind_eqb (df_kind d) KUnion)) l) as [|x r IH]; cbn [map assoc_l find_def]; [reflexivity|].
  rewrite (String.eqb_sym k). destruct (String.eqb (df_name x) k); [reflexivity|exact IH].
Qed.

Theorem implements_order_independent all all' out out' k i :
  Permutation all all' -> Forall wf_def all -> Forall kinds_ok all ->
  merge_types all = Ok out -> merge_types all' = Ok out' ->
  is_internal_name k = false ->
  In i (assoc_l k (implements_of out)) -> In i (assoc_l k (implements_of out')).
Proof.
  intros Hp Hw Hko H1 H2 Hk. unfold implements_of. rewrite !assoc_implements.
  destruct (find_def k (filter _ out)) as [d|] eqn:Fd; [|intros []].
  destruct (find_def_Some _ _ _ Fd) as [Hdf Hn]. apply filter_In in Hdf. destruct Hdf as [Hd Hnu]. subst k.
  destruct (counterpart all all' out out' d Hp Hw Hko H1 H2 Hd Hk) as [d' [Hd' [Hn' [Hk' [Hif _]]]]].
  assert (Fd' : find_def (df_name d) (filter (fun d0 => negb (kind_eqb (df_kind d0) KUnion)) out') = Some d').
  { rewrite <- Hn'. apply find_def_In_nodup.
    - pose proof (merge_types_names_nodup all' out' H2) as Nn. clear - Nn. induction out' as [|x r IH]; cbn [filter map]; [constructor|].
      cbn [map] in Nn. inversion Nn as [|? ? Hx Hr]; subst. destruct (negb _); [|apply IH; exact Hr]. cbn [map]. constructor; [|apply IH; exact Hr].
      intros Hin. apply Hx. apply in_map_iff in Hin. destruct Hin as [y [Ey Hy]]. apply filter_In in Hy. rewrite <- Ey. apply in_map. tauto.
    - apply filter_In. split; [exact Hd'|rewrite Hk'; exact Hnu]. }
  rewrite Fd'. intros Hi. apply filter_In in Hi. destruct Hi as [Hi Hdef]. apply filter_In. split; [apply Hif; exact Hi|].
  assert (Hdv : find_def i out <> None) by (destruct (find_def i out); discriminate).
  apply (defined_iff all out i H1) in Hdv.
  assert (Hdv' : find_def i out' <> None).
  { apply (defined_iff all' out' i H2). eapply Permutation_in; [apply Permutation_map; exact Hp|exact Hdv]. }
  destruct (find_def i out'); [reflexivity|exfalso; apply Hdv'; reflexivity].
Qed.

(* ---------- the merged schema ---------- *)
Theorem merged_tables_order_independent srcs srcs' m m' k v :
  Permutation srcs srcs' ->
  Forall wf_def (flat_map s_types srcs) -> Forall kinds_ok (flat_map s_types srcs) ->
  merge_schemas srcs = Ok m -> merge_schemas srcs' = Ok m' ->
  is_internal_name k = false -> is_internal_name v = false ->
  (In v (assoc_l k (m_possible m)) <-> In v (assoc_l k (m_possible m'))) /\
  (In v (assoc_l k (m_implements m)) <-> In v (assoc_l k (m_implements m'))).
Proof.
  intros Hp Hw Hko H1 H2 Hk Hv.
  assert (Pt : Permutation (flat_map s_types srcs) (flat_map s_types srcs')) by (apply Permutation_flat_map; exact Hp).
  unfold merge_schemas in H1, H2.
  destruct (merge_types (flat_map s_types srcs)) as [out|e|e] eqn:E1; cbn [bind] in H1; try discriminate.
  destruct (merge_types (flat_map s_types srcs')) as [out'|e|e] eqn:E2; cbn [bind] in H2; try discriminate.
  match type of H1 with (bind ?X _ = _) => destruct X; cbn [bind] in H1; try discriminate end.
  match type of H2 with (bind ?X _ = _) => destruct X; cbn [bind] in H2; try discriminate end.
  injection H1 as <-. injection H2 as <-. cbn [m_possible m_implements].
  pose proof (Permutation_Forall Pt Hw) as Hw'. pose proof (Permutation_Forall Pt Hko) as Hko'.
  split.
  - rewrite !group_pairs_assoc. cbn [assoc_l In]. split; intros [[]|H]; right.
    + exact (possible_pairs_order_independent _ _ _ _ k v Pt Hw Hko E1 E2 Hk Hv H).
    + exact (possible_pairs_order_independent _ _ _ _ k v (Permutation_sym Pt) Hw' Hko' E2 E1 Hk Hv H).
  - split; intros H.
    + exact (implements_order_independent _ _ _ _ k v Pt Hw Hko E1 E2 Hk H).
    + exact (implements_order_independent _ _ _ _ k v (Permutation_sym Pt) Hw' Hko' E2 E1 Hk H).
Qed.

(* executable form of the hypotheses, evaluated by the harness on the sources of every case *)
Definition kinds_okb (d : definition) : bool :=
  match df_kind d with KObject | KInterface => true | _ => match df_ifaces d with [] => true | _ => false end end.

Lemma kinds_okb_sound d : kinds_okb d = true -> kinds_ok d.
Proof.
  unfold kinds_okb, kinds_ok, implementing. destruct (df_kind d); try (intros _; left; auto; fail);
    destruct (df_ifaces d); try discriminate; intros _; right; reflexivity.
Qed.

Definition types_wfb (srcs : list schema) : bool :=
  forallb wf_defb (flat_map s_types srcs) && forallb kinds_okb (flat_map s_types srcs).

Lemma types_wfb_sound srcs : types_wfb srcs = true ->
  Forall wf_def (flat_map s_types srcs) /\ Forall kinds_ok (flat_map s_types srcs).
Proof.
  unfold types_wfb. rewrite andb_true_iff. intros [A B]. split; [apply forallb_wf_defb_sound; exact A|].
  rewrite forallb_forall in B. apply Forall_forall. intros d Hd. apply kinds_okb_sound. exact (B d Hd).
Qed.

(* the root operation types *)
Theorem merged_roots_order_independent srcs srcs' m m' :
  Permutation srcs srcs' -> merge_schemas srcs = Ok m -> merge_schemas srcs' = Ok m' -> m_roots m = m_roots m'.
Proof.
  intros Hp H1 H2.
  assert (Pt : Permutation (flat_map s_types srcs) (flat_map s_types srcs')) by (apply Permutation_flat_map; exact Hp).
  unfold merge_schemas in H1, H2.
  destruct (merge_types (flat_map s_types srcs)) as [out|e|e] eqn:E1; cbn [bind] in H1; try discriminate.
  destruct (merge_types (flat_map s_types srcs')) as [out'|e|e] eqn:E2; cbn [bind] in H2; try discriminate.
  match type of H1 with (bind ?X _ = _) => destruct X; cbn [bind] in H1; try discriminate end.
  match type of H2 with (bind ?X _ = _) => destruct X; cbn [bind] in H2; try discriminate end.
  injection H1 as <-. injection H2 as <-. cbn [m_roots map].
  assert (Hroot : forall n, match find_def n out with Some _ => n | None => "" end = match find_def n out' with Some _ => n | None => "" end).
  { intros n. pose proof (defined_iff _ _ n E1) as D1. pose proof (defined_iff _ _ n E2) as D2.
    assert (Hn : In n (map df_name (flat_map s_types srcs)) <-> In n (map df_name (flat_map s_types srcs'))).
    { split; apply Permutation_in; [|apply Permutation_sym]; apply Permutation_map; exact Pt. }
    destruct (find_def n out) as [a1|], (find_def n out') as [b1|]; try reflexivity; exfalso.
    - assert (Hc : @None definition <> None) by (apply D2, Hn, D1; discriminate). apply Hc. reflexivity.
    - assert (Hc : @None definition <> None) by (apply D1, Hn, D2; discriminate). apply Hc. reflexivity. }
  rewrite (Hroot "Query"), (Hroot "Mutation"), (Hroot "Subscription"). reflexivity.
Qed.

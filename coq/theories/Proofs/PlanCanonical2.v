(* The planner on the canonical join, with any selection tree below the root field that stays at
   service A (nested objects, lists, inline fragments, arguments, directives) beside the scalar
   fields that go to service B. *)
From Coq Require Import String List Bool Arith.
From GW Require Import Base.Res Base.GoStr Gql.Syntax Gw.Locate Gw.Plan Proofs.PlanCanonical Proofs.SingleService.
Import ListNotations.
Open Scope string_scope.
Open Scope list_scope.

Section PlanCanon2.
  Variable prios : list string.
  Variable urls : urlmap.
  Variable ft : ftypes.

  Notation choose := (choose prios urls).

  Lemma keep_app below ptype ipoint wrapper : forall a b,
    keep_with ft below ptype ipoint wrapper (a ++ b) =
    (x <- keep_with ft below ptype ipoint wrapper a ;; y <- keep_with ft below ptype ipoint wrapper b ;;
     Ok (fst x ++ fst y, snd x ++ snd y)).
  Proof.
    induction a as [|s r IH]; intros b; cbn [app].
    - cbn [keep_with bind fst snd app]. destruct (keep_with ft below ptype ipoint wrapper b) as [[ks ps]|e|e]; reflexivity.
    - cbn [keep_with]. rewrite IH.
      match goal with |- context [bind ?h _] => destruct h as [[hs hps]|e|e] end; cbn [bind]; try reflexivity.
      destruct (keep_with ft below ptype ipoint wrapper r) as [[ks ps]|e|e]; cbn [bind]; try reflexivity.
      destruct (keep_with ft below ptype ipoint wrapper b) as [[ks' ps']|e|e]; cbn [bind fst snd]; try reflexivity.
      rewrite <- !app_assoc. reflexivity.
  Qed.

  Variable rootT T locA locB : string.
  Variable ka kn : string.
  Variable args : list (string * value).
  Variable l1 l2 : list sel.
  Variable n : nat.
  Hypothesis locA_ne : locA <> "".
  Hypothesis locAB : locA <> locB.
  Hypothesis root_from_gateway : choose rootT kn "" = Ok locA.
  Hypothesis root_stays : choose rootT kn locA = Ok locA.
  Hypothesis root_type : assoc (url_key rootT kn) ft = Some T.
  Hypothesis l1_at_A : Forall (at1 prios urls ft locA n T) l1.
  Hypothesis l2_to_B : Forall (at_loc prios urls T locA locB) l2.
  Hypothesis l2_stays : Forall (at_loc prios urls T locB locB) l2.
  Hypothesis l2_ne : l2 <> [].

  Notation payB := (payB T locB ka l2).

  Lemma extract_objects2 :
    extract prios urls ft (S n) T locA [ka] [] (l1 ++ l2) = Ok (l1 ++ [id_field], [payB]).
  Proof.
    assert (EBA : String.eqb locB locA = false) by (apply String.eqb_neq; congruence).
    assert (Hbelow : forall t ip wr sub, sub <> [] -> Forall (inner prios urls ft locA n t) sub ->
                       extract prios urls ft n t locA ip wr sub = Ok (sub, [])).
    { intros t ip wr sub Hne Hf. destruct n as [|n']; cbn [inner] in Hf.
      - destruct sub; [congruence|]. inversion Hf as [|? ? Hx _]. destruct Hx.
      - apply extract_all. exact Hf. }
    rewrite (extract_S prios urls ft). rewrite group_app.
    unfold PlanCanonical.payB. destruct l2 as [|s2 r2]; [congruence|].
    destruct l1 as [|s1 r1].
    - change (group prios urls T locA [] []) with (@Ok (list (string * list sel)) []). cbn [bind app].
      rewrite (group_all prios urls T locA locB (s2 :: r2) [] l2_to_B).
      rewrite add_all_nil. cbn [bind queue_others]. rewrite EBA. cbn [bind get_at]. rewrite String.eqb_sym, EBA.
      cbn [app]. rewrite (keep_leaves ft) by (repeat constructor). cbn [bind fst snd app]. reflexivity.
    - rewrite (group_one_nil prios urls ft locA n T s1 r1 l1_at_A). cbn [bind].
      rewrite (group_all prios urls T locA locB (s2 :: r2) _ l2_to_B).
      rewrite (add_all_other locA locB _ s2 r2 locAB). cbn [bind queue_others].
      rewrite EBA. cbn [bind]. rewrite String.eqb_refl. cbn [bind get_at]. rewrite String.eqb_refl.
      rewrite keep_app. rewrite (keep_all prios urls ft locA n T [ka] [] _ Hbelow _ l1_at_A). cbn [bind].
      rewrite (keep_leaves ft) by (repeat constructor). cbn [bind fst snd app]. reflexivity.
  Qed.

  Lemma extract_root2 :
    extract prios urls ft (S (S n)) rootT locA [] [] [root_field ka kn args (l1 ++ l2)] =
    Ok ([root_field ka kn args (l1 ++ [id_field])], [payB]).
  Proof.
    rewrite (extract_S prios urls ft). cbn [group root_field]. rewrite root_stays. cbn [bind add_at queue_others]. rewrite String.eqb_refl.
    cbn [bind get_at]. rewrite String.eqb_refl.
    cbn [keep_with]. destruct (l1 ++ l2) as [|x r] eqn:E.
    - apply app_eq_nil in E. destruct E as [_ E]. congruence.
    - rewrite root_type. rewrite <- E. cbn [app]. rewrite extract_objects2. cbn [bind fst snd app]. reflexivity.
  Qed.

  Theorem canonical_plan_is_planned2 :
    plan_operation prios urls ft (S (S (S n))) rootT [root_field ka kn args (l1 ++ l2)] =
    Ok (PStep "" rootT [] [id_field]
          [PStep locA rootT [] [root_field ka kn args (l1 ++ [id_field])] [PStep locB T [ka] l2 []]]).
  Proof.
    unfold plan_operation. cbn [build pl_ptype pl_loc pl_ipoint pl_wrapper pl_sels].
    rewrite (extract_top prios urls ft rootT locA ka kn args l1 l2 locA_ne root_from_gateway (S (S n))). cbn [bind snd fst map_res].
    cbn [build payA pl_ptype pl_loc pl_ipoint pl_wrapper pl_sels].
    rewrite extract_root2. cbn [bind snd fst map_res].
    cbn [build PlanCanonical.payB pl_ptype pl_loc pl_ipoint pl_wrapper pl_sels].
    rewrite (extract_remote prios urls ft T locA locB ka l2 l2_to_B l2_stays l2_ne n). cbn [bind snd fst map_res]. reflexivity.
  Qed.
End PlanCanon2.

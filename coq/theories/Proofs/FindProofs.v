(* executorFindInsertionPoints: the points it returns all extend the branch it started from by one
   realised point per target, and any two of them part ways (they name different elements of some
   list on the way): every parent object gets its own point, none is named twice.  Together with
   walk_frame (PointsProofs.v): stitching or scrubbing at one point leaves every other point alone. *)
From Coq Require Import String Ascii List Bool Arith ZArith Lia.
From GW Require Import Base.Res Base.GoStr Base.Json Gw.Points Proofs.CodecProofs Proofs.PointsProofs.
Import ListNotations.
Open Scope string_scope.
Open Scope list_scope.

Section Find.
  (* list indexes are printed and parsed as Go ints: the lists of a response are shorter than 2^63 *)
  Variable B : nat.
  Hypothesis HB : (Z.of_nat B <= int64_max)%Z.

  Fixpoint lists_le (j : json) : Prop :=
    match j with
    | JArr l => length l <= B /\ (fix all (l : list json) : Prop := match l with [] => True | x :: r => lists_le x /\ all r end) l
    | JObj m => (fix all (m : list (string * json)) : Prop := match m with [] => True | (_, v) :: r => lists_le v /\ all r end) m
    | _ => True
    end.

  Lemma lists_le_arr l : lists_le (JArr l) -> length l <= B /\ Forall lists_le l.
  Proof.
    cbn [lists_le]. intros [H1 H2]. split; [exact H1|]. clear H1.
    induction l as [|x r IH]; [constructor|]. destruct H2 as [A C]. constructor; [exact A|apply IH; exact C].
  Qed.

  Lemma lists_le_get m k v : lists_le (JObj m) -> jget k m = Some v -> lists_le v.
  Proof.
    cbn [lists_le]. induction m as [|[k' v'] r IH]; intros H E; cbn [jget] in E; [discriminate|].
    destruct H as [A C]. destruct (String.eqb k k'); [injection E as <-; exact A|apply IH; assumption].
  Qed.

  (* ---------- pairwise relations ---------- *)
  Lemma FOP_app {A} (R : A -> A -> Prop) a b :
    ForallOrdPairs R a -> ForallOrdPairs R b -> (forall x y, In x a -> In y b -> R x y) -> ForallOrdPairs R (a ++ b).
  Proof.
    induction a as [|x r IH]; intros Ha Hb Hab; cbn [app]; [exact Hb|].
    inversion Ha as [|? ? Hx Hr]; subst. constructor.
    - apply Forall_app. split; [exact Hx|]. apply Forall_forall. intros y Hy. apply Hab; [left; reflexivity|exact Hy].
    - apply IH; [exact Hr|exact Hb|]. intros x' y Hx' Hy. apply Hab; [right; exact Hx'|exact Hy].
  Qed.

  Lemma FOP_map_cons ep c l : cell ep = Some c ->
    ForallOrdPairs diverge l -> ForallOrdPairs diverge (map (cons ep) l).
  Proof.
    intros Hc. induction 1 as [|s r Hs Hr IH]; cbn [map]; constructor.
    - apply Forall_forall. intros y Hy. apply in_map_iff in Hy. destruct Hy as [y' [<- Hy']].
      eapply dv_below; [exact Hc|exact Hc|]. rewrite Forall_forall in Hs. apply Hs. exact Hy'.
    - exact IH.
  Qed.

  Lemma map_app_cons (branch : list string) ep sufs :
    map (app (branch ++ [ep])) sufs = map (app branch) (map (cons ep) sufs).
  Proof. rewrite map_map. apply map_ext. intros s. rewrite <- app_assoc. reflexivity. Qed.

  (* ---------- cells of the points the search builds ---------- *)
  Lemma cell_key key : clean_key key -> key <> "" -> cell key = Some (key, None).
  Proof.
    intros Hk Hne. unfold cell. rewrite (decode_key key Hk). destruct (list_element_key_id key "" Hk Hne) as [_ E].
    rewrite E. reflexivity.
  Qed.

  Lemma cell_key_id key id : clean_key key -> key <> "" -> cell (with_id key id) = Some (key, None).
  Proof.
    intros Hk Hne. unfold cell. rewrite (decode_key_id key id Hk). destruct (list_element_key_id key id Hk Hne) as [E _].
    rewrite E. reflexivity.
  Qed.

  Lemma cell_elem key i : clean_key key -> i <= B -> cell (enc_elem key i) = Some (key, Some (Z.of_nat i)).
  Proof.
    intros Hk Hi. assert (Hz: (Z.of_nat i <= int64_max)%Z) by lia.
    unfold cell. rewrite (decode_elem key i Hk Hz). destruct (list_element_elem_id key i "" Hk Hz) as [_ E].
    rewrite E. reflexivity.
  Qed.

  Lemma cell_elem_id key i id : clean_key key -> i <= B -> cell (with_id (enc_elem key i) id) = Some (key, Some (Z.of_nat i)).
  Proof.
    intros Hk Hi. assert (Hz: (Z.of_nat i <= int64_max)%Z) by lia.
    unfold cell. rewrite (decode_elem_id key i id Hk Hz). destruct (list_element_elem_id key i id Hk Hz) as [E _].
    rewrite E. reflexivity.
  Qed.

  (* what the search promises about its result, relative to the branch it was given *)
  Definition found (n : nat) (branch : list string) (pts : list (list string)) : Prop :=
    exists sufs, pts = map (app branch) sufs /\ Forall (fun s => length s = n) sufs /\ ForallOrdPairs diverge sufs.

  Lemma entries_spec last point below n branch :
    clean_key point ->
    (forall m br pts, lists_le (JObj m) -> below m br = Ok pts -> found n br pts) ->
    forall l i pts, length l + i <= B -> Forall lists_le l ->
      find_entries last point below branch l i = Ok pts ->
      exists sufs, pts = map (app branch) sufs /\ Forall (fun s => length s = S n) sufs /\ ForallOrdPairs diverge sufs /\
                   Forall (fun s => exists ep r j, s = ep :: r /\ cell ep = Some (point, Some (Z.of_nat j)) /\ i <= j) sufs.
  Proof.
    intros Hk Hbelow. induction l as [|x r IH]; intros i pts Hlen Hl H; cbn [find_entries] in H.
    - injection H as <-. exists []. repeat split; constructor.
    - inversion Hl as [|? ? Hx Hr]; subst. cbn [length] in Hlen.
      destruct x as [| | | | | |m]; try discriminate.
      + (* a null entry is skipped *)
        destruct (IH (S i) pts ltac:(lia) Hr H) as [sufs (A & C & D & E)]. exists sufs. repeat split; auto.
        eapply Forall_impl; [|exact E]. intros s [ep [r' [j (S1 & S2 & S3)]]]. exists ep, r', j. repeat split; auto. lia.
      + apply bind_ok in H. destruct H as [ep [Hep H]]. apply bind_ok in H. destruct H as [here [Hh H]].
        apply bind_ok in H. destruct H as [more [Hm H]]. injection H as <-.
        assert (Hc: cell ep = Some (point, Some (Z.of_nat i))).
        { destruct last.
          - destruct (jget "id" m); [|discriminate]. injection Hep as <-. apply cell_elem_id; [exact Hk|lia].
          - injection Hep as <-. apply cell_elem; [exact Hk|lia]. }
        destruct (Hbelow _ _ _ Hx Hh) as [sh (A1 & A2 & A3)].
        destruct (IH (S i) more ltac:(lia) Hr Hm) as [sm (B1 & B2 & B3 & B4)].
        exists (map (cons ep) sh ++ sm). split; [|split; [|split]].
        * rewrite A1, B1, map_app, map_app_cons. reflexivity.
        * apply Forall_app. split; [|exact B2]. apply Forall_forall. intros s Hs. apply in_map_iff in Hs.
          destruct Hs as [s' [<- Hs']]. rewrite Forall_forall in A2. cbn [length]. rewrite (A2 _ Hs'). reflexivity.
        * apply FOP_app; [eapply FOP_map_cons; eassumption|exact B3|].
          intros s1 s2 H1 H2. apply in_map_iff in H1. destruct H1 as [s1' [<- _]].
          rewrite Forall_forall in B4. destruct (B4 _ H2) as [ep2 [r2 [j (-> & C2 & Hj)]]].
          eapply dv_index; [exact Hc|exact C2|]. lia.
        * apply Forall_app. split.
          -- apply Forall_forall. intros s Hs. apply in_map_iff in Hs. destruct Hs as [s' [<- _]].
             exists ep, s', i. auto.
          -- eapply Forall_impl; [|exact B4]. intros s [ep2 [r2 [j (S1 & S2 & S3)]]]. exists ep2, r2, j. repeat split; auto. lia.
  Qed.

  Lemma found_cons p c n branch pts : cell p = Some c -> found n (branch ++ [p]) pts -> found (S n) branch pts.
  Proof.
    intros Hc [sufs (A & C & D)]. exists (map (cons p) sufs). split; [rewrite A, map_app_cons; reflexivity|]. split.
    - apply Forall_forall. intros x Hx. apply in_map_iff in Hx. destruct Hx as [x' [<- Hx']].
      rewrite Forall_forall in C. cbn [length]. rewrite (C _ Hx'). reflexivity.
    - eapply FOP_map_cons; [exact Hc|exact D].
  Qed.

  Theorem find_points_spec : forall targets sels chunk branch pts,
    Forall clean_key targets -> Forall (fun k => k <> "") targets -> lists_le (JObj chunk) ->
    find_points targets sels chunk branch = Ok pts -> found (length targets) branch pts.
  Proof.
    induction targets as [|point rest IH]; intros sels chunk branch pts Hk Hne Hl H; cbn [find_points] in H.
    - injection H as <-. exists [[]]. split; [cbn [map]; rewrite app_nil_r; reflexivity|].
      split; constructor; constructor.
    - inversion Hk as [|? ? Hk1 Hk2]; subst. inversion Hne as [|? ? Hn1 Hn2]; subst.
      assert (Hnil: found (length (point :: rest)) branch []) by (exists []; repeat split; constructor).
      destruct (find_selection point sels) as [[key is_list nonnull sub]|]; [|injection H as <-; exact Hnil].
      destruct (jget point chunk) as [root|] eqn:Eg; [|injection H as <-; exact Hnil].
      pose proof (lists_le_get _ _ _ Hl Eg) as Hroot.
      assert (Hsingle: forall p, rest = [] -> found (length (point :: rest)) branch [branch ++ [p]]).
      { intros p ->. exists [[p]]. split; [reflexivity|]. split; constructor; constructor; constructor. }
      assert (Hdown: forall chunk', lists_le (JObj chunk') -> rest <> [] ->
                find_points rest sub chunk' (branch ++ [point]) = Ok pts -> found (length (point :: rest)) branch pts).
      { intros chunk' Hc' _ H'. cbn [length]. eapply found_cons; [apply (cell_key point Hk1 Hn1)|].
        apply (IH _ _ _ _ Hk2 Hn2 Hc' H'). }
      destruct root as [|bv|lit|sv|fv|l|m].
      + destruct nonnull; [discriminate|injection H as <-; exact Hnil].
      + destruct is_list; [discriminate|]. destruct rest; [discriminate|]. apply (Hdown chunk Hl); [discriminate|exact H].
      + destruct is_list; [discriminate|]. destruct rest; [discriminate|]. apply (Hdown chunk Hl); [discriminate|exact H].
      + destruct is_list; [discriminate|]. destruct rest; [discriminate|]. apply (Hdown chunk Hl); [discriminate|exact H].
      + destruct is_list; [discriminate|]. destruct rest; [discriminate|]. apply (Hdown chunk Hl); [discriminate|exact H].
      + (* the value is a list *)
        destruct (lists_le_arr _ Hroot) as [Hlen Hall].
        destruct is_list.
        * destruct (entries_spec _ point _ (length rest) branch Hk1
                      (fun m br pts' Hm Hb => IH sub m br pts' Hk2 Hn2 Hm Hb) l 0 pts ltac:(lia) Hall H) as [sufs (A & C & D & _)].
          exists sufs. auto.
        * destruct rest as [|p2 r2].
          -- destruct l as [|[| | | | | |m] ?]; try discriminate. destruct (jget "id" m); [|discriminate].
             injection H as <-. apply Hsingle. reflexivity.
          -- apply (Hdown chunk Hl); [discriminate|exact H].
      + (* the value is an object *)
        destruct is_list; [discriminate|].
        destruct rest as [|p2 r2].
        * injection H as <-. apply Hsingle. reflexivity.
        * apply (Hdown m Hroot); [discriminate|exact H].
  Qed.

  (* realised paths that share a decodable prefix and part ways after it part ways *)
  Lemma diverge_prefix pre a b : Forall (fun p => cell p <> None) pre -> diverge a b -> diverge (pre ++ a) (pre ++ b).
  Proof.
    induction 1 as [|p r Hp Hr IH]; intros D; cbn [app]; [exact D|].
    destruct (cell p) as [c|] eqn:E; [|congruence]. eapply dv_below; [exact E|exact E|apply IH; exact D].
  Qed.
End Find.

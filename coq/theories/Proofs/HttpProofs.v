From Coq Require Import String Ascii List Bool ZArith Arith Lia Permutation.
From GW Require Import Base.Res Base.GoStr Base.Json Gw.Http.
Import ListNotations.
Open Scope string_scope.
Open Scope list_scope.

(* ---------- the batch: every completion order leaves response i at index i ---------- *)

Lemma nth_error_store {A} (resp : nat -> A) : forall order acc i,
  nth_error (fold_left (fun acc i => upd_nth acc i (Some (resp i))) order acc) i =
  if existsb (Nat.eqb i) order then (if Nat.ltb i (length acc) then Some (Some (resp i)) else None) else nth_error acc i.
Proof.
  induction order as [|j r IH]; intros acc i; simpl; [reflexivity|].
  rewrite IH, upd_nth_length. destruct (Nat.eqb i j) eqn:E; simpl.
  - apply Nat.eqb_eq in E. subst j. destruct (existsb (Nat.eqb i) r); [reflexivity|].
    destruct (Nat.ltb i (length acc)) eqn:L.
    + apply Nat.ltb_lt in L. apply nth_error_upd_nth_eq. exact L.
    + apply Nat.ltb_ge in L. apply nth_error_None. rewrite upd_nth_length. exact L.
  - destruct (existsb (Nat.eqb i) r); [reflexivity|].
    apply nth_error_upd_nth_neq. apply Nat.eqb_neq in E. congruence.
Qed.

Lemma fold_store_length {A} (resp : nat -> A) : forall order acc,
  length (fold_left (fun acc i => upd_nth acc i (Some (resp i))) order acc) = length acc.
Proof. induction order as [|j r IH]; intros acc; simpl; auto. rewrite IH. apply upd_nth_length. Qed.

Lemma nth_error_ext' {A} : forall (l l' : list A), (forall i, nth_error l i = nth_error l' i) -> l = l'.
Proof.
  induction l as [|x r IH]; intros [|y r'] H; auto.
  - specialize (H 0). discriminate.
  - specialize (H 0). discriminate.
  - f_equal; [specialize (H 0); simpl in H; congruence|]. apply IH. intros i. apply (H (S i)).
Qed.

Theorem store_all_any_order {A} (k : nat) (resp : nat -> A) (order : list nat) :
  (forall i, i < k -> In i order) ->
  store_all k resp order = map (fun i => Some (resp i)) (seq 0 k).
Proof.
  intros Hall. unfold store_all. apply nth_error_ext'. intros i.
  rewrite nth_error_store, repeat_length.
  destruct (lt_dec i k) as [L|L].
  - assert (E: existsb (Nat.eqb i) order = true).
    { apply existsb_exists. exists i. split; [apply Hall; exact L|apply Nat.eqb_refl]. }
    rewrite E. replace (Nat.ltb i k) with true by (symmetry; apply Nat.ltb_lt; exact L).
    rewrite nth_error_map, nth_error_nth' with (d := 0) by (rewrite seq_length; exact L).
    rewrite seq_nth by exact L. reflexivity.
  - assert (N1: nth_error (map (fun i => Some (resp i)) (seq 0 k)) i = None)
      by (apply nth_error_None; rewrite map_length, seq_length; lia).
    rewrite N1. destruct (existsb (Nat.eqb i) order).
    + replace (Nat.ltb i k) with false by (symmetry; apply Nat.ltb_ge; lia). reflexivity.
    + apply nth_error_None. rewrite repeat_length. lia.
Qed.

Corollary store_all_permutation {A} (k : nat) (resp : nat -> A) (order : list nat) :
  Permutation order (seq 0 k) -> store_all k resp order = map (fun i => Some (resp i)) (seq 0 k).
Proof.
  intros Hp. apply store_all_any_order. intros i Hi.
  apply (Permutation_in _ (Permutation_sym Hp)). apply in_seq. lia.
Qed.

(* ---------- the handler is total and speaks GraphQL over HTTP ---------- *)

Lemma zip_outs_length ops outs : length (zip_outs ops outs) = length ops.
Proof. revert outs; induction ops as [|op r IH]; intros [|o r']; simpl; auto. Qed.

Lemma respond_no_panic ops batch outs : (batch = false -> ops <> []) -> is_panic (respond ops batch outs) = false.
Proof.
  intros H. unfold respond. destruct batch; [reflexivity|].
  destruct ops as [|op r]; [exfalso; apply (H eq_refl); reflexivity|].
  destruct outs; reflexivity.
Qed.

Lemma parse_operations_single b ops : parse_operations b = Ok (ops, false) -> exists op, ops = [op].
Proof.
  unfold parse_operations. destruct b as [j|]; [|discriminate].
  destruct (decode_op j) as [[op|]| |]; try discriminate.
  - intros [= <-]. eauto.
  - destruct j; try discriminate. destruct (decode_batch l); simpl; discriminate.
  - destruct j; try discriminate. destruct (decode_batch l); simpl; discriminate.
Qed.

Lemma bind_ok {A B} (r : res A) (f : A -> res B) y : bind r f = Ok y -> exists x, r = Ok x /\ f x = Ok y.
Proof. destruct r; simpl; try discriminate. eauto. Qed.

Lemma parse_get_single g ops : parse_get g = Ok ops -> exists op, ops = [op].
Proof.
  unfold parse_get. intros H. apply bind_ok in H. destruct H as [v [_ H]].
  apply bind_ok in H. destruct H as [h [_ H]]. injection H as <-. eauto.
Qed.

Theorem handle_never_panics r outs : is_panic (handle r outs) = false.
Proof.
  destruct r as [g|ct b|]; unfold handle; [| |reflexivity].
  - destruct (parse_get g) as [ops| |] eqn:E; try reflexivity.
    assert (Hne: ops <> []) by (destruct (parse_get_single _ _ E) as [op ->]; discriminate).
    pose proof (respond_no_panic ops false outs (fun _ => Hne)) as Hr.
    destruct (respond ops false outs); simpl in *; auto; try discriminate.
  - destruct (negb (ctype_ok ct)); [reflexivity|].
    destruct (parse_operations b) as [[ops batch]| |] eqn:E; try reflexivity.
    assert (Hne: batch = false -> ops <> []).
    { intros ->. destruct (parse_operations_single _ _ E) as [op ->]. discriminate. }
    pose proof (respond_no_panic ops batch outs Hne) as Hr.
    destruct (respond ops batch outs); simpl in *; auto; try discriminate.
Qed.

(* status codes *)
Lemma last_status_cases l :
  (Forall (fun s => s = None) l /\ last_status l = 200) \/
  (exists c, In (Some c) l /\ last_status l = c).
Proof.
  unfold last_status. assert (G: forall (l : list (option nat)) (acc : nat),
    (Forall (fun s => s = None) l /\ fold_left (fun (acc : nat) (s : option nat) => match s with Some c => c | None => acc end) l acc = acc) \/
    (exists c, In (Some c) l /\ fold_left (fun (acc : nat) (s : option nat) => match s with Some c => c | None => acc end) l acc = c)).
  { clear. induction l as [|s r IH]; intros acc; simpl; [left; split; [constructor|reflexivity]|].
    destruct s as [c|].
    - destruct (IH c) as [[A B]|[c' [A B]]]; right; [exists c; split; auto|exists c'; split; auto].
    - destruct (IH acc) as [[A B]|[c' [A B]]]; [left; split; [constructor; auto|exact B]|right; exists c'; split; auto]. }
  apply G.
Qed.

Definition entry_errs (e : entry) : nat := snd (fst e).

Lemma op_entry_status op o c : snd (op_entry op o) = Some c -> (c = 400 \/ c = 422) /\ entry_errs (fst (op_entry op o)) = 1 /\ runs op o = false.
Proof.
  unfold op_entry, runs. destruct (String.eqb (op_query op) "" && String.eqb (cache_key op) "") eqn:E; simpl.
  - intros [= <-]. auto.
  - destruct o; simpl; try discriminate. intros [= <-]. auto.
Qed.

Lemma op_entry_ok op o : snd (op_entry op o) = None -> runs op o = true.
Proof.
  unfold op_entry, runs. destruct (String.eqb (op_query op) "" && String.eqb (cache_key op) ""); simpl; [discriminate|].
  destruct o; simpl; auto; discriminate.
Qed.

(* every answer is 200, 400, 405 or 422; it is 200 exactly when every operation was planned and
   run; a payload that cannot be used, or a request none of whose operations can be served, is a
   4xx with an errors entry and nothing is run for it *)
Theorem handle_status r outs status body ran :
  handle r outs = Ok (status, body, ran) ->
  (status = 200 /\ Forall (fun b => b = true) ran) \/
  ((status = 400 \/ status = 405 \/ status = 422) /\
   (ran = [] \/ exists i, nth_error ran i = Some false)).
Proof.
  assert (R: forall ops batch st bd, respond ops batch outs = Ok (st, bd) ->
             let ran := map (fun p => runs (fst p) (snd p)) (zip_outs ops outs) in
             (st = 200 /\ Forall (fun b => b = true) ran) \/
             ((st = 400 \/ st = 405 \/ st = 422) /\ exists i, nth_error ran i = Some false)).
  { intros ops batch st bd H. unfold respond in H.
    set (es := map (fun p => op_entry (fst p) (snd p)) (zip_outs ops outs)) in *.
    assert (Hst: st = last_status (map snd es)).
    { destruct batch; [injection H as <- _; reflexivity|]. destruct es; [discriminate|]. injection H as <- _. reflexivity. }
    destruct (last_status_cases (map snd es)) as [[A B]|[c [A B]]].
    - left. split; [congruence|]. unfold es in A. rewrite map_map in A. apply Forall_map in A.
      apply Forall_map. eapply Forall_impl; [|exact A]. intros p Hp. simpl in Hp. apply op_entry_ok. exact Hp.
    - right. unfold es in A. rewrite map_map in A. apply in_map_iff in A. destruct A as [p [Hp Hin]].
      destruct (op_entry_status _ _ _ Hp) as (Hc & _ & Hr). split; [rewrite Hst, B; destruct Hc as [-> | ->]; auto|].
      apply In_nth_error in Hin. destruct Hin as [i Hi]. exists i. rewrite nth_error_map, Hi. simpl. f_equal. exact Hr. }
  destruct r as [g|ct b|]; unfold handle.
  - destruct (parse_get g) as [ops| |]; cbn [bind].
    + destruct (respond ops false outs) as [[st bd]| |] eqn:E; cbn [bind fst snd]; try discriminate.
      intros [= <- <- <-]. destruct (R _ _ _ _ E) as [H|[H1 H2]]; auto.
    + intros [= <- <- <-]. right. auto.
    + intros [= <- <- <-]. right. auto.
  - destruct (negb (ctype_ok ct)); [intros [= <- <- <-]; right; auto|].
    destruct (parse_operations b) as [[ops batch]| |]; cbn [bind].
    + destruct (respond ops batch outs) as [[st bd]| |] eqn:E; cbn [bind fst snd]; try discriminate.
      intros [= <- <- <-]. destruct (R _ _ _ _ E) as [H|[H1 H2]]; auto.
    + intros [= <- <- <-]. right. auto.
    + intros [= <- <- <-]. right. auto.
  - intros [= <- <- <-]. right. auto.
Qed.

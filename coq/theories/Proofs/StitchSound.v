(* Stitching is sound with respect to the reference semantics: for an object of the data graph and
   two selection sets, merging the answer to the second into the answer to the first with
   executorMergeObject (Gw/Points.v: merge_obj) gives the answer to the two selection sets
   together.  This is why the gateway may send the parts of one selection to different services and
   stitch what comes back.

   Proved for selection sets in collected form -- plain fields, each response key once per set, as
   graphql.ApplyFragments leaves them -- whose common keys select the same field with the same
   arguments (the validation rule "fields in a set can merge"). *)
From Coq Require Import String List Bool Arith Lia.
From GW Require Import Base.Res Base.GoStr Base.Json Gql.Syntax Gql.Spec Gw.Points Proofs.PointsProofs.

Import ListNotations.
Open Scope string_scope.
Open Scope list_scope.

(* ---------- exec, unfolded ---------- *)
Definition resolve (w : world) (vars : list (string * json)) (o : option obj) (rt : string) (c : collected) : fval :=
  if String.eqb (c_name c) "__typename" then FScalar (JStr rt)
  else match o with
       | None =>
           if String.eqb rt "Query" && String.eqb (c_name c) "node" then
             match lookup "id" (c_args c) with
             | Some a => match arg_json vars a with
                         | JStr id => match find_obj id (w_objs w) with Some _ => FRef id | None => FNull end
                         | _ => FNull
                         end
             | None => FNull
             end
           else if String.eqb (c_name c) "hello" || echoes w rt c then FScalar (JStr (echo_of vars c))
           else match lookup (rt ++ "." ++ c_name c)%string (w_roots w) with Some x => x | None => FNull end
       | Some ob =>
           if String.eqb (c_name c) "id" then FScalar (JStr (b_id ob))
           else if echoes w rt c then FScalar (JStr (echo_of vars c))
           else match lookup (c_name c) (b_fields ob) with Some x => x | None => FNull end
       end.

Definition complete_with (below : obj -> list sel -> json) (w : world) : list sel -> fval -> json :=
  fix complete (sub : list sel) (v : fval) {struct v} : json :=
    match v with
    | FNull => JNull
    | FScalar j => j
    | FRef id => match find_obj id (w_objs w) with
                 | Some o' => below o' sub
                 | None => JNull
                 end
    | FList l => JArr (map (complete sub) l)
    end.

Lemma exec_unfold fuel w frags vars o rt sels :
  exec (S fuel) w frags vars o rt sels =
  JObj (map (fun c => (c_key c, complete_with (fun o' sub => exec fuel w frags vars (Some o') (b_type o') sub) w (c_sub c)
                                  (resolve w vars o rt c)))
            (fst (collect fuel w frags vars rt [] sels []))).
Proof. reflexivity. Qed.

(* ---------- collected form ---------- *)
Definition plain (s : sel) : Prop := match s with Field _ _ _ [] _ => True | _ => False end.
Definition key_of (s : sel) : string := match s with Field a n _ _ _ => rkey a n | _ => "" end.
Definition name_of (s : sel) : string := match s with Field _ n _ _ _ => n | _ => "" end.
Definition args_of (s : sel) : list (string * value) := match s with Field _ _ a _ _ => a | _ => [] end.
Definition sub_of (s : sel) : list sel := match s with Field _ _ _ _ sub => sub | _ => [] end.
Definition to_c (s : sel) : collected :=
  {| c_key := key_of s; c_name := name_of s; c_args := args_of s; c_sub := sub_of s |}.

(* plain fields, every response key once, all the way down *)
Inductive good : list sel -> Prop :=
| good_intro l : Forall plain l -> NoDup (map key_of l) -> Forall (fun s => good (sub_of s)) l -> good l.

(* a response key the two sets share selects the same field with the same arguments, all the way down *)
Inductive compat : list sel -> list sel -> Prop :=
| compat_intro l1 l2 :
    (forall s1 s2, In s1 l1 -> In s2 l2 -> key_of s1 = key_of s2 ->
       name_of s1 = name_of s2 /\ args_of s1 = args_of s2 /\ compat (sub_of s1) (sub_of s2)) ->
    compat l1 l2.

Definition add_c (c : collected) (acc : list collected) : list collected :=
  add_collected (c_key c) (c_name c) (c_args c) (c_sub c) acc.

Lemma collect_plain fuel w frags vars rt : forall l acc visited,
  Forall plain l ->
  collect (S fuel) w frags vars rt visited l acc = (fold_left (fun a s => add_c (to_c s) a) l acc, visited).
Proof.
  induction l as [|s r IH]; intros acc visited Hp; [reflexivity|].
  inversion Hp as [|? ? Hs Hr]; subst. destruct s as [alias name args dirs sub| |]; try destruct Hs.
  destruct dirs; [|destruct Hs].
  cbn [collect]. cbn [skipped existsb]. cbn [collect] in IH. rewrite (IH _ _ Hr). reflexivity.
Qed.

Lemma add_c_fresh c acc : ~ In (c_key c) (map c_key acc) -> add_c c acc = acc ++ [c].
Proof.
  unfold add_c. induction acc as [|x r IH]; intros Hn; cbn [add_collected app].
  - destruct c; reflexivity.
  - cbn [map In] in Hn. destruct (String.eqb (c_key x) (c_key c)) eqn:E.
    + apply String.eqb_eq in E. exfalso. apply Hn. left. exact E.
    + f_equal. apply IH. intros H. apply Hn. right. exact H.
Qed.

Lemma fold_add_nodup : forall l acc,
  NoDup (map key_of l) -> (forall s, In s l -> ~ In (key_of s) (map c_key acc)) ->
  fold_left (fun a s => add_c (to_c s) a) l acc = acc ++ map to_c l.
Proof.
  induction l as [|s r IH]; intros acc Hnd Hfresh; cbn [fold_left map]; [rewrite app_nil_r; reflexivity|].
  cbn [map] in Hnd. inversion Hnd as [|? ? Hs Hr]; subst.
  rewrite add_c_fresh by (apply Hfresh; left; reflexivity).
  rewrite IH; [rewrite <- app_assoc; reflexivity|exact Hr|].
  intros s' Hs' Hin. rewrite map_app, in_app_iff in Hin. destruct Hin as [Hin|[Hin|[]]].
  - apply (Hfresh s'); [right; exact Hs'|exact Hin].
  - cbn [to_c c_key] in Hin. apply Hs. rewrite Hin. apply in_map. exact Hs'.
Qed.

(* ---------- one level: folding collected fields against merging JSON objects ---------- *)
Lemma merge_value_none v : merge_value None v = v.
Proof. destruct v; reflexivity. Qed.

Fixpoint find_c (k : string) (acc : list collected) : option collected :=
  match acc with
  | [] => None
  | c :: r => if String.eqb (c_key c) k then Some c else find_c k r
  end.

Definition ext (c c2 : collected) : collected :=
  {| c_key := c_key c2; c_name := c_name c; c_args := c_args c; c_sub := c_sub c ++ c_sub c2 |}.

Section Level.
  Variable V : collected -> json.
  Definition E (cs : list collected) : list (string * json) := map (fun c => (c_key c, V c)) cs.

  Lemma jget_E k acc : jget k (E acc) = option_map V (find_c k acc).
  Proof.
    induction acc as [|c r IH]; [reflexivity|]. cbn [E map jget find_c].
    assert (Es: String.eqb k (c_key c) = String.eqb (c_key c) k) by apply String.eqb_sym.
    cbn [c_key]. rewrite Es. destruct (String.eqb (c_key c) k); [reflexivity|exact IH].
  Qed.

  Lemma add_c_E c2 acc :
    E (add_c c2 acc) = jset (c_key c2) (match find_c (c_key c2) acc with Some c => V (ext c c2) | None => V c2 end) (E acc).
  Proof.
    unfold add_c. induction acc as [|c r IH]; cbn [add_collected E map jset find_c].
    - destruct c2; reflexivity.
    - assert (Es: String.eqb (c_key c2) (c_key c) = String.eqb (c_key c) (c_key c2)) by apply String.eqb_sym.
      rewrite Es. destruct (String.eqb (c_key c) (c_key c2)) eqn:Ek.
      + cbn [E map c_key]. unfold ext. reflexivity.
      + cbn [E map]. f_equal. exact IH.
  Qed.

  Lemma find_c_in k acc c : find_c k acc = Some c -> In c acc /\ c_key c = k.
  Proof.
    induction acc as [|x r IH]; cbn [find_c]; [discriminate|].
    destruct (String.eqb (c_key x) k) eqn:Ek.
    - intros [= <-]. split; [left; reflexivity|apply String.eqb_eq; exact Ek].
    - intros H. destruct (IH H). split; [right|]; assumption.
  Qed.

  Lemma find_c_none k acc : find_c k acc = None -> ~ In k (map c_key acc).
  Proof.
    induction acc as [|x r IH]; cbn [find_c map In]; [tauto|].
    destruct (String.eqb (c_key x) k) eqn:Ek; [discriminate|].
    intros H [Hx|Hr]; [apply String.eqb_neq in Ek; contradiction|apply (IH H Hr)].
  Qed.

  (* the keys after adding *)
  Lemma add_c_keys c2 acc :
    map c_key (add_c c2 acc) = if str_mem (c_key c2) (map c_key acc) then map c_key acc else map c_key acc ++ [c_key c2].
  Proof.
    unfold add_c, str_mem. induction acc as [|c r IH]; cbn [add_collected map existsb].
    - destruct c2; reflexivity.
    - assert (Es: String.eqb (c_key c2) (c_key c) = String.eqb (c_key c) (c_key c2)) by apply String.eqb_sym.
      rewrite Es. destruct (String.eqb (c_key c) (c_key c2)) eqn:Ek; cbn [map orb c_key].
      + apply String.eqb_eq in Ek. rewrite Ek. reflexivity.
      + rewrite IH. destruct (existsb (String.eqb (c_key c2)) (map c_key r)); reflexivity.
  Qed.

  (* entries of the result: untouched ones, or the one with the added key *)
  Lemma add_c_in c2 acc c : In c (add_c c2 acc) -> In c acc \/ c_key c = c_key c2.
  Proof.
    unfold add_c. induction acc as [|x r IH]; cbn [add_collected In].
    - intros [<-|[]]. right. reflexivity.
    - destruct (String.eqb (c_key x) (c_key c2)) eqn:Ek.
      + intros [<-|H]; [right; reflexivity|left; right; exact H].
      + intros [<-|H]; [left; left; reflexivity|]. destruct (IH H); [left; right; assumption|right; assumption].
  Qed.

  Lemma find_c_add_other k c2 acc : c_key c2 <> k -> find_c k (add_c c2 acc) = find_c k acc.
  Proof.
    intros Hk. assert (Hf: String.eqb (c_key c2) k = false) by (apply String.eqb_neq; exact Hk).
    unfold add_c. induction acc as [|x t IHt]; cbn [add_collected find_c c_key].
    - rewrite Hf. reflexivity.
    - destruct (String.eqb (c_key x) (c_key c2)) eqn:E2; cbn [find_c c_key].
      + rewrite Hf. apply String.eqb_eq in E2. rewrite E2, Hf. reflexivity.
      + destruct (String.eqb (c_key x) k); [reflexivity|exact IHt].
  Qed.

  Theorem fold_is_merge : forall l2 acc,
    NoDup (map key_of l2) ->
    (forall c s2, In s2 l2 -> find_c (key_of s2) acc = Some c ->
                  V (ext c (to_c s2)) = merge_value (Some (V c)) (V (to_c s2))) ->
    E (fold_left (fun a s => add_c (to_c s) a) l2 acc) = merge_obj (E acc) (E (map to_c l2)).
  Proof.
    induction l2 as [|s2 r IH]; intros acc Hnd Happ; [reflexivity|].
    cbn [fold_left map E merge_obj]. fold (E (map to_c r)).
    cbn [map] in Hnd. inversion Hnd as [|? ? Hs Hr]; subst.
    assert (Hstep: E (add_c (to_c s2) acc) = jset (key_of s2) (merge_value (jget (key_of s2) (E acc)) (V (to_c s2))) (E acc)).
    { rewrite add_c_E, jget_E. cbn [to_c c_key]. destruct (find_c (key_of s2) acc) as [c|] eqn:Ef; cbn [option_map].
      - rewrite (Happ c s2 (or_introl eq_refl) Ef). reflexivity.
      - rewrite merge_value_none. reflexivity. }
    cbn [to_c c_key] in *. rewrite <- Hstep. apply IH; [exact Hr|].
    intros c s Hs' Hf.
    (* s has another key than s2: the entry found for it was not touched by adding s2 *)
    assert (Hk: key_of s <> key_of s2) by (intros E0; apply Hs; rewrite <- E0; apply in_map; exact Hs').
    assert (Hsame: find_c (key_of s) (add_c (to_c s2) acc) = find_c (key_of s) acc)
      by (apply find_c_add_other; cbn [to_c c_key]; congruence).
    rewrite Hsame in Hf. apply Happ; [right; exact Hs'|exact Hf].
  Qed.
End Level.

(* ---------- merge_value on objects and arrays ---------- *)
Lemma merge_value_obj t s : merge_value (Some (JObj t)) (JObj s) = JObj (merge_obj t s).
Proof.
  cbn [merge_value]. f_equal. revert t. induction s as [|[k v] r IH]; intros t; [reflexivity|].
  cbn [merge_obj]. rewrite <- IH. reflexivity.
Qed.

Fixpoint zip_merge (es vs : list json) {struct vs} : list json :=
  match vs, es with
  | v :: vr, e :: er => merge_value (Some e) v :: zip_merge er vr
  | _, _ => []
  end.

Lemma merge_value_arr es vs : length es = length vs -> merge_value (Some (JArr es)) (JArr vs) = JArr (zip_merge es vs).
Proof.
  intros H. cbn [merge_value]. rewrite H, Nat.eqb_refl. f_equal. clear H. revert es.
  induction vs as [|v vr IH]; intros es; [reflexivity|]. destruct es as [|e er]; [reflexivity|].
  cbn [zip_merge]. rewrite <- IH. reflexivity.
Qed.

(* ---------- values of the data graph ---------- *)
Section FvalInd.
  Variable P : fval -> Prop.
  Hypothesis HNull : P FNull.
  Hypothesis HScalar : forall j, P (FScalar j).
  Hypothesis HRef : forall id, P (FRef id).
  Hypothesis HList : forall l, Forall P l -> P (FList l).
  Fixpoint fval_ind' (v : fval) : P v :=
    match v with
    | FNull => HNull
    | FScalar j => HScalar j
    | FRef id => HRef id
    | FList l => HList l ((fix go (l : list fval) : Forall P l :=
                             match l with [] => Forall_nil _ | x :: r => Forall_cons _ (fval_ind' x) (go r) end) l)
    end.
End FvalInd.

(* scalars of the data graph are atomic JSON values *)
Fixpoint atomic_f (v : fval) : Prop :=
  match v with
  | FScalar (JObj _) | FScalar (JArr _) => False
  | FList l => (fix all (l : list fval) : Prop := match l with [] => True | x :: r => atomic_f x /\ all r end) l
  | _ => True
  end.

Lemma atomic_list l : atomic_f (FList l) -> Forall atomic_f l.
Proof. cbn [atomic_f]. induction l as [|x r IH]; intros H; [constructor|]. destruct H. constructor; [assumption|apply IH; assumption]. Qed.

Lemma resolve_same w vars o rt c c' : c_name c = c_name c' -> c_args c = c_args c' -> resolve w vars o rt c = resolve w vars o rt c'.
Proof. intros Hn Ha. unfold resolve, echoes, echo_of. rewrite Hn, Ha. reflexivity. Qed.

(* the objects of the data graph (and the root, which is none of them) *)
Definition inw (w : world) (o : option obj) : Prop :=
  match o with Some ob => In ob (w_objs w) | None => True end.

Lemma find_obj_in id : forall objs o, find_obj id objs = Some o -> In o objs.
Proof.
  induction objs as [|x r IH]; intros o H; cbn [find_obj] in H; [discriminate|].
  destruct (String.eqb (b_id x) id); [injection H as <-; left; reflexivity|right; apply IH; exact H].
Qed.

(* every value the resolvers return at the root or at an object of the data graph is atomic:
   scalars are not JSON objects or arrays *)
Definition atomic_world (w : world) (vars : list (string * json)) : Prop :=
  forall o rt c, inw w o -> atomic_f (resolve w vars o rt c).

(* it is enough that the tables of the data graph hold atomic values *)
Lemma lookup_atomic k : forall (m : list (string * fval)),
  Forall (fun kv => atomic_f (snd kv)) m -> atomic_f (match lookup k m with Some x => x | None => FNull end).
Proof.
  induction m as [|[k' v] r IH]; intros H; cbn [lookup]; [exact I|].
  inversion H as [|? ? Hv Hr]; subst. destruct (String.eqb k k'); [exact Hv|apply IH; exact Hr].
Qed.

Lemma atomic_world_intro w vars :
  Forall (fun kv => atomic_f (snd kv)) (w_roots w) ->
  Forall (fun ob => Forall (fun kv => atomic_f (snd kv)) (b_fields ob)) (w_objs w) ->
  atomic_world w vars.
Proof.
  intros Hr Ho o rt c Hin. unfold resolve.
  destruct (String.eqb (c_name c) "__typename"); [exact I|].
  destruct o as [ob|].
  - destruct (String.eqb (c_name c) "id"); [exact I|]. destruct (echoes w rt c); [exact I|].
    apply lookup_atomic. rewrite Forall_forall in Ho. apply Ho. exact Hin.
  - destruct (String.eqb rt "Query" && String.eqb (c_name c) "node").
    + destruct (lookup "id" (c_args c)) as [a|]; [|exact I]. destruct (arg_json vars a); try exact I.
      destruct (find_obj _ _); exact I.
    + destruct (String.eqb (c_name c) "hello" || echoes w rt c); [exact I|]. apply lookup_atomic. exact Hr.
Qed.

Section Sound.
  Variable w : world.
  Variable frags : list fragdef.
  Variable vars : list (string * json).
  Hypothesis world_atomic : atomic_world w vars.

  Definition sound_at (fuel : nat) : Prop :=
    forall o rt l1 l2, inw w o -> good l1 -> good l2 -> compat l1 l2 ->
      exec fuel w frags vars o rt (l1 ++ l2) =
      merge_value (Some (exec fuel w frags vars o rt l1)) (exec fuel w frags vars o rt l2).

  Lemma complete_app fuel : sound_at fuel ->
    forall sub1 sub2, good sub1 -> good sub2 -> compat sub1 sub2 ->
    forall v, atomic_f v ->
      complete_with (fun o' sub => exec fuel w frags vars (Some o') (b_type o') sub) w (sub1 ++ sub2) v =
      merge_value (Some (complete_with (fun o' sub => exec fuel w frags vars (Some o') (b_type o') sub) w sub1 v))
                  (complete_with (fun o' sub => exec fuel w frags vars (Some o') (b_type o') sub) w sub2 v).
  Proof.
    intros Hs sub1 sub2 G1 G2 C. induction v as [|j|id|l IH] using fval_ind'; intros Ha.
    - reflexivity.
    - cbn [complete_with]. destruct j; try reflexivity; destruct Ha.
    - cbn [complete_with]. destruct (find_obj id (w_objs w)) as [o'|] eqn:Ef; [|reflexivity].
      apply Hs; try assumption. cbn [inw]. eapply find_obj_in. exact Ef.
    - cbn [complete_with]. apply atomic_list in Ha.
      rewrite merge_value_arr by (rewrite !map_length; reflexivity). f_equal.
      induction l as [|x r IHr]; [reflexivity|]. cbn [map zip_merge].
      inversion IH as [|? ? Hx Hr]; subst. inversion Ha as [|? ? Hax Har]; subst.
      f_equal; [apply Hx; exact Hax|apply IHr; assumption].
  Qed.

  Theorem stitch_sound : forall fuel, sound_at fuel.
  Proof.
    induction fuel as [|fuel IH]; intros o rt l1 l2 Hin G1 G2 C; [reflexivity|].
    rewrite !exec_unfold. rewrite merge_value_obj. f_equal.
    destruct fuel as [|f].
    - (* no fuel to collect anything *) reflexivity.
    - inversion G1 as [? P1 N1 S1]; subst. inversion G2 as [? P2 N2 S2]; subst.
      rewrite !collect_plain by (try apply Forall_app; auto). cbn [fst].
      rewrite fold_left_app.
      rewrite (fold_add_nodup l1 [] N1) by (intros s _ []). cbn [app].
      rewrite (fold_add_nodup l2 [] N2) by (intros s _ []). cbn [app].
      set (V := fun c : collected =>
                  complete_with (fun o' sub => exec (S f) w frags vars (Some o') (b_type o') sub) w (c_sub c) (resolve w vars o rt c)).
      change (E V (fold_left (fun a s => add_c (to_c s) a) l2 (map to_c l1)) = merge_obj (E V (map to_c l1)) (E V (map to_c l2))).
      apply fold_is_merge; [exact N2|].
      intros c s2 Hs2 Hf. apply find_c_in in Hf. destruct Hf as [Hinc Hk].
      apply in_map_iff in Hinc. destruct Hinc as [s1 [<- Hs1]]. cbn [to_c c_key] in Hk.
      inversion C as [? ? HC]; subst. destruct (HC s1 s2 Hs1 Hs2 Hk) as (En & Ea & Cs).
      unfold V, ext. cbn [to_c c_key c_name c_args c_sub].
      rewrite (resolve_same w vars o rt _ (to_c s1)) by reflexivity.
      rewrite (resolve_same w vars o rt (to_c s2) (to_c s1)) by (cbn [to_c c_name c_args]; congruence).
      rewrite Forall_forall in S1, S2.
      apply (complete_app (S f) IH); [apply S1; exact Hs1|apply S2; exact Hs2|exact Cs|apply world_atomic; exact Hin].
  Qed.

  (* ... in the executor's own terms: stitching the answer to the second selection set at the root
     of the answer to the first (executorInsertObject with an empty path) is the answer to both *)
  Corollary stitch_at_root fuel o rt l1 l2 :
    inw w o -> good l1 -> good l2 -> compat l1 l2 ->
    insert_object (exec (S fuel) w frags vars o rt l1) [] (exec (S fuel) w frags vars o rt l2) =
    Ok (exec (S fuel) w frags vars o rt (l1 ++ l2)).
  Proof.
    intros Hin G1 G2 C. rewrite (stitch_sound (S fuel) o rt l1 l2 Hin G1 G2 C).
    rewrite !exec_unfold. rewrite merge_value_obj. reflexivity.
  Qed.

  (* ... and at a realised insertion point: when the accumulated response holds, at point p, the
     answer to l1 for some object, stitching the answer to l2 for that object at p makes it hold the
     answer to both there (every point that parts ways with p is untouched: insert_frame) *)
  Corollary stitch_at_point fuel o rt l1 l2 p acc acc' :
    inw w o -> good l1 -> good l2 -> compat l1 l2 -> p <> [] ->
    extract_value p acc = Ok (exec (S fuel) w frags vars o rt l1) ->
    insert_object acc p (exec (S fuel) w frags vars o rt l2) = Ok acc' ->
    extract_value p acc' = Ok (exec (S fuel) w frags vars o rt (l1 ++ l2)).
  Proof.
    intros Hin G1 G2 C Hp Hold Hins.
    rewrite (stitch_sound (S fuel) o rt l1 l2 Hin G1 G2 C).
    rewrite exec_unfold in Hins. rewrite exec_unfold in Hold.
    match type of Hins with insert_object _ _ (JObj ?src) = _ =>
      destruct (insert_then_extract p acc (JObj src) acc' src Hp eq_refl Hins) as [tgt [A B]] end.
    rewrite Hold in A. injection A as <-. rewrite B. rewrite !exec_unfold, merge_value_obj. reflexivity.
  Qed.
End Sound.

(* non-vacuity: two services' parts of one selection on a small data graph whose values are atomic *)
Example stitch_sound_example :
  let w := {| w_objs := [{| b_id := "u1"; b_type := "User"; b_fields := [("name", FScalar (JStr "ann")); ("photo", FScalar (JStr "p.png"));
                                                                           ("friends", FList [FRef "u1"])] |}];
              w_roots := [("Query.me", FRef "u1")]; w_possible := []; w_ftypes := [] |} in
  let l1 := [Field "me" "me" [] [] [Field "name" "name" [] [] []; Field "friends" "friends" [] [] [Field "name" "name" [] [] []]]] in
  let l2 := [Field "me" "me" [] [] [Field "photo" "photo" [] [] []; Field "friends" "friends" [] [] [Field "photo" "photo" [] [] []]]] in
  atomic_world w [] /\
  insert_object (exec 6 w [] [] None "Query" l1) [] (exec 6 w [] [] None "Query" l2) = Ok (exec 6 w [] [] None "Query" (l1 ++ l2)) /\
  exec 6 w [] [] None "Query" (l1 ++ l2) =
    JObj [("me", JObj [("name", JStr "ann"); ("friends", JArr [JObj [("name", JStr "ann"); ("photo", JStr "p.png")]]); ("photo", JStr "p.png")])].
Proof.
  cbv zeta. split; [|vm_compute; split; reflexivity].
  apply atomic_world_intro; cbn; repeat constructor.
Qed.

(* extractSelection of the full planner model (Gw/Plan2.v) terminates on documents whose named
   fragments are acyclic.  extractSelection recurses into the sub-selection of a field, into an inline
   fragment and -- for a spread -- into the body of the fragment's definition: the step's own
   definition of that name when it has one (a part of the document's, cut by groupSelectionSet or
   left by an earlier extraction), else the document's.  The first two descend in the document; the
   third leaves it.  What bounds it is what GraphQL validation guarantees and the Go code relies on
   silently: fragments do not spread each other in a cycle.  Here that is a rank R on fragment
   names: every spread inside the body of a fragment names a fragment of smaller rank.

   Theorem (extract2_total): when every body is at most D deep, every spread of the selection has
   rank below r, and the step's own definitions are parts of the document's (fine_env), then
   extract2 with more than  depth(selection) + r * (D + 1)  fuel does not stop for lack of fuel;
   what it keeps is no deeper than what it was given, spreads nothing new, and the definitions it
   leaves for the step are again parts of the document's -- which is what the next extraction of the
   same step starts from. *)
From Coq Require Import String List Bool Arith Lia.
From GW Require Import Base.Res Base.GoStr Gql.Syntax Gw.Locate Gw.Plan Gw.Plan2 Proofs.PlanProofs Proofs.PlanTotal.
Import ListNotations.
Open Scope string_scope.
Open Scope list_scope.

(* the names spread anywhere inside a selection (fragments are not expanded) *)
Fixpoint spreads_of (s : sel) : list string :=
  match s with
  | Field _ _ _ _ sub => (fix go (l : list sel) := match l with [] => [] | x :: r => spreads_of x ++ go r end) sub
  | Inline _ _ sub => (fix go (l : list sel) := match l with [] => [] | x :: r => spreads_of x ++ go r end) sub
  | Spread n _ => [n]
  end.
Fixpoint lspreads (l : list sel) : list string := match l with [] => [] | x :: r => spreads_of x ++ lspreads r end.

Lemma spreads_field a n args dirs sub : spreads_of (Field a n args dirs sub) = lspreads sub.
Proof. reflexivity. Qed.
Lemma spreads_inline t dirs sub : spreads_of (Inline t dirs sub) = lspreads sub.
Proof. reflexivity. Qed.

Lemma lspreads_in l x m : In x l -> In m (spreads_of x) -> In m (lspreads l).
Proof.
  induction l as [|y r IH]; intros Hx Hm; [destruct Hx|]. cbn [lspreads]. apply in_or_app.
  destruct Hx as [->|Hx]; [left; exact Hm|right; apply IH; assumption].
Qed.

Lemma lspreads_elim l m : In m (lspreads l) -> exists x, In x l /\ In m (spreads_of x).
Proof.
  induction l as [|y r IH]; intros H; [destruct H|]. cbn [lspreads] in H. apply in_app_or in H.
  destruct H as [H|H]; [exists y; split; [left; reflexivity|exact H]|].
  destruct (IH H) as [x [A B]]. exists x. split; [right; exact A|exact B].
Qed.

Lemma lspreads_app a b : lspreads (a ++ b) = lspreads a ++ lspreads b.
Proof. induction a as [|x r IH]; cbn [app lspreads]; [reflexivity|]. rewrite IH, app_assoc. reflexivity. Qed.

Lemma ldepth_app a b : ldepth (a ++ b) = Nat.max (ldepth a) (ldepth b).
Proof. induction a as [|x r IH]; cbn [app ldepth]; [reflexivity|]. rewrite IH. lia. Qed.

Lemma sdepth_pos s : 1 <= sdepth s.
Proof. destruct s; cbn [sdepth]; lia. Qed.

Lemma ldepth_pos l : l <> [] -> 1 <= ldepth l.
Proof. destruct l as [|x r]; [congruence|]. intros _. cbn [ldepth]. pose proof (sdepth_pos x). lia. Qed.

(* ---------- lists of definitions ---------- *)
Lemma frag_for_in n : forall fs d, frag_for n fs = Some d -> In d fs /\ f_name d = n.
Proof.
  induction fs as [|f r IH]; intros d H; cbn [frag_for] in H; [discriminate|].
  destruct (String.eqb (f_name f) n) eqn:E.
  - injection H as <-. apply String.eqb_eq in E. split; [left; reflexivity|exact E].
  - destruct (IH d H) as [A B]. split; [right; exact A|exact B].
Qed.

Lemma in_set_frag_sel name ss : forall fs d, In d (set_frag_sel name ss fs) ->
  In d fs \/ exists f, In f fs /\ f_name f = name /\ d = {| f_name := f_name f; f_tcond := f_tcond f; f_dirs := f_dirs f; f_sel := ss |}.
Proof.
  induction fs as [|f r IH]; intros d H; cbn [set_frag_sel] in H; [destruct H|].
  destruct (String.eqb (f_name f) name) eqn:E.
  - destruct H as [<-|H]; [|left; right; exact H]. apply String.eqb_eq in E.
    right. exists f. split; [left; reflexivity|]. split; [exact E|reflexivity].
  - destruct H as [<-|H]; [left; left; reflexivity|].
    destruct (IH d H) as [A|[f0 [A [B C]]]]; [left; right; exact A|right; exists f0; split; [right; exact A|split; assumption]].
Qed.

Lemma lf_get_in l : forall (m : list (string * list fragdef)) d, In d (lf_get l m) -> exists fs, In (l, fs) m /\ In d fs.
Proof.
  induction m as [|[k v] r IH]; intros d H; cbn [lf_get] in H; [destruct H|].
  destruct (String.eqb l k) eqn:E.
  - apply String.eqb_eq in E. subst k. exists v. split; [left; reflexivity|exact H].
  - destruct (IH d H) as [fs [A B]]. exists fs. split; [right; exact A|exact B].
Qed.

Lemma lf_set_in l v : forall (m : list (string * list fragdef)) k fs, In (k, fs) (lf_set l v m) -> (k = l /\ fs = v) \/ In (k, fs) m.
Proof.
  induction m as [|[k0 v0] r IH]; intros k fs H; cbn [lf_set] in H.
  - destruct H as [E|[]]. injection E as <- <-. left. split; reflexivity.
  - destruct (String.eqb l k0) eqn:E.
    + destruct H as [H|H]; [|right; right; exact H]. injection H as <- <-. apply String.eqb_eq in E. left. split; [symmetry; exact E|reflexivity].
    + destruct H as [H|H]; [right; left; exact H|]. destruct (IH k fs H) as [A|A]; [left; exact A|right; right; exact A].
Qed.

Section Total2.
  Variables (prios : list string) (urls : urlmap) (ft : ftypes) (planfrags : list fragdef).
  Variable R : string -> nat.          (* the rank of a fragment name *)
  Variable D : nat.                    (* a bound on the depth of every fragment body *)

  (* a body that may stand for the fragment [n]: no deeper than D, spreading only smaller ranks *)
  Definition fine_body (n : string) (body : list sel) : Prop :=
    ldepth body <= D /\ forall m, In m (lspreads body) -> R m < R n.

  Definition fine_env (fs : list fragdef) : Prop := forall d, In d fs -> fine_body (f_name d) (f_sel d).

  Hypothesis planfrags_fine : fine_env planfrags.

  (* x is no deeper than the selection [all] and spreads nothing [all] does not *)
  Definition dom (x : sel) (all : list sel) : Prop :=
    sdepth x <= ldepth all /\ forall m, In m (spreads_of x) -> In m (lspreads all).

  Lemma dom_in x all : In x all -> dom x all.
  Proof. intros H. split; [apply ldepth_in; exact H|intros m Hm; eapply lspreads_in; eassumption]. Qed.

  Lemma dom_part tcond dirs sub part all :
    In (Inline tcond dirs sub) all -> (forall y, In y part -> In y sub) -> dom (Inline tcond dirs part) all.
  Proof.
    intros Hin Hp. destruct (dom_in _ _ Hin) as [A B]. split.
    - rewrite sdepth_inline in *. assert (ldepth part <= ldepth sub) by (apply ldepth_bound; intros y Hy; apply ldepth_in, Hp, Hy). lia.
    - intros m Hm. apply B. rewrite spreads_inline in *. destruct (lspreads_elim _ _ Hm) as [y [Hy Hmy]].
      eapply lspreads_in; [apply Hp; exact Hy|exact Hmy].
  Qed.

  (* ---------- groupSelectionSet: what the groups and the per-location definitions are made of ---------- *)
  Lemma fold_add_dom (all : list sel) (f : string * list sel -> sel) : forall parts acc,
    (forall lp, In lp parts -> dom (f lp) all) ->
    (forall l ss x, In (l, ss) acc -> In x ss -> dom x all) ->
    forall l ss x, In (l, ss) (fold_left (fun acc lp => add_at (fst lp) (f lp) acc) parts acc) -> In x ss -> dom x all.
  Proof.
    induction parts as [|p r IH]; intros acc Hp Ha l ss x Hin Hx; cbn [fold_left] in Hin; [exact (Ha l ss x Hin Hx)|].
    apply (IH (add_at (fst p) (f p) acc)) with (l := l) (ss := ss); try assumption.
    - intros lp Hlp. apply Hp. right. exact Hlp.
    - intros l0 ss0 x0 H0 Hx0. destruct (add_at_elems _ _ _ _ _ _ H0 Hx0) as [->|[ss1 [A1 B1]]].
      + apply Hp. left. reflexivity.
      + exact (Ha _ _ _ A1 B1).
  Qed.

  Definition lf_fine (lf : list (string * list fragdef)) : Prop :=
    forall l fs d, In (l, fs) lf -> In d fs -> fine_body (f_name d) (f_sel d).

  Lemma find_defn_fine name sf defn :
    fine_env sf -> find_defn planfrags name sf = Ok defn -> f_name defn = name /\ fine_body name (f_sel defn).
  Proof.
    intros Hsf H. unfold find_defn in H. destruct (frag_for name sf) as [d|] eqn:E.
    - injection H as <-. destruct (frag_for_in _ _ _ E) as [A B]. split; [exact B|]. rewrite <- B. apply Hsf. exact A.
    - destruct (frag_for name planfrags) as [d|] eqn:E2; [|discriminate]. injection H as <-.
      destruct (frag_for_in _ _ _ E2) as [A B]. split; [exact B|]. rewrite <- B. apply planfrags_fine. exact A.
  Qed.

  Lemma fine_body_part n body part : fine_body n body -> (forall y, In y part -> In y body) -> fine_body n part.
  Proof.
    intros [A B] Hp. split.
    - assert (ldepth part <= ldepth body) by (apply ldepth_bound; intros y Hy; apply ldepth_in, Hp, Hy). lia.
    - intros m Hm. apply B. destruct (lspreads_elim _ _ Hm) as [y [Hy Hmy]]. eapply lspreads_in; [apply Hp; exact Hy|exact Hmy].
  Qed.

  Lemma group2_spec sfrags ptype ploc (all : list sel) : fine_env sfrags ->
    forall sels acc lf g, group2 prios urls planfrags sfrags ptype ploc sels acc lf = Ok g ->
      (forall x, In x sels -> In x all) ->
      (forall l ss x, In (l, ss) acc -> In x ss -> dom x all) -> lf_fine lf ->
      (forall l ss x, In (l, ss) (fst g) -> In x ss -> dom x all) /\ lf_fine (snd g).
  Proof.
    intros Hsf. induction sels as [|s rest IH]; intros acc lf g H Hall Ha Hlf; cbn [group2] in H.
    - injection H as <-. split; assumption.
    - assert (Hrest: forall x, In x rest -> In x all) by (intros x Hx; apply Hall; right; exact Hx).
      assert (Hs: In s all) by (apply Hall; left; reflexivity).
      destruct s as [alias name args dirs sub|tcond dirs sub|name dirs].
      + apply bind_ok_inv in H. destruct H as [l [_ H]]. eapply IH; [exact H|exact Hrest| |exact Hlf].
        intros l0 ss0 x0 H0 Hx0. destruct (add_at_elems _ _ _ _ _ _ H0 Hx0) as [->|[ss1 [A1 B1]]]; [apply dom_in; exact Hs|exact (Ha _ _ _ A1 B1)].
      + apply bind_ok_inv in H. destruct H as [parts [Hp H]]. eapply IH; [exact H|exact Hrest| |exact Hlf].
        apply (fold_add_dom all (fun lp => Inline tcond dirs (snd lp))); [|exact Ha].
        intros [pl pss] Hlp. cbn [snd]. eapply dom_part; [exact Hs|].
        intros y Hy. destruct (split_inline_elems _ _ _ _ _ _ _ Hp pl pss y Hlp Hy) as [Hsub|[ss1 [[] _]]]. exact Hsub.
      + apply bind_ok_inv in H. destruct H as [defn [Hd H]]. apply bind_ok_inv in H. destruct H as [parts [Hp H]].
        destruct (find_defn_fine _ _ _ Hsf Hd) as [Hn Hfb].
        eapply IH; [exact H|exact Hrest| |].
        * apply (fold_add_dom all (fun lp => Spread name dirs)); [|exact Ha]. intros lp _. apply dom_in. exact Hs.
        * (* the per-location definitions: parts of the definition's body *)
          assert (Hparts: forall lp, In lp parts -> fine_body name (snd lp)).
          { intros [pl pss] Hlp. cbn [snd]. eapply fine_body_part; [exact Hfb|].
            intros y Hy. destruct (split_inline_elems _ _ _ _ _ _ _ Hp pl pss y Hlp Hy) as [Hsub|[ss1 [[] _]]]. exact Hsub. }
          clear Hp H. revert lf Hlf. induction parts as [|p pr IHp]; intros lf Hlf; cbn [fold_left]; [exact Hlf|].
          apply IHp; [intros lp Hlp; apply Hparts; right; exact Hlp|].
          destruct (frag_for name (lf_get (fst p) lf)); [exact Hlf|].
          intros l fs d Hin Hdin. destruct (lf_set_in _ _ _ _ _ Hin) as [[-> ->]|Hold]; [|exact (Hlf _ _ _ Hold Hdin)].
          apply in_app_or in Hdin. destruct Hdin as [Hdin|[<-|[]]].
          -- destruct (lf_get_in _ _ _ Hdin) as [fs0 [A B]]. exact (Hlf _ _ _ A B).
          -- cbn [f_name f_sel]. apply Hparts. left. reflexivity.
  Qed.

  (* ---------- no fuel is needed outside extractSelection's own recursion ---------- *)
  Lemma find_defn_no_fuel name sf : fuel_err (find_defn planfrags name sf) = false.
  Proof. unfold find_defn. destruct (frag_for name sf); [reflexivity|]. destruct (frag_for name planfrags); reflexivity. Qed.

  Lemma group2_no_fuel sfrags ptype ploc : forall sels acc lf, fuel_err (group2 prios urls planfrags sfrags ptype ploc sels acc lf) = false.
  Proof.
    induction sels as [|s r IH]; intros acc lf; cbn [group2]; [reflexivity|]. destruct s as [a n args dirs sub|t dirs sub|nm dirs].
    - rewrite fuel_err_bind. pose proof (choose_no_fuel prios urls ptype n ploc) as Hc. destruct (choose prios urls ptype n ploc); [apply IH|exact Hc|reflexivity].
    - rewrite fuel_err_bind. pose proof (split_inline_no_fuel prios urls (if String.eqb t "" then ptype else t) ploc sub []) as Hs.
      destruct (split_inline prios urls (if String.eqb t "" then ptype else t) ploc sub []); [apply IH|exact Hs|reflexivity].
    - rewrite fuel_err_bind. pose proof (find_defn_no_fuel nm sfrags) as Hd. destruct (find_defn planfrags nm sfrags) as [defn|e|e]; [|exact Hd|reflexivity].
      rewrite fuel_err_bind. pose proof (split_inline_no_fuel prios urls (f_tcond defn) ploc (f_sel defn) []) as Hs.
      destruct (split_inline prios urls (f_tcond defn) ploc (f_sel defn) []); [apply IH|exact Hs|reflexivity].
  Qed.

  Lemma wrap2_no_fuel pt : forall w ss lfl, fuel_err (wrap2 pt w ss lfl) = false.
  Proof.
    induction w as [|x r IH]; intros ss lfl; cbn [wrap2]; [reflexivity|]. destruct x as [a n args dirs sub|t dirs sub|nm dirs]; [reflexivity| |].
    - rewrite fuel_err_bind. specialize (IH ss lfl). destruct (wrap2 pt r ss lfl); [reflexivity|exact IH|reflexivity].
    - rewrite fuel_err_bind. match goal with |- context [wrap2 pt r ss ?l1] => specialize (IH ss l1); destruct (wrap2 pt r ss l1); [reflexivity|exact IH|reflexivity] end.
  Qed.

  Lemma queue_others2_no_fuel ptype ploc ip w lf : forall gs, fuel_err (queue_others2 ptype ploc ip w lf gs) = false.
  Proof.
    induction gs as [|[l ss] r IH]; cbn [queue_others2]; [reflexivity|]. rewrite fuel_err_bind.
    destruct (queue_others2 ptype ploc ip w lf r) as [rest|e|e]; [|exact IH|reflexivity].
    destruct (String.eqb l ploc); [reflexivity|]. rewrite fuel_err_bind.
    pose proof (wrap2_no_fuel ptype w ss (lf_get l lf)) as Hw. destruct w as [|w0 wr]; [reflexivity|].
    destruct (wrap2 ptype (w0 :: wr) ss (lf_get l lf)); [reflexivity|exact Hw|reflexivity].
  Qed.

  (* ---------- one level: what stays ---------- *)
  Definition below_total (fuel' : nat) (below : list fragdef -> string -> list string -> list sel -> list sel -> res ext) : Prop :=
    forall sf t ip w sub r, fine_env sf -> (forall m, In m (lspreads sub) -> R m < r) -> ldepth sub + r * (D + 1) < fuel' ->
      fuel_err (below sf t ip w sub) = false /\
      forall ks ps sf', below sf t ip w sub = Ok (ks, ps, sf') ->
        fine_env sf' /\ ldepth ks <= ldepth sub /\ (forall m, In m (lspreads ks) -> In m (lspreads sub)).

  (* the head of keep_with2's loop *)
  Definition keep_head (below : list fragdef -> string -> list string -> list sel -> list sel -> res ext)
             (ptype : string) (ipoint : list string) (wrapper : list sel) (lf_here : list fragdef) (s : sel) (sfrags : list fragdef) : res ext :=
    match s with
    | Field alias name args dirs [] => Ok ([Field alias name args dirs []], [], sfrags)
    | Field alias name args dirs sub =>
        match assoc (url_key ptype name) ft with
        | None => Err "no type for field"
        | Some t =>
            let w := match wrapper with Spread n d :: _ => [Spread n d] | _ => [] end in
            b <- below sfrags t (ipoint ++ [alias]) w sub ;;
            let '(ks, ps, sf) := b in
            Ok ([Field alias name args dirs ks], ps, sf)
        end
    | Inline tcond dirs sub =>
        b <- below sfrags (if String.eqb tcond "" then ptype else tcond) ipoint (wrapper ++ [Inline tcond dirs sub]) sub ;;
        let '(ks, ps, sf) := b in
        Ok ([Inline tcond dirs ks], ps, sf)
    | Spread name dirs =>
        let own := frag_for name sfrags in
        defn <- find_defn planfrags name sfrags ;;
        let fragsel := match frag_for name lf_here with Some d => f_sel d | None => f_sel defn end in
        b <- below sfrags (f_tcond defn) ipoint [Spread name dirs] fragsel ;;
        let '(ks, ps, sf) := b in
        let sf1 := match own with
                   | Some _ => sf
                   | None => sf ++ [{| f_name := name; f_tcond := f_tcond defn; f_dirs := f_dirs defn; f_sel := [] |}]
                   end in
        Ok ([Spread name dirs], ps, set_frag_sel name ks sf1)
    end.

  Lemma keep_with2_cons below ptype ipoint wrapper lf_here s r sf0 :
    keep_with2 ft planfrags below ptype ipoint wrapper lf_here (s :: r) sf0 =
    (here <- keep_head below ptype ipoint wrapper lf_here s sf0 ;;
     let '(hs, hps, sf') := here in
     more <- keep_with2 ft planfrags below ptype ipoint wrapper lf_here r sf' ;;
     let '(ms, mps, sf'') := more in
     Ok (hs ++ ms, hps ++ mps, sf'')).
  Proof. reflexivity. Qed.

  Definition head_bound (s : sel) (hs : list sel) : Prop :=
    forall y, In y hs -> sdepth y <= sdepth s /\ forall m, In m (spreads_of y) -> In m (spreads_of s).

  Lemma fine_env_set name ks sf : fine_env sf -> fine_body name ks -> fine_env (set_frag_sel name ks sf).
  Proof.
    intros Hsf Hk d Hd. destruct (in_set_frag_sel _ _ _ _ Hd) as [A|[f [A [B ->]]]]; [apply Hsf; exact A|].
    cbn [f_name f_sel]. rewrite B. exact Hk.
  Qed.

  Lemma fine_env_app sf d : fine_env sf -> fine_body (f_name d) (f_sel d) -> fine_env (sf ++ [d]).
  Proof. intros Hsf Hd x Hx. apply in_app_or in Hx. destruct Hx as [Hx|[<-|[]]]; [apply Hsf; exact Hx|exact Hd]. Qed.

  Lemma keep_head_total fuel' below ptype ipoint wrapper lf_here r s sf0 :
    below_total fuel' below ->
    (forall d, In d lf_here -> fine_body (f_name d) (f_sel d)) ->
    fine_env sf0 ->
    sdepth s + r * (D + 1) <= fuel' -> (forall m, In m (spreads_of s) -> R m < r) ->
    fuel_err (keep_head below ptype ipoint wrapper lf_here s sf0) = false /\
    forall hs hps sf', keep_head below ptype ipoint wrapper lf_here s sf0 = Ok (hs, hps, sf') -> fine_env sf' /\ head_bound s hs.
  Proof.
    intros Hbelow Hlf Hsf Hfuel Hrank. destruct s as [alias name args dirs sub|tcond dirs sub|name dirs]; cbn [keep_head].
    - destruct sub as [|s0 sr].
      + split; [reflexivity|]. intros hs hps sf' H. injection H as <- <- <-. split; [exact Hsf|].
        intros y [<-|[]]. split; [lia|auto].
      + destruct (assoc (url_key ptype name) ft) as [t|]; [|split; [reflexivity|intros; discriminate]].
        rewrite sdepth_field in Hfuel. rewrite spreads_field in Hrank.
        match goal with |- context [below sf0 t ?ip ?w (s0 :: sr)] =>
          destruct (Hbelow sf0 t ip w (s0 :: sr) r Hsf Hrank ltac:(lia)) as [Hf Hok]; destruct (below sf0 t ip w (s0 :: sr)) as [[[ks ps] sf]|e|e] end.
        * cbn [bind]. split; [reflexivity|]. intros hs hps sf' H. injection H as <- <- <-.
          destruct (Hok _ _ _ eq_refl) as [A [B C]]. split; [exact A|].
          intros y [<-|[]]. rewrite !sdepth_field, !spreads_field. split; [lia|exact C].
        * cbn [bind]. split; [exact Hf|intros; discriminate].
        * cbn [bind]. split; [reflexivity|intros; discriminate].
    - rewrite sdepth_inline in Hfuel. rewrite spreads_inline in Hrank.
      match goal with |- context [below sf0 ?t ?ip ?w sub] =>
        destruct (Hbelow sf0 t ip w sub r Hsf Hrank ltac:(lia)) as [Hf Hok]; destruct (below sf0 t ip w sub) as [[[ks ps] sf]|e|e] end.
      + cbn [bind]. split; [reflexivity|]. intros hs hps sf' H. injection H as <- <- <-.
        destruct (Hok _ _ _ eq_refl) as [A [B C]]. split; [exact A|].
        intros y [<-|[]]. rewrite !sdepth_inline, !spreads_inline. split; [lia|exact C].
      + cbn [bind]. split; [exact Hf|intros; discriminate].
      + cbn [bind]. split; [reflexivity|intros; discriminate].
    - pose proof (find_defn_no_fuel name sf0) as Hdf.
      destruct (find_defn planfrags name sf0) as [defn|e|e] eqn:Ed; cbn [bind]; [|split; [exact Hdf|intros; discriminate]|split; [reflexivity|intros; discriminate]].
      destruct (find_defn_fine _ _ _ Hsf Ed) as [Hn Hfb].
      set (fragsel := match frag_for name lf_here with Some d => f_sel d | None => f_sel defn end).
      assert (Hfs: fine_body name fragsel).
      { unfold fragsel. destruct (frag_for name lf_here) as [d|] eqn:El; [|exact Hfb].
        destruct (frag_for_in _ _ _ El) as [A B]. rewrite <- B. apply Hlf. exact A. }
      destruct Hfs as [Hfd Hfr].
      assert (Hrn: R name < r) by (apply Hrank; left; reflexivity).
      assert (Hneed: ldepth fragsel + R name * (D + 1) < fuel').
      { cbn [sdepth] in Hfuel. assert ((R name + 1) * (D + 1) <= r * (D + 1)) by (apply Nat.mul_le_mono_r; lia). lia. }
      match goal with |- context [below sf0 ?t ?ip ?w fragsel] =>
        destruct (Hbelow sf0 t ip w fragsel (R name) Hsf Hfr Hneed) as [Hf Hok]; destruct (below sf0 t ip w fragsel) as [[[ks ps] sf]|e|e] end.
      + cbn [bind]. split; [reflexivity|]. intros hs hps sf' H. injection H as <- <- <-.
        destruct (Hok _ _ _ eq_refl) as [A [B C]]. split.
        * apply fine_env_set.
          -- destruct (frag_for name sf0); [exact A|]. apply fine_env_app; [exact A|]. cbn [f_name f_sel]. split; [cbn [ldepth]; lia|intros m []].
          -- split; [lia|]. intros m Hm. apply Hfr, C, Hm.
        * intros y [<-|[]]. split; [lia|auto].
      + cbn [bind]. split; [exact Hf|intros; discriminate].
      + cbn [bind]. split; [reflexivity|intros; discriminate].
  Qed.

  Lemma keep2_total fuel' below ptype ipoint wrapper lf_here r :
    below_total fuel' below ->
    (forall d, In d lf_here -> fine_body (f_name d) (f_sel d)) ->
    forall cur sf0, fine_env sf0 ->
      (forall x, In x cur -> sdepth x + r * (D + 1) <= fuel' /\ forall m, In m (spreads_of x) -> R m < r) ->
      fuel_err (keep_with2 ft planfrags below ptype ipoint wrapper lf_here cur sf0) = false /\
      forall ks ps sf1, keep_with2 ft planfrags below ptype ipoint wrapper lf_here cur sf0 = Ok (ks, ps, sf1) ->
        fine_env sf1 /\
        forall y, In y ks -> exists x, In x cur /\ sdepth y <= sdepth x /\ forall m, In m (spreads_of y) -> In m (spreads_of x).
  Proof.
    intros Hbelow Hlf. induction cur as [|s rest IH]; intros sf0 Hsf Hcur.
    - cbn [keep_with2]. split; [reflexivity|]. intros ks ps sf1 H. injection H as <- <- <-. split; [exact Hsf|intros y []].
    - rewrite keep_with2_cons.
      destruct (Hcur s (or_introl eq_refl)) as [Hfuel Hrank].
      destruct (keep_head_total fuel' below ptype ipoint wrapper lf_here r s sf0 Hbelow Hlf Hsf Hfuel Hrank) as [Hhf Hhok].
      destruct (keep_head below ptype ipoint wrapper lf_here s sf0) as [[[hs hps] sf']|e|e]; cbn [bind];
        [|split; [exact Hhf|intros; discriminate]|split; [reflexivity|intros; discriminate]].
      destruct (Hhok _ _ _ eq_refl) as [Hsf' Hhb].
      destruct (IH sf' Hsf' (fun x Hx => Hcur x (or_intror Hx))) as [Hrf Hrok].
      destruct (keep_with2 ft planfrags below ptype ipoint wrapper lf_here rest sf') as [[[ms mps] sf'']|e|e]; cbn [bind];
        [|split; [exact Hrf|intros; discriminate]|split; [reflexivity|intros; discriminate]].
      split; [reflexivity|]. intros ks ps sf1 H. injection H as <- <- <-.
      destruct (Hrok _ _ _ eq_refl) as [Hsf'' Hrb]. split; [exact Hsf''|].
      intros y Hy. apply in_app_or in Hy. destruct Hy as [Hy|Hy].
      + destruct (Hhb y Hy) as [A B]. exists s. split; [left; reflexivity|split; assumption].
      + destruct (Hrb y Hy) as [x [A [B C]]]. exists x. split; [right; exact A|split; assumption].
  Qed.

  (* ---------- extractSelection ---------- *)
  Lemma get_at_in2 l : forall (m : list (string * list sel)) ss, get_at l m = Some ss -> exists k, In (k, ss) m.
  Proof.
    induction m as [|[k v] r IH]; intros ss H; cbn [get_at] in H; [discriminate|].
    destruct (String.eqb l k); [injection H as <-; exists k; left; reflexivity|]. destruct (IH ss H) as [k0 A]. exists k0. right. exact A.
  Qed.

  Theorem extract2_total : forall fuel sfrags ptype ploc ip w sels r,
    fine_env sfrags -> (forall m, In m (lspreads sels) -> R m < r) -> ldepth sels + r * (D + 1) < fuel ->
    fuel_err (extract2 prios urls ft planfrags fuel sfrags ptype ploc ip w sels) = false /\
    forall ks ps sf, extract2 prios urls ft planfrags fuel sfrags ptype ploc ip w sels = Ok (ks, ps, sf) ->
      fine_env sf /\ ldepth ks <= ldepth sels /\ (forall m, In m (lspreads ks) -> In m (lspreads sels)).
  Proof.
    induction fuel as [|f IH]; intros sfrags ptype ploc ip w sels r Hsf Hrank Hfuel; [lia|]. cbn [extract2].
    pose proof (group2_no_fuel sfrags ptype ploc sels [] []) as Hg.
    destruct (group2 prios urls planfrags sfrags ptype ploc sels [] []) as [[groups lf]|e|e] eqn:Eg; cbn [bind];
      [|split; [exact Hg|intros; discriminate]|split; [reflexivity|intros; discriminate]].
    destruct (group2_spec sfrags ptype ploc sels Hsf sels [] [] (groups, lf) Eg (fun x H => H)) as [Hdom Hlf];
      [intros l ss x []|intros l fs d []|]. cbn [fst snd] in Hdom, Hlf.
    pose proof (queue_others2_no_fuel ptype ploc ip w lf groups) as Hq.
    destruct (queue_others2 ptype ploc ip w lf groups) as [others|e|e] eqn:Eo; cbn [bind];
      [|split; [exact Hq|intros; discriminate]|split; [reflexivity|intros; discriminate]].
    (* the join id is added only next to something: a selection that queues is not empty *)
    assert (Hne: others <> [] -> 1 <= ldepth sels).
    { intros Ho. apply ldepth_pos. intros ->. cbn [group2] in Eg. injection Eg as <- <-. cbn [queue_others2] in Eo. injection Eo as <-. apply Ho. reflexivity. }
    set (cur0 := match get_at ploc groups with Some ss => ss | None => [] end).
    set (current := match others with [] => cur0 | _ :: _ => cur0 ++ [id_field] end).
    assert (Hcur0: forall x, In x cur0 -> dom x sels).
    { intros x Hx. unfold cur0 in Hx. destruct (get_at ploc groups) as [ss|] eqn:Ega; [|destruct Hx].
      destruct (get_at_in2 _ _ _ Ega) as [k Hk]. exact (Hdom _ _ _ Hk Hx). }
    assert (Hcurrent: forall x, In x current -> (x = id_field /\ others <> []) \/ dom x sels).
    { intros x Hx. unfold current in Hx. destruct others as [|o orest]; [right; apply Hcur0; exact Hx|].
      apply in_app_or in Hx. destruct Hx as [Hx|[<-|[]]]; [right; apply Hcur0; exact Hx|left; split; [reflexivity|discriminate]]. }
    assert (Hbelow: below_total f (fun sf t ip0 w0 sub => extract2 prios urls ft planfrags f sf t ploc ip0 w0 sub)).
    { intros sf t ip0 w0 sub r0 A B C. apply (IH sf t ploc ip0 w0 sub r0 A B C). }
    assert (Hlfh: forall d, In d (lf_get ploc lf) -> fine_body (f_name d) (f_sel d)).
    { intros d Hd. destruct (lf_get_in _ _ _ Hd) as [fs [A B]]. exact (Hlf _ _ _ A B). }
    assert (Hc: forall x, In x current -> sdepth x + r * (D + 1) <= f /\ forall m, In m (spreads_of x) -> R m < r).
    { intros x Hx. destruct (Hcurrent x Hx) as [[-> Ho]|[A B]].
      - specialize (Hne Ho). split; [cbn [id_field sdepth]; lia|intros m []].
      - split; [lia|]. intros m Hm. apply Hrank, B, Hm. }
    destruct (keep2_total f _ ptype ip w (lf_get ploc lf) r Hbelow Hlfh current sfrags Hsf Hc) as [Hkf Hkok].
    fold cur0. fold current.
    destruct (keep_with2 ft planfrags (fun sf t ip0 w0 sub => extract2 prios urls ft planfrags f sf t ploc ip0 w0 sub) ptype ip w (lf_get ploc lf) current sfrags)
      as [[[ks kps] ksf]|e|e]; cbn [bind]; [|split; [exact Hkf|intros; discriminate]|split; [reflexivity|intros; discriminate]].
    split; [reflexivity|]. intros ks0 ps0 sf0 H. injection H as <- <- <-.
    destruct (Hkok _ _ _ eq_refl) as [Hfine Hb]. split; [exact Hfine|]. split.
    - apply ldepth_bound. intros y Hy. destruct (Hb y Hy) as [x [Hx [Hd _]]].
      destruct (Hcurrent x Hx) as [[-> Ho]|[A _]]; [specialize (Hne Ho); cbn [id_field sdepth] in Hd; lia|lia].
    - intros m Hm. destruct (lspreads_elim _ _ Hm) as [y [Hy Hmy]]. destruct (Hb y Hy) as [x [Hx [_ Hs]]].
      specialize (Hs m Hmy). destruct (Hcurrent x Hx) as [[-> _]|[_ B]]; [destruct Hs|apply B; exact Hs].
  Qed.

  (* in the words of the property: extractSelection always returns -- a selection to keep, or one of
     the planner's own errors -- on every document with acyclic fragments *)
  Corollary extract2_never_out_of_fuel sfrags ptype ploc ip w sels r :
    fine_env sfrags -> (forall m, In m (lspreads sels) -> R m < r) ->
    fuel_err (extract2 prios urls ft planfrags (ldepth sels + r * (D + 1) + 1) sfrags ptype ploc ip w sels) = false.
  Proof. intros A B. apply (extract2_total _ sfrags ptype ploc ip w sels r A B). lia. Qed.
End Total2.

(* Isolation of executions that share a plan.  The plan is a parameter of the step relation, never
   part of a state: an execution's state is its own context, variables, accumulated response,
   result channel, wait group and error list.  N executions run interleaved; nothing but the
   plan is common to them.  Then: every interleaved run is, component by component, a solo run
   (what one request sees and does is what it would see and do alone), and every tuple of solo
   runs can be interleaved (concurrency adds no behaviour and removes none). *)
From Coq Require Import List Arith Bool Permutation Lia.
From GW Require Import Gw.ExecLTS Proofs.ExecLTSProofs Proofs.ExecLTSConserve.
Import ListNotations.

Section Isolation.
  Variable shared : Type.     (* the plan(s): read by every execution, written by none *)
  Variable local : Type.      (* the state of one execution *)
  Variable step : shared -> local -> list local.

  Inductive reach1 (p : shared) (i : local) : local -> Prop :=
  | r1_init : reach1 p i i
  | r1_step s s' : reach1 p i s -> In s' (step p s) -> reach1 p i s'.

  (* one component advances, the others stay as they are *)
  Inductive pstep (p : shared) : list local -> list local -> Prop :=
  | ps_here s s' rest : In s' (step p s) -> pstep p (s :: rest) (s' :: rest)
  | ps_later s rest rest' : pstep p rest rest' -> pstep p (s :: rest) (s :: rest').

  Inductive preach (p : shared) (inits : list local) : list local -> Prop :=
  | pr_init : preach p inits inits
  | pr_step ls ls' : preach p inits ls -> pstep p ls ls' -> preach p inits ls'.

  Lemma pstep_projection p ls ls' : pstep p ls ls' ->
    Forall2 (fun s s' => s' = s \/ In s' (step p s)) ls ls'.
  Proof.
    induction 1 as [s s' rest H|s rest rest' H IH].
    - constructor; [right; exact H|]. induction rest; constructor; auto.
    - constructor; [left; reflexivity|exact IH].
  Qed.

  (* every interleaved run projects to solo runs *)
  Theorem interleaved_projects_to_solo p inits ls :
    preach p inits ls -> Forall2 (reach1 p) inits ls.
  Proof.
    induction 1 as [|ls ls' Hr IH Hs].
    - induction inits; constructor; [apply r1_init|assumption].
    - apply pstep_projection in Hs. clear Hr. revert ls' Hs. induction IH as [|i s is ss Hi His IHs]; intros ls' Hs.
      + inversion Hs. constructor.
      + inversion Hs as [|? s' ? ss' Hhead Htail]; subst. constructor.
        * destruct Hhead as [->|Hin]; [exact Hi|eapply r1_step; eassumption].
        * apply IHs. exact Htail.
  Qed.

  Lemma preach_head p i s rest : reach1 p i s -> preach p (i :: rest) (s :: rest).
  Proof.
    induction 1 as [|s s' Hr IH Hs]; [apply pr_init|]. eapply pr_step; [exact IH|apply ps_here; exact Hs].
  Qed.

  Lemma preach_trans p a b c : preach p a b -> preach p b c -> preach p a c.
  Proof. intros Hab Hbc. induction Hbc as [|ls ls' Hr IH Hs]; [exact Hab|]. eapply pr_step; eassumption. Qed.

  Lemma preach_tail p s inits ls : preach p inits ls -> preach p (s :: inits) (s :: ls).
  Proof.
    induction 1 as [|ls ls' Hr IH Hs]; [apply pr_init|]. eapply pr_step; [exact IH|apply ps_later; exact Hs].
  Qed.

  (* ... and every tuple of solo runs is reachable interleaved *)
  Theorem solo_runs_interleave p inits ls :
    Forall2 (reach1 p) inits ls -> preach p inits ls.
  Proof.
    induction 1 as [|i s is ss Hi His IH]; [apply pr_init|].
    eapply preach_trans; [apply preach_head; exact Hi|]. apply preach_tail. exact IH.
  Qed.
End Isolation.

(* ---------- the executor: N requests on one plan ---------- *)
Section Executor.
  Variable rcap : nat.
  Hypothesis rcap_pos : 0 < rcap.

  (* the shared part is the plan, here the capacity constant and nothing else; a request's call
     tree (which calls it makes, which fail) is determined by its own variables and the services'
     data, and is its initial state *)
  Definition exec_step (_ : unit) (s : st) : list st := steps rcap s.

  Lemma reach1_reach roots s : reach1 unit st exec_step tt (init roots) s -> reach rcap roots s.
  Proof. induction 1 as [|s s' Hr IH Hs]; [apply reach_init|eapply reach_step; eassumption]. Qed.

  (* No cross-talk: whatever the interleaving of N executions, when request k has returned it has
     issued exactly the calls of ITS call tree, stitched exactly ITS results and recorded exactly
     ITS failures -- nothing of any other request's. *)
  Theorem no_cross_talk (trees : list (list ctree)) (ls : list st) :
    preach unit st exec_step tt (map init trees) ls ->
    Forall2 (fun roots s => ret s = true ->
               Permutation (called s) (idsl roots) /\ Permutation (ins s) (idsl roots) /\
               Permutation (errs s) (failingl roots)) trees ls.
  Proof.
    intros H. apply interleaved_projects_to_solo in H.
    remember (map init trees) as inits eqn:E. revert trees E.
    induction H as [|i s is ss Hi His IH]; intros trees E.
    - destruct trees; [constructor|discriminate].
    - destruct trees as [|roots trees]; [discriminate|]. cbn [map] in E. injection E as -> ->.
      constructor; [|apply IH; reflexivity].
      intros Hret. apply reach1_reach in Hi.
      destruct (returned_after_all rcap rcap_pos roots s Hi Hret) as (_ & _ & A & B & C). auto.
  Qed.

  (* and every request still terminates: an interleaved state in which some request has not
     returned has a successor (that request can move) *)
  Theorem interleaved_progress (trees : list (list ctree)) (ls : list st) :
    preach unit st exec_step tt (map init trees) ls ->
    Exists (fun s => ret s = false) ls -> exists ls', pstep unit st exec_step tt ls ls'.
  Proof.
    intros H. apply interleaved_projects_to_solo in H.
    remember (map init trees) as inits eqn:E. revert trees E.
    induction H as [|i s is ss Hi His IH]; intros trees E Hex.
    - inversion Hex.
    - destruct trees as [|roots trees]; [discriminate|]. cbn [map] in E. injection E as -> ->.
      inversion Hex as [? ? Hhere|? ? Hlater]; subst.
      + apply reach1_reach in Hi.
        pose proof (progress rcap rcap_pos s (reach_inv rcap rcap_pos roots s Hi) Hhere) as Hp.
        destruct (steps rcap s) as [|s' r] eqn:Es; [congruence|].
        exists (s' :: ss). apply ps_here. unfold exec_step. rewrite Es. left. reflexivity.
      + destruct (IH trees eq_refl Hlater) as [ls' Hs]. exists (s :: ls'). apply ps_later. exact Hs.
  Qed.
End Executor.

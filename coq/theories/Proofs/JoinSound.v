(* One join, end to end, against the reference semantics.  A step answers a field k (an object or a
   list of objects) with the selection l1 plus the join id; the executor finds the realised
   insertion points under k in that answer, asks the other service for l2 on the object behind each
   point (node(id)), and stitches each answer in at its point.  Then every point holds the
   reference answer to l1, id and l2 together for its object. *)
From Coq Require Import String Ascii List Bool Arith ZArith Lia.
From GW Require Import Base.Res Base.GoStr Base.Json Gql.Syntax Gql.Spec Gw.Points
     Proofs.CodecProofs Proofs.PointsProofs Proofs.FindProofs.
From GW Require Import Proofs.StitchSound.
Import ListNotations.
Open Scope string_scope.
Open Scope list_scope.

Definition id_sel : sel := Field "id" "id" [] [] [].

Lemma find_obj_id id objs o : find_obj id objs = Some o -> b_id o = id.
Proof.
  induction objs as [|x r IH]; cbn [find_obj]; [discriminate|].
  destruct (String.eqb (b_id x) id) eqn:E; [intros [= <-]; apply String.eqb_eq; exact E|exact IH].
Qed.

Section Join.
  Variable w : world.
  Variable frags : list fragdef.
  Variable vars : list (string * json).
  Hypothesis world_atomic : atomic_world w vars.

  (* the parent's sub-selection: l1 and the join id, in collected form *)
  Variable l1 : list sel.
  Hypothesis good_sub : good (l1 ++ [id_sel]).

  Notation sub1 := (l1 ++ [id_sel]).

  Lemma jget_app_last k (v : json) a : ~ In k (map fst a) -> jget k (a ++ [(k, v)]) = Some v.
  Proof.
    induction a as [|[k' v'] r IH]; intros Hn; cbn [app jget].
    - rewrite String.eqb_refl. reflexivity.
    - cbn [map fst In] in Hn. destruct (String.eqb k k') eqn:Ek.
      + apply String.eqb_eq in Ek. exfalso. apply Hn. left. symmetry. exact Ek.
      + apply IH. intros H. apply Hn. right. exact H.
  Qed.

  (* an object answers its own id under the key id *)
  Lemma answer_has_id fuel o :
    exists m, exec (S (S fuel)) w frags vars (Some o) (b_type o) sub1 = JObj m /\ jget "id" m = Some (JStr (b_id o)).
  Proof.
    rewrite exec_unfold. eexists. split; [reflexivity|].
    inversion good_sub as [? P N S]; subst.
    rewrite collect_plain by exact P. cbn [fst].
    rewrite (fold_add_nodup _ [] N) by (intros s _ []). cbn [app].
    rewrite !map_app. cbn [map].
    apply jget_app_last.
    rewrite map_map. cbn [fst to_c c_key].
    rewrite map_app in N. cbn [map] in N.
    intros Hin. apply NoDup_remove_2 in N. apply N. rewrite app_nil_r. rewrite map_map in Hin. exact Hin.
  Qed.

  (* the dependent query of a step: node(id: "<the point's id>") { l2 } *)
  Definition node_sel (id : string) (l2 : list sel) : sel := Field "" "node" [("id", VStr id)] [] l2.

  (* what the reference answers to it: the answer to l2 on the object with that id *)
  Lemma node_answer fuel o l2 :
    find_obj (b_id o) (w_objs w) = Some o ->
    exec (S (S (S fuel))) w frags vars None "Query" [node_sel (b_id o) l2] =
    JObj [("node", exec (S (S fuel)) w frags vars (Some o) (b_type o) l2)].
  Proof.
    intros Hf. rewrite exec_unfold.
    rewrite collect_plain by (constructor; [exact I|constructor]).
    cbn [fst map fold_left to_c node_sel key_of name_of args_of sub_of add_c find_c app].
    unfold add_c. cbn [find_c map c_key c_sub to_c key_of name_of args_of sub_of rkey].
    cbn. rewrite Hf. cbn. rewrite Hf. reflexivity.
  Qed.

  (* One join, end to end.  The accumulated response holds, at a realised point p, the answer to the
     parent step's selection (l1 and the id the planner added) for some object o of the data graph,
     and ids name one object each.  The executor reads the id at the point, asks node(id) for l2,
     takes the value under "node" and stitches it in at p.  Then p holds the reference answer to
     l1, id and l2 together for o -- whatever l1 and l2 are, however deep p is. *)
  Theorem join_sound fuel o l2 p acc acc' m id ans node :
    find_obj (b_id o) (w_objs w) = Some o ->
    good l2 -> compat sub1 l2 -> p <> [] ->
    extract_value p acc = Ok (exec (S (S fuel)) w frags vars (Some o) (b_type o) sub1) ->
    extract_value p acc = Ok (JObj m) -> jget "id" m = Some (JStr id) ->
    exec (S (S (S fuel))) w frags vars None "Query" [node_sel id l2] = JObj ans ->
    jget "node" ans = Some node ->
    insert_object acc p node = Ok acc' ->
    extract_value p acc' = Ok (exec (S (S fuel)) w frags vars (Some o) (b_type o) (sub1 ++ l2)).
  Proof.
    intros Hf G2 C Hp Hold Hm Hid Hans Hnode Hins.
    destruct (answer_has_id fuel o) as [m' [Em Eid]].
    rewrite Hold in Hm. rewrite Em in Hm. injection Hm as <-.
    rewrite Eid in Hid. injection Hid as <-.
    rewrite (node_answer fuel o l2 Hf) in Hans. injection Hans as <-.
    cbn [jget] in Hnode. rewrite String.eqb_refl in Hnode. injection Hnode as <-.
    exact (stitch_at_point w frags vars world_atomic (S fuel) (Some o) (b_type o) sub1 l2 p acc acc'
             (find_obj_in _ _ _ Hf) good_sub G2 C Hp Hold Hins).
  Qed.

  (* ... and when the client did not ask for id, scrubbing it at the point leaves exactly the
     reference answer to l1 and l2: the id the planner added is seen by no one *)
  Definition drop_key (k : string) (cs : list collected) : list collected :=
    filter (fun c => negb (String.eqb k (c_key c))) cs.

  Lemma drop_add_other k c acc : c_key c <> k -> drop_key k (add_c c acc) = add_c c (drop_key k acc).
  Proof.
    intros Hne. unfold add_c.
    assert (Ek : String.eqb k (c_key c) = false) by (apply String.eqb_neq; congruence).
    induction acc as [|x r IH]; cbn [add_collected drop_key filter c_key].
    - rewrite Ek. reflexivity.
    - destruct (String.eqb (c_key x) (c_key c)) eqn:Ex.
      + cbn [filter c_key]. rewrite Ek. cbn [negb].
        apply String.eqb_eq in Ex. rewrite Ex, Ek. cbn [negb add_collected c_key]. rewrite Ex, String.eqb_refl. reflexivity.
      + cbn [filter]. destruct (String.eqb k (c_key x)) eqn:E; cbn [negb].
        * exact IH.
        * cbn [add_collected]. rewrite Ex. f_equal. exact IH.
  Qed.

  Lemma drop_fold k : forall l acc, ~ In k (map key_of l) ->
    drop_key k (fold_left (fun a s => add_c (to_c s) a) l acc) = fold_left (fun a s => add_c (to_c s) a) l (drop_key k acc).
  Proof.
    induction l as [|s r IH]; intros acc Hn; cbn [fold_left]; [reflexivity|].
    cbn [map In] in Hn. rewrite IH by (intros H; apply Hn; right; exact H).
    rewrite drop_add_other; [reflexivity|]. cbn [to_c c_key]. intros E. apply Hn. left. exact E.
  Qed.

  Lemma jdel_map k (V : collected -> json) cs :
    jdel k (map (fun c => (c_key c, V c)) cs) = map (fun c => (c_key c, V c)) (drop_key k cs).
  Proof.
    induction cs as [|c r IH]; cbn [map jdel drop_key filter]; [reflexivity|].
    destruct (String.eqb k (c_key c)); cbn [negb]; [exact IH|cbn [map]; f_equal; exact IH].
  Qed.

  Lemma drop_absent k cs : ~ In k (map c_key cs) -> drop_key k cs = cs.
  Proof.
    induction cs as [|c r IH]; intros Hn; cbn [drop_key filter]; [reflexivity|].
    cbn [map In] in Hn. destruct (String.eqb k (c_key c)) eqn:E.
    - apply String.eqb_eq in E. exfalso. apply Hn. left. symmetry. exact E.
    - cbn [negb]. f_equal. apply IH. intros H. apply Hn. right. exact H.
  Qed.

  Theorem scrubbed_join fuel o l2 :
    Forall plain l2 -> ~ In "id" (map key_of l2) ->
    forall m, exec (S (S fuel)) w frags vars (Some o) (b_type o) (sub1 ++ l2) = JObj m ->
    JObj (jdel "id" m) = exec (S (S fuel)) w frags vars (Some o) (b_type o) (l1 ++ l2).
  Proof.
    intros P2 N2 m Hm. rewrite exec_unfold in Hm.
    match type of Hm with JObj ?a = JObj _ => assert (Hm' : m = a) by congruence end.
    clear Hm. subst m. rewrite exec_unfold.
    inversion good_sub as [? P N S]; subst.
    assert (P1 : Forall plain l1) by (apply Forall_app in P; exact (proj1 P)).
        rewrite (collect_plain _ _ _ _ _ (sub1 ++ l2)) by (apply Forall_app; split; assumption).
    rewrite (collect_plain _ _ _ _ _ (l1 ++ l2)) by (apply Forall_app; split; assumption). cbn [fst].
    rewrite jdel_map. f_equal. f_equal.
    rewrite <- app_assoc. rewrite !fold_left_app. cbn [fold_left app].
        rewrite drop_fold by exact N2. f_equal.
    rewrite map_app in N. cbn [map] in N.
    assert (N1 : NoDup (map key_of l1)) by (apply NoDup_remove_1 in N; rewrite app_nil_r in N; exact N).
    assert (Nid : ~ In "id" (map key_of l1)) by (apply NoDup_remove_2 in N; rewrite app_nil_r in N; exact N).
    rewrite (fold_add_nodup l1 [] N1) by (intros s _ []). cbn [app].
    rewrite add_c_fresh by (rewrite map_map; exact Nid).
    unfold drop_key. rewrite filter_app. cbn [filter to_c c_key key_of id_sel rkey].
        change (negb ("id" =? rkey "id" "id")) with false. cbv iota.
    change (filter (fun c : collected => negb ("id" =? c_key c)) (map to_c l1)) with (drop_key "id" (map to_c l1)).
    rewrite drop_absent by (rewrite map_map; exact Nid).
    rewrite app_nil_r. reflexivity.
  Qed.

  (* the whole join: fetch by id, stitch at the point, scrub the id the planner added *)
  Theorem join_and_scrub fuel o l2 p acc acc' acc'' m id ans node :
    find_obj (b_id o) (w_objs w) = Some o ->
    good l2 -> compat sub1 l2 -> p <> [] -> ~ In "id" (map key_of l2) ->
    extract_value p acc = Ok (exec (S (S fuel)) w frags vars (Some o) (b_type o) sub1) ->
    extract_value p acc = Ok (JObj m) -> jget "id" m = Some (JStr id) ->
    exec (S (S (S fuel))) w frags vars None "Query" [node_sel id l2] = JObj ans ->
    jget "node" ans = Some node ->
    insert_object acc p node = Ok acc' ->
    scrub_at "id" acc' p = Ok acc'' ->
    extract_value p acc'' = Ok (exec (S (S fuel)) w frags vars (Some o) (b_type o) (l1 ++ l2)).
  Proof.
    intros Hf G2 C Hp N2 Hold Hm Hid Hans Hnode Hins Hscrub.
    pose proof (join_sound fuel o l2 p acc acc' m id ans node Hf G2 C Hp Hold Hm Hid Hans Hnode Hins) as Hj.
    destruct (scrub_then_extract _ _ _ _ Hscrub) as [m' [A B]].
    rewrite Hj in A. rewrite B. f_equal.
    apply scrubbed_join; [inversion G2; assumption|exact N2|congruence].
  Qed.
End Join.

(* the premises can be met: a user reached under "me", name from one service, photo from another *)
Example join_example :
  let w := {| w_objs := [{| b_id := "u:1#x"; b_type := "User"; b_fields := [("name", FScalar (JStr "ann")); ("photo", FScalar (JStr "p.png"))] |}];
              w_roots := [("Query.me", FRef "u:1#x")]; w_possible := []; w_ftypes := [] |} in
  let l1 := [Field "" "name" [] [] []] in
  let l2 := [Field "" "photo" [] [] []] in
  let acc := exec 6 w [] [] None "Query" [Field "" "me" [] [] (l1 ++ [id_sel])] in
  let o := {| b_id := "u:1#x"; b_type := "User"; b_fields := [("name", FScalar (JStr "ann")); ("photo", FScalar (JStr "p.png"))] |} in
  atomic_world w [] /\ good (l1 ++ [id_sel]) /\ good l2 /\ compat (l1 ++ [id_sel]) l2 /\
  extract_value ["me"] acc = Ok (exec 5 w [] [] (Some o) "User" (l1 ++ [id_sel])) /\
  exists acc' acc'',
    insert_object acc ["me"] (exec 5 w [] [] (Some o) "User" l2) = Ok acc' /\
    scrub_at "id" acc' ["me"] = Ok acc'' /\
    acc'' = JObj [("me", JObj [("name", JStr "ann"); ("photo", JStr "p.png")])].
Proof.
  cbv zeta. split; [apply atomic_world_intro; cbn; repeat constructor|]. split; [|split; [|split; [|split]]].
  - constructor; [repeat constructor|repeat constructor; cbn; intuition discriminate|repeat constructor].
  - constructor; [repeat constructor|repeat constructor; cbn; intuition discriminate|repeat constructor].
  - constructor. intros s1 s2 H1 H2 Hk. cbn in H1, H2. destruct H1 as [<-|[<-|[]]]; destruct H2 as [<-|[]]; discriminate Hk.
  - vm_compute. reflexivity.
  - eexists. eexists. split; [vm_compute; reflexivity|]. split; vm_compute; reflexivity.
Qed.

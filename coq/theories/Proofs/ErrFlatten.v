(* execute.go, Execute: the closure recordErr.  A failed step hands the collector either a plain
   Go error or a graphql.ErrorList (a slice of entries: errors.As unwraps it, one level — an entry
   is a *graphql.Error, never a list); recordErr appends the entries of a list one by one and a
   plain error as one entry.  The transition system of Gw/ExecLTS.v records *which* calls had their
   error recorded and in what order (errs s); this file gives the list Execute returns — the fold of
   recordErr over the payloads in that order — and proves that it holds every entry of every
   failure exactly once, entries of one call together and in their own order, and nothing else. *)
From Coq Require Import List Arith Bool Permutation Lia.
From GW Require Import Gw.ExecLTS Proofs.ExecLTSProofs Proofs.ExecLTSConserve.
Import ListNotations.

Section Flatten.
  Variable E : Type.                      (* an error entry *)

  Inductive goerr := Plain (e : E) | ErrList (l : list E).

  (* recordErr: errs = append(errs, errList...) or errs = append(errs, err) *)
  Definition record_err (acc : list E) (err : goerr) : list E :=
    match err with
    | ErrList l => acc ++ l
    | Plain e => acc ++ [e]
    end.

  Definition entries (err : goerr) : list E :=
    match err with ErrList l => l | Plain e => [e] end.

  Lemma record_err_entries acc err : record_err acc err = acc ++ entries err.
  Proof. destruct err; reflexivity. Qed.

  Lemma fold_record acc l : fold_left record_err l acc = acc ++ flat_map entries l.
  Proof.
    revert acc; induction l as [|x l IH]; intros acc; cbn [fold_left flat_map].
    - now rewrite app_nil_r.
    - rewrite IH, record_err_entries, app_assoc. reflexivity.
  Qed.

  (* what Execute returns as its error list: recordErr folded over the payloads of the calls whose
     error the collector recorded, in the order it recorded them *)
  Variable payload : nat -> goerr.        (* the error a failing call comes back with *)

  Definition returned_errors (s : st) : list E := fold_left record_err (map payload (errs s)) [].

  Lemma returned_errors_flat s : returned_errors s = flat_map (fun i => entries (payload i)) (errs s).
  Proof. unfold returned_errors. rewrite fold_record, flat_map_concat_map, map_map, <- flat_map_concat_map. reflexivity. Qed.

  Lemma perm_flat_map {A B} (f : A -> list B) l l' : Permutation l l' -> Permutation (flat_map f l) (flat_map f l').
  Proof.
    induction 1 as [|x l l' _ IH|x y l|l l' l'' _ IH1 _ IH2]; cbn [flat_map].
    - constructor.
    - now apply Permutation_app_head.
    - rewrite !app_assoc. apply Permutation_app_tail, Permutation_app_comm.
    - now transitivity (flat_map f l').
  Qed.

  (* every entry of every failure, each once; nothing else *)
  Theorem returned_errors_are_the_failures rcap (Hc : 0 < rcap) roots s :
    reach rcap roots s -> ret s = true ->
    Permutation (returned_errors s) (flat_map (fun i => entries (payload i)) (failingl roots)).
  Proof.
    intros Hr Ht. rewrite returned_errors_flat. apply perm_flat_map.
    destruct (returned_after_all rcap Hc roots s Hr Ht) as (_ & _ & _ & _ & P). exact P.
  Qed.

  (* the entries of one failure stay together and keep their order: the returned list is the
     concatenation, over the failed calls in some order, of each call's own entries *)
  Theorem returned_errors_keep_each_list rcap (Hc : 0 < rcap) roots s :
    reach rcap roots s -> ret s = true ->
    exists order, Permutation order (failingl roots) /\
                  returned_errors s = concat (map (fun i => entries (payload i)) order).
  Proof.
    intros Hr Ht. exists (errs s). split.
    - destruct (returned_after_all rcap Hc roots s Hr Ht) as (_ & _ & _ & _ & P). exact P.
    - rewrite returned_errors_flat, flat_map_concat_map. reflexivity.
  Qed.

  Theorem no_failure_no_entry rcap (Hc : 0 < rcap) roots s :
    reach rcap roots s -> ret s = true -> failingl roots = [] -> returned_errors s = [].
  Proof.
    intros Hr Ht Hf. pose proof (returned_errors_are_the_failures rcap Hc roots s Hr Ht) as P.
    rewrite Hf in P. cbn in P. apply Permutation_sym, Permutation_nil in P. exact P.
  Qed.

  Theorem count_of_entries rcap (Hc : 0 < rcap) roots s :
    reach rcap roots s -> ret s = true ->
    length (returned_errors s) = fold_right (fun i n => length (entries (payload i)) + n) 0 (failingl roots).
  Proof.
    intros Hr Ht. rewrite (Permutation_length (returned_errors_are_the_failures rcap Hc roots s Hr Ht)).
    induction (failingl roots) as [|i l IH]; cbn [flat_map fold_right]; [reflexivity|].
    rewrite app_length, IH. reflexivity.
  Qed.
End Flatten.

(* A dependent step at any depth with the executor's own input: the flattened selection is the
   model of graphql.ApplyFragments on the parent's selection (Gw/Fed.v: flatten) under the shapes
   the schema declares. *)
From Coq Require Import String List Bool Arith ZArith Lia.
From GW Require Import Base.Res Base.GoStr Base.Json Gql.Syntax Gql.Spec Gw.Points Gw.Fed
     Proofs.PointsProofs Proofs.StitchSound Proofs.JoinSound Proofs.StepJoin Proofs.StepScrub Proofs.DeepPoints
     Proofs.DeepScrub Proofs.FlattenPath.
Import ListNotations.
Open Scope string_scope.
Open Scope list_scope.

Theorem deep_step_with_flattened_selection :
  forall w frags vars, atomic_world w vars ->
  forall l1 l2, good (l1 ++ [id_sel]) -> good l2 -> compat (l1 ++ [id_sel]) l2 -> ~ In "id" (map key_of l2) ->
  forall fuel sh f e r sels po rt,
  pathsel l1 (e :: r) sels -> typed_path sh rt (e :: r) -> length (e :: r) <= f -> shaped w vars (e :: r) po rt ->
  exists m ps acc' acc'',
    exec (S (F fuel (length r))) w frags vars po rt sels = JObj m /\
    find_insertion_points (map pe_key (e :: r)) (flatten f sh rt sels) m [] = Ok ps /\
    join_all w frags vars l2 fuel ps (JObj m) = Ok acc' /\
    scrub_points "id" acc' ps = Ok acc'' /\
    Forall2 (holds_clean w frags vars l1 l2 fuel acc'') ps (leaves w vars (e :: r) po rt).
Proof.
  intros w frags vars Hw l1 l2 G1 G2 C N fuel sh f e r sels po rt Hp Ht Hlen Hs.
  apply (deep_step_and_scrub w frags vars Hw l1 l2 G1 G2 C N fuel e r sels (flatten f sh rt sels) po rt Hp); [|exact Hs].
  apply (flatten_holds_path sh l1 (e :: r) f rt sels Hp Ht Hlen).
Qed.

(* A step's query declares exactly the variables it uses; values travel only for declared
   variables and are the client's own. *)
From Coq Require Import String List Bool.
From GW Require Import Base.GoStr Base.Json Gql.Syntax Gw.Vars.
Import ListNotations.
Open Scope string_scope.
Open Scope list_scope.

Lemma filter_In_str n (f : string -> bool) l : In n (filter f l) <-> In n l /\ f n = true.
Proof. apply filter_In. Qed.

(* the client's operation is valid: every variable the step uses is defined by the operation *)
Theorem declared_is_used stepvars opvars used :
  (forall n, In n stepvars <-> In n used) -> (forall n, In n used -> In n opvars) ->
  forall n, In n (step_declared stepvars opvars false) <-> In n used.
Proof.
  intros Hs Hv n. unfold step_declared. cbn [andb]. rewrite filter_In. rewrite Hs. split; [tauto|].
  intros H. split; [exact H|]. apply str_mem_In. apply Hv. exact H.
Qed.

(* a follow-up fetch is wrapped in node(id: $id): it uses, and declares, id as well *)
Theorem declared_is_used_dependent stepvars opvars used :
  (forall n, In n stepvars <-> In n used) -> (forall n, In n used -> In n opvars) ->
  forall n, In n (step_declared stepvars opvars true) <-> In n used \/ n = "id".
Proof.
  intros Hs Hv n. unfold step_declared. cbn [andb].
  assert (Hown: In n (filter (fun n0 => str_mem n0 opvars) stepvars) <-> In n used).
  { rewrite filter_In, Hs. split; [tauto|]. intros H. split; [exact H|]. apply str_mem_In. apply Hv. exact H. }
  destruct (str_mem "id" (filter (fun n0 => str_mem n0 opvars) stepvars)) eqn:E; cbn [negb].
  - rewrite Hown. split; [auto|]. intros [H| ->]; [exact H|]. apply Hown. apply str_mem_In. exact E.
  - rewrite in_app_iff, Hown. cbn [In]. split; [intros [H|[<-|[]]]; auto|intros [H| ->]; auto].
Qed.

Lemma pick_In stepvars client k v : In (k, v) (pick stepvars client) -> In k stepvars /\ jget k client = Some v.
Proof.
  induction stepvars as [|n r IH]; cbn [pick]; [intros []|].
  destruct (jget n client) as [x|] eqn:E.
  - intros [[= <- <-]|H]; [split; [left; reflexivity|exact E]|]. destruct (IH H). split; [right|]; assumption.
  - intros H. destruct (IH H). split; [right|]; assumption.
Qed.

(* root steps: every value sent belongs to a variable of the step and is the client's value *)
Theorem passed_root stepvars client k v :
  In (k, v) (step_passed stepvars client None) -> In k stepvars /\ jget k client = Some v.
Proof. apply pick_In. Qed.

Lemma jget_pick stepvars client k v : jget k (pick stepvars client) = Some v -> In k stepvars /\ jget k client = Some v.
Proof.
  induction stepvars as [|n r IH]; cbn [pick]; [discriminate|].
  destruct (jget n client) as [x|] eqn:E.
  - cbn [jget]. destruct (String.eqb k n) eqn:E2.
    + apply String.eqb_eq in E2. subst n. intros [= <-]. split; [left; reflexivity|exact E].
    + intros H. destruct (IH H). split; [right|]; assumption.
  - intros H. destruct (IH H). split; [right|]; assumption.
Qed.

(* follow-up fetches: besides those, only `id`, bound to the parent object's id *)
Theorem passed_dependent stepvars client id k v :
  jget k (step_passed stepvars client (Some id)) = Some v ->
  (k = "id" /\ v = JStr id) \/ (k <> "id" /\ In k stepvars /\ jget k client = Some v).
Proof.
  unfold step_passed. destruct (String.eqb k "id") eqn:E.
  - apply String.eqb_eq in E. subst k. rewrite jget_jset_eq. intros [= <-]. left. auto.
  - apply String.eqb_neq in E. rewrite jget_jset_neq by congruence. intros H. right.
    destruct (jget_pick _ _ _ _ H). auto.
Qed.

(* After the step: the scrubber removes the join id at every point of the step.  The points
   pairwise part ways, so scrubbing one changes nothing at the others; when the client did not
   ask for id, every point is left with exactly the reference answer to l1 and l2. *)
From Coq Require Import String List Bool Arith ZArith Lia.
From GW Require Import Base.Res Base.GoStr Base.Json Gql.Syntax Gql.Spec Gw.Points
     Proofs.PointsProofs.
From GW Require Import Proofs.StitchSound Proofs.JoinSound Proofs.StepJoin.
Import ListNotations.
Open Scope string_scope.
Open Scope list_scope.

Section Scrub.
  Variable w : world.
  Variable frags : list fragdef.
  Variable vars : list (string * json).
  Hypothesis world_atomic : atomic_world w vars.
  Variable l1 l2 : list sel.
  Hypothesis good_sub : good (l1 ++ [id_sel]).
  Hypothesis plain_l2 : Forall plain l2.
  Hypothesis no_id_l2 : ~ In "id" (map key_of l2).
  Variable fuel : nat.

  Notation sub1 := (l1 ++ [id_sel]).
  Notation answer o sels := (exec (S (S fuel)) w frags vars (Some o) (b_type o) sels).

  Definition holds_clean (acc : json) (p : list string) (o : obj) : Prop :=
    extract_value p acc = Ok (answer o (l1 ++ l2)).

  Lemma scrub_succeeds p acc m : extract_value p acc = Ok (JObj m) -> exists acc', scrub_at "id" acc p = Ok acc'.
  Proof. intros He. unfold scrub_at. eapply extract_then_walk; [exact He|reflexivity]. Qed.

  Theorem step_scrub_sound : forall ps os acc done_ps done_os,
    ForallOrdPairs diverge ps ->
    Forall (fun q => Forall (fun p => diverge p q) ps) done_ps ->
    Forall2 (holds_joined w frags vars l1 l2 fuel acc) ps os ->
    Forall2 (holds_clean acc) done_ps done_os ->
    exists acc', scrub_points "id" acc ps = Ok acc' /\
                 Forall2 (holds_clean acc') ps os /\ Forall2 (holds_clean acc') done_ps done_os.
  Proof.
    induction ps as [|p r IH]; intros os acc dps dos Hd Hdone Hj Hc.
    - inversion Hj; subst. exists acc. split; [reflexivity|]. split; [constructor|exact Hc].
    - inversion Hj as [|? o ? os' Hp Hrest]; subst. inversion Hd as [|? ? Hpr Hrr]; subst.
      unfold holds_joined in Hp.
      assert (Hobj : exists m, answer o (sub1 ++ l2) = JObj m) by (rewrite exec_unfold; eexists; reflexivity).
      destruct Hobj as [m Em]. rewrite Em in Hp.
      destruct (scrub_succeeds p acc m Hp) as [acc1 Hs].
      cbn [scrub_points]. rewrite Hs. cbn [bind].
      destruct (scrub_then_extract _ _ _ _ Hs) as [m' [A B]]. rewrite Hp in A. injection A as <-.
      assert (Hp1 : holds_clean acc1 p o).
      { unfold holds_clean. rewrite B. f_equal. apply (scrubbed_join w frags vars l1 good_sub fuel o l2 plain_l2 no_id_l2 m Em). }
      assert (Hrest1 : Forall2 (holds_joined w frags vars l1 l2 fuel acc1) r os').
      { clear - Hrest Hpr Hs. induction Hrest as [|q o' qs os'' Hq Hr IHr]; [constructor|].
        inversion Hpr as [|? ? Hpq Hpr']; subst. constructor; [|exact (IHr Hpr')].
        unfold holds_joined in *. rewrite (scrub_frame _ _ _ _ q Hs Hpq). exact Hq. }
      assert (Hc1 : Forall2 (holds_clean acc1) dps dos).
      { clear - Hc Hdone Hs. induction Hc as [|q o' qs os'' Hq Hr IHr]; [constructor|].
        inversion Hdone as [|? ? Hq' Hdone']; subst. constructor; [|exact (IHr Hdone')].
        unfold holds_clean in *. inversion Hq' as [|? ? Hpq _]; subst.
        rewrite (scrub_frame _ _ _ _ q Hs Hpq). exact Hq. }
      assert (Hdone1 : Forall (fun q => Forall (fun p0 => diverge p0 q) r) (p :: dps)).
      { constructor.
        - clear - Hpr. induction Hpr as [|q qs Hq Hr IHr]; constructor; [apply diverge_sym; exact Hq|exact IHr].
        - clear - Hdone. induction Hdone as [|q qs Hq Hr IHr]; constructor; [inversion Hq; assumption|exact IHr]. }
      destruct (IH os' acc1 (p :: dps) (o :: dos) Hrr Hdone1 Hrest1 (Forall2_cons _ _ Hp1 Hc1)) as [acc' [Hrun [X Y]]].
      exists acc'. split; [exact Hrun|]. inversion Y as [|? ? ? ? Y1 Y2]; subst. split; [constructor; assumption|exact Y2].
  Qed.

  (* the statement for a whole step: after its visits and the scrubber, every point holds the
     reference answer to l1 and l2 *)
  Corollary step_scrubbed ps os acc :
    ForallOrdPairs diverge ps -> Forall2 (holds_joined w frags vars l1 l2 fuel acc) ps os ->
    exists acc', scrub_points "id" acc ps = Ok acc' /\ Forall2 (holds_clean acc') ps os.
  Proof.
    intros Hd Hj. destruct (step_scrub_sound ps os acc [] [] Hd (Forall_nil _) Hj (Forall2_nil _)) as [acc' [A [B _]]].
    exists acc'. split; assumption.
  Qed.
End Scrub.

(* Directive definitions: whether the definitions of one directive merge does not depend on the
   order in which they are met.  The argument is the one of MergeGroup, stated once for any
   merge with a compatibility test that it decides, keeps stable and that is symmetric. *)
From Coq Require Import String List Bool Arith Lia Permutation.
From GW Require Import Base.Res Base.GoStr Gql.Schema Gw.Merge Gw.MergeCheck Proofs.MergeBasics Proofs.MergeProofs
  Proofs.MergeUnion Proofs.DirEq Proofs.MergeSym Proofs.MergeTrans Proofs.MergeGroup.
Import ListNotations.
Open Scope string_scope.
Open Scope list_scope.

Section Groups.
  Context {A : Type} (merge : A -> A -> res A) (cp : A -> A -> bool) (Wf : A -> Prop).
  Hypothesis merge_cp : forall p n, Wf p -> Wf n -> is_ok (merge p n) = cp p n.
  Hypothesis merge_st : forall p n p', merge p n = Ok p' -> Wf p -> Wf n ->
    Wf p' /\ forall x, Wf x -> cp p' x = cp p x && cp n x.
  Hypothesis cp_comm : forall x y, Wf x -> Wf y -> cp x y = cp y x.

  Fixpoint mgroup (p : A) (rest : list A) : res A :=
    match rest with [] => Ok p | n :: r => p' <- merge p n ;; mgroup p' r end.

  Fixpoint gpairs (l : list A) : bool :=
    match l with [] => true | x :: r => forallb (cp x) r && gpairs r end.

  Lemma mgroup_pairs : forall ds p, Wf p -> Forall Wf ds -> is_ok (mgroup p ds) = gpairs (p :: ds).
  Proof.
    induction ds as [|n r IH]; intros p Wp Wds; cbn [mgroup gpairs forallb]; [reflexivity|].
    inversion Wds as [|? ? Wn Wr]; subst. rewrite is_ok_bind.
    pose proof (merge_cp p n Wp Wn) as Hc.
    destruct (merge p n) as [p'|e|e] eqn:Em; cbn [is_ok] in Hc.
    - destruct (merge_st p n p' Em Wp Wn) as [Wp' Hst].
      rewrite (IH p' Wp' Wr). cbn [gpairs]. rewrite <- Hc. cbn [andb].
      assert (E : forallb (cp p') r = forallb (cp p) r && forallb (cp n) r).
      { rewrite <- forallb_andb'. apply forallb_ext_in. intros x Hx. rewrite Forall_forall in Wr. exact (Hst x (Wr x Hx)). }
      rewrite E. destruct (forallb (cp p) r), (forallb (cp n) r), (gpairs r); reflexivity.
    - rewrite <- Hc. reflexivity.
    - rewrite <- Hc. reflexivity.
  Qed.

  Lemma gpairs_perm l l' : Permutation l l' -> Forall Wf l -> gpairs l = gpairs l'.
  Proof.
    induction 1 as [|x l l' Hp IH|x y l|l l' l'' Hp1 IH1 Hp2 IH2]; intros Wl; cbn [gpairs forallb]; try reflexivity.
    - inversion Wl as [|? ? Wx Wr]; subst. rewrite (forallb_perm _ _ _ Hp), (IH Wr). reflexivity.
    - inversion Wl as [|? ? Wy Wr]; subst. inversion Wr as [|? ? Wx Wr']; subst.
      rewrite (cp_comm y x Wy Wx).
      destruct (cp x y), (forallb (cp y) l), (forallb (cp x) l), (gpairs l); reflexivity.
    - rewrite (IH1 Wl). apply IH2. eapply Permutation_Forall; eassumption.
  Qed.
End Groups.

(* ---------- argument definitions, for either treatment of defaults ---------- *)
Lemma argdef_ok_trans_g ig a b c : argdef_ok ig a b = true -> argdef_ok ig b c = true -> argdef_ok ig a c = true.
Proof.
  unfold argdef_ok. intros H1 H2. apply andb_prop in H1, H2. destruct H1 as [H1 D1], H2 as [H2 D2].
  apply andb_prop in H1, H2. destruct H1 as [T1 V1], H2 as [T2 V2].
  rewrite (types_equal_trans _ _ _ T1 T2), (dirlists_equal_trans _ _ _ D1 D2). cbn [andb]. destruct ig; cbn [orb] in *; [reflexivity|].
  rewrite (values_equal_trans _ _ _ V1 V2). reflexivity.
Qed.

Lemma argdefs_ok_trans_g ig l1 l2 l3 :
  argdefs_ok ig l1 l2 = true -> argdefs_ok ig l2 l3 = true -> argdefs_ok ig l1 l3 = true.
Proof.
  unfold argdefs_ok. intros H1 H2. apply andb_prop in H1, H2. destruct H1 as [L1 M1], H2 as [L2 M2].
  apply Nat.eqb_eq in L1, L2. apply andb_true_intro. split; [apply Nat.eqb_eq; lia|].
  eapply (all_matched_trans argdef ad_name find_arg find_arg_Some); [|exact M1|exact M2].
  intros a b c _ _ _. apply argdef_ok_trans_g.
Qed.

(* ---------- locations ---------- *)
Definition locs_ok (l1 l2 : list string) : bool :=
  forallb (fun x => str_mem x (executable_locs l2)) (executable_locs l1) &&
  forallb (fun x => str_mem x (executable_locs l1)) (executable_locs l2).

Lemma merge_locations_is_ok l1 l2 : is_ok (merge_locations l1 l2) = locs_ok l1 l2.
Proof. unfold merge_locations, locs_ok. destruct (_ && _); reflexivity. Qed.

Lemma locs_ok_spec l1 l2 : locs_ok l1 l2 = true <-> (forall x, In x (executable_locs l1) <-> In x (executable_locs l2)).
Proof.
  unfold locs_ok. rewrite andb_true_iff, !forallb_forall. split.
  - intros [H1 H2] x. split; intros Hx; [apply str_mem_In, H1|apply str_mem_In, H2]; exact Hx.
  - intros H. split; intros x Hx; apply str_mem_In, H; exact Hx.
Qed.

Lemma exec_sort_union a b x : In x (executable_locs (sort_union a b)) <-> In x (executable_locs a) \/ In x (executable_locs b).
Proof. unfold executable_locs. rewrite !filter_In, In_sort_union. tauto. Qed.

(* ---------- directive definitions ---------- *)
Definition dcompat (p n : dirdef) : bool :=
  Bool.eqb (dd_repeatable p) (dd_repeatable n) && locs_ok (dd_locs p) (dd_locs n) &&
  argdefs_ok (dd_builtin p) (dd_args p) (dd_args n).

Lemma merge_dirdef_compat p n : is_ok (merge_dirdef p n) = dcompat p n.
Proof.
  unfold merge_dirdef, dcompat. destruct (Bool.eqb (dd_repeatable p) (dd_repeatable n)); cbn [negb andb]; [|reflexivity].
  rewrite is_ok_bind. rewrite <- merge_locations_is_ok.
  destruct (merge_locations (dd_locs p) (dd_locs n)); cbn [is_ok andb]; try reflexivity.
  rewrite is_ok_bind. rewrite <- merge_argdefs_is_ok.
  destruct (merge_argdefs (dd_builtin p) (dd_args p) (dd_args n)); reflexivity.
Qed.

(* the definitions of one directive: argument names distinct, one answer to "is it built in" *)
Definition DW (b : bool) (d : dirdef) : Prop := adwf (dd_args d) /\ dd_builtin d = b.

Lemma bool_eq_iff (a b : bool) : (a = true <-> b = true) -> a = b.
Proof. destruct a, b; intros [H1 H2]; try reflexivity; [symmetry; apply H1; reflexivity|apply H2; reflexivity]. Qed.

Lemma merge_dirdef_stable b p n p' : merge_dirdef p n = Ok p' -> DW b p -> DW b n ->
  DW b p' /\ forall x, DW b x -> dcompat p' x = dcompat p x && dcompat n x.
Proof.
  intros Hm [Np Bp] [Nn Bn]. unfold merge_dirdef in Hm.
  destruct (Bool.eqb (dd_repeatable p) (dd_repeatable n)) eqn:Er; cbn [negb] in Hm; [|discriminate].
  destruct (merge_locations (dd_locs p) (dd_locs n)) as [locs|e|e] eqn:El; cbn [bind] in Hm; try discriminate.
  destruct (merge_argdefs (dd_builtin p) (dd_args p) (dd_args n)) as [args|e|e] eqn:Ea; cbn [bind] in Hm; try discriminate.
  injection Hm as <-.
  pose proof (merge_argdefs_sig _ _ _ _ Ea) as Hsig.
  assert (Hl : locs_ok (dd_locs p) (dd_locs n) = true) by (rewrite <- merge_locations_is_ok, El; reflexivity).
  assert (Hlocs : locs = sort_union (dd_locs p) (dd_locs n)).
  { unfold merge_locations in El. destruct (_ && _); [injection El as <-; reflexivity|discriminate]. }
  assert (Hargs : argdefs_ok b (dd_args p) (dd_args n) = true) by (rewrite <- Bp, <- merge_argdefs_is_ok, Ea; reflexivity).
  split.
  - split; cbn [dd_args dd_builtin]; [exact (adwf_sig _ _ Hsig Np)|exact Bp].
  - intros x [Nx Bx]. unfold dcompat. cbn [dd_repeatable dd_locs dd_args dd_builtin].
    apply eqb_prop in Er. rewrite Bp, Bn, <- Er.
    rewrite (argdefs_ok_sig_l b _ _ (dd_args x) Hsig).
    assert (E1 : locs_ok locs (dd_locs x) = locs_ok (dd_locs p) (dd_locs x)).
    { apply bool_eq_iff. rewrite !locs_ok_spec. rewrite locs_ok_spec in Hl. subst locs.
      split; intros H y; rewrite <- (H y), exec_sort_union, <- (Hl y); tauto. }
    assert (E2 : locs_ok (dd_locs p) (dd_locs x) = true -> locs_ok (dd_locs n) (dd_locs x) = true).
    { rewrite !locs_ok_spec. rewrite locs_ok_spec in Hl. intros H y. rewrite <- (Hl y). apply H. }
    assert (E3 : argdefs_ok b (dd_args p) (dd_args x) = true -> argdefs_ok b (dd_args n) (dd_args x) = true).
    { intros H. eapply argdefs_ok_trans_g; [|exact H]. apply argdefs_ok_sym; assumption. }
    rewrite E1.
    destruct (Bool.eqb (dd_repeatable p) (dd_repeatable x)); cbn [andb]; [|reflexivity].
    destruct (locs_ok (dd_locs p) (dd_locs x)) eqn:Elx; cbn [andb]; [|reflexivity].
    rewrite (E2 eq_refl). cbn [andb].
    destruct (argdefs_ok b (dd_args p) (dd_args x)) eqn:Eax; cbn [andb]; [|reflexivity].
    rewrite (E3 eq_refl). reflexivity.
Qed.

Lemma locs_ok_comm a b : locs_ok a b = locs_ok b a.
Proof. unfold locs_ok. apply andb_comm. Qed.

Lemma dcompat_comm b x y : DW b x -> DW b y -> dcompat x y = dcompat y x.
Proof.
  intros [Nx Bx] [Ny By]. unfold dcompat. rewrite Bx, By, (locs_ok_comm (dd_locs x)).
  assert (E : argdefs_ok b (dd_args x) (dd_args y) = argdefs_ok b (dd_args y) (dd_args x)).
  { apply bool_eq_iff. split; apply argdefs_ok_sym; assumption. }
  rewrite E. destruct (dd_repeatable x), (dd_repeatable y); reflexivity.
Qed.

Lemma merge_dir_group_eq : forall r p, merge_dir_group p r = mgroup merge_dirdef p r.
Proof. induction r as [|n r IH]; intros p; cbn [merge_dir_group mgroup]; [reflexivity|]. destruct (merge_dirdef p n); cbn [bind]; auto. Qed.

Definition dpairs := gpairs dcompat.

Theorem dir_group_ok_pairs b ds p : DW b p -> Forall (DW b) ds -> is_ok (merge_dir_group p ds) = dpairs (p :: ds).
Proof.
  intros Wp Wds. rewrite merge_dir_group_eq.
  apply (mgroup_pairs merge_dirdef dcompat (DW b)); try assumption.
  - intros; apply merge_dirdef_compat.
  - intros p0 n p' Hm W1 W2. exact (merge_dirdef_stable b p0 n p' Hm W1 W2).
Qed.

Theorem dpairs_perm b l l' : Permutation l l' -> Forall (DW b) l -> dpairs l = dpairs l'.
Proof. apply (gpairs_perm dcompat (DW b)). intros x y. apply dcompat_comm. Qed.

(* ---------- the merged directive definition ---------- *)
Lemma gpairs_In {A} (cp : A -> A -> bool) : forall l, gpairs cp l = true ->
  forall x y, In x l -> In y l -> x = y \/ cp x y = true \/ cp y x = true.
Proof.
  induction l as [|a r IH]; intros H x y Hx Hy; [destruct Hx|].
  cbn [gpairs] in H. apply andb_prop in H. destruct H as [Ha Hr]. rewrite forallb_forall in Ha.
  destruct Hx as [<-|Hx], Hy as [<-|Hy].
  - left. reflexivity.
  - right. left. apply Ha. exact Hy.
  - right. right. apply Ha. exact Hx.
  - apply IH; assumption.
Qed.

Lemma appl_args_equal_refl l : NoDup (map fst l) -> appl_args_equal l l = true.
Proof.
  intros Hn. unfold appl_args_equal. rewrite Nat.eqb_refl. cbn [andb]. apply forallb_forall. intros [k v] Hin. cbn [fst snd].
  rewrite (find_appl_arg_nodup k v l Hn Hin). apply values_equal_eq. reflexivity.
Qed.

Lemma dirlists_equal_refl l : args_wf l -> dirlists_equal l l = true.
Proof.
  intros Hw. unfold dirlists_equal. rewrite Nat.eqb_refl. cbn [andb]. apply dirs_cmp_spec.
  pose proof (keyed_args_wf l [] Hw) as Hk. rewrite Forall_forall in Hk. apply Forall_forall. intros [key args] He.
  exists args. split; [exact He|]. apply appl_args_equal_refl. exact (Hk _ He).
Qed.

Lemma argdef_ok_refl ig a : args_wf (ad_dirs a) -> argdef_ok ig a a = true.
Proof.
  intros D. unfold argdef_ok. assert (T : types_equal (ad_type a) (ad_type a) = true) by (apply types_equal_eq; reflexivity).
  assert (V : values_equal (ad_default a) (ad_default a) = true) by (apply values_equal_eq; reflexivity).
  rewrite T, V, (dirlists_equal_refl _ D). destruct ig; reflexivity.
Qed.

Lemma argdefs_ok_refl ig l : adwf l -> argdefs_ok ig l l = true.
Proof.
  intros [Hn Hd]. unfold argdefs_ok. rewrite Nat.eqb_refl. cbn [andb]. unfold all_matched. apply forallb_forall. intros a Ha.
  rewrite (find_arg_In_nodup _ _ Hn Ha). apply argdef_ok_refl. rewrite Forall_forall in Hd. exact (Hd a Ha).
Qed.

(* what one merged definition is: the name, repeatability and argument signatures of the first,
   the locations of all *)
Lemma dir_group_result b : forall ds p out,
  merge_dir_group p ds = Ok out -> DW b p -> Forall (DW b) ds ->
  dd_name out = dd_name p /\ dd_repeatable out = dd_repeatable p /\ map asig (dd_args out) = map asig (dd_args p) /\
  (forall x, In x (dd_locs out) <-> In x (dd_locs p) \/ exists d, In d ds /\ In x (dd_locs d)).
Proof.
  induction ds as [|n r IH]; intros p out H Wp Wds.
  - cbn [merge_dir_group] in H. injection H as <-. repeat split; try reflexivity; [intros Hx; left; exact Hx|].
    intros [Hx|[d [[] _]]]. exact Hx.
  - cbn [merge_dir_group] in H. destruct (merge_dirdef p n) as [p'|e|e] eqn:E; cbn [bind] in H; try discriminate.
    inversion Wds as [|? ? Wn Wr]; subst.
    destruct (merge_dirdef_stable b p n p' E Wp Wn) as [Wp' _].
    destruct (IH p' out H Wp' Wr) as (A & B & C & D).
    unfold merge_dirdef in E. destruct (negb _) in E; [discriminate|].
    destruct (merge_locations (dd_locs p) (dd_locs n)) as [locs|e|e] eqn:El; cbn [bind] in E; try discriminate.
    destruct (merge_argdefs (dd_builtin p) (dd_args p) (dd_args n)) as [args|e|e] eqn:Ea; cbn [bind] in E; try discriminate.
    injection E as <-. cbn [dd_name dd_repeatable dd_args dd_locs] in *.
    assert (Hlocs : locs = sort_union (dd_locs p) (dd_locs n)).
    { unfold merge_locations in El. destruct (_ && _); [injection El as <-; reflexivity|discriminate]. }
    split; [exact A|]. split; [exact B|]. split; [rewrite C; exact (merge_argdefs_sig _ _ _ _ Ea)|].
    intros x. rewrite D, Hlocs, In_sort_union. split.
    + intros [[Hp|Hn]|[d [Hd Hx]]]; [left; exact Hp|right; exists n; split; [left; reflexivity|exact Hn]|right; exists d; split; [right; exact Hd|exact Hx]].
    + intros [Hp|[d [[<-|Hd] Hx]]]; [left; left; exact Hp|left; right; exact Hx|right; exists d; split; assumption].
Qed.

(* two orderings of the definitions of one directive give the same directive: repeatability,
   locations (as a set), arguments (names, types; defaults unless the directive is built in) *)
Theorem dir_group_result_order_independent b d ds d' ds' o1 o2 :
  merge_dir_group d ds = Ok o1 -> merge_dir_group d' ds' = Ok o2 ->
  Permutation (d :: ds) (d' :: ds') -> Forall (DW b) (d :: ds) ->
  dd_name o1 = dd_name d /\ dd_name o2 = dd_name d' /\
  dd_repeatable o1 = dd_repeatable o2 /\ (forall x, In x (dd_locs o1) <-> In x (dd_locs o2)) /\
  argdefs_ok b (dd_args o1) (dd_args o2) = true.
Proof.
  intros H1 H2 Hp Hw. assert (Hw' : Forall (DW b) (d' :: ds')) by (eapply Permutation_Forall; eassumption).
  inversion Hw as [|? ? Wd Wds]; subst. inversion Hw' as [|? ? Wd' Wds']; subst.
  destruct (dir_group_result b ds d o1 H1 Wd Wds) as (A1 & B1 & C1 & D1).
  destruct (dir_group_result b ds' d' o2 H2 Wd' Wds') as (A2 & B2 & C2 & D2).
  assert (Hpairs : dpairs (d :: ds) = true).
  { rewrite <- (dir_group_ok_pairs b ds d Wd Wds), H1. reflexivity. }
  assert (Hd' : In d' (d :: ds)) by (eapply Permutation_in; [apply Permutation_sym; exact Hp|left; reflexivity]).
  assert (Hc : d = d' \/ dcompat d d' = true).
  { destruct (gpairs_In dcompat _ Hpairs d d' (or_introl eq_refl) Hd') as [E|[E|E]]; [left; exact E|right; exact E|right].
    rewrite (dcompat_comm b d d' Wd Wd'). exact E. }
  split; [exact A1|]. split; [exact A2|].
  assert (Hmem : forall x, In x (d :: ds) <-> In x (d' :: ds')).
  { intros x. split; apply Permutation_in; [exact Hp|apply Permutation_sym; exact Hp]. }
  assert (Hall : forall l p0 r0, (forall x : string, In x l <-> In x (dd_locs p0) \/ (exists e, In e r0 /\ In x (dd_locs e))) ->
                 forall x, In x l <-> exists e, In e (p0 :: r0) /\ In x (dd_locs e)).
  { intros l p0 r0 Hl x. rewrite Hl. split.
    - intros [Hx|[e [He Hx]]]; [exists p0; split; [left; reflexivity|exact Hx]|exists e; split; [right; exact He|exact Hx]].
    - intros [e [[<-|He] Hx]]; [left; exact Hx|right; exists e; split; assumption]. }
  split; [|split].
  - rewrite B1, B2. destruct Hc as [<-|Hc]; [reflexivity|]. unfold dcompat in Hc.
    apply andb_prop in Hc. destruct Hc as [Hc _]. apply andb_prop in Hc. destruct Hc as [Hc _]. apply eqb_prop. exact Hc.
  - intros x. rewrite (Hall _ _ _ D1 x), (Hall _ _ _ D2 x). split; intros [e [He Hx]]; exists e; (split; [apply Hmem; exact He|exact Hx]).
  - rewrite (argdefs_ok_sig_l b _ _ _ C1), (argdefs_ok_sig_r b _ _ _ C2).
    destruct Hc as [<-|Hc]; [apply argdefs_ok_refl; apply Wd|].
    unfold dcompat in Hc. apply andb_prop in Hc. destruct Hc as [_ Hc]. destruct Wd as [_ Bd]. rewrite Bd in Hc. exact Hc.
Qed.

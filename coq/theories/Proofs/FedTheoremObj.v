(* The whole-path model equals the reference on the canonical join below a root field that
   answers one object; the list case is Proofs/FedTheorem.v. *)
From Coq Require Import String List Bool Arith ZArith Lia.
From GW Require Import Base.Res Base.GoStr Base.Json Gql.Syntax Gql.Spec Gw.Locate Gw.Plan Gw.Points Gw.Scrub Gw.Fed
     Proofs.CodecProofs Proofs.StitchSound Proofs.JoinSound Proofs.FedCanonical Proofs.PlanCanonical Proofs.FedTheorem Proofs.FedCanonicalObj.
Import ListNotations.
Open Scope string_scope.
Open Scope list_scope.

Section WholeObj.
  (* the federation *)
  Variable prios : list string.
  Variable urls : urlmap.
  Variable ft : ftypes.
  Variable sh : fshape.
  (* the data *)
  Variable w : world.
  Variable vars : list (string * json).
  Hypothesis world_atomic : atomic_world w vars.
  (* the query: rootT { ka: kn(args) { l1 l2 } } *)
  Variable rootT T t : string.
  Variable ka kn : string.
  Variable args : list (string * value).
  Variable l1 l2 : list sel.
  Variable nn : bool.
  Variable locA locB : string.
  Variable o : obj.
  Variable client : list ksel.
  Variable target : list ksel.
  Variable n : nat.

  Hypothesis ka_ne : ka <> "".
  Hypothesis ka_clean : clean_key ka.
  (* routing: the root field goes to A from the gateway and stays there; below it l1 stays at A, l2 goes to B and stays *)
  Hypothesis locA_ne : locA <> "".
  Hypothesis locAB : locA <> locB.
  Hypothesis root_from_gateway : choose prios urls rootT kn "" = Ok locA.
  Hypothesis root_stays : choose prios urls rootT kn locA = Ok locA.
  Hypothesis root_type : assoc (url_key rootT kn) ft = Some T.
  Hypothesis l1_at_A : Forall (at_loc prios urls T locA locA) l1.
  Hypothesis l2_to_B : Forall (at_loc prios urls T locA locB) l2.
  Hypothesis l2_stays : Forall (at_loc prios urls T locB locB) l2.
  Hypothesis l2_ne : l2 <> [].
  (* the schema: the root field is a list *)
  Hypothesis k_shape : shape_of (rootT ++ "." ++ kn) sh = Some (t, (false, nn)).
  (* the selections: collected form, agreeing on common keys, the client does not ask for id, l2 does not pass $id *)
  Hypothesis good_sub : good (l1 ++ [id_sel]).
  Hypothesis good_l2 : good l2.
  Hypothesis compat_12 : compat (l1 ++ [id_sel]) l2.
  Hypothesis no_id_l2 : ~ In "id" (map key_of l2).
  Hypothesis no_id_var_l2 : no_id_var l2.
  Hypothesis client_at_k : descend [ka] client = Ok target.
  Hypothesis client_no_id : natural_id target = false.
  (* the data: one object, named by its id, of the step's parent type, with scalar l2 fields *)
  Hypothesis k_value : resolve w vars None rootT (to_c (Field ka kn args [] (l1 ++ [id_sel]))) = FRef (b_id o).
  Hypothesis o_named : find_obj (b_id o) (w_objs w) = Some o.
  Hypothesis o_typed : type_matches w T (b_type o) = true.
  Hypothesis o_flat : flat_at w vars o l2.

  Notation fuel := (S (S (S n))).
  Notation query := [Field ka kn args [] (l1 ++ l2)].

  Lemma scrub_fields_canonical_obj :
    scrub_fields fuel client
      (PStep "" rootT [] [id_field] [PStep locA rootT [] [Field ka kn args [] (l1 ++ [id_field])] [PStep locB T [ka] l2 []]]) = Ok [[ka]].
  Proof.
    unfold scrub_fields. cbn [scrub_walk]. change (descend [] client) with (Ok client). cbn [bind].
    rewrite client_at_k. cbn [bind]. rewrite client_no_id.
    cbn [negb andb app bind]. rewrite andb_false_r. cbn [app dedupe contains_path existsb]. reflexivity.
  Qed.

  (* The gateway, as modelled end to end, answers the canonical join with the reference answer. *)
  Theorem gateway_answers_canonical_join_obj :
    gateway_answer fuel prios urls ft sh w vars rootT query client = Ok (exec fuel w [] vars None rootT query).
  Proof.
    unfold gateway_answer.
    pose proof (canonical_plan_is_planned prios urls ft rootT T locA locB ka kn args l1 l2 locA_ne locAB
               root_from_gateway root_stays root_type l1_at_A l2_to_B l2_stays l2_ne n) as Hp.
    unfold root_field in Hp. rewrite Hp. clear Hp. cbn [bind].
    assert (Hk : rkey ka kn = ka) by (apply rkey_alias; exact ka_ne).
    assert (k_clean : clean_key (rkey ka kn)) by (rewrite Hk; exact ka_clean).
    assert (k_ne : rkey ka kn <> "") by (rewrite Hk; exact ka_ne).
    pose proof (canonical_join_end_to_end_obj w vars world_atomic sh n ka kn k_clean k_ne args l1 l2 good_sub good_l2 compat_12
                  no_id_l2 no_id_var_l2 rootT T t nn k_shape o k_value o_named o_typed o_flat locA locB [id_field]) as H.
    unfold canonical_plan_obj in H. rewrite Hk in H.
    destruct (run_plan w vars sh fuel rootT _) as [data|e|e] eqn:Er; cbn [bind] in H |- *; try discriminate.
    rewrite scrub_fields_canonical_obj. cbn [bind]. exact H.
  Qed.
End WholeObj.

(* the premises can all be met: { me { name photo } } with name at service A and photo at B *)
Example canonical_example_obj :
  let u1 := {| b_id := "u:1#x"; b_type := "User"; b_fields := [("name", FScalar (JStr "ann")); ("photo", FScalar (JStr "a.png"))] |} in
  let w := {| w_objs := [u1]; w_roots := [("Query.me", FRef "u:1#x")]; w_possible := []; w_ftypes := [] |} in
  let urls : urlmap := [("Query.me", ["A"]); ("User.name", ["A"]); ("User.photo", ["B"]); ("User.id", ["A"; "B"])] in
  let ft : ftypes := [("Query.me", "User")] in
  let sh : fshape := [("Query.me", ("User", (false, false)))] in
  let l1 := [Field "name" "name" [] [] []] in
  let l2 := [Field "photo" "photo" [] [] []] in
  let query := [Field "me" "me" [] [] (l1 ++ l2)] in
  let client := [KS "me" "me" [KS "name" "name" []; KS "photo" "photo" []]] in
  gateway_answer 4 [] urls ft sh w [] "Query" query client = Ok (exec 4 w [] [] None "Query" query) /\
  exec 4 w [] [] None "Query" query = JObj [("me", JObj [("name", JStr "ann"); ("photo", JStr "a.png")])].
Proof.
  cbv zeta. split; [|vm_compute; reflexivity].
  eapply gateway_answers_canonical_join_obj with (T := "User") (t := "User") (nn := false) (locA := "A") (locB := "B")
    (o := {| b_id := "u:1#x"; b_type := "User"; b_fields := [("name", FScalar (JStr "ann")); ("photo", FScalar (JStr "a.png"))] |})
    (target := [KS "name" "name" []; KS "photo" "photo" []]).
  - apply atomic_world_intro; cbn; repeat constructor.
  - discriminate.
  - split; reflexivity.
  - discriminate.
  - discriminate.
  - reflexivity.
  - reflexivity.
  - reflexivity.
  - repeat constructor.
  - repeat constructor.
  - repeat constructor.
  - discriminate.
  - reflexivity.
  - constructor; [repeat constructor| |repeat constructor]. cbn. repeat constructor; cbn; intuition discriminate.
  - constructor; [repeat constructor| |repeat constructor]. cbn. repeat constructor; cbn; intuition discriminate.
  - constructor. intros s1 s2 H1 H2 Hk. cbn in H1, H2. destruct H1 as [<-|[<-|[]]]; destruct H2 as [<-|[]]; discriminate Hk.
  - cbn. intuition discriminate.
  - repeat constructor; cbn; discriminate.
  - reflexivity.
  - reflexivity.
  - reflexivity.
  - reflexivity.
  - reflexivity.
  - repeat constructor.
Qed.

(* The reference answer to any selection is an object whose keys are pairwise different
   (CollectFields merges repeated response keys), so stitching it into an empty response gives
   it back unchanged. *)
From Coq Require Import String List Bool Arith Lia.
From GW Require Import Base.Res Base.GoStr Base.Json Gql.Syntax Gql.Spec Gw.Points Proofs.StitchSound.
Import ListNotations.
Open Scope string_scope.
Open Scope list_scope.

Section Keys.
  Variable w : world.
  Variable frags : list fragdef.
  Variable vars : list (string * json).
  Variable rt : string.

  Lemma collect_nil f visited acc : collect (S f) w frags vars rt visited [] acc = (acc, visited).
  Proof. reflexivity. Qed.

  Lemma collect_field f visited alias name args dirs sub rest acc :
    collect (S f) w frags vars rt visited (Field alias name args dirs sub :: rest) acc =
    if skipped vars dirs then collect (S f) w frags vars rt visited rest acc
    else collect (S f) w frags vars rt visited rest (add_collected (rkey alias name) name args sub acc).
  Proof. reflexivity. Qed.

  Lemma collect_inline f visited tcond dirs sub rest acc :
    collect (S f) w frags vars rt visited (Inline tcond dirs sub :: rest) acc =
    if skipped vars dirs || negb (type_matches w tcond rt) then collect (S f) w frags vars rt visited rest acc
    else let '(acc', visited') := collect f w frags vars rt visited sub acc in collect (S f) w frags vars rt visited' rest acc'.
  Proof. reflexivity. Qed.

  Lemma collect_spread f visited name dirs rest acc :
    collect (S f) w frags vars rt visited (Spread name dirs :: rest) acc =
    if skipped vars dirs || str_mem name visited then collect (S f) w frags vars rt visited rest acc
    else match frag_for name frags with
         | None => collect (S f) w frags vars rt (name :: visited) rest acc
         | Some fd =>
             if negb (type_matches w (f_tcond fd) rt) then collect (S f) w frags vars rt (name :: visited) rest acc
             else let '(acc', visited') := collect f w frags vars rt (name :: visited) (f_sel fd) acc in
                  collect (S f) w frags vars rt visited' rest acc'
         end.
  Proof. reflexivity. Qed.

  Lemma nodup_snoc {A} (l : list A) x : NoDup l -> ~ In x l -> NoDup (l ++ [x]).
  Proof.
    induction l as [|y r IH]; intros Hn Hx; cbn [app]; [constructor; [intros []|constructor]|].
    inversion Hn as [|? ? Hy Hr]; subst. constructor.
    - intros Hin. apply in_app_or in Hin. destruct Hin as [Hin|[<-|[]]]; [exact (Hy Hin)|apply Hx; left; reflexivity].
    - apply IH; [exact Hr|]. intros H. apply Hx. right. exact H.
  Qed.

  Lemma add_collected_nodup k nm args sub : forall acc,
    NoDup (map c_key acc) -> NoDup (map c_key (add_collected k nm args sub acc)) /\
                             (forall x, In x (map c_key (add_collected k nm args sub acc)) <-> x = k \/ In x (map c_key acc)).
  Proof.
    induction acc as [|c r IH]; intros Hn; cbn [add_collected map].
    - split; [constructor; [intros []|constructor]|]. intros x. cbn [In]. split; [intros [<-|[]]; left; reflexivity|intros [->|[]]; left; reflexivity].
    - cbn [map] in Hn. inversion Hn as [|? ? Hc Hr]; subst.
      destruct (String.eqb (c_key c) k) eqn:E.
      + apply String.eqb_eq in E. cbn [map c_key]. split.
        * constructor; [rewrite <- E; exact Hc|exact Hr].
        * intros x. cbn [In]. rewrite E. split; [intros [<-|H]; [left; reflexivity|right; right; exact H]|intros [->|[<-|H]]; [left; reflexivity|left; reflexivity|right; exact H]].
      + apply String.eqb_neq in E. destruct (IH Hr) as [N I]. cbn [map]. split.
        * constructor; [|exact N]. intros Hin. apply I in Hin. destruct Hin as [Hk|Hin]; [congruence|exact (Hc Hin)].
        * intros x. cbn [In]. rewrite I. tauto.
  Qed.

  (* CollectFields never holds a response key twice *)
  Lemma collect_nodup : forall f visited sels acc,
    NoDup (map c_key acc) -> NoDup (map c_key (fst (collect f w frags vars rt visited sels acc))).
  Proof.
    induction f as [|f IHf]; intros visited sels acc Hn; [exact Hn|].
    revert visited acc Hn. induction sels as [|s rest IH]; intros visited acc Hn; [exact Hn|].
    destruct s as [alias name args dirs sub|tcond dirs sub|nm dirs].
    - rewrite collect_field. destruct (skipped vars dirs); [apply IH; exact Hn|].
      apply IH. apply add_collected_nodup. exact Hn.
    - rewrite collect_inline. destruct (skipped vars dirs || negb (type_matches w tcond rt)); [apply IH; exact Hn|].
      pose proof (IHf visited sub acc Hn) as H1.
      destruct (collect f w frags vars rt visited sub acc) as [acc' visited']. cbn [fst] in H1. apply IH. exact H1.
    - rewrite collect_spread. destruct (skipped vars dirs || str_mem nm visited); [apply IH; exact Hn|].
      destruct (frag_for nm frags) as [fd|]; [|apply IH; exact Hn].
      destruct (negb (type_matches w (f_tcond fd) rt)); [apply IH; exact Hn|].
      pose proof (IHf (nm :: visited) (f_sel fd) acc Hn) as H1.
      destruct (collect f w frags vars rt (nm :: visited) (f_sel fd) acc) as [acc' visited']. cbn [fst] in H1. apply IH. exact H1.
  Qed.
End Keys.

(* stitching an object with pairwise different keys into the empty response gives it back *)
Lemma merge_obj_fresh : forall src tgt,
  NoDup (map fst src) -> (forall k, In k (map fst src) -> ~ In k (map fst tgt)) ->
  merge_obj tgt src = tgt ++ src.
Proof.
  induction src as [|[k v] r IH]; intros tgt Hn Hd; cbn [merge_obj]; [rewrite app_nil_r; reflexivity|].
  cbn [map fst] in Hn. inversion Hn as [|? ? Hk Hr]; subst.
  assert (Hg : jget k tgt = None).
  { assert (Hnk : ~ In k (map fst tgt)) by (apply Hd; left; reflexivity).
    clear - Hnk. induction tgt as [|[k' v'] t IHt]; cbn [jget]; [reflexivity|].
    cbn [map fst In] in Hnk. destruct (String.eqb k k') eqn:E; [apply String.eqb_eq in E; exfalso; apply Hnk; left; symmetry; exact E|].
    apply IHt. intros H. apply Hnk. right. exact H. }
  rewrite Hg.
  assert (Hv : merge_value None v = v) by (destruct v; reflexivity).
  rewrite Hv.
  assert (Hs : jset k v tgt = tgt ++ [(k, v)]).
  { assert (Hnk : ~ In k (map fst tgt)) by (apply Hd; left; reflexivity).
    clear - Hnk. induction tgt as [|[k' v'] t IHt]; cbn [jset app]; [reflexivity|].
    cbn [map fst In] in Hnk. destruct (String.eqb k k') eqn:E; [apply String.eqb_eq in E; exfalso; apply Hnk; left; symmetry; exact E|].
    f_equal. apply IHt. intros H. apply Hnk. right. exact H. }
  rewrite Hs. rewrite IH; [rewrite <- app_assoc; reflexivity|exact Hr|].
  intros k' Hin Hin'. rewrite map_app in Hin'. apply in_app_or in Hin'. destruct Hin' as [Hin'|[<-|[]]].
  - apply (Hd k'); [right; exact Hin|exact Hin'].
  - exact (Hk Hin).
Qed.

Theorem insert_answer_into_empty fuel w frags vars o rt sels :
  insert_object (JObj []) [] (exec (S fuel) w frags vars o rt sels) = Ok (exec (S fuel) w frags vars o rt sels).
Proof.
  rewrite exec_unfold. cbn [insert_object]. f_equal. f_equal.
  rewrite merge_obj_fresh; [reflexivity| |intros k _ []].
  rewrite map_map. cbn [fst]. apply collect_nodup. constructor.
Qed.

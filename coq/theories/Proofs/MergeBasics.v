(* Basic facts used by the merge proofs: boolean NoDup, set equality on name lists, res_map. *)
From Coq Require Import String Ascii List Bool Arith Lia.
From GW Require Import Base.Res Base.GoStr Gql.Schema Gw.Merge Gw.MergeCheck.
Import ListNotations.
Open Scope string_scope.
Open Scope list_scope.

Fixpoint nodupb (l : list string) : bool :=
  match l with [] => true | x :: r => negb (str_mem x r) && nodupb r end.

Lemma nodupb_NoDup l : nodupb l = true <-> NoDup l.
Proof.
  induction l as [|x r IH]; simpl; [split; [constructor|auto]|].
  rewrite andb_true_iff, negb_true_iff, IH. split.
  - intros [H1 H2]. constructor; auto. intros Hin. apply str_mem_In in Hin. congruence.
  - intros H. inversion H; subst. split; auto.
    destruct (str_mem x r) eqn:E; auto. apply str_mem_In in E. contradiction.
Qed.

Lemma subset_incl a b : subset a b = true <-> incl a b.
Proof.
  unfold subset, incl. rewrite forallb_forall. split; intros H x Hx.
  - apply str_mem_In. auto.
  - apply str_mem_In. auto.
Qed.

Lemma set_eqb_spec a b : set_eqb a b = true <-> (incl a b /\ incl b a).
Proof. unfold set_eqb. rewrite andb_true_iff, !subset_incl. tauto. Qed.

Lemma set_eqb_refl a : set_eqb a a = true.
Proof. apply set_eqb_spec. split; apply incl_refl. Qed.

Lemma set_eqb_sym a b : set_eqb a b = set_eqb b a.
Proof. unfold set_eqb. apply andb_comm. Qed.

Lemma set_eqb_trans a b c : set_eqb a b = true -> set_eqb b c = true -> set_eqb a c = true.
Proof.
  rewrite !set_eqb_spec. intros [H1 H2] [H3 H4]. split; eapply incl_tran; eauto.
Qed.

(* same length + no duplicates + inclusion one way = same set *)
Lemma nodup_same_length_incl (a b : list string) :
  NoDup a -> length a = length b -> incl a b -> incl b a.
Proof. intros Hn Hl Hi. apply NoDup_length_incl; auto. lia. Qed.

Lemma res_map_ok {A B} (f : A -> res B) l :
  is_ok (res_map f l) = forallb (fun x => is_ok (f x)) l.
Proof.
  induction l as [|x r IH]; simpl; auto.
  destruct (f x); simpl; auto.
  destruct (res_map f r); simpl in *; auto.
Qed.

Lemma res_map_ok_elems {A B} (f : A -> res B) l out :
  res_map f l = Ok out -> Forall2 (fun x y => f x = Ok y) l out.
Proof.
  revert out; induction l as [|x r IH]; simpl; intros out H.
  - injection H as <-. constructor.
  - destruct (f x) eqn:E; simpl in H; try discriminate.
    destruct (res_map f r) eqn:E2; simpl in H; try discriminate.
    injection H as <-. constructor; auto.
Qed.

Lemma res_map_no_panic {A B} (f : A -> res B) l :
  (forall x, In x l -> is_panic (f x) = false) -> is_panic (res_map f l) = false.
Proof.
  induction l as [|x r IH]; simpl; intros H; auto.
  pose proof (H x (or_introl eq_refl)) as Hx. destruct (f x); simpl in *; auto; try discriminate.
  assert (Hr: is_panic (res_map f r) = false) by (apply IH; intros; apply H; auto).
  destruct (res_map f r); simpl in *; auto.
Qed.

Lemma ty_eqb_eq a : forall b, ty_eqb a b = true <-> a = b.
Proof.
  induction a as [n nn|e IH nn]; intros [m mm|e' mm]; simpl; try (split; discriminate).
  - rewrite andb_true_iff, String.eqb_eq, Bool.eqb_true_iff. split; [intros [-> ->]; auto|intros [= -> ->]; auto].
  - rewrite andb_true_iff, IH, Bool.eqb_true_iff. split; [intros [-> ->]; auto|intros [= -> ->]; auto].
Qed.

Lemma gval_eqb_eq a b : gval_eqb a b = true <-> a = b.
Proof.
  destruct a as [k s], b as [k' s']. unfold gval_eqb; simpl.
  rewrite andb_true_iff, Nat.eqb_eq, String.eqb_eq. split; [intros [-> ->]; auto|intros [= -> ->]; auto].
Qed.

Lemma opt_eqb_eq {A} (e : A -> A -> bool) (He : forall x y, e x y = true <-> x = y) a b :
  opt_eqb e a b = true <-> a = b.
Proof.
  destruct a, b; simpl; try (split; discriminate); try tauto.
  rewrite He. split; congruence.
Qed.

Lemma types_equal_eq a b : types_equal a b = true <-> a = b.
Proof. destruct a, b; simpl; try (split; discriminate); try tauto. rewrite ty_eqb_eq. split; congruence. Qed.

Lemma values_equal_eq a b : values_equal a b = true <-> a = b.
Proof. destruct a, b; simpl; try (split; discriminate); try tauto. rewrite gval_eqb_eq. split; congruence. Qed.

Lemma find_arg_Some n l a : find_arg n l = Some a -> In a l /\ ad_name a = n.
Proof.
  induction l as [|x r IH]; simpl; [discriminate|].
  destruct (String.eqb (ad_name x) n) eqn:E.
  - intros [= <-]. apply String.eqb_eq in E. auto.
  - intros H. destruct (IH H). auto.
Qed.

Lemma find_arg_None n l : find_arg n l = None <-> ~ In n (map ad_name l).
Proof.
  induction l as [|x r IH]; simpl; [tauto|].
  destruct (String.eqb (ad_name x) n) eqn:E.
  - apply String.eqb_eq in E. split; [discriminate|]. intros H; exfalso; apply H; auto.
  - rewrite IH. apply String.eqb_neq in E. tauto.
Qed.

Lemma find_arg_In_nodup l a : NoDup (map ad_name l) -> In a l -> find_arg (ad_name a) l = Some a.
Proof.
  induction l as [|x r IH]; simpl; [tauto|]. intros Hn [->|Hin].
  - rewrite String.eqb_refl. reflexivity.
  - inversion Hn; subst. destruct (String.eqb (ad_name x) (ad_name a)) eqn:E.
    + apply String.eqb_eq in E. exfalso. apply H1. rewrite E. apply in_map. exact Hin.
    + apply IH; auto.
Qed.

Lemma find_field_Some n l a : find_field n l = Some a -> In a l /\ fd_name a = n.
Proof.
  induction l as [|x r IH]; simpl; [discriminate|].
  destruct (String.eqb (fd_name x) n) eqn:E.
  - intros [= <-]. apply String.eqb_eq in E. auto.
  - intros H. destruct (IH H). auto.
Qed.

Lemma find_field_None n l : find_field n l = None <-> ~ In n (map fd_name l).
Proof.
  induction l as [|x r IH]; simpl; [tauto|].
  destruct (String.eqb (fd_name x) n) eqn:E.
  - apply String.eqb_eq in E. split; [discriminate|]. intros H; exfalso; apply H; auto.
  - rewrite IH. apply String.eqb_neq in E. tauto.
Qed.

Lemma find_field_In_nodup l a : NoDup (map fd_name l) -> In a l -> find_field (fd_name a) l = Some a.
Proof.
  induction l as [|x r IH]; simpl; [tauto|]. intros Hn [->|Hin].
  - rewrite String.eqb_refl. reflexivity.
  - inversion Hn; subst. destruct (String.eqb (fd_name x) (fd_name a)) eqn:E.
    + apply String.eqb_eq in E. exfalso. apply H1. rewrite E. apply in_map. exact Hin.
    + apply IH; auto.
Qed.

Lemma find_enum_None n l : find_enum n l = None <-> ~ In n (map ev_name l).
Proof.
  induction l as [|x r IH]; simpl; [tauto|].
  destruct (String.eqb (ev_name x) n) eqn:E.
  - apply String.eqb_eq in E. split; [discriminate|]. intros H; exfalso; apply H; auto.
  - rewrite IH. apply String.eqb_neq in E. tauto.
Qed.

Lemma Forall2_In_l {A B} (R : A -> B -> Prop) l l' x :
  Forall2 R l l' -> In x l -> exists y, In y l' /\ R x y.
Proof.
  intros H. induction H as [|a b l l' Hab Hr IH]; intros Hx; [contradiction|].
  destruct Hx as [<-|Hx]; [exists b; split; [left; reflexivity|exact Hab]|].
  destruct (IH Hx) as [y [Hy Hr']]. exists y. split; [right; exact Hy|exact Hr'].
Qed.

Lemma Forall2_In_r {A B} (R : A -> B -> Prop) l l' y :
  Forall2 R l l' -> In y l' -> exists x, In x l /\ R x y.
Proof.
  intros H. induction H as [|a b l l' Hab Hr IH]; intros Hy; [contradiction|].
  destruct Hy as [<-|Hy]; [exists a; split; [left; reflexivity|exact Hab]|].
  destruct (IH Hy) as [x [Hx Hr']]. exists x. split; [right; exact Hx|exact Hr'].
Qed.
Arguments Forall2_In_l {A B R l l' x} _ _.
Arguments Forall2_In_r {A B R l l' y} _ _.

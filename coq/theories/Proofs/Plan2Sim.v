(* On documents without named fragment spreads the full planner model (Gw/Plan2.v) is the simpler
   one (Gw/Plan.v): the theorems proved about Gw/Plan.v (confinement of every step, conservation of
   the client's fields, one group per location) are theorems about the plans of Gw/Plan2.v there. *)
From Coq Require Import String List Bool Arith.
From GW Require Import Base.Res Base.GoStr Gql.Syntax Gw.Locate Gw.Plan Gw.Plan2.
Import ListNotations.
Open Scope string_scope.
Open Scope list_scope.

Lemma bind_ok_inv {A B} (r : res A) (f : A -> res B) y : bind r f = Ok y -> exists x, r = Ok x /\ f x = Ok y.
Proof. destruct r; simpl; intros H; try discriminate. eauto. Qed.

(* no named fragment spread anywhere in the selection *)
Fixpoint nospread (s : sel) : Prop :=
  match s with
  | Field _ _ _ _ sub => (fix all (l : list sel) : Prop := match l with [] => True | x :: r => nospread x /\ all r end) sub
  | Inline _ _ sub => (fix all (l : list sel) : Prop := match l with [] => True | x :: r => nospread x /\ all r end) sub
  | Spread _ _ => False
  end.
Fixpoint nospreads (l : list sel) : Prop := match l with [] => True | x :: r => nospread x /\ nospreads r end.

Lemma nospread_field a n args d sub : nospread (Field a n args d sub) <-> nospreads sub.
Proof. cbn [nospread]. induction sub as [|x r IH]; cbn [nospreads]; tauto. Qed.
Lemma nospread_inline t d sub : nospread (Inline t d sub) <-> nospreads sub.
Proof. cbn [nospread]. induction sub as [|x r IH]; cbn [nospreads]; tauto. Qed.
Lemma nospreads_app a b : nospreads (a ++ b) <-> nospreads a /\ nospreads b.
Proof. induction a as [|x r IH]; cbn [app nospreads]; tauto. Qed.
Lemma nospreads_forall l : nospreads l <-> Forall nospread l.
Proof.
  induction l as [|x r IH]; cbn [nospreads]; split; intros H.
  - constructor.
  - exact I.
  - destruct H as [Hx Hr]. constructor; [exact Hx|apply IH; exact Hr].
  - inversion H; subst. split; [assumption|apply IH; assumption].
Qed.

Definition groups_nospread (m : list (string * list sel)) : Prop := Forall (fun lp => nospreads (snd lp)) m.

Lemma add_at_nospread l s m : groups_nospread m -> nospread s -> groups_nospread (add_at l s m).
Proof.
  unfold groups_nospread. induction m as [|[l' ss] r IH]; intros Hm Hs; cbn [add_at].
  - constructor; [cbn; tauto|constructor].
  - inversion Hm as [|? ? Hh Ht]; subst. destruct (String.eqb l l').
    + constructor; [cbn [snd] in *; apply nospreads_app; cbn; tauto|exact Ht].
    + constructor; [exact Hh|apply IH; assumption].
Qed.

Section Sim.
  Variables (prios : list string) (urls : urlmap) (ft : ftypes).

  Lemma split_nospread tc ploc : forall sub m parts,
    nospreads sub -> groups_nospread m -> split_inline prios urls tc ploc sub m = Ok parts -> groups_nospread parts.
  Proof.
    induction sub as [|x r IH]; intros m parts Hs Hm H; cbn [split_inline] in H.
    - injection H as <-. exact Hm.
    - cbn [nospreads] in Hs. destruct Hs as [Hx Hr]. destruct x as [alias name args dirs sub'|tcond dirs sub'|name dirs].
      + apply bind_ok_inv in H. destruct H as [l [_ H]]. eapply IH; [exact Hr| |exact H]. apply add_at_nospread; assumption.
      + eapply IH; [exact Hr| |exact H]. apply add_at_nospread; assumption.
      + destruct Hx.
  Qed.

  (* grouping: the same groups, and no per-location definitions *)
  Lemma group2_is_group : forall sels ptype ploc acc r,
    nospreads sels -> group2 prios urls [] [] ptype ploc sels acc [] = Ok r ->
    group prios urls ptype ploc sels acc = Ok (fst r) /\ snd r = [].
  Proof.
    induction sels as [|s rest IH]; intros ptype ploc acc r Hs H; cbn [group2] in H; cbn [group].
    - injection H as <-. auto.
    - cbn [nospreads] in Hs. destruct Hs as [Hx Hr]. destruct s as [alias name args dirs sub|tcond dirs sub|name dirs]; [| |destruct Hx].
      + apply bind_ok_inv in H. destruct H as [l [Hl H]]. rewrite Hl. cbn [bind]. apply IH; assumption.
      + apply bind_ok_inv in H. destruct H as [parts [Hp H]]. rewrite Hp. cbn [bind]. apply IH; assumption.
  Qed.

  Lemma group_nospread : forall sels ptype ploc acc gs,
    nospreads sels -> groups_nospread acc -> group prios urls ptype ploc sels acc = Ok gs -> groups_nospread gs.
  Proof.
    induction sels as [|s rest IH]; intros ptype ploc acc gs Hs Hacc H; cbn [group] in H.
    - injection H as <-. exact Hacc.
    - cbn [nospreads] in Hs. destruct Hs as [Hx Hr]. destruct s as [alias name args dirs sub|tcond dirs sub|name dirs]; [| |destruct Hx].
      + apply bind_ok_inv in H. destruct H as [l [_ H]]. eapply IH; [exact Hr| |exact H]. apply add_at_nospread; assumption.
      + apply bind_ok_inv in H. destruct H as [parts [Hp H]]. eapply IH; [exact Hr| |exact H].
        assert (Hparts: groups_nospread parts).
        { eapply split_nospread; [|constructor|exact Hp]. apply nospread_inline in Hx. exact Hx. }
        clear Hp H. revert acc Hacc. induction parts as [|[l ss] pr IHp]; intros acc Hacc; cbn [fold_left]; [exact Hacc|].
        inversion Hparts as [|? ? Hh Ht]; subst. apply IHp; [exact Ht|]. apply add_at_nospread; [exact Hacc|].
        apply nospread_inline. exact Hh.
  Qed.

  Definition wrapper_ok (w : list sel) : Prop := Forall (fun s => match s with Inline _ _ _ => True | _ => False end) w.

  Lemma wrap2_is_wrap ptype : forall wrapper ss r,
    wrapper_ok wrapper -> wrap2 ptype wrapper ss [] = Ok r -> wrap wrapper ss = Ok (fst r) /\ snd r = [].
  Proof.
    induction wrapper as [|x w IH]; intros ss r Hw H; cbn [wrap2] in H; cbn [wrap].
    - injection H as <-. auto.
    - inversion Hw as [|? ? Hx Hr]; subst. destruct x as [| tcond dirs sub |]; try destruct Hx.
      apply bind_ok_inv in H. destruct H as [inner [Hi H]]. injection H as <-.
      destruct (IH ss inner Hr Hi) as [A B]. rewrite A. cbn [bind fst snd]. auto.
  Qed.

  (* erasing the (empty) definitions of a payload *)
  Definition erase_p (p : fpayload) : payload :=
    {| pl_loc := fp_loc p; pl_ptype := fp_ptype p; pl_ipoint := fp_ipoint p; pl_wrapper := fp_wrapper p; pl_sels := fp_sels p |}.

  Definition payload_plain (p : fpayload) : Prop := fp_frags p = [] /\ nospreads (fp_sels p) /\ wrapper_ok (fp_wrapper p).

  Lemma wrap_nospread : forall wrapper ss w, wrapper_ok wrapper -> nospreads ss -> wrap wrapper ss = Ok w -> nospreads w.
  Proof.
    induction wrapper as [|x r IH]; intros ss w Hw Hs H; cbn [wrap] in H.
    - injection H as <-. exact Hs.
    - inversion Hw as [|? ? Hx Hr]; subst. destruct x as [| tcond dirs sub |]; try destruct Hx.
      apply bind_ok_inv in H. destruct H as [inner [Hi H]]. injection H as <-. cbn [nospreads]. split; [|exact I].
      apply nospread_inline. eapply IH; eauto.
  Qed.

  Lemma queue_others2_is ptype ploc ipoint wrapper : forall gs ps,
    wrapper_ok wrapper -> groups_nospread gs ->
    queue_others2 ptype ploc ipoint wrapper [] gs = Ok ps ->
    queue_others ptype ploc ipoint wrapper gs = Ok (map erase_p ps) /\ Forall payload_plain ps.
  Proof.
    induction gs as [|[l ss] r IH]; intros ps Hw Hg H; cbn [queue_others2] in H; cbn [queue_others].
    - injection H as <-. split; [reflexivity|constructor].
    - inversion Hg as [|? ? Hh Ht]; subst. cbn [snd] in Hh.
      apply bind_ok_inv in H. destruct H as [rest [Hr H]]. destruct (IH rest Hw Ht Hr) as [A B]. rewrite A. cbn [bind].
      destruct (String.eqb l ploc); [injection H as <-; auto|].
      apply bind_ok_inv in H. destruct H as [w [Hwr H]]. injection H as <-.
      destruct wrapper as [|w0 wr].
      + injection Hwr as <-. cbn [bind fst snd map erase_p fp_loc fp_ptype fp_ipoint fp_wrapper fp_sels]. split; [reflexivity|].
        constructor; [|exact B]. unfold payload_plain. cbn. auto.
      + cbn [lf_get] in Hwr. destruct (wrap2_is_wrap ptype (w0 :: wr) ss w Hw Hwr) as [C D]. rewrite C. cbn [bind map erase_p fp_loc fp_ptype fp_ipoint fp_wrapper fp_sels].
        split; [reflexivity|]. constructor; [|exact B]. unfold payload_plain. cbn [fp_frags fp_sels fp_wrapper].
        split; [exact D|]. split; [eapply wrap_nospread; eauto|exact Hw].
  Qed.

  Definition below_sim (below2 : list fragdef -> string -> list string -> list sel -> list sel -> res ext)
             (below : string -> list string -> list sel -> list sel -> res (list sel * list payload)) : Prop :=
    forall t ip w sub r, nospreads sub -> wrapper_ok w -> below2 [] t ip w sub = Ok r ->
      below t ip w sub = Ok (fst (fst r), map erase_p (snd (fst r))) /\ snd r = [] /\ Forall payload_plain (snd (fst r)).

  Lemma keep2_is_keep below2 below ptype ipoint wrapper :
    below_sim below2 below -> wrapper_ok wrapper ->
    forall cur r, nospreads cur ->
      keep_with2 ft [] below2 ptype ipoint wrapper [] cur [] = Ok r ->
      keep_with ft below ptype ipoint wrapper cur = Ok (fst (fst r), map erase_p (snd (fst r))) /\
      snd r = [] /\ Forall payload_plain (snd (fst r)).
  Proof.
    intros Hsim Hw. induction cur as [|s rest IH]; intros r Hs H; cbn [keep_with2] in H; cbn [keep_with].
    - injection H as <-. cbn. auto.
    - cbn [nospreads] in Hs. destruct Hs as [Hx Hr].
      apply bind_ok_inv in H. destruct H as [[[hs hps] sf'] [Hh H]].
      assert (Hhere: (match s with
                      | Field alias name args dirs [] => Ok (Field alias name args dirs [], [])
                      | Field alias name args dirs sub =>
                          match assoc (url_key ptype name) ft with
                          | None => Err "no type for field"
                          | Some t => b <- below t (ipoint ++ [alias]) [] sub ;; Ok (Field alias name args dirs (fst b), snd b)
                          end
                      | Inline tcond dirs sub =>
                          b <- below (if String.eqb tcond "" then ptype else tcond) ipoint (wrapper ++ [Inline tcond dirs sub]) sub ;;
                          Ok (Inline tcond dirs (fst b), snd b)
                      | Spread _ _ => Err "named fragment spreads are outside this model"
                      end) = Ok (hd (Spread "" []) hs, map erase_p hps) /\ sf' = [] /\ Forall payload_plain hps /\ length hs = 1).
      { destruct s as [alias name args dirs sub|tcond dirs sub|name dirs]; [| |destruct Hx].
        - destruct sub as [|s0 sub'].
          + injection Hh as <- <- <-. cbn. auto.
          + destruct (assoc (url_key ptype name) ft) as [t|]; [|discriminate].
            apply bind_ok_inv in Hh. destruct Hh as [[[ks ps] sf] [Hb Hh]]. injection Hh as <- <- <-.
            assert (Hw0: (match wrapper with Spread n d :: _ => [Spread n d] | _ => [] end) = []).
            { destruct wrapper as [|w0 wr]; [reflexivity|]. inversion Hw as [|? ? H0 _]; subst. destruct w0; try reflexivity. destruct H0. }
            rewrite Hw0 in Hb. apply nospread_field in Hx.
            destruct (Hsim _ _ _ _ _ Hx (Forall_nil _) Hb) as (A & B & C). cbn [fst snd] in *. rewrite A. cbn [bind fst snd hd]. auto.
        - apply bind_ok_inv in Hh. destruct Hh as [[[ks ps] sf] [Hb Hh]]. injection Hh as <- <- <-.
          apply nospread_inline in Hx.
          assert (Hw': wrapper_ok (wrapper ++ [Inline tcond dirs sub])) by (apply Forall_app; split; [exact Hw|constructor; [exact I|constructor]]).
          destruct (Hsim _ _ _ _ _ Hx Hw' Hb) as (A & B & C). cbn [fst snd] in *. rewrite A. cbn [bind fst snd hd]. auto. }
      destruct Hhere as (E1 & -> & P1 & L1).
      apply bind_ok_inv in H. destruct H as [[[ms mps] sf''] [Hm H]]. injection H as <-.
      destruct (IH _ Hr Hm) as (E2 & E3 & P2). cbn [fst snd] in *. subst sf''.
      rewrite E1. cbn [bind]. rewrite E2. cbn [bind fst snd].
      destruct hs as [|h0 [|h1 ht]]; cbn [length] in L1; try discriminate. cbn [hd app].
      rewrite map_app. split; [reflexivity|]. split; [reflexivity|]. apply Forall_app. auto.
  Qed.

  Lemma get_at_nospread l gs ss : groups_nospread gs -> get_at l gs = Some ss -> nospreads ss.
  Proof.
    unfold groups_nospread. induction gs as [|[l' ss'] r IH]; intros H E; cbn [get_at] in E; [discriminate|].
    inversion H as [|? ? Hh Ht]; subst. destruct (String.eqb l l'); [injection E as <-; exact Hh|apply IH; assumption].
  Qed.

  Theorem extract2_is_extract : forall fuel ptype ploc ipoint wrapper sels r,
    nospreads sels -> wrapper_ok wrapper ->
    extract2 prios urls ft [] fuel [] ptype ploc ipoint wrapper sels = Ok r ->
    extract prios urls ft fuel ptype ploc ipoint wrapper sels = Ok (fst (fst r), map erase_p (snd (fst r))) /\
    snd r = [] /\ Forall payload_plain (snd (fst r)).
  Proof.
    induction fuel as [|fuel IH]; intros ptype ploc ipoint wrapper sels r Hs Hw H; [discriminate|].
    cbn [extract2] in H. cbn [extract].
    apply bind_ok_inv in H. destruct H as [[groups lf] [Hg H]].
    destruct (group2_is_group _ _ _ _ _ Hs Hg) as [G1 G2]. cbn [fst snd] in G1, G2. subst lf. rewrite G1. cbn [bind].
    assert (Gn: groups_nospread groups) by (eapply group_nospread; [exact Hs|constructor|exact G1]).
    apply bind_ok_inv in H. destruct H as [others [Ho H]].
    destruct (queue_others2_is _ _ _ _ _ _ Hw Gn Ho) as [O1 O2]. rewrite O1. cbn [bind].
    apply bind_ok_inv in H. destruct H as [[[ks ps] sf] [Hk H]]. injection H as <-. cbn [fst snd].
    cbn [lf_get] in Hk.
    set (cur0 := match get_at ploc groups with Some ss => ss | None => [] end) in *.
    assert (Hc0: nospreads cur0).
    { unfold cur0. destruct (get_at ploc groups) eqn:Eg; [eapply get_at_nospread; eauto|exact I]. }
    assert (Hcur: nospreads (match others with [] => cur0 | _ :: _ => cur0 ++ [id_field] end)).
    { destruct others; [exact Hc0|]. apply nospreads_app. split; [exact Hc0|]. cbn. auto. }
    assert (Hsim: below_sim (fun sf0 t ip w sub => extract2 prios urls ft [] fuel sf0 t ploc ip w sub)
                            (fun t ip w sub => extract prios urls ft fuel t ploc ip w sub)).
    { intros t ip w sub r0 Hsub Hww Hr0. apply IH; assumption. }
    destruct (keep2_is_keep _ _ ptype ipoint wrapper Hsim Hw _ _ Hcur Hk) as (K1 & K2 & K3). cbn [fst snd] in K1, K2, K3.
    assert (Hmatch: (match map erase_p others with [] => cur0 | _ :: _ => cur0 ++ [id_field] end)
                    = (match others with [] => cur0 | _ :: _ => cur0 ++ [id_field] end)) by (destruct others; reflexivity).
    rewrite Hmatch, K1. cbn [bind fst snd]. rewrite map_app. split; [reflexivity|]. split; [exact K2|]. apply Forall_app. auto.
  Qed.

  (* erasing the (empty) definitions of every step *)
  Fixpoint erase (s : fstep) : pstep :=
    match s with FStep l t ip ss _ th => PStep l t ip ss ((fix go (l : list fstep) := match l with [] => [] | x :: r => erase x :: go r end) th) end.

  Lemma erase_unfold l t ip ss fr th : erase (FStep l t ip ss fr th) = PStep l t ip ss (map erase th).
  Proof. reflexivity. Qed.

  Theorem build2_is_build : forall fuel p s,
    payload_plain p -> build2 prios urls ft [] fuel p = Ok s -> build prios urls ft fuel (erase_p p) = Ok (erase s).
  Proof.
    induction fuel as [|fuel IH]; intros p s Hp H; [discriminate|].
    cbn [build2] in H. cbn [build]. destruct Hp as (Hf & Hs & Hw).
    apply bind_ok_inv in H. destruct H as [[[ks ps] sf] [He H]]. rewrite Hf in He.
    destruct (extract2_is_extract _ _ _ _ _ _ _ Hs Hw He) as (E1 & E2 & E3). cbn [fst snd] in E1, E2, E3.
    cbn [erase_p pl_ptype pl_loc pl_ipoint pl_wrapper pl_sels]. rewrite E1. cbn [bind fst snd].
    apply bind_ok_inv in H. destruct H as [thens [Ht H]]. injection H as <-.
    assert (Hm: map_res (build prios urls ft fuel) (map erase_p ps) = Ok (map erase thens)).
    { clear - IH E3 Ht. revert thens Ht. induction ps as [|q r IHr]; intros thens Ht; cbn [map_res] in Ht; cbn [map map_res].
      - injection Ht as <-. reflexivity.
      - inversion E3 as [|? ? Hq Hrr]; subst.
        apply bind_ok_inv in Ht. destruct Ht as [y [Hy Ht]]. apply bind_ok_inv in Ht. destruct Ht as [rest [Hr Ht]].
        injection Ht as <-. rewrite (IH _ _ Hq Hy). cbn [bind]. rewrite (IHr Hrr _ Hr). reflexivity. }
    rewrite Hm. cbn [bind]. rewrite erase_unfold. reflexivity.
  Qed.

  (* the plan of a document without named fragment spreads *)
  Theorem plan2_is_plan fuel root sels s :
    nospreads sels -> plan_operation2 prios urls ft [] fuel root sels = Ok s ->
    plan_operation prios urls ft fuel root sels = Ok (erase s).
  Proof.
    intros Hs H. unfold plan_operation2 in H. unfold plan_operation.
    apply (build2_is_build fuel _ s) in H; [exact H|]. unfold payload_plain. cbn. split; [reflexivity|]. split; [exact Hs|constructor].
  Qed.
End Sim.

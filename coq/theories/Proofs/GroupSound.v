(* One level of planning is transparent for the reference semantics.  groupSelectionSet splits a
   selection of plain fields among the locations; the groups hold exactly the selection's fields
   (a permutation), and answering every group separately and merging the answers with
   executorMergeObject gives the object the reference gives for the whole selection, up to the
   order of its keys. *)
From Coq Require Import String List Bool Arith Lia Permutation.
From GW Require Import Base.Res Base.GoStr Base.Json Gql.Syntax Gql.Spec Gw.Locate Gw.Plan Gw.Points.
From GW Require Import Proofs.StitchSound.
Import ListNotations.
Open Scope string_scope.
Open Scope list_scope.

Definition all_sels (m : list (string * list sel)) : list sel := concat (map snd m).

Lemma add_at_perm l s m : Permutation (all_sels (add_at l s m)) (all_sels m ++ [s]).
Proof.
  unfold all_sels. induction m as [|[l' ss] r IH]; cbn [add_at map snd concat app].
  - reflexivity.
  - destruct (String.eqb l l'); cbn [map snd concat].
    + rewrite <- !app_assoc. apply Permutation_app_head. apply Permutation_app_comm.
    + rewrite <- app_assoc. apply Permutation_app_head. exact IH.
Qed.

Section Group.
  Variable prios : list string.
  Variable urls : urlmap.

  Lemma group_perm ptype ploc : forall sels acc gs,
    Forall plain sels -> group prios urls ptype ploc sels acc = Ok gs ->
    Permutation (all_sels gs) (all_sels acc ++ sels).
  Proof.
    induction sels as [|s r IH]; intros acc gs Hp H; cbn [group] in H.
    - injection H as <-. rewrite app_nil_r. reflexivity.
    - inversion Hp as [|? ? Hs Hr]; subst. destruct s as [alias name args dirs sub| |]; try destruct Hs.
      cbn [bind] in H. destruct (choose prios urls ptype name ploc) as [l|e|e] eqn:E; cbn [bind] in H; try discriminate.
      rewrite (IH _ _ Hr H). rewrite add_at_perm. rewrite <- app_assoc. reflexivity.
  Qed.
End Group.

(* ---------- good selections under permutation and splitting ---------- *)
Lemma good_perm l l' : Permutation l l' -> good l -> good l'.
Proof.
  intros P G. inversion G as [? A B C]; subst. constructor.
  - eapply Permutation_Forall; eassumption.
  - eapply Permutation_NoDup; [apply Permutation_map; exact P|exact B].
  - eapply Permutation_Forall; eassumption.
Qed.

Lemma nodup_app_inv {A} (a b : list A) :
  NoDup (a ++ b) -> NoDup a /\ NoDup b /\ (forall z, In z a -> In z b -> False).
Proof.
  induction a as [|x a IH]; cbn [app]; intros H.
  - split; [constructor|]. split; [exact H|]. intros z [].
  - inversion H as [|? ? Hx Hr]; subst. destruct (IH Hr) as (A1 & A2 & A3). split; [|split].
    + constructor; [|exact A1]. intros Hin. apply Hx. apply in_or_app. left. exact Hin.
    + exact A2.
    + intros z [<-|Hz] Hb; [apply Hx; apply in_or_app; right; exact Hb|eapply A3; eauto].
Qed.

Lemma good_app a b : good (a ++ b) -> good a /\ good b /\ compat a b.
Proof.
  intros G. inversion G as [? A B C]; subst.
  apply Forall_app in A. apply Forall_app in C. rewrite map_app in B.
  destruct (nodup_app_inv _ _ B) as (Na & Nb & Hd).
  split; [|split].
  - constructor; tauto.
  - constructor; tauto.
  - constructor. intros s1 s2 H1 H2 Hk. exfalso.
    apply (Hd (key_of s1)); [apply in_map; exact H1|rewrite Hk; apply in_map; exact H2].
Qed.

Section Transparent.
  Variable w : world.
  Variable frags : list fragdef.
  Variable vars : list (string * json).
  Hypothesis world_atomic : atomic_world w vars.

  Fixpoint merge_all (acc : json) (vs : list json) : json :=
    match vs with [] => acc | v :: r => merge_all (merge_value (Some acc) v) r end.

  Lemma merge_groups fuel o rt : inw w o -> forall (gs : list (list sel)) pre,
    good (pre ++ concat gs) ->
    merge_all (exec fuel w frags vars o rt pre) (map (exec fuel w frags vars o rt) gs) =
    exec fuel w frags vars o rt (pre ++ concat gs).
  Proof.
    intros Hin. induction gs as [|g r IH]; intros pre G; cbn [map merge_all concat].
    - rewrite app_nil_r. reflexivity.
    - cbn [concat] in G. rewrite app_assoc in G. pose proof G as G'. apply good_app in G'. destruct G' as [Gpg _].
      apply good_app in Gpg. destruct Gpg as [Gp [Gg C]].
      rewrite <- (stitch_sound w frags vars world_atomic fuel o rt pre g Hin Gp Gg C).
      rewrite (IH _ G). rewrite app_assoc. reflexivity.
  Qed.

  (* the answer to a good selection, key by key *)
  Definition answer_of fuel o rt (s : sel) : string * json :=
    (key_of s, complete_with (fun o' sub => exec (S fuel) w frags vars (Some o') (b_type o') sub) w (sub_of s)
                             (resolve w vars o rt (to_c s))).

  Lemma exec_good fuel o rt l : good l ->
    exec (S (S fuel)) w frags vars o rt l = JObj (map (answer_of fuel o rt) l).
  Proof.
    intros G. inversion G as [? P N Sg]; subst. rewrite exec_unfold.
    rewrite collect_plain by exact P. cbn [fst]. rewrite (fold_add_nodup l [] N) by (intros s _ []).
    cbn [app]. rewrite map_map. reflexivity.
  Qed.

  (* One level of planning.  For every routing table and priority list, every object and every
     selection in collected form: the groups hold the selection's fields; merging the answers to
     the groups gives the answer to the groups' fields together; and that is the reference answer
     to the selection with its keys in another order. *)
  Theorem grouping_is_transparent prios urls ptype ploc fuel o rt sels gs :
    inw w o -> good sels -> group prios urls ptype ploc sels [] = Ok gs ->
    Permutation (all_sels gs) sels /\
    merge_all (JObj []) (map (fun g => exec (S (S fuel)) w frags vars o rt (snd g)) gs) =
      exec (S (S fuel)) w frags vars o rt (all_sels gs) /\
    exists m m', exec (S (S fuel)) w frags vars o rt (all_sels gs) = JObj m /\
                 exec (S (S fuel)) w frags vars o rt sels = JObj m' /\ Permutation m m'.
  Proof.
    intros Hin G Hg. inversion G as [? P N Sg]; subst.
    pose proof (group_perm prios urls ptype ploc sels [] gs P Hg) as Hperm. cbn [all_sels map concat app] in Hperm.
    assert (Ga : good (all_sels gs)) by (eapply good_perm; [symmetry; exact Hperm|exact G]).
    split; [exact Hperm|]. split.
    - pose proof (merge_groups (S (S fuel)) o rt Hin (map snd gs) [] Ga) as H.
      cbn [app] in H. rewrite map_map in H. unfold all_sels.
      replace (exec (S (S fuel)) w frags vars o rt []) with (JObj []) in H by reflexivity. exact H.
    - exists (map (answer_of fuel o rt) (all_sels gs)), (map (answer_of fuel o rt) sels).
      split; [apply exec_good; exact Ga|]. split; [apply exec_good; exact G|].
      apply Permutation_map. exact Hperm.
  Qed.
End Transparent.

(* the premises can be met, and the order of keys really changes *)
Example grouping_example :
  let urls := [("User.name", ["A"]); ("User.photo", ["B"]); ("User.age", ["A"])] in
  let sels := [Field "" "name" [] [] []; Field "" "photo" [] [] []; Field "" "age" [] [] []] in
  let o := {| b_id := "u1"; b_type := "User"; b_fields := [("name", FScalar (JStr "ann")); ("photo", FScalar (JStr "p.png")); ("age", FScalar (JNum "7"))] |} in
  let w := {| w_objs := [o]; w_roots := []; w_possible := []; w_ftypes := [] |} in
  atomic_world w [] /\ inw w (Some o) /\ good sels /\
  group [] urls "User" "A" sels [] = Ok [("A", [Field "" "name" [] [] []; Field "" "age" [] [] []]); ("B", [Field "" "photo" [] [] []])] /\
  merge_all (JObj []) [exec 3 w [] [] (Some o) "User" [Field "" "name" [] [] []; Field "" "age" [] [] []];
                               exec 3 w [] [] (Some o) "User" [Field "" "photo" [] [] []]] =
    JObj [("name", JStr "ann"); ("age", JNum "7"); ("photo", JStr "p.png")] /\
  exec 3 w [] [] (Some o) "User" sels = JObj [("name", JStr "ann"); ("photo", JStr "p.png"); ("age", JNum "7")].
Proof.
  cbv zeta. split; [apply atomic_world_intro; cbn; repeat constructor|]. split; [left; reflexivity|]. split; [|split; [|split]]; try (vm_compute; reflexivity).
  constructor; [repeat constructor| |repeat constructor].
  cbn. repeat constructor; cbn; intuition discriminate.
Qed.

(* Stitching order in the executor LTS: on every schedule a step's result is stitched before the
   results of the steps that depend on it.  A dependent task is spawned only after its parent's
   result was sent into the (FIFO) result channel, and the single collector stitches in channel
   order; so in the sequence Q = (stitched so far) ++ (queued), every node comes after its parent. *)
From Coq Require Import List Arith Bool Lia Permutation.
From GW Require Import Gw.ExecLTS Gw.ExecCheck Proofs.ExecLTSProofs Proofs.ExecLTSConserve.
Import ListNotations.

(* ---------- induction over call trees ---------- *)
Section CtreeInd.
  Variable P : ctree -> Prop.
  Hypothesis H : forall i f k, Forall P k -> P (Node i f k).
  Fixpoint ctree_ind' (t : ctree) : P t :=
    match t with
    | Node i f k =>
        H i f k ((fix go (l : list ctree) : Forall P l :=
                    match l with [] => Forall_nil _ | x :: r => Forall_cons _ (ctree_ind' x) (go r) end) k)
    end.
End CtreeInd.

Definition E (l : list ctree) : list (nat * nat) := flat_map edges l.

Lemma edges_unfold t : edges t = map (fun c => (id_of t, id_of c)) (kids_of t) ++ E (kids_of t).
Proof. destruct t; reflexivity. Qed.

Lemma in_ids_self t : In (id_of t) (ids t).
Proof. rewrite ids_unfold. left. reflexivity. Qed.

Lemma idsl_in l t x : In t l -> In x (ids t) -> In x (idsl l).
Proof. intros Ht Hx. unfold idsl. apply in_flat_map. eauto. Qed.

Lemma idsl_cons t l : idsl (t :: l) = ids t ++ idsl l.
Proof. reflexivity. Qed.

(* the child of an edge lies strictly below the tree's root *)
Lemma edges_child : forall t p c, In (p, c) (edges t) -> In c (idsl (kids_of t)).
Proof.
  induction t as [i f k IH] using ctree_ind'. intros p c H. rewrite edges_unfold in H. cbn [kids_of id_of] in *.
  apply in_app_or in H. destruct H as [H|H].
  - apply in_map_iff in H. destruct H as [x [[= <- <-] Hx]]. eapply idsl_in; [exact Hx|apply in_ids_self].
  - unfold E in H. apply in_flat_map in H. destruct H as [x [Hx He]].
    rewrite Forall_forall in IH. specialize (IH x Hx p c He).
    eapply idsl_in; [exact Hx|]. rewrite ids_unfold. right. exact IH.
Qed.

Lemma E_child l p c : In (p, c) (E l) -> exists t, In t l /\ In c (idsl (kids_of t)).
Proof.
  unfold E. intros H. apply in_flat_map in H. destruct H as [t [Ht He]]. exists t. split; [exact Ht|].
  eapply edges_child. exact He.
Qed.

Lemma NoDup_app_inv {A} (a b : list A) :
  NoDup (a ++ b) -> NoDup a /\ NoDup b /\ (forall z, In z a -> In z b -> False).
Proof.
  induction a as [|x a IH]; cbn [app]; intros H.
  - split; [constructor|]. split; [exact H|]. intros z [].
  - inversion H as [|? ? Hx Hr]; subst. destruct (IH Hr) as (A1 & A2 & A3). split; [|split].
    + constructor; [|exact A1]. intros Hin. apply Hx. apply in_or_app. left. exact Hin.
    + exact A2.
    + intros z [<-|Hz] Hb; [apply Hx; apply in_or_app; right; exact Hb|eapply A3; eauto].
Qed.

(* in a forest with distinct ids, the root of one tree is not below the root of any tree *)
Lemma nodup_root_not_below : forall l, NoDup (idsl l) ->
  forall k1 t, In k1 l -> In t l -> In (id_of k1) (idsl (kids_of t)) -> False.
Proof.
  induction l as [|x r IH]; intros Hnd k1 t H1 Ht Hin; [destruct H1|].
  rewrite idsl_cons in Hnd. destruct (NoDup_app_inv _ _ Hnd) as (Hx & Hr & Hdisj).
  destruct H1 as [<-|H1]; destruct Ht as [<-|Ht].
  - rewrite ids_unfold in Hx. inversion Hx; subst. contradiction.
  - apply (Hdisj (id_of x)); [apply in_ids_self|]. eapply idsl_in; [exact Ht|]. rewrite ids_unfold. right. exact Hin.
  - apply (Hdisj (id_of k1)); [rewrite ids_unfold; right; exact Hin|]. eapply idsl_in; [exact H1|apply in_ids_self].
  - apply (IH Hr k1 t H1 Ht Hin).
Qed.

Corollary root_has_no_parent l p c : NoDup (idsl l) -> In (p, c) (E l) -> In c (map id_of l) -> False.
Proof.
  intros Hnd He Hc. apply E_child in He. destruct He as [t [Ht Hin]].
  apply in_map_iff in Hc. destruct Hc as [k1 [<- Hk1]]. exact (nodup_root_not_below l Hnd k1 t Hk1 Ht Hin).
Qed.

(* every node has at most one parent *)
Lemma forest_parent_unique : forall l,
  Forall (fun t => NoDup (ids t) -> forall p p' c, In (p, c) (edges t) -> In (p', c) (edges t) -> p = p') l ->
  NoDup (idsl l) -> forall p p' c, In (p, c) (E l) -> In (p', c) (E l) -> p = p'.
Proof.
  induction l as [|x r IH]; intros HF Hnd p p' c H1 H2; [destruct H1|].
  inversion HF as [|? ? Hx HFr]; subst. rewrite idsl_cons in Hnd.
  destruct (NoDup_app_inv _ _ Hnd) as (Hxx & Hr & Hdisj).
  unfold E in H1, H2. cbn [flat_map] in H1, H2. apply in_app_or in H1. apply in_app_or in H2.
  destruct H1 as [H1|H1]; destruct H2 as [H2|H2].
  - apply (Hx Hxx p p' c H1 H2).
  - exfalso. apply (Hdisj c).
    + rewrite ids_unfold. right. eapply edges_child. exact H1.
    + destruct (E_child r p' c H2) as [t [Ht Hin]]. eapply idsl_in; [exact Ht|]. rewrite ids_unfold. right. exact Hin.
  - exfalso. apply (Hdisj c).
    + rewrite ids_unfold. right. eapply edges_child. exact H2.
    + destruct (E_child r p c H1) as [t [Ht Hin]]. eapply idsl_in; [exact Ht|]. rewrite ids_unfold. right. exact Hin.
  - apply (IH HFr Hr p p' c H1 H2).
Qed.

Lemma tree_parent_unique : forall t, NoDup (ids t) -> forall p p' c, In (p, c) (edges t) -> In (p', c) (edges t) -> p = p'.
Proof.
  induction t as [i f k IH] using ctree_ind'. intros Hnd p p' c H1 H2.
  rewrite edges_unfold in H1, H2. cbn [kids_of id_of] in *.
  rewrite ids_unfold in Hnd. cbn [kids_of id_of] in Hnd. inversion Hnd as [|? ? Hi Hk]; subst.
  apply in_app_or in H1. apply in_app_or in H2.
  destruct H1 as [H1|H1]; destruct H2 as [H2|H2].
  - apply in_map_iff in H1. destruct H1 as [? [[= <- _] _]]. apply in_map_iff in H2. destruct H2 as [? [[= <- _] _]]. reflexivity.
  - exfalso. apply in_map_iff in H1. destruct H1 as [k1 [[= _ <-] Hk1]].
    destruct (E_child k p' (id_of k1) H2) as [t [Ht Hin]]. exact (nodup_root_not_below k Hk k1 t Hk1 Ht Hin).
  - exfalso. apply in_map_iff in H2. destruct H2 as [k1 [[= _ <-] Hk1]].
    destruct (E_child k p (id_of k1) H1) as [t [Ht Hin]]. exact (nodup_root_not_below k Hk k1 t Hk1 Ht Hin).
  - exact (forest_parent_unique k IH Hk p p' c H1 H2).
Qed.

Theorem parent_unique roots p p' c :
  NoDup (idsl roots) -> In (p, c) (E roots) -> In (p', c) (E roots) -> p = p'.
Proof.
  intros Hnd. apply forest_parent_unique; [|exact Hnd].
  apply Forall_forall. intros t _. apply tree_parent_unique.
Qed.

(* ---------- the order invariant ---------- *)
Definition Q (s : st) : list nat := ins s ++ map fst (rch s).

Definition bef (p c : nat) (l : list nat) : Prop := exists l1 l2, l = l1 ++ p :: l2 /\ In c l2.

Lemma bef_app p c l x : bef p c l -> bef p c (l ++ x).
Proof. intros [l1 [l2 [-> H]]]. exists l1, (l2 ++ x). split; [rewrite <- app_assoc; reflexivity|apply in_or_app; left; exact H]. Qed.

Lemma bef_new p c l : In p l -> bef p c (l ++ [c]).
Proof.
  intros H. apply in_split in H. destruct H as [l1 [l2 ->]]. exists l1, (l2 ++ [c]).
  split; [rewrite <- app_assoc; reflexivity|apply in_or_app; right; left; reflexivity].
Qed.

(* the edges a task is still responsible for *)
Definition tedges (t : task) : list (nat * nat) :=
  match t_pc t with
  | PCall | PAdded => edges (t_node t)
  | PSent r => map (fun k => (id_of (t_node t), id_of k)) r ++ E r
  end.

Definition task_ok (roots : list ctree) (q : list nat) (t : task) : Prop :=
  incl (tedges t) (E roots) /\
  match t_pc t with
  | PCall | PAdded => forall p, In (p, id_of (t_node t)) (E roots) -> In p q
  | PSent _ => In (id_of (t_node t)) q
  end.

Definition InvO (roots : list ctree) (s : st) : Prop :=
  (forall p c, In (p, c) (E roots) -> In c (Q s) -> bef p c (Q s)) /\
  Forall (task_ok roots (Q s)) (tasks s).

Lemma task_ok_mono roots q x t : task_ok roots q t -> task_ok roots (q ++ x) t.
Proof.
  intros [A B]. split; [exact A|]. destruct (t_pc t); try (intros p Hp; apply in_or_app; left; apply B; exact Hp).
  apply in_or_app. left. exact B.
Qed.

Section Order.
  Variable rcap : nat.
  Variable roots : list ctree.
  Hypothesis Hnd : NoDup (idsl roots).

  Lemma task_step_order s pre t post s' :
    tasks s = pre ++ t :: post -> InvO roots s -> In s' (task_steps rcap s pre t post) -> InvO roots s'.
  Proof.
    intros Ht [HA HF] Hin. rewrite Ht in HF.
    apply Forall_app in HF. destruct HF as [Hpre HF]. inversion HF as [|? ? Htk Hpost]; subst.
    unfold task_steps in Hin. destruct t as [n pc]. cbn [t_node t_pc] in *.
    destruct pc as [| |r].
    - (* the call: nothing is stitched or queued *)
      destruct Hin as [<-|[]]. split; [exact HA|]. cbn [tasks]. unfold Q in *. cbn [ins rch] in *.
      apply Forall_app. split; [exact Hpre|]. constructor; [|exact Hpost].
      destruct Htk as [A B]. split; [exact A|exact B].
    - (* the result is sent: it joins the end of Q *)
      destruct (length (rch s) <? rcap); [|destruct Hin]. destruct Hin as [<-|[]].
      match goal with |- InvO roots ?x =>
        assert (HQ: Q x = Q s ++ [id_of n])
          by (unfold Q; cbn [ins rch]; rewrite List.map_app; cbn [map fst]; rewrite List.app_assoc; reflexivity)
      end.
      unfold InvO. rewrite HQ.
      destruct Htk as [TA TB]. cbn [t_pc t_node] in TB.
      split.
      + intros p c He Hc. apply in_app_or in Hc. destruct Hc as [Hc|[<-|[]]].
        * apply bef_app. apply HA; assumption.
        * apply bef_new. apply TB. exact He.
      + cbn [tasks].
        assert (Hpre': Forall (task_ok roots (Q s ++ [id_of n])) pre) by (eapply Forall_impl; [|exact Hpre]; intros; apply task_ok_mono; assumption).
        assert (Hpost': Forall (task_ok roots (Q s ++ [id_of n])) post) by (eapply Forall_impl; [|exact Hpost]; intros; apply task_ok_mono; assumption).
        destruct (kids_of n) as [|k ks] eqn:Ek.
        * apply Forall_app. split; assumption.
        * apply Forall_app. split; [exact Hpre'|]. constructor; [|exact Hpost'].
          split.
          -- unfold tedges in *. cbn [t_pc t_node] in *. rewrite edges_unfold, Ek in TA. exact TA.
          -- cbn [t_pc t_node]. apply in_or_app. right. left. reflexivity.
    - (* a dependent is spawned: its parent's result is already in Q *)
      destruct Htk as [TA TB]. cbn [t_pc t_node] in TB. unfold tedges in TA. cbn [t_pc t_node] in TA.
      assert (Hspawn: forall k rest, r = k :: rest ->
                task_ok roots (Q s) {| t_node := k; t_pc := PCall |} /\
                task_ok roots (Q s) {| t_node := n; t_pc := PSent rest |}).
      { intros k rest ->. split.
        - split.
          + unfold tedges. cbn [t_pc t_node]. intros e He. apply TA. apply in_or_app. right.
            unfold E. cbn [flat_map]. apply in_or_app. left. exact He.
          + cbn [t_pc t_node]. intros p Hp.
            assert (Hn: In (id_of n, id_of k) (E roots)) by (apply TA; apply in_or_app; left; left; reflexivity).
            rewrite (parent_unique roots p (id_of n) (id_of k) Hnd Hp Hn). exact TB.
        - split; [|exact TB]. unfold tedges. cbn [t_pc t_node]. intros e He. apply TA.
          apply in_app_or in He. destruct He as [He|He].
          + apply in_or_app. left. right. exact He.
          + apply in_or_app. right. unfold E. cbn [flat_map]. apply in_or_app. right. exact He. }
      destruct r as [|k [|k2 ks]].
      + destruct Hin as [<-|[]]. split; [exact HA|]. unfold set_tasks. cbn [tasks]. unfold Q in *. cbn [ins rch].
        apply Forall_app. split; assumption.
      + destruct Hin as [<-|[]]. destruct (Hspawn k [] eq_refl) as [Hk _].
        split; [exact HA|]. unfold set_tasks. cbn [tasks]. unfold Q in *. cbn [ins rch].
        apply Forall_app. split; [exact Hpre|]. apply Forall_app. split; [exact Hpost|]. constructor; [exact Hk|constructor].
      + destruct Hin as [<-|[]]. destruct (Hspawn k (k2 :: ks) eq_refl) as [Hk Hrest].
        split; [exact HA|]. unfold set_tasks. cbn [tasks]. unfold Q in *. cbn [ins rch].
        apply Forall_app. split; [exact Hpre|]. constructor; [exact Hrest|].
        apply Forall_app. split; [exact Hpost|]. constructor; [exact Hk|constructor].
  Qed.

  Lemma all_task_steps_order s : forall l pre s',
    tasks s = pre ++ l -> InvO roots s -> In s' (all_task_steps rcap s pre l) -> InvO roots s'.
  Proof.
    induction l as [|t post IH]; intros pre s' Ht HI Hin; cbn [all_task_steps] in Hin; [destruct Hin|].
    apply in_app_or in Hin. destruct Hin as [Hin|Hin].
    - eapply task_step_order; eauto.
    - eapply (IH (pre ++ [t])); eauto. rewrite <- app_assoc. exact Ht.
  Qed.

  Lemma step_order s s' : InvO roots s -> In s' (steps rcap s) -> InvO roots s'.
  Proof.
    unfold steps. intros HI Hin. destruct (ret s); [destruct Hin|].
    apply in_app_or in Hin. destruct Hin as [Hin|Hin]; [eapply (all_task_steps_order s (tasks s) []); eauto|].
    apply in_app_or in Hin. destruct Hin as [Hin|Hin].
    - (* the collector: the head of the channel moves to the end of the stitched list; Q is unchanged *)
      unfold coll_steps in Hin. destruct (rch s) as [|[i f] r] eqn:Er; [destruct Hin|]. destruct Hin as [<-|[]].
      destruct HI as [HA HF]. unfold InvO, Q in *. cbn [ins rch tasks]. rewrite Er in *. cbn [map fst] in *.
      rewrite <- app_assoc. cbn [app]. split; assumption.
    - unfold main_steps in Hin. destruct (wg s =? 0); [|destruct Hin]. destruct Hin as [<-|[]].
      destruct HI as [HA HF]. unfold InvO, Q in *. cbn [ins rch tasks]. split; assumption.
  Qed.

  Lemma init_order : InvO roots (init roots).
  Proof.
    split.
    - intros p c _ Hc. destruct Hc.
    - unfold init. cbn [tasks]. apply Forall_forall. intros t Ht. apply in_map_iff in Ht. destruct Ht as [r [<- Hr]].
      split.
      + unfold tedges. cbn [t_pc t_node]. intros e He. unfold E. apply in_flat_map. eauto.
      + cbn [t_pc t_node]. intros p Hp. exfalso. eapply root_has_no_parent; [exact Hnd|exact Hp|]. apply in_map. exact Hr.
  Qed.

  Theorem reach_order s : reach rcap roots s -> InvO roots s.
  Proof. induction 1 as [|s s' Hr IH Hs]; [apply init_order|eapply step_order; eauto]. Qed.

  (* the statement: a stitched result comes after its parent's *)
  Theorem parent_stitched_first s p c :
    reach rcap roots s -> In (p, c) (E roots) -> In c (ins s) ->
    exists l1 l2, ins s = l1 ++ p :: l2 /\ In c l2.
  Proof.
    intros Hr He Hc. destruct (reach_order s Hr) as [HA _].
    assert (HcQ: In c (Q s)) by (apply in_or_app; left; exact Hc).
    destruct (HA p c He HcQ) as [l1 [l2 [HQ Hin]]].
    (* c occurs exactly once in Q (conservation), so the split falls inside ins *)
    pose proof (reach_conserve rcap roots s Hr c) as (_ & B & _).
    assert (Hone: cnt c (idsl roots) <= 1).
    { unfold cnt. apply (proj1 (NoDup_count_occ Nat.eq_dec _) Hnd). }
    assert (HcQ1: cnt c (Q s) <= 1) by (unfold Q; rewrite cnt_app; lia).
    unfold Q in HQ.
    (* where does the split point lie? *)
    assert (Hcase: length l1 < length (ins s) \/ length (ins s) <= length l1) by lia.
    destruct Hcase as [Hlt|Hge].
    - (* p lies inside ins *)
      assert (Hsp: exists m, ins s = l1 ++ p :: m /\ l2 = m ++ map fst (rch s)).
      { clear - HQ Hlt. revert l1 HQ Hlt. generalize (ins s) as a. induction a as [|x a IH]; intros l1 HQ Hlt; [cbn in Hlt; lia|].
        destruct l1 as [|y l1]; cbn [app] in HQ.
        - injection HQ as -> <-. exists a. split; reflexivity.
        - injection HQ as -> HQ. cbn [length] in Hlt. destruct (IH l1 HQ ltac:(lia)) as [m [E1 E2]].
          exists m. split; [cbn [app]; rewrite E1; reflexivity|exact E2]. }
      destruct Hsp as [m [E1 E2]]. exists l1, m. split; [exact E1|].
      subst l2. apply in_app_or in Hin. destruct Hin as [Hin|Hin]; [exact Hin|].
      (* c in ins and in the channel: twice *)
      exfalso. assert (1 <= cnt c (ins s)) by (unfold cnt; apply count_occ_In; exact Hc).
      assert (1 <= cnt c (map fst (rch s))) by (unfold cnt; apply count_occ_In; exact Hin).
      unfold Q in HcQ1. rewrite cnt_app in HcQ1. lia.
    - (* p lies in the channel part: then c, after it, is in the channel too, but c is in ins *)
      exfalso.
      assert (Hsp: exists m, map fst (rch s) = m ++ p :: l2).
      { clear - HQ Hge. revert l1 HQ Hge. generalize (ins s) as a. induction a as [|x a IH]; intros l1 HQ Hge.
        - cbn [app] in HQ. exists l1. exact HQ.
        - destruct l1 as [|y l1]; [cbn in Hge; lia|]. cbn [app] in HQ. injection HQ as _ HQ. cbn [length] in Hge.
          apply (IH l1 HQ). lia. }
      destruct Hsp as [m Em].
      assert (1 <= cnt c (ins s)) by (unfold cnt; apply count_occ_In; exact Hc).
      assert (1 <= cnt c (map fst (rch s))).
      { unfold cnt. apply count_occ_In. rewrite Em. apply in_or_app. right. right. exact Hin. }
      unfold Q in HcQ1. rewrite cnt_app in HcQ1. lia.
  Qed.
End Order.

(* The comparison of applied directives (mergeDirectiveListsEqual as repaired: the n-th application
   of a directive against the n-th application of that directive in the other list) does not
   depend on which of the two lists comes first.  Argument names are unique within one
   application (GraphQL validation). *)
From Coq Require Import String List Bool Arith Lia.
From GW Require Import Base.Res Base.GoStr Gql.Schema Gw.Merge Proofs.MergeBasics.
Import ListNotations.
Open Scope string_scope.
Open Scope list_scope.

(* ---------- arguments of one application ---------- *)
Lemma find_appl_arg_in n : forall l v, find_appl_arg n l = Some v -> In (n, v) l.
Proof.
  induction l as [|[k x] r IH]; intros v H; cbn [find_appl_arg] in H; [discriminate|].
  destruct (String.eqb k n) eqn:E; [apply String.eqb_eq in E; injection H as <-; left; congruence|right; apply IH; exact H].
Qed.

Lemma find_appl_arg_nodup n v : forall l, NoDup (map fst l) -> In (n, v) l -> find_appl_arg n l = Some v.
Proof.
  induction l as [|[k x] r IH]; intros Hn Hin; [destruct Hin|].
  cbn [map fst] in Hn. inversion Hn as [|? ? Hk Hr]; subst. cbn [find_appl_arg].
  destruct Hin as [[= -> ->]|Hin]; [rewrite String.eqb_refl; reflexivity|].
  destruct (String.eqb k n) eqn:E; [|apply IH; assumption].
  apply String.eqb_eq in E. subst k. exfalso. apply Hk. apply in_map_iff. exists (n, v). split; [reflexivity|exact Hin].
Qed.

Lemma values_equal_sym a b : values_equal a b = values_equal b a.
Proof.
  destruct a as [x|], b as [y|]; cbn [values_equal]; try reflexivity.
  unfold gval_eqb. rewrite Nat.eqb_sym, String.eqb_sym. reflexivity.
Qed.

Lemma appl_args_equal_sym l1 l2 : NoDup (map fst l1) -> NoDup (map fst l2) ->
  appl_args_equal l1 l2 = true -> appl_args_equal l2 l1 = true.
Proof.
  unfold appl_args_equal. intros N1 N2 H. apply andb_prop in H. destruct H as [Hl Hf].
  apply Nat.eqb_eq in Hl. rewrite forallb_forall in Hf.
  apply andb_true_intro. split; [apply Nat.eqb_eq; lia|].
  (* every name of l1 is a name of l2; both lists have as many, distinct, names: so the converse holds *)
  assert (Hincl : incl (map fst l1) (map fst l2)).
  { intros n Hn. apply in_map_iff in Hn. destruct Hn as [[k v] [<- Hin]]. specialize (Hf _ Hin). cbn [fst snd] in Hf.
    destruct (find_appl_arg k l2) as [v2|] eqn:E; [|discriminate]. apply find_appl_arg_in in E.
    apply in_map_iff. exists (k, v2). split; [reflexivity|exact E]. }
  assert (Hincl2 : incl (map fst l2) (map fst l1)).
  { apply NoDup_length_incl; [exact N1|rewrite !map_length; lia|exact Hincl]. }
  apply forallb_forall. intros [k v2] Hin2. cbn [fst snd].
  assert (Hk : In k (map fst l1)) by (apply Hincl2; apply in_map_iff; exists (k, v2); split; [reflexivity|exact Hin2]).
  apply in_map_iff in Hk. destruct Hk as [[k' v1] [Ek Hin1]]. cbn [fst] in Ek. subst k'.
  rewrite (find_appl_arg_nodup k v1 l1 N1 Hin1).
  specialize (Hf _ Hin1). cbn [fst snd] in Hf. rewrite (find_appl_arg_nodup k v2 l2 N2 Hin2) in Hf.
  rewrite values_equal_sym. exact Hf.
Qed.

(* ---------- applications keyed by (name, how many applications of that name came before) ---------- *)
Fixpoint keyed (seen l : list dirapp) : list ((string * nat) * list (string * option gval)) :=
  match l with
  | [] => []
  | d :: r => ((da_name d, count_named (da_name d) seen), da_args d) :: keyed (seen ++ [d]) r
  end.

Lemma count_named_app name a b : count_named name (a ++ b) = count_named name a + count_named name b.
Proof. induction a as [|d r IH]; cbn [app count_named]; [reflexivity|]. rewrite IH. lia. Qed.

Lemma keyed_length seen l : length (keyed seen l) = length l.
Proof. revert seen. induction l as [|d r IH]; intros seen; cbn [keyed length]; [reflexivity|]. rewrite IH. reflexivity. Qed.

Lemma keyed_bound : forall l seen name k args, In ((name, k), args) (keyed seen l) -> count_named name seen <= k.
Proof.
  induction l as [|d r IH]; intros seen name k args Hin; cbn [keyed] in Hin; [destruct Hin|].
  destruct Hin as [[= <- <- _]|Hin]; [lia|].
  apply IH in Hin. rewrite count_named_app in Hin. lia.
Qed.

Lemma keyed_nodup : forall l seen, NoDup (map fst (keyed seen l)).
Proof.
  induction l as [|d r IH]; intros seen; cbn [keyed map fst]; [constructor|].
  constructor; [|apply IH].
  intros Hin. apply in_map_iff in Hin. destruct Hin as [[[name k] args] [Ek Hin]]. cbn [fst] in Ek. injection Ek as -> ->.
  apply keyed_bound in Hin. rewrite count_named_app in Hin. cbn [count_named] in Hin. rewrite String.eqb_refl in Hin. lia.
Qed.

(* the n-th application of a name is the entry keyed (name, n) *)
Lemma nth_named_keyed : forall l seen n name,
  match nth_named n name l with
  | Some d => In ((name, n + count_named name seen), da_args d) (keyed seen l)
  | None => forall args, ~ In ((name, n + count_named name seen), args) (keyed seen l)
  end.
Proof.
  induction l as [|d r IH]; intros seen n name; cbn [nth_named keyed]; [intros args []|].
  destruct (String.eqb (da_name d) name) eqn:E.
  - apply String.eqb_eq in E. subst name. destruct n as [|n'].
    + left. reflexivity.
    + specialize (IH (seen ++ [d]) n' (da_name d)). rewrite count_named_app in IH. cbn [count_named] in IH. rewrite String.eqb_refl in IH.
      replace (n' + (count_named (da_name d) seen + (1 + 0))) with (S n' + count_named (da_name d) seen) in IH by lia.
      destruct (nth_named n' (da_name d) r) as [d2|].
      * right. exact IH.
      * intros args [Heq|Hin]; [inversion Heq; lia|exact (IH args Hin)].
  - specialize (IH (seen ++ [d]) n name). rewrite count_named_app in IH. cbn [count_named] in IH. rewrite E in IH.
    replace (n + (count_named name seen + (0 + 0))) with (n + count_named name seen) in IH by lia.
    destruct (nth_named n name r) as [d2|].
    + right. exact IH.
    + intros args [Heq|Hin]; [inversion Heq; apply String.eqb_neq in E; congruence|exact (IH args Hin)].
Qed.

Lemma assoc_unique {K V} : forall (l : list (K * V)) k v1 v2,
  NoDup (map fst l) -> In (k, v1) l -> In (k, v2) l -> v1 = v2.
Proof.
  induction l as [|[k' v'] t IH]; intros k v1 v2 Hn H1 H2; [destruct H1|].
  cbn [map fst] in Hn. inversion Hn as [|? ? Hx Ht]; subst.
  destruct H1 as [E1|H1]; destruct H2 as [E2|H2].
  - congruence.
  - inversion E1; subst. exfalso. apply Hx. apply in_map_iff. exists (k, v2). split; [reflexivity|exact H2].
  - inversion E2; subst. exfalso. apply Hx. apply in_map_iff. exists (k, v1). split; [reflexivity|exact H1].
  - exact (IH k v1 v2 Ht H1 H2).
Qed.

Definition key_ok (l2 : list dirapp) (e : (string * nat) * list (string * option gval)) : Prop :=
  exists args2, In (fst e, args2) (keyed [] l2) /\ appl_args_equal (snd e) args2 = true.

Lemma dirs_cmp_spec l2 : forall l1 seen,
  dirs_cmp seen l1 l2 = true <-> Forall (key_ok l2) (keyed seen l1).
Proof.
  induction l1 as [|d1 r IH]; intros seen; cbn [dirs_cmp keyed]; [split; [constructor|reflexivity]|].
  pose proof (nth_named_keyed l2 [] (count_named (da_name d1) seen) (da_name d1)) as Hk.
  cbn [count_named] in Hk. rewrite Nat.add_0_r in Hk.
  destruct (nth_named (count_named (da_name d1) seen) (da_name d1) l2) as [d2|].
  - rewrite andb_true_iff, IH. split.
    + intros [Ha Hr]. constructor; [exists (da_args d2); split; assumption|exact Hr].
    + intros H. inversion H as [|? ? [args2 [Hin Ha]] Hr]; subst. cbn [fst snd] in Hin, Ha.
      split; [|exact Hr].
      (* the entry keyed like this is unique in l2 *)
      assert (args2 = da_args d2) by (exact (assoc_unique _ _ _ _ (keyed_nodup l2 []) Hin Hk)).
      subst args2. exact Ha.
  - split; [discriminate|]. intros H. inversion H as [|? ? [args2 [Hin _]] _]; subst. exfalso. exact (Hk args2 Hin).
Qed.

(* ---------- the comparison is symmetric ---------- *)
Definition args_wf (l : list dirapp) : Prop := Forall (fun d => NoDup (map fst (da_args d))) l.

Lemma keyed_args_wf : forall l seen, args_wf l -> Forall (fun e => NoDup (map fst (snd e))) (keyed seen l).
Proof.
  induction l as [|d r IH]; intros seen Hw; cbn [keyed]; [constructor|].
  inversion Hw as [|? ? Hd Hr]; subst. constructor; [exact Hd|apply IH; exact Hr].
Qed.

Theorem dirlists_equal_sym l1 l2 : args_wf l1 -> args_wf l2 ->
  dirlists_equal l1 l2 = true -> dirlists_equal l2 l1 = true.
Proof.
  unfold dirlists_equal. intros W1 W2 H. apply andb_prop in H. destruct H as [Hl Hc].
  apply Nat.eqb_eq in Hl. apply (dirs_cmp_spec l2 l1 []) in Hc.
  apply andb_true_intro. split; [apply Nat.eqb_eq; lia|]. apply (dirs_cmp_spec l1 l2 []).
  rewrite Forall_forall in Hc.
  assert (Hincl : incl (map fst (keyed [] l1)) (map fst (keyed [] l2))).
  { intros k Hk. apply in_map_iff in Hk. destruct Hk as [e [<- He]]. destruct (Hc e He) as [args2 [Hin _]].
    apply in_map_iff. eexists. split; [|exact Hin]. reflexivity. }
  assert (Hincl2 : incl (map fst (keyed [] l2)) (map fst (keyed [] l1))).
  { apply NoDup_length_incl; [apply keyed_nodup|rewrite !map_length, !keyed_length; lia|exact Hincl]. }
  apply Forall_forall. intros [k args2] He2.
  assert (Hk1 : In k (map fst (keyed [] l1))) by (apply Hincl2; apply in_map_iff; eexists; split; [|exact He2]; reflexivity).
  apply in_map_iff in Hk1. destruct Hk1 as [[k' args1] [Ek He1]]. cbn [fst] in Ek. subst k'.
  destruct (Hc _ He1) as [args2' [Hin2 Ha]]. cbn [fst snd] in Hin2, Ha.
  assert (args2' = args2) by (exact (assoc_unique _ _ _ _ (keyed_nodup l2 []) Hin2 He2)).
  subst args2'. exists args1. split; [exact He1|]. cbn [snd].
  pose proof (keyed_args_wf l1 [] W1) as F1. pose proof (keyed_args_wf l2 [] W2) as F2.
  rewrite Forall_forall in F1, F2.
  apply appl_args_equal_sym; [exact (F1 _ He1)|exact (F2 _ He2)|exact Ha].
Qed.

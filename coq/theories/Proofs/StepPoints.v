(* From the parent's answer to the points of a step.  The parent step answered a list field k with
   the selection l1 and the join id; the reference answer holds, under k, one object per element.
   executorFindInsertionPoints on that answer returns one point per element, "k:<i>#<id>"; each
   point reads back the element's answer; the points pairwise part ways.  With Proofs/StepJoin.v:
   after the dependent step every element of k holds the reference answer to l1, id and the
   step's selection together. *)
From Coq Require Import String List Bool Arith ZArith Lia.
From GW Require Import Base.Res Base.GoStr Base.Json Gql.Syntax Gql.Spec Gw.Points
     Proofs.CodecProofs Proofs.PointsProofs.
From GW Require Import Proofs.StitchSound Proofs.JoinSound Proofs.StepJoin.
Import ListNotations.
Open Scope string_scope.
Open Scope list_scope.

Section Points.
  Variable w : world.
  Variable frags : list fragdef.
  Variable vars : list (string * json).
  Hypothesis world_atomic : atomic_world w vars.
  Variable l1 l2 : list sel.
  Hypothesis good_sub : good (l1 ++ [id_sel]).
  Hypothesis good_l2 : good l2.
  Hypothesis compat_12 : compat (l1 ++ [id_sel]) l2.
  Variable fuel : nat.
  Variable k : string.
  Hypothesis k_clean : clean_key k.

  Notation sub1 := (l1 ++ [id_sel]).
  Notation answer o sels := (exec (S (S fuel)) w frags vars (Some o) (b_type o) sels).

  Definition point_of (i : nat) (o : obj) : string := with_id (enc_elem k i) (b_id o).

  Fixpoint points_from (i : nat) (os : list obj) : list (list string) :=
    match os with [] => [] | o :: r => [point_of i o] :: points_from (S i) r end.

  (* executorFindInsertionPoints on the elements *)
  Lemma entries_of_answers : forall os i,
    find_entries true k (fun _ br => Ok [br]) [] (map (fun o => answer o sub1) os) i = Ok (points_from i os).
  Proof.
    induction os as [|o r IH]; intros i; cbn [map find_entries points_from]; [reflexivity|].
    destruct (answer_has_id w frags vars l1 good_sub fuel o) as [m [Em Eid]].
    rewrite Em. rewrite Eid. cbn [bind fmt_v app]. rewrite IH. cbn [bind app]. reflexivity.
  Qed.

  Lemma cell_point i o : (Z.of_nat i <= int64_max)%Z -> cell (point_of i o) = Some (k, Some (Z.of_nat i)).
  Proof.
    intros Hi. unfold cell, point_of. rewrite (decode_elem_id k i (b_id o) k_clean Hi).
    destruct (list_element_elem_id k i (b_id o) k_clean Hi) as [-> _]. reflexivity.
  Qed.

  Lemma points_diverge : forall os i, (Z.of_nat (i + length os) <= int64_max)%Z ->
    ForallOrdPairs diverge (points_from i os).
  Proof.
    induction os as [|o r IH]; intros i Hb; cbn [points_from]; [constructor|].
    cbn [length] in Hb. constructor; [|apply IH; lia].
    assert (H : forall j, i < j -> (Z.of_nat (j + length r) <= int64_max)%Z ->
                          Forall (diverge [point_of i o]) (points_from j r)).
    { clear IH. induction r as [|o' r' IHr]; intros j Hj Hbj; cbn [points_from]; [constructor|].
      cbn [length] in Hbj. constructor; [|apply IHr; lia].
      eapply dv_index; [apply cell_point; lia|apply cell_point; lia|lia]. }
    apply H; lia.
  Qed.

  (* every point reads back its element *)
  Lemma points_read_back m : forall os pre,
    jget k m = Some (JArr (pre ++ map (fun o => answer o sub1) os)) ->
    (Z.of_nat (length pre + length os) <= int64_max)%Z ->
    Forall (fun o => find_obj (b_id o) (w_objs w) = Some o) os ->
    Forall2 (holds_parent w frags vars l1 fuel (JObj m)) (points_from (length pre) os) os.
  Proof.
    induction os as [|o r IH]; intros pre Hk Hb Hnamed; cbn [points_from]; [constructor|].
    inversion Hnamed as [|? ? Ho Hr]; subst. cbn [length] in Hb. constructor.
    - split; [discriminate|]. split; [exact Ho|].
      cbn [extract_value]. unfold point_of.
      rewrite (decode_elem_id k (length pre) (b_id o) k_clean) by lia. cbn [bind pd_field pd_index].
      destruct (list_element_elem_id k (length pre) (b_id o) k_clean) as [-> _]; [lia|].
      rewrite Hk.
      destruct (Z.of_nat (length pre) <? 0)%Z eqn:E; [apply Z.ltb_lt in E; lia|].
      rewrite Nat2Z.id. unfold rd. rewrite nth_error_app2 by lia. rewrite Nat.sub_diag. reflexivity.
    - replace (S (length pre)) with (length (pre ++ [answer o sub1])) by (rewrite app_length; cbn; lia).
      apply IH; [rewrite <- app_assoc; exact Hk|rewrite app_length; cbn [length]; lia|exact Hr].
  Qed.

  (* One dependent step below a list field, from the parent's answer to the stitched result.  The
     accumulated response holds under k the parent's answers for the objects os (each named by
     its own id, fewer than 2^63 of them).  Then the executor finds one point per element, the
     step's visits all succeed, and afterwards every point holds the reference answer to l1, id
     and l2 together for its element. *)
  Theorem list_step_sound m os nonnull subf :
    jget k m = Some (JArr (map (fun o => answer o sub1) os)) ->
    (Z.of_nat (length os) <= int64_max)%Z ->
    Forall (fun o => find_obj (b_id o) (w_objs w) = Some o) os ->
    exists ps acc',
      find_insertion_points [k] [FS k true nonnull subf] m [] = Ok ps /\
      length ps = length os /\
      join_all w frags vars l2 fuel ps (JObj m) = Ok acc' /\
      Forall2 (holds_joined w frags vars l1 l2 fuel acc') ps os.
  Proof.
    intros Hk Hb Hnamed.
    exists (points_from 0 os).
    assert (Hd : ForallOrdPairs diverge (points_from 0 os)) by (apply points_diverge; cbn; exact Hb).
    assert (Hp : Forall2 (holds_parent w frags vars l1 fuel (JObj m)) (points_from 0 os) os)
      by (apply (points_read_back m os []); [exact Hk|cbn; exact Hb|exact Hnamed]).
    destruct (step_is_sound_and_total w frags vars world_atomic l1 l2 good_sub good_l2 compat_12 fuel _ _ _ Hd Hp) as [acc' [Hrun Hall]].
    exists acc'. split; [|split; [|split; [exact Hrun|exact Hall]]].
    - unfold find_insertion_points. cbn [length Nat.ltb Nat.leb skipn find_points find_selection fs_key].
      rewrite String.eqb_refl. rewrite Hk.
      apply entries_of_answers.
    - clear. generalize 0. induction os as [|o r IH]; intros i; cbn [points_from length]; [reflexivity|]. rewrite IH. reflexivity.
  Qed.

  (* the same below a field that answers one object: the point is "k#<id>" *)
  Theorem object_step_sound m o nonnull subf :
    k <> "" ->
    jget k m = Some (answer o sub1) ->
    find_obj (b_id o) (w_objs w) = Some o ->
    exists acc',
      find_insertion_points [k] [FS k false nonnull subf] m [] = Ok [[with_id k (b_id o)]] /\
      join_all w frags vars l2 fuel [[with_id k (b_id o)]] (JObj m) = Ok acc' /\
      holds_joined w frags vars l1 l2 fuel acc' [with_id k (b_id o)] o.
  Proof.
    intros Hne Hk Hnamed.
    destruct (answer_has_id w frags vars l1 good_sub fuel o) as [mo [Em Eid]].
    assert (Hp : Forall2 (holds_parent w frags vars l1 fuel (JObj m)) [[with_id k (b_id o)]] [o]).
    { constructor; [|constructor]. split; [discriminate|]. split; [exact Hnamed|].
      cbn [extract_value]. rewrite (decode_key_id k (b_id o) k_clean). cbn [bind pd_field].
      destruct (list_element_key_id k (b_id o) k_clean Hne) as [-> _].
      rewrite Hk. rewrite Em. reflexivity. }
    assert (Hd : ForallOrdPairs diverge [[with_id k (b_id o)]]) by (constructor; constructor).
    destruct (step_is_sound_and_total w frags vars world_atomic l1 l2 good_sub good_l2 compat_12 fuel _ _ _ Hd Hp) as [acc' [Hrun Hall]].
    exists acc'. split; [|split; [exact Hrun|inversion Hall; assumption]].
    unfold find_insertion_points. cbn [length Nat.ltb Nat.leb skipn find_points find_selection fs_key].
    rewrite String.eqb_refl. rewrite Hk. rewrite Em. rewrite Eid. cbn [fmt_v app]. reflexivity.
  Qed.

  (* ... and the reference answer to a list field has that shape *)
  Lemma answer_of_list_field po rt args os :
    k <> "" ->
    resolve w vars po rt (to_c (Field "" k args [] sub1)) = FList (map (fun o => FRef (b_id o)) os) ->
    Forall (fun o => find_obj (b_id o) (w_objs w) = Some o) os ->
    exec (S (S (S fuel))) w frags vars po rt [Field "" k args [] sub1] =
    JObj [(k, JArr (map (fun o => answer o sub1) os))].
  Proof.
    intros Hne Hres Hnamed. rewrite exec_unfold.
    rewrite collect_plain by (constructor; [exact I|constructor]).
    cbn [fst fold_left]. rewrite add_c_fresh by (intros []). cbn [app map]. rewrite Hres.
    assert (Ekey : c_key (to_c (Field "" k args [] sub1)) = k).
    { cbn [to_c c_key key_of]. unfold rkey. destruct k; [congruence|reflexivity]. }
    rewrite Ekey. cbn [c_sub to_c sub_of complete_with]. f_equal. f_equal. f_equal. f_equal.
    rewrite map_map. clear Hres. induction Hnamed as [|o r Ho Hr IH]; cbn [map]; [reflexivity|].
    cbn [complete_with]. rewrite Ho. f_equal. exact IH.
  Qed.

  Corollary list_field_step_sound po rt args os nonnull subf :
    k <> "" ->
    resolve w vars po rt (to_c (Field "" k args [] sub1)) = FList (map (fun o => FRef (b_id o)) os) ->
    Forall (fun o => find_obj (b_id o) (w_objs w) = Some o) os ->
    (Z.of_nat (length os) <= int64_max)%Z ->
    exists m ps acc',
      exec (S (S (S fuel))) w frags vars po rt [Field "" k args [] sub1] = JObj m /\
      find_insertion_points [k] [FS k true nonnull subf] m [] = Ok ps /\
      length ps = length os /\
      join_all w frags vars l2 fuel ps (JObj m) = Ok acc' /\
      Forall2 (holds_joined w frags vars l1 l2 fuel acc') ps os.
  Proof.
    intros Hne Hres Hnamed Hb.
    rewrite (answer_of_list_field po rt args os Hne Hres Hnamed).
    eexists. 
    destruct (list_step_sound [(k, JArr (map (fun o => answer o sub1) os))] os nonnull subf) as [ps [acc' H]];
      [cbn [jget]; rewrite String.eqb_refl; reflexivity|exact Hb|exact Hnamed|].
    exists ps, acc'. split; [reflexivity|exact H].
  Qed.
End Points.

(* the premises can be met *)
Example list_field_example :
  let u1 := {| b_id := "u1"; b_type := "User"; b_fields := [("name", FScalar (JStr "ann")); ("photo", FScalar (JStr "a.png"))] |} in
  let u2 := {| b_id := "u:2#x"; b_type := "User"; b_fields := [("name", FScalar (JStr "bob")); ("photo", FScalar (JStr "b.png"))] |} in
  let w := {| w_objs := [u1; u2]; w_roots := [("Query.users", FList [FRef "u1"; FRef "u:2#x"])]; w_possible := []; w_ftypes := [] |} in
  let l1 := [Field "" "name" [] [] []] in
  atomic_world w [] /\ clean_key "users" /\
  resolve w [] None "Query" (to_c (Field "" "users" [] [] (l1 ++ [id_sel]))) = FList (map (fun o => FRef (b_id o)) [u1; u2]) /\
  Forall (fun o => find_obj (b_id o) (w_objs w) = Some o) [u1; u2] /\
  find_insertion_points ["users"] [FS "users" true false []]
    (match exec 5 w [] [] None "Query" [Field "" "users" [] [] (l1 ++ [id_sel])] with JObj m => m | _ => [] end) [] =
    Ok [["users:0#u1"]; ["users:1#u:2#x"]].
Proof.
  cbv zeta. split; [apply atomic_world_intro; cbn; repeat constructor|]. split; [split; reflexivity|]. split; [reflexivity|]. split; [repeat constructor|]. vm_compute. reflexivity.
Qed.

(* The merged definition of a name is the union of its definitions (C03), and is therefore
   determined, up to field order and descriptions, by the *set* of definitions (C10). *)
From Coq Require Import String Ascii List Bool Arith Lia Permutation.
From GW Require Import Base.Res Base.GoStr Gql.Schema Gw.Merge Gw.MergeCheck Proofs.MergeBasics Proofs.MergeProofs.
Import ListNotations.
Open Scope string_scope.
Open Scope list_scope.

(* ---- nothing but the fields of the two sides ends up in an object ---- *)

Lemma find_replace_field_names m acc n :
  find_field n (replace_field m acc) <> None -> find_field n acc <> None.
Proof.
  induction acc as [|g r IH]; simpl; auto.
  destruct (String.eqb (fd_name g) (fd_name m)) eqn:E; simpl.
  - apply String.eqb_eq in E. rewrite E. destruct (String.eqb (fd_name m) n); [intros _; discriminate|auto].
  - destruct (String.eqb (fd_name g) n); [intros _; discriminate|auto].
Qed.

Lemma merge_object_fields_only : forall news acc out,
  merge_object_fields acc news = Ok out ->
  forall n, find_field n out <> None -> find_field n acc <> None \/ find_field n news <> None.
Proof.
  induction news as [|nf r IH]; intros acc out H n Hn; simpl in H.
  - injection H as <-. auto.
  - destruct (find_field (fd_name nf) acc) as [pf|] eqn:Ef.
    + destruct (merge_field pf nf) as [m| |] eqn:Em; simpl in H; try discriminate.
      destruct (IH _ _ H n Hn) as [Ha|Hr].
      * left. eapply find_replace_field_names; eauto.
      * right. simpl. destruct (String.eqb (fd_name nf) n); [discriminate|exact Hr].
    + destruct (IH _ _ H n Hn) as [Ha|Hr].
      * rewrite find_app_one in Ha. destruct (find_field n acc) eqn:E; [left; discriminate|].
        right. simpl. destruct (String.eqb (fd_name nf) n); [discriminate|contradiction].
      * right. simpl. destruct (String.eqb (fd_name nf) n); [discriminate|exact Hr].
Qed.

Lemma In_insert_sorted x y l : In x (insert_sorted y l) <-> x = y \/ In x l.
Proof.
  induction l as [|z r IH]; simpl; [split; intros [H|H]; auto; contradiction|].
  destruct (String.eqb y z) eqn:E.
  - apply String.eqb_eq in E. subst. simpl. split; [tauto|intros [->|H]; auto].
  - destruct (String.ltb y z); simpl; [split; intros [H|H]; auto|].
    rewrite IH. split; [intros [H|[H|H]]; auto|intros [H|[H|H]]; auto].
Qed.

Lemma In_sort_union x a b : In x (sort_union a b) <-> In x a \/ In x b.
Proof.
  unfold sort_union. rewrite <- in_app_iff. generalize (a ++ b). intros l.
  induction l as [|y r IH]; simpl; [tauto|]. rewrite In_insert_sorted, IH. split; intros [H|H]; auto.
Qed.

(* ---- invariants of the fold over the definitions of one object type ---- *)

Definition fields_from (p : definition) (S : list definition) : Prop :=
  forall n m, find_field n (df_fields p) = Some m ->
              exists x f, In x S /\ find_field n (df_fields x) = Some f /\ fsame m f.

Definition ifaces_from (p : definition) (S : list definition) : Prop :=
  forall i, In i (df_ifaces p) <-> exists x, In x S /\ In i (df_ifaces x).

Lemma merge_objects_ifaces p n p' : merge_objects p n = Ok p' ->
  df_ifaces p' = sort_union (df_ifaces p) (df_ifaces n).
Proof.
  unfold merge_objects. destruct (merge_object_fields _ _); simpl; try discriminate.
  destruct (negb _); [discriminate|]. intros [= <-]. reflexivity.
Qed.

Lemma object_group_union : forall ds p out S,
  merge_group p ds = Ok out -> df_kind p = KObject ->
  Forall ok_def ds -> Forall wf_field (df_fields p) ->
  fields_from p S -> ifaces_from p S ->
  fields_from out (S ++ ds) /\ ifaces_from out (S ++ ds).
Proof.
  induction ds as [|n r IH]; intros p out S H Hk Hok Hwp Hf Hi.
  - simpl in H. injection H as <-. rewrite app_nil_r. auto.
  - simpl in H. destruct (merge2 p n) as [p'| |] eqn:E; simpl in H; try discriminate.
    inversion Hok as [|? ? [Hin (Hndn & Hwfn & _)] Hok']; subst.
    assert (Em: merge_objects p n = Ok p').
    { unfold merge2 in E. rewrite Hin in E.
      destruct (kind_eqb (df_kind p) (df_kind n)) eqn:Ek; simpl in E; [|discriminate].
      apply kind_eqb_eq in Ek. rewrite <- Ek, Hk in E. exact E. }
    destruct (merge_objects_ok _ _ _ Em Hndn Hwp Hwfn) as (A & B & C & D & Ek' & _).
    assert (Hf': fields_from p' (S ++ [n])).
    { intros nm m' Hm'.
      assert (Hne: find_field nm (df_fields p') <> None) by congruence.
      unfold merge_objects in Em.
      destruct (merge_object_fields (df_fields p) (df_fields n)) as [fs| |] eqn:Efs; simpl in Em; try discriminate.
      destruct (negb _) in Em; [discriminate|]. injection Em as <-. simpl in *.
      destruct (merge_object_fields_only _ _ _ Efs nm Hne) as [Hp|Hn].
      - destruct (find_field nm (df_fields p)) as [m|] eqn:Epm; [|congruence].
        destruct (A nm m Epm) as [m'' [Hm'' Hs]]. rewrite Hm' in Hm''. injection Hm'' as <-.
        destruct (Hf nm m Epm) as [x [f [Hx [Hxf Hs2]]]].
        exists x, f. split; [apply in_or_app; left; exact Hx|split; [exact Hxf|eapply fsame_trans; eauto]].
      - destruct (find_field nm (df_fields n)) as [g|] eqn:Eng; [|congruence].
        destruct (B nm g Eng) as [m'' [Hm'' Hs]]. rewrite Hm' in Hm''. injection Hm'' as <-.
        exists n, g. split; [apply in_or_app; right; left; reflexivity|split; [exact Eng|exact Hs]]. }
    assert (Hi': ifaces_from p' (S ++ [n])).
    { intros i. rewrite (merge_objects_ifaces _ _ _ Em), In_sort_union. split.
      - intros [Hp|Hn].
        + apply Hi in Hp. destruct Hp as [x [Hx Hxi]]. exists x. split; [apply in_or_app; left; exact Hx|exact Hxi].
        + exists n. split; [apply in_or_app; right; left; reflexivity|exact Hn].
      - intros [x [Hx Hxi]]. apply in_app_or in Hx. destruct Hx as [Hx|[<-|[]]].
        + left. apply Hi. exists x. auto.
        + right. exact Hxi. }
    destruct (IH _ _ _ H (eq_trans Ek' Hk) Hok' D Hf' Hi') as [F G].
    rewrite <- app_assoc in F, G. simpl in F, G. auto.
Qed.

Lemma merge_group_covers : forall ds p out earlier,
  merge_group p ds = Ok out ->
  is_internal_name (df_name p) = false -> wf_acc p -> Forall ok_def ds ->
  (forall d, In d earlier -> covers p d) ->
  (forall d, In d (earlier ++ ds) -> covers out d).
Proof.
  induction ds as [|n r IH]; intros p out earlier H Hip Hwp Hok Hcov d Hd.
  - simpl in H. injection H as <-. rewrite app_nil_r in Hd. auto.
  - simpl in H. destruct (merge2 p n) as [p'| |] eqn:E; simpl in H; try discriminate.
    inversion Hok as [|? ? [Hin Hwn] Hok']; subst.
    destruct (merge2_step _ _ _ E Hin Hip Hwp Hwn) as (Hwp' & Hname & Hkind & Hcn & Hstep).
    assert (Hip': is_internal_name (df_name p') = false) by (rewrite Hname; exact Hip).
    apply (IH _ _ (earlier ++ [n]) H Hip' Hwp' Hok').
    + intros x Hx. apply in_app_or in Hx. destruct Hx as [Hx|[<-|[]]]; [apply Hstep; auto|exact Hcn].
    + rewrite <- app_assoc. exact Hd.
Qed.

(* C03, per name: the merged definition contains every definition of the group with the same
   signature, and (objects) nothing that does not come from one of them *)
Theorem group_is_union d ds out :
  merge_group d ds = Ok out -> Forall ok_def (d :: ds) ->
  (forall x, In x (d :: ds) -> covers out x) /\
  (df_kind d = KObject -> fields_from out (d :: ds) /\ ifaces_from out (d :: ds)).
Proof.
  intros H Hok. inversion Hok as [|? ? [Hin Hwf] Hok']; subst. split.
  - apply (merge_group_covers ds d out [d] H Hin (wf_def_acc _ Hwf) Hok').
    intros x [<-|[]]. apply covers_self.
  - intros Hk. apply (object_group_union ds d out [d] H Hk Hok'); [apply Hwf| |].
    + intros n m Hm. exists d, m. split; [left; reflexivity|split; [exact Hm|apply fsame_refl]].
    + intros i. split; [intros Hi; exists d; split; [left; reflexivity|exact Hi]|intros [x [[<-|[]] Hi]]; exact Hi].
Qed.

(* C10, per name: whatever the order in which the definitions of a name are met, when the merge
   succeeds its result is the same up to the order of fields and descriptions *)
Definition same_typesystem (a b : definition) : Prop :=
  df_kind a = df_kind b /\
  match df_kind a with
  | KObject => fl_same (df_fields a) (df_fields b) /\ (forall i, In i (df_ifaces a) <-> In i (df_ifaces b))
  | _ => drel a b
  end.

Lemma covers_kind p d : covers p d -> df_kind p = df_kind d.
Proof. intros [H _]. exact H. Qed.

Theorem group_result_order_independent d ds d' ds' o1 o2 :
  merge_group d ds = Ok o1 -> merge_group d' ds' = Ok o2 ->
  Permutation (d :: ds) (d' :: ds') -> Forall ok_def (d :: ds) ->
  same_typesystem o1 o2.
Proof.
  intros H1 H2 Hperm Hok.
  assert (Hok': Forall ok_def (d' :: ds')) by (eapply Permutation_Forall; eauto).
  destruct (group_is_union _ _ _ H1 Hok) as [C1 U1]. destruct (group_is_union _ _ _ H2 Hok') as [C2 U2].
  assert (Hd2: In d (d' :: ds')) by (eapply Permutation_in; [exact Hperm|left; reflexivity]).
  assert (Hd'1: In d' (d :: ds)) by (eapply Permutation_in; [apply Permutation_sym; exact Hperm|left; reflexivity]).
  pose proof (C1 d (or_introl eq_refl)) as Cd1. pose proof (C2 d Hd2) as Cd2.
  assert (Hk1: df_kind o1 = df_kind d) by (apply covers_kind; exact Cd1).
  assert (Hk2: df_kind o2 = df_kind d) by (apply covers_kind; exact Cd2).
  assert (Hkd: df_kind d' = df_kind d) by (rewrite <- (covers_kind _ _ (C1 d' Hd'1)); exact Hk1).
  split; [congruence|]. rewrite Hk1.
  destruct (df_kind d) eqn:Kd;
    try (destruct Cd1 as [_ R1], Cd2 as [_ R2]; rewrite Kd in R1, R2;
         eapply drel_trans; [congruence|exact R1|apply drel_sym; exact R2]).
  (* objects *)
  destruct (U1 eq_refl) as [F1 I1]. destruct (U2 Hkd) as [F2 I2].
  assert (Hmem: forall x, In x (d :: ds) <-> In x (d' :: ds')).
  { intros x. split; intros Hx; [eapply Permutation_in; [exact Hperm|exact Hx]|
                                 eapply Permutation_in; [apply Permutation_sym; exact Hperm|exact Hx]]. }
  assert (Hobj: forall x, In x (d :: ds) -> df_kind x = KObject).
  { intros x Hx. rewrite <- (covers_kind _ _ (C1 x Hx)). exact Hk1. }
  split.
  - intros n. destruct (find_field n (df_fields o1)) as [m1|] eqn:E1; destruct (find_field n (df_fields o2)) as [m2|] eqn:E2; simpl; auto.
    + destruct (F1 n m1 E1) as [x [f [Hx [Hf Hs]]]].
      pose proof (C2 x (proj1 (Hmem x) Hx)) as [_ Cx]. rewrite (Hobj x Hx) in Cx.
      destruct (Cx n f Hf) as [m2' [Hm2' Hs2]]. rewrite E2 in Hm2'. injection Hm2' as <-.
      eapply fsame_trans; [exact Hs|apply fsame_sym; exact Hs2].
    + destruct (F1 n m1 E1) as [x [f [Hx [Hf Hs]]]].
      pose proof (C2 x (proj1 (Hmem x) Hx)) as [_ Cx]. rewrite (Hobj x Hx) in Cx.
      destruct (Cx n f Hf) as [m2' [Hm2' _]]. congruence.
    + destruct (F2 n m2 E2) as [x [f [Hx [Hf Hs]]]].
      pose proof (C1 x (proj2 (Hmem x) Hx)) as [_ Cx]. rewrite (Hobj x (proj2 (Hmem x) Hx)) in Cx.
      destruct (Cx n f Hf) as [m1' [Hm1' _]]. congruence.
  - intros i. split; intros Hi.
    + apply I1 in Hi. destruct Hi as [x [Hx Hxi]]. apply I2. exists x. split; [apply Hmem; exact Hx|exact Hxi].
    + apply I2 in Hi. destruct Hi as [x [Hx Hxi]]. apply I1. exists x. split; [apply Hmem; exact Hx|exact Hxi].
Qed.

(* ---------- all the definitions of all the services (C03) ---------- *)

Lemma merge_types_unfold all out :
  merge_types all = Ok out ->
  exists mi mo,
    Forall2 (fun g i => merge_named_group g = Ok i) (group_by df_name (filter is_iface all)) mi /\
    Forall2 (fun g o => match find_def (fst g) mi with
                        | Some i => merge_group i (snd g)
                        | None => merge_named_group g
                        end = Ok o) (group_by df_name (filter (fun d => negb (is_iface d)) all)) mo /\
    out = filter (fun i => negb (str_mem (df_name i) (map fst (group_by df_name (filter (fun d => negb (is_iface d)) all))))) mi ++ mo.
Proof.
  unfold merge_types. intros H.
  destruct (res_map merge_named_group (group_by df_name (filter is_iface all))) as [mi| |] eqn:Ei; simpl in H; try discriminate.
  match type of H with (bind ?X _ = _) => destruct X as [mo| |] eqn:Eo; simpl in H; try discriminate end.
  injection H as <-. exists mi, mo. split; [apply res_map_ok_elems; exact Ei|split; [apply res_map_ok_elems; exact Eo|reflexivity]].
Qed.

Lemma group_key_names {A} (name : A -> string) l k xs x :
  In (k, xs) (group_by name l) -> In x xs -> name x = k /\ In x l.
Proof.
  intros Hg Hx. apply group_by_In in Hg. destruct Hg as [_ ->]. apply filter_In in Hx.
  destruct Hx as [Hx E]. apply String.eqb_eq in E. auto.
Qed.

(* a merged interface carries its group key as name and is an interface *)
Lemma merged_iface_facts all g i :
  In g (group_by df_name (filter is_iface all)) -> merge_named_group g = Ok i ->
  df_name i = fst g /\ df_kind i = KInterface.
Proof.
  intros Hg Hm. destruct g as [k xs]. apply merge_named_group_ok in Hm. destruct Hm as [d [ds [Hs Hm]]]. simpl in Hs.
  destruct (merge_group_name_kind _ _ _ Hm) as [Hn Hk].
  assert (Hd: In d xs) by (rewrite Hs; left; reflexivity).
  destruct (group_key_names _ _ _ _ _ Hg Hd) as [Hdn Hdin]. apply filter_In in Hdin.
  destruct Hdin as [_ Hdi]. apply is_iface_kind in Hdi. simpl. split; congruence.
Qed.

Theorem merge_types_contains all out d :
  merge_types all = Ok out -> Forall wf_def all -> In d all -> is_internal_name (df_name d) = false ->
  exists m, In m out /\ df_name m = df_name d /\ covers m d.
Proof.
  intros H Hwf Hd Hint. destruct (merge_types_unfold _ _ H) as (mi & mo & Ei & Eo & ->).
  set (ifs := filter is_iface all) in *. set (ots := filter (fun d => negb (is_iface d)) all) in *.
  set (k := df_name d) in *.
  assert (Hokd: forall l, incl l all -> Forall ok_def (filter (fun x => String.eqb (df_name x) k) l)).
  { intros l Hl. apply Forall_forall. intros x Hx. apply filter_In in Hx. destruct Hx as [Hx E].
    apply String.eqb_eq in E. split; [rewrite E; exact Hint|]. rewrite Forall_forall in Hwf. apply Hwf. apply Hl. exact Hx. }
  assert (Hifs: incl ifs all) by (intros x Hx; apply filter_In in Hx; tauto).
  assert (Hots: incl ots all) by (intros x Hx; apply filter_In in Hx; tauto).
  (* a second-pass group named k that exists forces find_def k mi = None *)
  assert (Hclash: forall x, In x ots -> df_name x = k -> find_def k mi = None).
  { intros x Hx Hxn. destruct (find_def k mi) as [i'|] eqn:Ef; [exfalso|reflexivity].
    pose proof (find_def_Some _ _ _ Ef) as [Hi' _].
    destruct (Forall2_In_r Ei Hi') as [g' [Hg' Hm']]. destruct (merged_iface_facts _ _ _ Hg' Hm') as [_ Hki].
    assert (Hg: In (k, filter (fun y => String.eqb (df_name y) k) ots) (group_by df_name ots)).
    { apply group_by_In. split; auto. rewrite <- Hxn. apply in_map. exact Hx. }
    destruct (Forall2_In_l Eo Hg) as [o [_ Hmo]]. simpl in Hmo. rewrite Ef in Hmo.
    destruct (filter (fun y => String.eqb (df_name y) k) ots) as [|d0 ds] eqn:Ex.
    - assert (Hin: In x (filter (fun y => String.eqb (df_name y) k) ots))
        by (apply filter_In; split; [exact Hx|rewrite Hxn; apply String.eqb_refl]).
      rewrite Ex in Hin. contradiction.
    - assert (Hd0: In d0 (filter (fun y => String.eqb (df_name y) k) ots)) by (rewrite Ex; left; reflexivity).
      apply filter_In in Hd0. destruct Hd0 as [Hd0 E]. apply String.eqb_eq in E.
      apply filter_In in Hd0. destruct Hd0 as [_ Hd0]. apply negb_true_iff in Hd0.
      apply (merge_group_kind_mismatch i' d0 ds o); auto.
      + rewrite E. exact Hint.
      + rewrite Hki. intros Hc. symmetry in Hc. apply is_iface_kind in Hc. congruence. }
  destruct (is_iface d) eqn:Id.
  - (* an interface: its group of the first pass; no second-pass group may carry its name *)
    assert (Hg: In (k, filter (fun x => String.eqb (df_name x) k) ifs) (group_by df_name ifs)).
    { apply group_by_In. split; auto. apply in_map. apply filter_In. auto. }
    destruct (Forall2_In_l Ei Hg) as [i [Hi Hm]].
    destruct (merged_iface_facts _ _ _ Hg Hm) as [Hni _]. simpl in Hni.
    pose proof Hm as Hm0. apply merge_named_group_ok in Hm. destruct Hm as [d0 [ds [Hs Hm]]]. simpl in Hs.
    pose proof (Hokd ifs Hifs) as Hok. rewrite Hs in Hok.
    destruct (group_is_union _ _ _ Hm Hok) as [Hc _].
    exists i. split; [|split; [exact Hni|]].
    + apply in_or_app. left. apply filter_In. split; [exact Hi|]. apply negb_true_iff.
      destruct (str_mem (df_name i) (map fst (group_by df_name ots))) eqn:Em; [exfalso|reflexivity].
      apply str_mem_In in Em. apply in_map_iff in Em. destruct Em as [[k' xs] [Ek' Hg']]. simpl in Ek'.
      pose proof Hg' as Hg''. apply group_by_In in Hg'. destruct Hg' as [Hk' _].
      apply in_map_iff in Hk'. destruct Hk' as [x [Hxn Hx]].
      assert (Hnone: find_def k mi = None) by (apply (Hclash x Hx); congruence).
      apply (find_def_None _ _ Hnone i Hi). exact Hni.
    + apply Hc. rewrite <- Hs. apply filter_In. split; [apply filter_In; auto|apply String.eqb_refl].
  - (* not an interface: its group of the second pass, merged on its own *)
    assert (Hdo: In d ots) by (apply filter_In; rewrite Id; auto).
    assert (Hg: In (k, filter (fun x => String.eqb (df_name x) k) ots) (group_by df_name ots)).
    { apply group_by_In. split; auto. apply in_map. exact Hdo. }
    destruct (Forall2_In_l Eo Hg) as [o [Ho Hm]]. simpl in Hm. rewrite (Hclash d Hdo eq_refl) in Hm.
    apply merge_named_group_ok in Hm. destruct Hm as [d0 [ds [Hs Hm]]]. simpl in Hs.
    pose proof (Hokd ots Hots) as Hok. rewrite Hs in Hok.
    destruct (group_is_union _ _ _ Hm Hok) as [Hc _].
    destruct (merge_group_name_kind _ _ _ Hm) as [Hno _].
    assert (Hd0: In d0 (filter (fun x => String.eqb (df_name x) k) ots)) by (rewrite Hs; left; reflexivity).
    apply filter_In in Hd0. destruct Hd0 as [_ E0]. apply String.eqb_eq in E0.
    exists o. split; [apply in_or_app; right; exact Ho|split; [congruence|]].
    apply Hc. rewrite <- Hs. apply filter_In. split; [exact Hdo|apply String.eqb_refl].
Qed.

Theorem merge_types_only all out m :
  merge_types all = Ok out -> Forall wf_def all -> In m out ->
  is_internal_name (df_name m) = false -> df_kind m = KObject ->
  (forall n f, find_field n (df_fields m) = Some f ->
     exists d g, In d all /\ df_name d = df_name m /\ find_field n (df_fields d) = Some g /\ fsame f g) /\
  (forall i, In i (df_ifaces m) <-> exists d, In d all /\ df_name d = df_name m /\ df_kind d = KObject /\ In i (df_ifaces d)).
Proof.
  intros H Hwf Hm Hint Hk. destruct (merge_types_unfold _ _ H) as (mi & mo & Ei & Eo & ->).
  set (ots := filter (fun d => negb (is_iface d)) all) in *.
  apply in_app_or in Hm. destruct Hm as [Hm|Hm].
  { exfalso. apply filter_In in Hm. destruct Hm as [Hm _].
    destruct (Forall2_In_r Ei Hm) as [g [Hg Hmg]]. destruct (merged_iface_facts _ _ _ Hg Hmg) as [_ Hki]. congruence. }
  destruct (Forall2_In_r Eo Hm) as [[k xs] [Hg Hmg]]. simpl in Hmg.
  destruct (find_def k mi) as [i|] eqn:Ef.
  { exfalso. apply find_def_Some in Ef. destruct Ef as [Hi _].
    destruct (Forall2_In_r Ei Hi) as [g' [Hg' Hm']]. destruct (merged_iface_facts _ _ _ Hg' Hm') as [_ Hki].
    destruct (merge_group_name_kind _ _ _ Hmg) as [_ Hkm]. congruence. }
  apply merge_named_group_ok in Hmg. destruct Hmg as [d0 [ds [Hs Hmg]]]. simpl in Hs. subst xs.
  destruct (merge_group_name_kind _ _ _ Hmg) as [Hn0 Hk0].
  assert (Hmem: forall x, In x (d0 :: ds) -> df_name x = k /\ In x all).
  { intros x Hx. destruct (group_key_names _ _ _ _ _ Hg Hx) as [A B]. split; [exact A|].
    apply filter_In in B. tauto. }
  assert (Hkk: k = df_name m) by (destruct (Hmem d0 (or_introl eq_refl)); congruence).
  assert (Hok: Forall ok_def (d0 :: ds)).
  { apply Forall_forall. intros x Hx. destruct (Hmem x Hx) as [A B]. split; [rewrite A, Hkk; exact Hint|].
    rewrite Forall_forall in Hwf. apply Hwf. exact B. }
  destruct (group_is_union _ _ _ Hmg Hok) as [Hc Hu]. destruct (Hu (eq_trans (eq_sym Hk0) Hk)) as [F I]. split.
  - intros n f Hf. destruct (F n f Hf) as [x [g [Hx [Hg' Hs]]]]. destruct (Hmem x Hx) as [A B].
    exists x, g. split; [exact B|split; [congruence|split; [exact Hg'|exact Hs]]].
  - intros i. split.
    + intros Hi. apply I in Hi. destruct Hi as [x [Hx Hxi]]. destruct (Hmem x Hx) as [A B].
      exists x. split; [exact B|split; [congruence|split; [|exact Hxi]]].
      rewrite <- (covers_kind _ _ (Hc x Hx)). exact Hk.
    + intros [d [Hd [Hdn [Hdk Hdi]]]]. apply I. exists d. split; [|exact Hdi].
      assert (Hdo: In d ots) by (apply filter_In; split; [exact Hd|apply negb_true_iff;
        destruct (is_iface d) eqn:E; [apply is_iface_kind in E; congruence|reflexivity]]).
      apply group_by_In in Hg. destruct Hg as [_ Hxs]. rewrite Hxs. apply filter_In.
      split; [exact Hdo|apply String.eqb_eq; congruence].
Qed.

(* Proofs about Gw/Inject.v: the code's walk computes the reference application of a
   multipart map entry, never panics, and the reference changes exactly the named
   position. *)
From Coq Require Import String Ascii List ZArith Bool Lia.
From GW Require Import Base.Res Base.GoStr Base.Json Gw.Inject.
Import ListNotations.
Open Scope string_scope.
Open Scope list_scope.

(* ---------- reference: what put_c changes ---------- *)

Lemma step_eqb_eq a b : step_eqb a b = true <-> a = b.
Proof.
  destruct a as [x|x], b as [y|y]; simpl; try (split; [discriminate|discriminate]).
  - rewrite String.eqb_eq. split; congruence.
  - rewrite Nat.eqb_eq. split; congruence.
Qed.

Lemma child_put_child_same j s c v : child j s = Some c -> child (put_child j s v) s = Some v.
Proof.
  destruct j; destruct s; simpl; try discriminate.
  - intros H. apply nth_error_upd_nth_eq. apply nth_error_Some. congruence.
  - intros _. apply jget_jset_eq.
Qed.

Lemma child_put_child_other j s s' v : s <> s' -> child (put_child j s v) s' = child j s'.
Proof.
  destruct j; destruct s; destruct s'; simpl; auto.
  - intros H. apply nth_error_upd_nth_neq. congruence.
  - intros H. apply jget_jset_neq. congruence.
Qed.

Lemma get_put_same j : forall cp v, get_c j cp <> None -> get_c (put_c j cp v) cp = Some v.
Proof.
  intros cp; revert j; induction cp as [|s r IH]; intros j v H; simpl in *; auto.
  destruct (child j s) as [c|] eqn:E; [|congruence].
  erewrite child_put_child_same by eassumption. apply IH. exact H.
Qed.

(* every position that is not on the way to the target keeps its value *)
Lemma get_put_frame j : forall cp cq v,
  is_prefix cq cp = false -> is_prefix cp cq = false ->
  get_c (put_c j cp v) cq = get_c j cq.
Proof.
  intros cp; revert j; induction cp as [|s r IH]; intros j cq v H1 H2; simpl in *; [discriminate|].
  destruct cq as [|t q]; simpl in *; [discriminate|].
  destruct (child j s) as [c|] eqn:E; [|reflexivity].
  destruct (step_eqb t s) eqn:Ets.
  - apply step_eqb_eq in Ets; subst t. simpl in *.
    assert (Hs: step_eqb s s = true) by (apply step_eqb_eq; reflexivity).
    rewrite Hs in H2. simpl in *.
    erewrite child_put_child_same by eassumption. rewrite E. apply IH; assumption.
  - assert (s <> t) by (intros ->; assert (step_eqb t t = true) by (apply step_eqb_eq; auto); congruence).
    rewrite child_put_child_other by assumption. reflexivity.
Qed.

Definition is_leaf (j : json) : bool :=
  match j with JObj _ | JArr _ => false | _ => true end.

Lemma get_c_leaf j q : is_leaf j = true -> q <> [] -> get_c j q = None.
Proof. destruct j; simpl; try discriminate; destruct q as [|[k|n] q]; simpl; congruence. Qed.

Lemma get_c_app j : forall p q, get_c j (p ++ q) = match get_c j p with Some v => get_c v q | None => None end.
Proof.
  intros p; revert j; induction p as [|s p IH]; intros j q; simpl; auto.
  destruct (child j s); auto.
Qed.

Lemma is_prefix_app a : forall b, is_prefix a b = true -> exists q, b = a ++ q.
Proof.
  induction a as [|x a IH]; intros b H; simpl in *; [exists b; reflexivity|].
  destruct b as [|y b]; [discriminate|]. apply andb_true_iff in H. destruct H as [E H].
  apply step_eqb_eq in E; subst y. destruct (IH _ H) as [q ->]. exists q; reflexivity.
Qed.

Lemma is_prefix_refl a : is_prefix a a = true.
Proof. induction a as [|x a IH]; simpl; auto. rewrite IH, andb_true_r. apply step_eqb_eq; reflexivity. Qed.

(* The frame property in the form the multipart convention needs it: when a null position
   receives a file (a leaf), every position other than the prefixes of the target reads
   exactly as before. *)
Lemma put_null_frame j cp cq file :
  get_c j cp = Some JNull -> is_leaf file = true ->
  is_prefix cq cp = false ->
  get_c (put_c j cp file) cq = get_c j cq.
Proof.
  intros Hnull Hleaf Hpre.
  destruct (is_prefix cp cq) eqn:E.
  - apply is_prefix_app in E. destruct E as [q ->].
    assert (q <> []) by (intros ->; rewrite app_nil_r, is_prefix_refl in Hpre; discriminate).
    rewrite !get_c_app, Hnull. rewrite get_put_same by congruence.
    rewrite !get_c_leaf; auto.
  - apply get_put_frame; assumption.
Qed.

(* prefixes of the target keep their shape: same keys / same length *)
Definition shape (j : json) : list string + nat + unit :=
  match j with JObj m => inl (inl (keys m)) | JArr l => inl (inr (length l)) | _ => inr tt end.

Lemma shape_put_child j s c v : child j s = Some c -> shape (put_child j s v) = shape j.
Proof.
  destruct j; destruct s; simpl; try discriminate; intros H.
  - rewrite upd_nth_length. reflexivity.
  - rewrite keys_jset_present by congruence. reflexivity.
Qed.

Lemma put_shape_root j s r v : get_c j (s :: r) <> None -> shape (put_c j (s :: r) v) = shape j.
Proof.
  simpl. destruct (child j s) eqn:E; [|congruence]. intros _. eapply shape_put_child; eauto.
Qed.

(* ---------- the code computes the reference ---------- *)

Lemma resolve_cons j p rest :
  resolve j (p :: rest) =
  match part_step j p with
  | None => None
  | Some s => match child j s with
              | None => None
              | Some c => option_map (cons s) (resolve c rest)
              end
  end.
Proof.
  simpl. destruct (part_step j p) as [s|]; [|reflexivity].
  destruct (child j s) as [c|]; [|reflexivity]. destruct (resolve c rest); reflexivity.
Qed.

Lemma ref_apply_step file j p rest s c :
  part_step j p = Some s -> child j s = Some c -> rest <> [] ->
  ref_apply file j (p :: rest) = option_map (put_child j s) (ref_apply file c rest).
Proof.
  intros Hs Hc Hne. unfold ref_apply. rewrite resolve_cons, Hs, Hc.
  destruct rest as [|p' rest']; [congruence|].
  destruct (resolve c (p' :: rest')) as [r|]; simpl; auto.
  rewrite Hc. destruct (get_c c r) as [[]|]; simpl; auto.
Qed.

Lemma ref_apply_last file j p s c :
  part_step j p = Some s -> child j s = Some c ->
  ref_apply file j [p] = match c with JNull => Some (put_child j s file) | _ => None end.
Proof.
  intros Hs Hc. unfold ref_apply. rewrite resolve_cons, Hs, Hc. simpl. rewrite Hc.
  destruct c; reflexivity.
Qed.

Lemma ref_apply_nostep file j p rest : part_step j p = None -> ref_apply file j (p :: rest) = None.
Proof. intros H. unfold ref_apply. rewrite resolve_cons, H. reflexivity. Qed.

Definition agrees (r : res json) (o : option json) : Prop :=
  match o with Some j' => r = Ok j' | None => is_err r = true end.

Lemma agrees_map r o f :
  agrees r o -> agrees (v' <- r ;; Ok (f v')) (option_map f o).
Proof. destruct o as [j'|]; simpl; intros H; [subst; reflexivity|]. destruct r; simpl in *; congruence. Qed.

Theorem walk_is_reference file : forall parts j, parts <> [] -> agrees (walk file j parts) (ref_apply file j parts).
Proof.
  induction parts as [|p rest IH]; intros j Hne; [congruence|].
  destruct j as [| b | n | s0 | f | l | m]; try (rewrite ref_apply_nostep by reflexivity; reflexivity).
  - (* list *)
    cbn [walk]. destruct (atoi p) as [i|] eqn:Ea;
      [|rewrite ref_apply_nostep by (simpl; rewrite Ea; reflexivity); reflexivity].
    destruct ((i <? 0)%Z || (Z.of_nat (length l) <=? i)%Z) eqn:Eb.
    + rewrite ref_apply_nostep; [reflexivity|]. simpl. rewrite Ea.
      replace ((0 <=? i)%Z && (i <? Z.of_nat (length l))%Z) with false; auto.
      symmetry. apply orb_true_iff in Eb. apply andb_false_iff. destruct Eb as [H|H]; [left|right]; lia.
    + apply orb_false_iff in Eb. destruct Eb as [E1 E2].
      assert (Hps: part_step (JArr l) p = Some (SIdx (Z.to_nat i))).
      { simpl. rewrite Ea. replace ((0 <=? i)%Z && (i <? Z.of_nat (length l))%Z) with true; auto.
        symmetry. apply andb_true_iff. split; lia. }
      destruct (nth_error l (Z.to_nat i)) as [v|] eqn:En.
      2:{ exfalso. apply nth_error_None in En. lia. }
      assert (Hc: child (JArr l) (SIdx (Z.to_nat i)) = Some v) by exact En.
      destruct rest as [|p' rest'].
      * erewrite ref_apply_last by eassumption. destruct v; reflexivity.
      * erewrite ref_apply_step by (try eassumption; congruence).
        apply (agrees_map _ _ (fun v' => JArr (upd_nth l (Z.to_nat i) v'))). apply IH. congruence.
  - (* object *)
    cbn [walk]. destruct (jget p m) as [v|] eqn:Eg;
      [|rewrite ref_apply_nostep by (simpl; rewrite Eg; reflexivity); reflexivity].
    assert (Hps: part_step (JObj m) p = Some (SKey p)) by (simpl; rewrite Eg; reflexivity).
    assert (Hc: child (JObj m) (SKey p) = Some v) by exact Eg.
    destruct rest as [|p' rest'].
    + erewrite ref_apply_last by eassumption. destruct v; reflexivity.
    + erewrite ref_apply_step by (try eassumption; congruence).
      apply (agrees_map _ _ (fun v' => JObj (jset p v' m))). apply IH. congruence.
Qed.

Lemma ref_apply_obj_root file m parts j' :
  ref_apply file (JObj m) parts = Some j' -> exists m', j' = JObj m'.
Proof.
  unfold ref_apply. destruct parts as [|p rest]; [discriminate|].
  rewrite resolve_cons. destruct (part_step (JObj m) p) as [s|] eqn:Es; [|discriminate].
  destruct (child (JObj m) s) as [c|] eqn:Ec; [|discriminate].
  destruct (resolve c rest) as [r|]; cbn [option_map]; [|discriminate].
  cbn [get_c put_c]. rewrite Ec. destruct (get_c c r) as [[]|]; try discriminate.
  intros [= <-]. destruct s; simpl in *; try discriminate. eexists; reflexivity.
Qed.

(* address parsing: the code's prologue against the convention *)
Lemma address_ref batch path :
  match ref_address batch path with
  | Some (idx, rest) => address batch path = Ok (Z.of_nat idx, rest) /\ rest <> []
  | None => is_err (address batch path) = true \/
            exists i rest, address batch path = Ok (i, rest) /\ (i < 0)%Z
  end.
Proof.
  unfold ref_address, address.
  destruct batch.
  - destruct (split "." path) as [|h t]; simpl; auto.
    destruct (atoi h) as [i|]; simpl; auto.
    destruct (0 <=? i)%Z eqn:Ei.
    + destruct t as [|p0 rest]; simpl; auto.
      destruct (String.eqb p0 "variables"); simpl; auto.
      destruct rest; simpl; auto. rewrite Z2Nat.id by lia. split; congruence.
    + destruct t as [|p0 rest]; simpl; auto.
      destruct (String.eqb p0 "variables"); simpl; auto.
      destruct rest; simpl; auto. right. do 2 eexists. split; [reflexivity|lia].
  - destruct (split "." path) as [|p0 rest]; simpl; auto.
    destruct (String.eqb p0 "variables"); simpl; auto.
    destruct rest; simpl; auto. split; congruence.
Qed.

Definition agrees_ops (r : res (list opv)) (o : option (list opv)) : Prop :=
  match o with Some x => r = Ok x | None => is_err r = true end.

Theorem inject_path_is_reference ops file batch path :
  agrees_ops (inject_path ops file batch path) (ref_inject_path ops file batch path).
Proof.
  unfold inject_path, ref_inject_path.
  pose proof (address_ref batch path) as Ha.
  destruct (ref_address batch path) as [[idx rest]|].
  - destruct Ha as [Ha Hne]. rewrite Ha. cbn [bind].
    destruct (nth_error ops idx) as [o|] eqn:En.
    + assert (Hlt: idx < length ops) by (apply nth_error_Some; congruence).
      replace ((Z.of_nat idx <? 0)%Z || (Z.of_nat (length ops) <=? Z.of_nat idx)%Z) with false
        by (symmetry; apply orb_false_iff; split; lia).
      rewrite Nat2Z.id, En. destruct o as [vars|]; [|reflexivity].
      pose proof (walk_is_reference file rest (JObj vars) Hne) as Hw.
      destruct (ref_apply file (JObj vars) rest) as [j'|] eqn:Er.
      * destruct (ref_apply_obj_root _ _ _ _ Er) as [m' ->]. simpl in Hw. rewrite Hw. reflexivity.
      * simpl in Hw. destruct (walk file (JObj vars) rest); simpl in *; congruence.
    + apply nth_error_None in En.
      replace ((Z.of_nat idx <? 0)%Z || (Z.of_nat (length ops) <=? Z.of_nat idx)%Z) with true
        by (symmetry; apply orb_true_iff; right; lia).
      reflexivity.
  - destruct Ha as [Ha|[i [rest [Ha Hi]]]].
    + destruct (address batch path); simpl in *; congruence.
    + rewrite Ha. cbn [bind]. replace (i <? 0)%Z with true by lia. reflexivity.
Qed.

Theorem inject_is_reference file batch : forall paths ops,
  agrees_ops (inject ops file batch paths) (ref_inject ops file batch paths).
Proof.
  induction paths as [|p r IH]; intros ops; simpl; [reflexivity|].
  pose proof (inject_path_is_reference ops file batch p) as H.
  destruct (ref_inject_path ops file batch p) as [ops'|]; simpl in H.
  - rewrite H. simpl. apply IH.
  - destruct (inject_path ops file batch p); simpl in *; congruence.
Qed.

Theorem inject_files_is_reference batch : forall files ops,
  agrees_ops (inject_files ops batch files) (ref_inject_files ops batch files).
Proof.
  induction files as [|[f ps] r IH]; intros ops; simpl; [reflexivity|].
  pose proof (inject_is_reference f batch ps ops) as H.
  destruct (ref_inject ops f batch ps) as [ops'|]; simpl in H.
  - rewrite H. simpl. apply IH.
  - destruct (inject ops f batch ps); simpl in *; congruence.
Qed.

Corollary inject_files_never_panics ops batch files : is_panic (inject_files ops batch files) = false.
Proof.
  pose proof (inject_files_is_reference batch files ops) as H.
  destruct (ref_inject_files ops batch files); simpl in H; [rewrite H; reflexivity|].
  destruct (inject_files ops batch files); simpl in *; congruence.
Qed.

(* ---------- what the reference means, at the level of one operation's variables ---------- *)

Theorem ref_apply_spec file j parts j' :
  ref_apply file j parts = Some j' ->
  exists cp, resolve j parts = Some cp /\ cp <> [] /\
             get_c j cp = Some JNull /\
             get_c j' cp = Some file /\
             (is_leaf file = true -> forall cq, is_prefix cq cp = false -> get_c j' cq = get_c j cq) /\
             shape j' = shape j.
Proof.
  unfold ref_apply. destruct parts as [|p rest]; [discriminate|].
  destruct (resolve j (p :: rest)) as [cp|] eqn:Er; [|discriminate].
  destruct (get_c j cp) as [[]|] eqn:Eg; try discriminate.
  intros [= <-]. exists cp. repeat split; auto.
  - rewrite resolve_cons in Er. destruct (part_step j p); [|discriminate].
    destruct (child j s); [|discriminate]. destruct (resolve j0 rest); simpl in Er; congruence.
  - apply get_put_same. congruence.
  - intros Hl cq Hq. apply put_null_frame; auto.
  - destruct cp as [|s r].
    + rewrite resolve_cons in Er. destruct (part_step j p); [|discriminate].
      destruct (child j s); [|discriminate]. destruct (resolve j0 rest); simpl in Er; congruence.
    + apply put_shape_root. congruence.
Qed.

(* other operations of a batch are untouched *)
Theorem ref_inject_path_other_ops ops file batch path ops' :
  ref_inject_path ops file batch path = Some ops' ->
  length ops' = length ops /\
  exists idx rest, ref_address batch path = Some (idx, rest) /\
                   forall i, i <> idx -> nth_error ops' i = nth_error ops i.
Proof.
  unfold ref_inject_path. destruct (ref_address batch path) as [[idx rest]|]; [|discriminate].
  destruct (nth_error ops idx) as [[vars|]|]; try discriminate.
  destruct (ref_apply file (JObj vars) rest) as [[]|]; try discriminate.
  intros [= <-]. split; [apply upd_nth_length|].
  exists idx, rest. split; auto. intros i Hi. apply nth_error_upd_nth_neq. congruence.
Qed.

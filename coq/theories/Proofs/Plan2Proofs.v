(* Facts about the full planner model (Gw/Plan2.v) that hold for every document, named fragment
   spreads included. *)
From Coq Require Import String List Bool Arith.
From GW Require Import Base.Res Base.GoStr Gql.Syntax Gw.Locate Gw.Plan Gw.Plan2 Proofs.PlanProofs.
Import ListNotations.
Open Scope string_scope.
Open Scope list_scope.

Section Grouping2.
  Variables (prios : list string) (urls : urlmap) (planfrags : list fragdef).

  (* one group per location: whatever the mix of fields, inline fragments and named fragments, no
     location has two groups at a level -- hence never two steps where one would do *)
  Theorem group2_one_per_location : forall sels sfrags ptype ploc acc lf r,
    NoDup (map fst acc) -> group2 prios urls planfrags sfrags ptype ploc sels acc lf = Ok r -> NoDup (map fst (fst r)).
  Proof.
    induction sels as [|s rest IH]; intros sfrags ptype ploc acc lf r Hacc H; cbn [group2] in H.
    - injection H as <-. exact Hacc.
    - destruct s as [alias name args dirs sub|tcond dirs sub|name dirs].
      + apply bind_ok_inv in H. destruct H as [l [_ H]]. eapply IH; [|exact H]. apply add_at_nodup. exact Hacc.
      + apply bind_ok_inv in H. destruct H as [parts [_ H]]. eapply IH; [|exact H].
        apply (fold_add_nodup (fun lp => Inline tcond dirs (snd lp))). exact Hacc.
      + apply bind_ok_inv in H. destruct H as [defn [_ H]]. apply bind_ok_inv in H. destruct H as [parts [_ H]].
        eapply IH; [|exact H]. apply (fold_add_nodup (fun lp => Spread name dirs)). exact Hacc.
  Qed.
End Grouping2.

(* The whole-path model against the reference on the canonical join below a root field that
   answers ONE object ({ me { name photo } }); the list case is Proofs/FedCanonical.v. *)
From Coq Require Import String List Bool Arith ZArith Lia.
From GW Require Import Base.Res Base.GoStr Base.Json Gql.Syntax Gql.Spec Gw.Locate Gw.Plan Gw.Points Gw.Scrub Gw.Fed
     Proofs.CodecProofs Proofs.PointsProofs Proofs.StitchSound Proofs.JoinSound Proofs.StepJoin Proofs.StepPoints
     Proofs.GroupSound Proofs.ExactJoin Proofs.ExactJoinObj Proofs.FedCanonical.
Import ListNotations.
Open Scope string_scope.
Open Scope list_scope.

Section CanonicalObj.
  Variable w : world.
  Variable vars : list (string * json).
  Hypothesis world_atomic : atomic_world w vars.
  Variable sh : fshape.
  Variable n : nat.
  Variable ka kn : string.
  Notation k := (rkey ka kn).
  Hypothesis k_clean : clean_key k.
  Hypothesis k_ne : k <> "".
  Variable args : list (string * value).
  Variable l1 l2 : list sel.
  Hypothesis good_sub : good (l1 ++ [id_sel]).
  Hypothesis good_l2 : good l2.
  Hypothesis compat_12 : compat (l1 ++ [id_sel]) l2.
  Hypothesis no_id_l2 : ~ In "id" (map key_of l2).
  Hypothesis no_id_var_l2 : no_id_var l2.
  Variable rootT T t : string.
  Variable nn : bool.
  Hypothesis k_shape : shape_of (rootT ++ "." ++ kn) sh = Some (t, (false, nn)).
  Variable o : obj.
  Hypothesis k_value : resolve w vars None rootT (to_c (Field ka kn args [] (l1 ++ [id_sel]))) = FRef (b_id o).
  Hypothesis o_named : find_obj (b_id o) (w_objs w) = Some o.
  Hypothesis o_typed : type_matches w T (b_type o) = true.
  Hypothesis o_flat : flat_at w vars o l2.
  Variable locA locB : string.
  Variable tops : list sel.

  Notation sub1 := (l1 ++ [id_sel]).
  Notation fuel := (S (S (S n))).
  Notation Pj := (P w [] vars l1 n).
  Notation Jj := (J w [] vars l1 l2 n).
  Notation Cj := (C w [] vars l1 l2 n).

  Definition canonical_plan_obj : pstep :=
    PStep "" rootT [] tops [PStep locA rootT [] [Field ka kn args [] (l1 ++ [id_field])] [PStep locB T [k] l2 []]].

  Lemma with_id_field_obj fuel' ob rt : exec (S (S fuel')) w [] vars ob rt (l1 ++ [id_field]) = exec (S (S fuel')) w [] vars ob rt sub1.
  Proof.
    inversion good_sub as [? Pl ? ?]; subst. apply Forall_app in Pl. destruct Pl as [Pl1 _].
    apply exec_to_c; [apply Forall_app; split; [exact Pl1|repeat constructor]|apply Forall_app; split; [exact Pl1|repeat constructor]|].
    rewrite !map_app. reflexivity.
  Qed.

  Lemma J_has_id_obj : exists mj, Jj o = JObj mj /\ jget "id" mj = Some (JStr (b_id o)).
  Proof.
    unfold J.
    rewrite (stitch_sound w [] vars world_atomic (S (S n)) (Some o) (b_type o) sub1 l2 (find_obj_in _ _ _ o_named) good_sub good_l2 compat_12).
    destruct (answer_has_id w [] vars l1 good_sub n o) as [m [Em Eid]]. rewrite Em.
    rewrite (exec_good w [] vars n (Some o) (b_type o) l2 good_l2). rewrite merge_value_obj.
    eexists. split; [reflexivity|]. rewrite merge_obj_other; [exact Eid|].
    unfold answer_of. apply (jget_map_notin _ l2 "id" no_id_l2).
  Qed.

  Lemma last_id_obj : last_point_id [with_id k (b_id o)] = b_id o.
  Proof. unfold last_point_id. cbn [rev app]. rewrite (decode_key_id k (b_id o) k_clean). reflexivity. Qed.

  Lemma run_plan_exact_obj :
    run_plan w vars sh fuel rootT canonical_plan_obj = Ok (JObj [(k, Jj o)]).
  Proof.
    unfold run_plan, canonical_plan_obj. cbn [fold_left bind].
    assert (Hres' : resolve w vars None rootT (to_c (Field ka kn args [] (l1 ++ [id_field]))) = FRef (b_id o))
      by (rewrite <- k_value; apply resolve_same; reflexivity).
    rewrite (obj_field_answer w [] vars n k None rootT ka kn args (l1 ++ [id_field]) o eq_refl Hres' o_named).
    rewrite (with_id_field_obj n (Some o) (b_type o)).
    cbn [insert_object merge_obj jget jset merge_value bind].
    destruct (answer_has_id w [] vars l1 good_sub n o) as [m [Em Eid]].
    rewrite Em. cbn [merge_value].
    cbn [run_thens fold_left bind].
    destruct (flatten_one (S (S n)) sh rootT ka kn args (l1 ++ [id_field]) t false nn k_shape) as [subf Ef]. rewrite Ef.
    cbn [obj_fields]. unfold find_insertion_points. cbn [length Nat.ltb Nat.leb skipn find_points find_selection fs_key].
    rewrite String.eqb_refl. cbn [jget]. rewrite String.eqb_refl. rewrite Eid. cbn [fmt_v app fold_left bind].
    rewrite last_id_obj.
    rewrite (node_answer_eq w vars n T o l2 o_named o_typed good_l2 o_flat no_id_var_l2). cbn [bind].
    assert (Hsrc : exists src, exec (S (S n)) w [] vars (Some o) (b_type o) l2 = JObj src) by (rewrite exec_unfold; eexists; reflexivity).
    destruct Hsrc as [src Esrc]. rewrite Esrc. unfold insert_object.
    rewrite (walk_obj_exact k k_clean k_ne (b_id o) _ m (JObj (merge_obj m src))) by reflexivity.
    cbn [bind run_thens fold_left]. f_equal. f_equal. f_equal. f_equal.
    unfold J. rewrite (stitch_sound w [] vars world_atomic (S (S n)) (Some o) (b_type o) sub1 l2 (find_obj_in _ _ _ o_named) good_sub good_l2 compat_12).
    rewrite Em, Esrc. rewrite merge_value_obj. reflexivity.
  Qed.

  Lemma scrub_exact_obj :
    scrub_all_paths (flatten fuel sh rootT [Field ka kn args [] (l1 ++ l2)]) [[k]] (JObj [(k, Jj o)]) = Ok (JObj [(k, Cj o)]).
  Proof.
    unfold scrub_all_paths. cbn [fold_left bind]. unfold scrub_location.
    destruct (flatten_one (S (S n)) sh rootT ka kn args (l1 ++ l2) t false nn k_shape) as [subf Ef]. rewrite Ef.
    unfold find_insertion_points. cbn [length Nat.ltb Nat.leb skipn find_points find_selection fs_key].
    rewrite String.eqb_refl. cbn [jget]. rewrite String.eqb_refl.
    destruct J_has_id_obj as [mj [Ej Eid]]. rewrite Ej. rewrite Eid. cbn [fmt_v app bind]. rewrite <- Ej.
    exact (scrub_obj_exact w [] vars l1 l2 good_sub good_l2 no_id_l2 n k k_clean k_ne o).
  Qed.

  Theorem canonical_join_end_to_end_obj :
    (data <- run_plan w vars sh fuel rootT canonical_plan_obj ;;
     scrub_all_paths (flatten fuel sh rootT [Field ka kn args [] (l1 ++ l2)]) [[k]] data) =
    Ok (exec fuel w [] vars None rootT [Field ka kn args [] (l1 ++ l2)]).
  Proof.
    rewrite run_plan_exact_obj. cbn [bind]. rewrite scrub_exact_obj. f_equal.
    assert (Hres2 : resolve w vars None rootT (to_c (Field ka kn args [] (l1 ++ l2))) = FRef (b_id o))
      by (rewrite <- k_value; apply resolve_same; reflexivity).
    rewrite (obj_field_answer w [] vars n k None rootT ka kn args (l1 ++ l2) o eq_refl Hres2 o_named). reflexivity.
  Qed.
End CanonicalObj.

(* The planner on the canonical join with several services below the root field: the selection
   tree l1 stays at A, and each group of scalar fields (loc_i, d_i) goes to its own service; the
   plan has one dependent step per group, all hanging at [alias], in the order the groups are
   first met. *)
From Coq Require Import String List Bool Arith.
From GW Require Import Base.Res Base.GoStr Gql.Syntax Gw.Locate Gw.Plan Proofs.LocateProofs Proofs.PlanCanonical Proofs.SingleService
     Proofs.PlanCanonical2 Proofs.FedTheoremCor.
Import ListNotations.
Open Scope string_scope.
Open Scope list_scope.

Section PlanMulti.
  Variable prios : list string.
  Variable urls : urlmap.
  Variable ft : ftypes.
  Notation choose := (choose prios urls).

  Definition all_sel (deps : list (string * list sel)) : list sel := concat (map snd deps).

  Lemma add_at_fresh L s : forall acc, ~ In L (map fst acc) -> add_at L s acc = acc ++ [(L, [s])].
  Proof.
    induction acc as [|[l' ss] r IH]; intros Hn; cbn [add_at app]; [reflexivity|].
    cbn [map fst In] in Hn. destruct (String.eqb L l') eqn:E; [apply String.eqb_eq in E; exfalso; apply Hn; left; symmetry; exact E|].
    f_equal. apply IH. intros H. apply Hn. right. exact H.
  Qed.

  Lemma add_at_last L s : forall acc pre, ~ In L (map fst acc) -> add_at L s (acc ++ [(L, pre)]) = acc ++ [(L, pre ++ [s])].
  Proof.
    induction acc as [|[l' ss] t IHt]; intros pre Hn; cbn [add_at app]; [rewrite String.eqb_refl; reflexivity|].
    cbn [map fst In] in Hn. destruct (String.eqb L l') eqn:E'; [apply String.eqb_eq in E'; exfalso; apply Hn; left; symmetry; exact E'|].
    f_equal. apply IHt. intros H. apply Hn. right. exact H.
  Qed.

  Lemma add_all_last L acc : ~ In L (map fst acc) ->
    forall l pre, fold_left (fun a x => add_at L x a) l (acc ++ [(L, pre)]) = acc ++ [(L, pre ++ l)].
  Proof.
    intros Hn. induction l as [|s r IH]; intros pre; cbn [fold_left]; [rewrite app_nil_r; reflexivity|].
    rewrite (add_at_last L s acc pre Hn). rewrite IH. rewrite <- app_assoc. reflexivity.
  Qed.

  Lemma add_all_fresh L acc s r : ~ In L (map fst acc) ->
    fold_left (fun a x => add_at L x a) (s :: r) acc = acc ++ [(L, s :: r)].
  Proof.
    intros Hn. change (fold_left (fun a x => add_at L x a) r (add_at L s acc) = acc ++ [(L, s :: r)]).
    rewrite (add_at_fresh L s acc Hn). rewrite (add_all_last L acc Hn). reflexivity.
  Qed.

  Variable T locA : string.
  Variable ka : string.

  (* every group is a nonempty list of scalar fields that the chooser sends to the group's service *)
  Definition dep_ok (d : string * list sel) : Prop := snd d <> [] /\ Forall (at_loc prios urls T locA (fst d)) (snd d).

  Lemma group_deps : forall deps acc,
    Forall dep_ok deps -> NoDup (map fst acc ++ map fst deps) ->
    group prios urls T locA (all_sel deps) acc = Ok (acc ++ deps).
  Proof.
    induction deps as [|[L d] rest IH]; intros acc Hok Hn; cbn [all_sel map concat snd].
    - cbn [group]. rewrite app_nil_r. reflexivity.
    - inversion Hok as [|? ? [Hne Hat] Hrest]; subst. cbn [fst snd] in Hne, Hat.
      fold (all_sel rest). rewrite group_app. rewrite (group_all prios urls T locA L d acc Hat).
      destruct d as [|s r]; [congruence|]. cbn [map fst] in Hn.
      assert (HL : ~ In L (map fst acc)).
      { intros Hin. apply NoDup_remove_2 in Hn. apply Hn. apply in_or_app. left. exact Hin. }
      rewrite (add_all_fresh L acc s r HL). cbn [bind].
      rewrite (IH (acc ++ [(L, s :: r)]) Hrest).
      + rewrite <- app_assoc. reflexivity.
      + rewrite map_app. cbn [map fst]. rewrite <- app_assoc. cbn [app].
        (* move L from the middle to the front of the second half *)
        apply NoDup_remove_1 in Hn as Hn1. pose proof (NoDup_remove_2 _ _ _ Hn) as Hn2.
        clear - Hn1 Hn2. revert Hn1 Hn2. generalize (map fst acc) (map fst rest). intros a b H1 H2.
        induction a as [|x a' IHa]; cbn [app] in *.
        * constructor; assumption.
        * inversion H1 as [|? ? Hx Hr]; subst. constructor.
          -- intros Hin. apply in_app_or in Hin. destruct Hin as [Hin|[<-|Hin]].
             ++ apply Hx. apply in_or_app. left. exact Hin.
             ++ apply H2. left. reflexivity.
             ++ apply Hx. apply in_or_app. right. exact Hin.
          -- apply IHa; [exact Hr|]. intros Hin. apply H2. right. exact Hin.
  Qed.

  Definition pay_of (d : string * list sel) : payload :=
    {| pl_loc := fst d; pl_ptype := T; pl_ipoint := [ka]; pl_wrapper := []; pl_sels := snd d |}.

  Lemma queue_deps : forall deps, ~ In locA (map fst deps) ->
    queue_others T locA [ka] [] deps = Ok (map pay_of deps).
  Proof.
    induction deps as [|[L d] rest IH]; intros Hn; cbn [queue_others map]; [reflexivity|].
    cbn [map fst In] in Hn. rewrite IH by (intros H; apply Hn; right; exact H). cbn [bind].
    destruct (String.eqb L locA) eqn:E; [apply String.eqb_eq in E; exfalso; apply Hn; left; exact E|].
    cbn [bind pay_of fst snd]. reflexivity.
  Qed.

  Definition step_of (d : string * list sel) : pstep := PStep (fst d) T [ka] (snd d) [].

  Lemma build_dep f d : dep_ok d -> build prios urls ft (S f) (pay_of d) = Ok (step_of d).
  Proof.
    intros [Hne Hat]. destruct d as [L sels]. cbn [fst snd] in Hne, Hat.
    cbn [build pay_of fst snd pl_ptype pl_loc pl_ipoint pl_wrapper pl_sels].
    rewrite (extract_remote prios urls ft T locA L ka sels Hat (at_loc_stays _ _ _ _ _ _ Hat) Hne f).
    cbn [bind fst snd map_res step_of]. reflexivity.
  Qed.

  Lemma build_deps f : forall deps, Forall dep_ok deps ->
    map_res (build prios urls ft (S f)) (map pay_of deps) = Ok (map step_of deps).
  Proof.
    induction deps as [|d rest IH]; intros Hok; [reflexivity|].
    inversion Hok as [|? ? Hd Hrest]; subst.
    change (map_res (build prios urls ft (S f)) (map pay_of (d :: rest))) with
      (y <- build prios urls ft (S f) (pay_of d) ;; r <- map_res (build prios urls ft (S f)) (map pay_of rest) ;; Ok (y :: r)).
    rewrite (build_dep f d Hd). cbn [bind]. rewrite (IH Hrest). reflexivity.
  Qed.

  Variable rootT : string.
  Variable kn : string.
  Variable args : list (string * value).
  Variable l1 : list sel.
  Variable deps : list (string * list sel).
  Variable n : nat.
  Hypothesis locA_ne : locA <> "".
  Hypothesis root_from_gateway : choose rootT kn "" = Ok locA.
  Hypothesis root_type : assoc (url_key rootT kn) ft = Some T.
  Hypothesis l1_at_A : Forall (at1 prios urls ft locA n T) l1.
  Hypothesis deps_ok : Forall dep_ok deps.
  Hypothesis deps_ne : deps <> [].
  Hypothesis locs_distinct : NoDup (locA :: map fst deps).

  Lemma all_sel_ne : all_sel deps <> [].
  Proof.
    destruct deps as [|[L d] rest]; [congruence|]. inversion deps_ok as [|? ? [Hne _] _]; subst. cbn [snd] in Hne.
    unfold all_sel. cbn [map concat snd]. destruct d; [congruence|discriminate].
  Qed.

  Lemma extract_objects_multi :
    extract prios urls ft (S n) T locA [ka] [] (l1 ++ all_sel deps) = Ok (l1 ++ [id_field], map pay_of deps).
  Proof.
    assert (HA : ~ In locA (map fst deps)) by (inversion locs_distinct; assumption).
    assert (Hnd : NoDup (map fst deps)) by (inversion locs_distinct; assumption).
    assert (Hbelow : forall t ip wr sub, sub <> [] -> Forall (inner prios urls ft locA n t) sub ->
                       extract prios urls ft n t locA ip wr sub = Ok (sub, [])).
    { intros t ip wr sub Hne Hf. destruct n as [|n']; cbn [inner] in Hf.
      - destruct sub; [congruence|]. inversion Hf as [|? ? Hx _]. destruct Hx.
      - apply extract_all. exact Hf. }
    assert (Hpay : map pay_of deps <> []) by (destruct deps; [congruence|discriminate]).
    rewrite (extract_S prios urls ft). rewrite group_app.
    destruct l1 as [|s1 r1].
    - change (group prios urls T locA [] []) with (@Ok (list (string * list sel)) []). cbn [bind app].
      rewrite (group_deps deps [] deps_ok) by (cbn [map app]; exact Hnd). cbn [app bind].
      rewrite (queue_deps deps HA). cbn [bind].
      assert (Hget : get_at locA deps = None).
      { clear - HA. induction deps as [|[L d] rest IH]; cbn [get_at]; [reflexivity|].
        cbn [map fst In] in HA. destruct (String.eqb locA L) eqn:E; [apply String.eqb_eq in E; exfalso; apply HA; left; symmetry; exact E|].
        apply IH. intros H. apply HA. right. exact H. }
      rewrite Hget. destruct (map pay_of deps) as [|p ps] eqn:Ep; [congruence|]. cbn [app].
      rewrite (keep_leaves ft) by (repeat constructor). cbn [bind fst snd app]. rewrite app_nil_r. reflexivity.
    - rewrite (group_one_nil prios urls ft locA n T s1 r1 l1_at_A). cbn [bind].
      rewrite (group_deps deps [(locA, s1 :: r1)] deps_ok) by (cbn [map fst app]; exact locs_distinct). cbn [app bind].
      cbn [queue_others]. rewrite (queue_deps deps HA). cbn [bind]. rewrite String.eqb_refl. cbn [bind get_at]. rewrite String.eqb_refl.
      destruct (map pay_of deps) as [|p ps] eqn:Ep; [congruence|].
      rewrite keep_app. rewrite (keep_all prios urls ft locA n T [ka] [] _ Hbelow _ l1_at_A). cbn [bind].
      rewrite (keep_leaves ft) by (repeat constructor). cbn [bind fst snd app]. rewrite !app_nil_r. reflexivity.
  Qed.

  Lemma extract_root_multi :
    choose rootT kn locA = Ok locA ->
    extract prios urls ft (S (S n)) rootT locA [] [] [root_field ka kn args (l1 ++ all_sel deps)] =
    Ok ([root_field ka kn args (l1 ++ [id_field])], map pay_of deps).
  Proof.
    intros root_stays.
    rewrite (extract_S prios urls ft). cbn [group root_field]. rewrite root_stays. cbn [bind add_at queue_others]. rewrite String.eqb_refl.
    cbn [bind get_at]. rewrite String.eqb_refl.
    cbn [keep_with]. destruct (l1 ++ all_sel deps) as [|x r] eqn:E.
    - apply app_eq_nil in E. destruct E as [_ E]. exfalso. exact (all_sel_ne E).
    - rewrite root_type. rewrite <- E. cbn [app]. rewrite extract_objects_multi. cbn [bind fst snd app]. rewrite app_nil_r. reflexivity.
  Qed.

  Lemma build_S fuel' p :
    build prios urls ft (S fuel') p =
    (e <- extract prios urls ft (S fuel') (pl_ptype p) (pl_loc p) (pl_ipoint p) (pl_wrapper p) (pl_sels p) ;;
     thens <- map_res (build prios urls ft fuel') (snd e) ;;
     Ok (PStep (pl_loc p) (pl_ptype p) (pl_ipoint p) (fst e) thens)).
  Proof. reflexivity. Qed.

  Theorem multi_plan_is_planned :
    plan_operation prios urls ft (S (S (S n))) rootT [root_field ka kn args (l1 ++ all_sel deps)] =
    Ok (PStep "" rootT [] [id_field]
          [PStep locA rootT [] [root_field ka kn args (l1 ++ [id_field])] (map step_of deps)]).
  Proof.
    unfold plan_operation. rewrite build_S. cbn [pl_ptype pl_loc pl_ipoint pl_wrapper pl_sels].
    rewrite (extract_top prios urls ft rootT locA ka kn args l1 (all_sel deps) locA_ne root_from_gateway (S (S n))). cbn [bind snd fst map_res].
    rewrite build_S. cbn [payA pl_ptype pl_loc pl_ipoint pl_wrapper pl_sels].
    rewrite (extract_root_multi (choose_stays _ _ _ _ _ _ root_from_gateway)). cbn [bind snd fst].
    rewrite (build_deps n deps deps_ok). cbn [bind]. reflexivity.
  Qed.
End PlanMulti.

(* What introspection says about a type reference determines it, at every depth of list / non-null
   wrapping: decoding the {kind, name, ofType} chain of a field's (argument's, input field's) type
   gives back exactly the type, provided the selection descends deep enough.  The canonical
   introspection query stops at seven levels; the theorem is for every depth. *)
From Coq Require Import String Ascii List Bool Arith Lia.
From GW Require Import Base.GoStr Base.Json Gql.Syntax Gql.Schema Gql.Spec Gw.Introspect.
Import ListNotations.
Open Scope string_scope.
Open Scope list_scope.

(* kind name ofType { kind name ofType { ... } } , d levels of ofType *)
Fixpoint type_ref_sel (d : nat) : list sel :=
  [Field "kind" "kind" [] [] []; Field "name" "name" [] [] []] ++
  match d with
  | O => []
  | S d' => [Field "ofType" "ofType" [] [] (type_ref_sel d')]
  end.

(* how many wrappers a type has *)
Fixpoint wrappers (t : ty) : nat :=
  match t with
  | TNamed _ nn => if nn then 1 else 0
  | TList e nn => S (wrappers e) + (if nn then 1 else 0)
  end.

(* reading a type back from an introspection answer *)
Fixpoint ty_of_json (fuel : nat) (j : json) : option ty :=
  match fuel with
  | O => None
  | S f =>
      match j with
      | JObj m =>
          match jget "kind" m with
          | Some (JStr k) =>
              if String.eqb k "NON_NULL" then
                match jget "ofType" m with
                | Some inner => match ty_of_json f inner with
                                | Some (TNamed n false) => Some (TNamed n true)
                                | Some (TList e false) => Some (TList e true)
                                | _ => None
                                end
                | None => None
                end
              else if String.eqb k "LIST" then
                match jget "ofType" m with
                | Some inner => match ty_of_json f inner with Some e => Some (TList e false) | None => None end
                | None => None
                end
              else match jget "name" m with Some (JStr n) => Some (TNamed n false) | _ => None end
          | _ => None
          end
      | _ => None
      end
  end.

(* every named type the reference mentions is defined, and is not itself called LIST or NON_NULL *)
Fixpoint ty_defined (types : list definition) (t : ty) : Prop :=
  match t with
  | TNamed n _ => exists d, find_def n types = Some d /\ df_name d = n
  | TList e _ => ty_defined types e
  end.

Lemma kind_name_not_wrapper k : String.eqb (kind_name k) "NON_NULL" = false /\ String.eqb (kind_name k) "LIST" = false.
Proof. destruct k; split; reflexivity. Qed.

Section RoundTrip.
  Variable isch : ischema.
  Variable frags : list fragdef.
  Variable vars : list (string * json).
  Notation types := (s_types (is_schema isch)).

  (* the three collected keys of a type_ref_sel level *)
  Lemma fields_of_ref fuel d :
    fields_of frags vars "__Type" (type_ref_sel d) (S fuel) =
    [ {| c_key := "kind"; c_name := "kind"; c_args := []; c_sub := [] |};
      {| c_key := "name"; c_name := "name"; c_args := []; c_sub := [] |} ] ++
    match d with
    | O => []
    | S d' => [ {| c_key := "ofType"; c_name := "ofType"; c_args := []; c_sub := type_ref_sel d' |} ]
    end.
  Proof. destruct d; reflexivity. Qed.

  (* one level of the answer *)
  Definition below (fuel : nat) (t : ty) (d : nat) : json :=
    match tref_of types t with Some r => intro_type isch frags vars fuel r (type_ref_sel d) | None => JNull end.

  Lemma level_nonnull fuel inner d :
    intro_type isch frags vars (S (S fuel)) (TNonNull inner) (type_ref_sel (S d)) =
    JObj [("kind", JStr "NON_NULL"); ("name", JNull); ("ofType", below (S fuel) inner d)].
  Proof. cbn [intro_type]. rewrite fields_of_ref. reflexivity. Qed.

  Lemma level_list fuel elem d :
    intro_type isch frags vars (S (S fuel)) (TListOf elem) (type_ref_sel (S d)) =
    JObj [("kind", JStr "LIST"); ("name", JNull); ("ofType", below (S fuel) elem d)].
  Proof. cbn [intro_type]. rewrite fields_of_ref. reflexivity. Qed.

  Lemma level_named fuel df d :
    intro_type isch frags vars (S (S fuel)) (TDef df) (type_ref_sel d) =
    JObj ([("kind", JStr (kind_name (df_kind df))); ("name", JStr (df_name df))] ++
          match d with O => [] | S _ => [("ofType", JNull)] end).
  Proof. cbn [intro_type]. rewrite fields_of_ref. destruct d; reflexivity. Qed.

  Lemma decode_named f df rest :
    ty_of_json (S f) (JObj ([("kind", JStr (kind_name (df_kind df))); ("name", JStr (df_name df))] ++ rest)) =
    Some (TNamed (df_name df) false).
  Proof.
    destruct (kind_name_not_wrapper (df_kind df)) as [K1 K2].
    cbn [ty_of_json app jget]. change (String.eqb "kind" "kind") with true. cbn iota.
    rewrite K1, K2. change (String.eqb "name" "kind") with false. cbn iota.
    change (String.eqb "name" "name") with true. reflexivity.
  Qed.

  Lemma decode_nonnull f inner :
    ty_of_json (S f) (JObj [("kind", JStr "NON_NULL"); ("name", JNull); ("ofType", inner)]) =
    match ty_of_json f inner with
    | Some (TNamed n false) => Some (TNamed n true)
    | Some (TList e false) => Some (TList e true)
    | _ => None
    end.
  Proof. reflexivity. Qed.

  Lemma decode_list f inner :
    ty_of_json (S f) (JObj [("kind", JStr "LIST"); ("name", JNull); ("ofType", inner)]) =
    match ty_of_json f inner with Some e => Some (TList e false) | None => None end.
  Proof. reflexivity. Qed.

  Theorem type_reference_round_trip : forall t d,
    ty_defined types t -> wrappers t <= d ->
    ty_of_json (S d) (below (2 + d) t d) = Some t.
  Proof.
    assert (G: forall n t d, wrappers t <= n -> n <= d -> ty_defined types t ->
               ty_of_json (S d) (below (2 + d) t d) = Some t).
    { induction n as [|n IH]; intros t d Hw Hd Hdef.
      - (* no wrapper: a nullable named type *)
        destruct t as [name nn|e nn]; [|cbn [wrappers] in Hw; lia].
        destruct nn; [cbn [wrappers] in Hw; lia|].
        destruct Hdef as [df [Hf Hn]]. unfold below, tref_of. rewrite Hf.
        change (2 + d) with (S (S d)). rewrite level_named, decode_named, Hn. reflexivity.
      - destruct d as [|d]; [lia|].
        destruct t as [name nn|e nn].
        + destruct nn.
          * (* Name! : NON_NULL of Name *)
            unfold below at 1. cbn [tref_of]. change (2 + S d) with (S (S (S d))).
            rewrite level_nonnull, decode_nonnull.
            assert (E: ty_of_json (S d) (below (2 + d) (TNamed name false) d) = Some (TNamed name false)) by (apply IH; [cbn [wrappers]; lia|lia|exact Hdef]).
            change (2 + d) with (S (S d)) in E. rewrite E. reflexivity.
          * apply (IH (TNamed name false) (S d)); [cbn [wrappers]; lia|lia|exact Hdef].
        + destruct nn.
          * (* [e]! : NON_NULL of [e] *)
            unfold below at 1. cbn [tref_of]. change (2 + S d) with (S (S (S d))).
            rewrite level_nonnull, decode_nonnull.
            assert (E: ty_of_json (S d) (below (2 + d) (TList e false) d) = Some (TList e false)) by (apply IH; [cbn [wrappers] in *; lia|lia|exact Hdef]).
            change (2 + d) with (S (S d)) in E. rewrite E. reflexivity.
          * (* [e] : LIST of e *)
            unfold below at 1. cbn [tref_of]. change (2 + S d) with (S (S (S d))).
            rewrite level_list, decode_list.
            assert (E: ty_of_json (S d) (below (2 + d) e d) = Some e) by (apply IH; [cbn [wrappers] in *; lia|lia|exact Hdef]).
            change (2 + d) with (S (S d)) in E. rewrite E. reflexivity. }
    intros t d Hdef Hw. apply (G d t d); [exact Hw|lia|exact Hdef].
  Qed.
End RoundTrip.

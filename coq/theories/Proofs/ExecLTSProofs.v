(* Invariants of the executor LTS: the wait group counts exactly the outstanding work; every
   step decreases a natural-number measure by one (termination on every schedule, with a bound);
   a state that has not returned always has a successor (no deadlock, whatever the fan-out and
   however many steps fail); nodes are conserved (each called once, inserted once); the errors
   recorded are exactly the failed nodes inserted. *)
From Coq Require Import List Arith Bool Lia Permutation.
From GW Require Import Gw.ExecLTS.
Import ListNotations.

Section Proofs.
  Variable rcap : nat.
  Hypothesis rcap_pos : 0 < rcap.

  Notation steps := (steps rcap).
  Notation task_steps := (task_steps rcap).
  Notation all_task_steps := (all_task_steps rcap).

  (* ---------- counting ---------- *)
  Definition weight (t : task) : nat :=
    match t_pc t with PCall => 1 | PAdded => 1 + length (kids_of (t_node t)) | PSent r => length r end.

  Definition twork (t : task) : nat :=
    match t_pc t with PCall => work (t_node t) | PAdded => work (t_node t) - 1 | PSent r => works r end.

  Definition SW (l : list task) := list_sum (map weight l).
  Definition ST (l : list task) := list_sum (map twork l).

  Lemma list_sum_app l1 l2 : list_sum (l1 ++ l2) = list_sum l1 + list_sum l2.
  Proof. induction l1; simpl; lia. Qed.
  Lemma SW_app a b : SW (a ++ b) = SW a + SW b.
  Proof. unfold SW. rewrite map_app, list_sum_app. reflexivity. Qed.
  Lemma ST_app a b : ST (a ++ b) = ST a + ST b.
  Proof. unfold ST. rewrite map_app, list_sum_app. reflexivity. Qed.
  Lemma SW_cons t l : SW (t :: l) = weight t + SW l. Proof. reflexivity. Qed.
  Lemma ST_cons t l : ST (t :: l) = twork t + ST l. Proof. reflexivity. Qed.

  Lemma SW_one t : SW [t] = weight t. Proof. unfold SW; simpl; lia. Qed.
  Lemma ST_one t : ST [t] = twork t. Proof. unfold ST; simpl; lia. Qed.

  Lemma work_unfold n : work n = 3 + works (kids_of n).
  Proof. destruct n; reflexivity. Qed.

  (* well-formed tasks: a PSent task still has dependents to spawn *)
  Definition wf_task (t : task) : Prop := match t_pc t with PSent [] => False | _ => True end.

  Definition Inv (s : st) : Prop :=
    wg s = SW (tasks s) + length (rch s) /\ Forall wf_task (tasks s).

  Definition measure (s : st) : nat := ST (tasks s) + length (rch s) + (if ret s then 0 else 1).

  (* ---------- one task step ---------- *)
  Ltac wf_solve :=
    repeat (first [assumption | exact I | apply Forall_nil | apply Forall_cons | (apply Forall_app; split)]).

  Lemma task_step_facts s pre t post s' :
    tasks s = pre ++ t :: post -> Inv s -> ret s = false -> In s' (task_steps s pre t post) ->
    Inv s' /\ S (measure s') = measure s /\ ret s' = false /\ ins s' = ins s /\ errs s' = errs s.
  Proof.
    intros Ht [Hw Hwf] Hr Hin. unfold Inv, measure in *. rewrite Ht in *.
    rewrite SW_app, SW_cons in Hw. rewrite ST_app, ST_cons, Hr.
    apply Forall_app in Hwf. destruct Hwf as [Hwf1 Hwf2]. inversion Hwf2 as [|? ? Hwt Hwf3]; subst.
    unfold task_steps in Hin. destruct t as [n p]. simpl in *. unfold weight, twork in *. simpl in *.
    destruct p as [| |r].
    - destruct Hin as [<-|[]]. simpl. rewrite Hr, SW_app, SW_cons, ST_app, ST_cons. unfold weight, twork; simpl.
      rewrite work_unfold.
      split; [split; [lia|]|split; [lia|auto]].
      wf_solve.
    - destruct (length (rch s) <? rcap); [|contradiction]. destruct Hin as [<-|[]]. simpl.
      rewrite Hr, app_length. simpl. rewrite work_unfold. destruct (kids_of n) as [|k ks] eqn:Ek.
      + rewrite SW_app, ST_app. simpl. simpl in Hw.
        split; [split; [lia|]|split; [lia|auto]]. wf_solve.
      + rewrite SW_app, SW_cons, ST_app, ST_cons. unfold weight, twork; simpl. simpl in Hw.
        split; [split; [lia|]|split; [lia|auto]].
      wf_solve.
    - destruct r as [|k [|k2 ks]].
      + contradiction.
      + destruct Hin as [<-|[]]. simpl. rewrite Hr, SW_app, SW_app, ST_app, ST_app, SW_one, ST_one. simpl.
        unfold weight, twork; simpl. simpl in Hw.
        split; [split; [lia|]|split; [lia|auto]].
      wf_solve.
      + destruct Hin as [<-|[]]. simpl. rewrite Hr, SW_app, SW_cons, SW_app, ST_app, ST_cons, ST_app, SW_one, ST_one. simpl.
        unfold weight, twork; simpl. simpl in Hw.
        split; [split; [lia|]|split; [lia|auto]].
      wf_solve.
  Qed.

  Lemma all_task_steps_facts s : forall l pre s',
    tasks s = pre ++ l -> Inv s -> ret s = false -> In s' (all_task_steps s pre l) ->
    Inv s' /\ S (measure s') = measure s /\ ret s' = false /\ ins s' = ins s /\ errs s' = errs s.
  Proof.
    induction l as [|t post IH]; intros pre s' Ht HI Hr Hin; simpl in Hin; [contradiction|].
    apply in_app_or in Hin. destruct Hin as [Hin|Hin].
    - eapply task_step_facts; eauto.
    - eapply (IH (pre ++ [t])); eauto. rewrite <- app_assoc. exact Ht.
  Qed.

  Lemma coll_step_facts s s' :
    Inv s -> ret s = false -> In s' (coll_steps s) -> Inv s' /\ S (measure s') = measure s /\ ret s' = false.
  Proof.
    unfold Inv, measure, coll_steps. intros [Hw Hwf] Hr Hin.
    destruct (rch s) as [|[i f] r] eqn:E; [contradiction|]. destruct Hin as [<-|[]]. simpl in *. rewrite Hr.
    repeat split; auto; lia.
  Qed.

  Lemma main_step_facts s s' :
    Inv s -> ret s = false -> In s' (main_steps s) ->
    Inv s' /\ S (measure s') = measure s /\ ret s' = true /\ tasks s' = [] /\ rch s' = [] /\ ins s' = ins s /\ errs s' = errs s.
  Proof.
    unfold Inv, measure, main_steps. intros [Hw Hwf] Hr Hin.
    destruct (wg s =? 0) eqn:E; [|contradiction]. apply Nat.eqb_eq in E. destruct Hin as [<-|[]]. simpl. rewrite Hr.
    (* the counter is zero: no task, nothing queued *)
    assert (Hz: SW (tasks s) = 0 /\ length (rch s) = 0) by lia. destruct Hz as [Hz1 Hz2].
    assert (Ht: tasks s = []).
    { destruct (tasks s) as [|t l] eqn:Et; auto. exfalso. inversion Hwf as [|? ? Hwt _]; subst.
      rewrite SW_cons in Hz1. unfold weight, wf_task in *. destruct (t_pc t) as [| |[|k r]]; simpl in *; try lia; try contradiction. }
    assert (Hq: rch s = []) by (destruct (rch s); [reflexivity|simpl in Hz2; lia]).
    rewrite Ht, Hq. simpl. rewrite Ht in Hw. rewrite Hq in Hw. simpl in Hw.
    split; [split; [reflexivity|constructor]|]. repeat split; auto; lia.
  Qed.

  Theorem step_facts s s' :
    Inv s -> In s' (steps s) -> Inv s' /\ S (measure s') = measure s.
  Proof.
    unfold steps. intros HI Hin. destruct (ret s) eqn:Hr; [contradiction|].
    apply in_app_or in Hin. destruct Hin as [Hin|Hin].
    - destruct (all_task_steps_facts s (tasks s) [] s' eq_refl HI Hr Hin) as (A & B & _). auto.
    - apply in_app_or in Hin. destruct Hin as [Hin|Hin].
      + destruct (coll_step_facts _ _ HI Hr Hin) as (A & B & _). auto.
      + destruct (main_step_facts _ _ HI Hr Hin) as (A & B & _). auto.
  Qed.

  Lemma init_inv roots : Inv (init roots).
  Proof.
    unfold Inv, init. simpl. split.
    - unfold SW. rewrite map_map. simpl. rewrite <- plus_n_O.
      induction roots as [|r rs IH]; simpl; [reflexivity|]. f_equal. exact IH.
    - apply Forall_forall. intros t Ht. apply in_map_iff in Ht. destruct Ht as [r [<- _]]. exact I.
  Qed.

  Theorem reach_inv roots s : reach rcap roots s -> Inv s.
  Proof. induction 1 as [|s s' Hr IH Hs]; [apply init_inv|]. apply (step_facts _ _ IH Hs). Qed.

  (* ---------- no deadlock ---------- *)
  Theorem progress s : Inv s -> ret s = false -> steps s <> [].
  Proof.
    intros [Hw Hwf] Hr. unfold steps. rewrite Hr.
    destruct (tasks s) as [|t l] eqn:Et.
    - (* no task left: the collector drains the channel, then Wait returns *)
      simpl. destruct (rch s) as [|[i f] r] eqn:Eq.
      + unfold coll_steps, main_steps. rewrite Eq. simpl. simpl in Hw. rewrite Hw. simpl. discriminate.
      + unfold coll_steps. rewrite Eq. simpl. discriminate.
    - (* some task: it can move unless it waits for room in a full channel, and then the collector can *)
      destruct (length (rch s) <? rcap) eqn:Ec.
      + simpl. unfold task_steps. destruct (t_pc t) as [| |[|k [|k2 ks]]]; simpl; try rewrite Ec; simpl; discriminate.
      + apply Nat.ltb_ge in Ec. destruct (rch s) as [|[i f] r] eqn:Eq; [simpl in Ec; lia|].
        intros H. apply app_eq_nil in H. destruct H as [_ H]. apply app_eq_nil in H. destruct H as [H _].
        unfold coll_steps in H. rewrite Eq in H. discriminate.
  Qed.

  (* every run from the initial state has at most [measure (init roots)] steps, and exactly that
     many when it ends (in a returned state) *)
  Inductive run : st -> nat -> st -> Prop :=
  | run_nil s : run s 0 s
  | run_cons s s' s'' n : In s' (steps s) -> run s' n s'' -> run s (S n) s''.

  Theorem run_length s n s' : Inv s -> run s n s' -> measure s = n + measure s' /\ Inv s'.
  Proof.
    intros HI Hrun. induction Hrun as [|s s1 s2 n Hs Hr IH]; [split; [reflexivity|exact HI]|].
    destruct (step_facts _ _ HI Hs) as [HI1 Hm]. destruct (IH HI1) as [E HI2]. split; [lia|exact HI2].
  Qed.

  Corollary maximal_run_returns s n s' : Inv s -> run s n s' -> steps s' = [] -> ret s' = true.
  Proof.
    intros HI Hrun Hend. destruct (run_length _ _ _ HI Hrun) as [_ HI'].
    destruct (ret s') eqn:Hr; auto. exfalso. apply (progress _ HI' Hr). exact Hend.
  Qed.
End Proofs.

(* Stitching: what executorInsertObject / scrubInsertionIDs change and what they leave alone.
   [walk path root f] (Gw/Points.v) is executorExtractValue followed by the caller's update f of
   the object it returns.  Reading the same path afterwards gives f's result; reading any path
   that diverges from it gives what was there before. *)
From Coq Require Import String Ascii List Bool Arith ZArith Lia.
From GW Require Import Base.Res Base.GoStr Base.Json Gw.Points.
Import ListNotations.
Open Scope string_scope.
Open Scope list_scope.

Lemma bind_ok {A B} (r : res A) (f : A -> res B) y : bind r f = Ok y -> exists x, r = Ok x /\ f x = Ok y.
Proof. destruct r; simpl; intros H; try discriminate. eauto. Qed.

(* ---------- list cells ---------- *)
Lemma rd_extend l i j : rd (extend l i) j = rd l j.
Proof.
  unfold rd, extend. destruct (Nat.leb (length l) i); [|reflexivity].
  destruct (Nat.lt_ge_cases j (length l)) as [H|H].
  - rewrite nth_error_app1 by exact H. reflexivity.
  - rewrite nth_error_app2 by exact H. rewrite (proj2 (nth_error_None l j) H).
    destruct (nth_error (repeat (JObj []) (i + 1 - length l)) (j - length l)) eqn:E; [|reflexivity].
    apply nth_error_In, repeat_spec in E. congruence.
Qed.

Lemma extend_length l i : i < length (extend l i).
Proof.
  unfold extend. destruct (Nat.leb (length l) i) eqn:E.
  - apply Nat.leb_le in E. rewrite app_length, repeat_length. lia.
  - apply Nat.leb_gt in E. exact E.
Qed.

Lemma rd_upd_eq l i x : i < length l -> rd (upd_nth l i x) i = x.
Proof. intros H. unfold rd. rewrite nth_error_upd_nth_eq by exact H. reflexivity. Qed.

Lemma rd_upd_neq l i j x : i <> j -> rd (upd_nth l i x) j = rd l j.
Proof. intros H. unfold rd. rewrite nth_error_upd_nth_neq by exact H. reflexivity. Qed.

(* ---------- shape of what walk returns ---------- *)
Lemma walk_obj point rest root f root' : walk (point :: rest) root f = Ok root' -> exists m, root' = JObj m.
Proof.
  cbn [walk]. intros H. apply bind_ok in H. destruct H as [pd [_ H]].
  destruct root as [| | | | | |m]; try discriminate.
  destruct (is_list_element point).
  - destruct (match jget (pd_field pd) m with Some v => v | None => JArr [] end); try discriminate.
    destruct (pd_index pd <? 0)%Z; [discriminate|].
    apply bind_ok in H. destruct H as [e' [_ H]]. injection H as <-. eauto.
  - apply bind_ok in H. destruct H as [t' [_ H]]. injection H as <-. eauto.
Qed.

(* the value the path focuses on, read with the same defaults *)
Definition dflt (o : option json) : json := match o with None | Some JNull => JObj [] | Some v => v end.

Lemma dflt_obj m : dflt (Some (JObj m)) = JObj m. Proof. reflexivity. Qed.

(* ---------- reading back what was written ---------- *)
Theorem walk_then_extract : forall path root f root',
  walk path root f = Ok root' ->
  exists old new, extract_value path root = Ok old /\ f old = Ok new /\
                  (path = [] \/ (exists m, new = JObj m) -> extract_value path root' = Ok new).
Proof.
  induction path as [|point rest IH]; intros root f root' H.
  - cbn [walk] in H. exists root, root'. cbn [extract_value]. auto.
  - cbn [walk] in H. cbn [extract_value]. destruct (get_point_data point) as [pd| |]; cbn [bind] in *; try discriminate.
    destruct root as [| | | | | |m]; try discriminate.
    destruct (is_list_element point).
    + destruct (match jget (pd_field pd) m with Some v => v | None => JArr [] end) as [| | | | |l|]; try discriminate.
      destruct (pd_index pd <? 0)%Z; [discriminate|].
      apply bind_ok in H. destruct H as [e' [He H]]. injection H as <-.
      destruct (IH _ _ _ He) as [old [new [A [B C]]]]. exists old, new. split; [exact A|]. split; [exact B|].
      intros Hn. rewrite jget_jset_eq, rd_upd_eq by apply extend_length.
      apply C. destruct Hn as [Hn|Hn]; [discriminate|]. right. exact Hn.
    + apply bind_ok in H. destruct H as [t' [Ht H]]. injection H as <-.
      destruct (IH _ _ _ Ht) as [old [new [A [B C]]]]. exists old, new.
      split; [exact A|]. split; [exact B|].
      intros Hn. rewrite jget_jset_eq.
      assert (Hd: (match t' with JNull => JObj [] | _ => t' end) = t').
      { destruct rest as [|p2 r2].
        - cbn [walk] in Ht. cbn [extract_value] in A. injection A as <-. rewrite Ht in B. injection B as <-.
          destruct Hn as [Hn|[m' ->]]; [discriminate|]. reflexivity.
        - destruct (walk_obj _ _ _ _ _ Ht) as [m' ->]. reflexivity. }
      replace (match t' with JNull => JObj [] | _ => t' end) with t' by (symmetry; exact Hd).
      apply C. destruct Hn as [Hn|Hn]; [discriminate|right; exact Hn].
Qed.

(* ---------- the frame ---------- *)
(* which cell of its parent a point names: the field, and for a list element the index *)
Definition cell (p : string) : option (string * option Z) :=
  match get_point_data p with
  | Ok pd => Some (pd_field pd, if is_list_element p then Some (pd_index pd) else None)
  | _ => None
  end.

(* two realised paths part ways: at the first place where they name different cells they name
   different fields, or different elements of the same list *)
Inductive diverge : list string -> list string -> Prop :=
| dv_field p q pr qr f1 i1 f2 i2 :
    cell p = Some (f1, i1) -> cell q = Some (f2, i2) -> f1 <> f2 -> diverge (p :: pr) (q :: qr)
| dv_index p q pr qr f a b :
    cell p = Some (f, Some a) -> cell q = Some (f, Some b) -> a <> b -> diverge (p :: pr) (q :: qr)
| dv_below p q pr qr c :
    cell p = Some c -> cell q = Some c -> diverge pr qr -> diverge (p :: pr) (q :: qr).

Lemma cell_inv p f i : cell p = Some (f, i) ->
  exists pd, get_point_data p = Ok pd /\ pd_field pd = f /\
             ((is_list_element p = true /\ i = Some (pd_index pd)) \/ (is_list_element p = false /\ i = None)).
Proof.
  unfold cell. destruct (get_point_data p) as [pd| |]; try discriminate.
  intros H. exists pd. split; [reflexivity|]. destruct (is_list_element p); injection H as <- <-; auto.
Qed.

Theorem walk_frame : forall p root f root' q,
  walk p root f = Ok root' -> diverge p q -> extract_value q root' = extract_value q root.
Proof.
  induction p as [|point rest IH]; intros root f root' q H D; [inversion D|].
  cbn [walk] in H. apply bind_ok in H. destruct H as [pd [Hpd H]].
  destruct root as [| | | | | |m]; try discriminate.
  inversion D as [p0 q0 pr qr f1 i1 f2 i2 C1 C2 Hne | p0 q0 pr qr fld a b C1 C2 Hne | p0 q0 pr qr c C1 C2 Dr]; subst.
  - (* different fields *)
    apply cell_inv in C1. destruct C1 as [pd1 [E1 [F1 _]]]. rewrite Hpd in E1. injection E1 as <-.
    apply cell_inv in C2. destruct C2 as [pd2 [E2 [F2 _]]].
    assert (Hget: forall X, jget (pd_field pd2) (jset (pd_field pd) X m) = jget (pd_field pd2) m).
    { intros X. apply jget_jset_neq. congruence. }
    cbn [extract_value]. rewrite E2. cbn [bind].
    destruct (is_list_element point).
    + destruct (match jget (pd_field pd) m with Some v => v | None => JArr [] end); try discriminate.
      destruct (pd_index pd <? 0)%Z; [discriminate|].
      apply bind_ok in H. destruct H as [e' [_ H]]. injection H as <-. rewrite Hget. reflexivity.
    + apply bind_ok in H. destruct H as [t' [_ H]]. injection H as <-. rewrite Hget. reflexivity.
  - (* different elements of one list *)
    apply cell_inv in C1. destruct C1 as [pd1 [E1 [F1 [[L1 I1]|[_ I1]]]]]; [|discriminate].
    rewrite Hpd in E1. injection E1 as <-. injection I1 as ->.
    apply cell_inv in C2. destruct C2 as [pd2 [E2 [F2 [[L2 I2]|[_ I2]]]]]; [|discriminate]. injection I2 as ->.
    cbn [extract_value]. rewrite E2, L2. cbn [bind]. rewrite L1 in H.
    rewrite F2, <- F1.
    destruct (jget (pd_field pd) m) as [v|] eqn:Eg.
    + destruct v as [| | | | |l|]; try discriminate.
      destruct (pd_index pd <? 0)%Z eqn:Ea; [discriminate|].
      apply bind_ok in H. destruct H as [e' [_ H]]. injection H as <-. rewrite jget_jset_eq.
      destruct (pd_index pd2 <? 0)%Z eqn:Eb; [reflexivity|].
      rewrite rd_upd_neq, rd_extend; [reflexivity|].
      apply Z.ltb_ge in Ea. apply Z.ltb_ge in Eb. intros E. apply Hne. apply Z2Nat.inj; assumption.
    + destruct (pd_index pd <? 0)%Z eqn:Ea; [discriminate|].
      apply bind_ok in H. destruct H as [e' [_ H]]. injection H as <-. rewrite jget_jset_eq.
      destruct (pd_index pd2 <? 0)%Z eqn:Eb; [reflexivity|].
      rewrite rd_upd_neq, rd_extend; [reflexivity|].
      apply Z.ltb_ge in Ea. apply Z.ltb_ge in Eb. intros E. apply Hne. apply Z2Nat.inj; assumption.
  - (* the same cell: the paths part ways below it *)
    destruct c as [fld i].
    apply cell_inv in C1. destruct C1 as [pd1 [E1 [F1 K1]]]. rewrite Hpd in E1. injection E1 as <-.
    apply cell_inv in C2. destruct C2 as [pd2 [E2 [F2 K2]]].
    cbn [extract_value]. rewrite E2. cbn [bind]. rewrite F2, <- F1.
    destruct K1 as [[L1 I1]|[L1 I1]]; destruct K2 as [[L2 I2]|[L2 I2]]; try congruence; rewrite L1 in H; rewrite L2.
    + assert (Ei: pd_index pd2 = pd_index pd) by congruence. rewrite Ei.
      destruct (match jget (pd_field pd) m with Some v => v | None => JArr [] end) as [| | | | |l|] eqn:Eg; try discriminate.
      destruct (pd_index pd <? 0)%Z; [discriminate|].
      apply bind_ok in H. destruct H as [e' [He H]]. injection H as <-. rewrite jget_jset_eq.
      rewrite rd_upd_eq by apply extend_length. apply (IH _ _ _ _ He Dr).
    + apply bind_ok in H. destruct H as [t' [Ht H]]. injection H as <-. rewrite jget_jset_eq.
      assert (Hd: (match t' with JNull => JObj [] | _ => t' end) = t').
      { destruct rest as [|p2 r2]; [inversion Dr|]. destruct (walk_obj _ _ _ _ _ Ht) as [m' ->]. reflexivity. }
      transitivity (extract_value qr t').
      { destruct t'; try reflexivity. discriminate. }
      apply (IH _ _ _ _ Ht Dr).
Qed.

(* ---------- merging ---------- *)
Lemma merge_obj_get : forall src tgt k,
  jget k (merge_obj tgt src) =
  match jget k src with
  | Some _ => jget k (merge_obj tgt src)
  | None => jget k tgt
  end.
Proof.
  induction src as [|[k' v] r IH]; intros tgt k; cbn [merge_obj jget]; [reflexivity|].
  destruct (String.eqb k k') eqn:E; [reflexivity|].
  rewrite IH. destruct (jget k r); [reflexivity|].
  apply jget_jset_neq. intros ->. rewrite String.eqb_refl in E. discriminate.
Qed.

(* executorMergeObject never drops a key the accumulated object already had *)
Theorem merge_obj_keeps : forall src tgt k, jget k tgt <> None -> jget k (merge_obj tgt src) <> None.
Proof.
  induction src as [|[k' v] r IH]; intros tgt k H; cbn [merge_obj]; [exact H|].
  apply IH. destruct (String.eqb k' k) eqn:E.
  - apply String.eqb_eq in E. subst. rewrite jget_jset_eq. discriminate.
  - rewrite jget_jset_neq; [exact H|]. intros ->. rewrite String.eqb_refl in E. discriminate.
Qed.

(* ... and every key of the arriving object is there afterwards *)
Theorem merge_obj_adds : forall src tgt k, jget k src <> None -> jget k (merge_obj tgt src) <> None.
Proof.
  induction src as [|[k' v] r IH]; intros tgt k H; cbn [merge_obj jget] in *; [congruence|].
  destruct (String.eqb k k') eqn:E.
  - apply String.eqb_eq in E. subst. apply merge_obj_keeps. rewrite jget_jset_eq. discriminate.
  - apply IH. exact H.
Qed.

(* a key only the accumulated object has keeps its value *)
Theorem merge_obj_other : forall src tgt k, jget k src = None -> jget k (merge_obj tgt src) = jget k tgt.
Proof. intros src tgt k H. rewrite merge_obj_get, H. reflexivity. Qed.

(* ---------- executorInsertObject / scrub as corollaries ---------- *)
Theorem insert_then_extract path target value target' src :
  path <> [] -> value = JObj src -> insert_object target path value = Ok target' ->
  exists tgt, extract_value path target = Ok (JObj tgt) /\ extract_value path target' = Ok (JObj (merge_obj tgt src)).
Proof.
  intros Hp -> H. unfold insert_object in H. destruct path as [|p r]; [congruence|].
  destruct (walk_then_extract _ _ _ _ H) as [old [new [A [B C]]]].
  destruct old as [| | | | | |tgt]; try discriminate. injection B as <-.
  exists tgt. split; [exact A|]. apply C. right. eauto.
Qed.

Theorem insert_frame path target value target' q :
  path <> [] -> insert_object target path value = Ok target' -> diverge path q ->
  extract_value q target' = extract_value q target.
Proof.
  intros Hp H D. unfold insert_object in H. destruct path as [|p r]; [congruence|].
  eapply walk_frame; eassumption.
Qed.

Theorem scrub_then_extract field response point response' :
  scrub_at field response point = Ok response' ->
  exists m, extract_value point response = Ok (JObj m) /\ extract_value point response' = Ok (JObj (jdel field m)).
Proof.
  unfold scrub_at. intros H. destruct (walk_then_extract _ _ _ _ H) as [old [new [A [B C]]]].
  destruct old as [| | | | | |m]; try discriminate. injection B as <-.
  exists m. split; [exact A|]. apply C. right. eauto.
Qed.

Theorem scrub_frame field response point response' q :
  scrub_at field response point = Ok response' -> diverge point q ->
  extract_value q response' = extract_value q response.
Proof. unfold scrub_at. intros H D. eapply walk_frame; eassumption. Qed.

Lemma jget_jdel_neq k k' m : k <> k' -> jget k' (jdel k m) = jget k' m.
Proof.
  intros H. induction m as [|[k0 v] r IH]; cbn [jdel jget]; [reflexivity|].
  destruct (String.eqb k k0) eqn:E.
  - apply String.eqb_eq in E. subst k0. rewrite IH.
    destruct (String.eqb k' k) eqn:E2; [apply String.eqb_eq in E2; congruence|reflexivity].
  - cbn [jget]. rewrite IH. reflexivity.
Qed.

Lemma jget_jdel_eq k m : jget k (jdel k m) = None.
Proof.
  induction m as [|[k0 v] r IH]; cbn [jdel jget]; [reflexivity|].
  destruct (String.eqb k k0) eqn:E; [exact IH|]. cbn [jget]. rewrite E. exact IH.
Qed.

(* Interfaces implemented: for objects and for interfaces, the merged definition implements
   exactly the interfaces some definition of the group implements, whatever the order. *)
From Coq Require Import String List Bool Arith Lia Permutation.
From GW Require Import Base.Res Base.GoStr Gql.Schema Gw.Merge Gw.MergeCheck Proofs.MergeBasics Proofs.MergeProofs
  Proofs.MergeUnion Proofs.MergeWhole Proofs.MergeResult.
Import ListNotations.
Open Scope string_scope.
Open Scope list_scope.

Definition implementing (k : kind) : Prop := k = KObject \/ k = KInterface.

Lemma merge2_ifaces p n p' :
  merge2 p n = Ok p' -> is_internal_name (df_name n) = false -> implementing (df_kind p) ->
  df_ifaces p' = sort_union (df_ifaces p) (df_ifaces n) /\ df_kind p' = df_kind p.
Proof.
  intros H Hin Hk. destruct (merge2_name_kind _ _ _ H) as [_ Hkind]. split; [|exact Hkind].
  unfold merge2 in H. rewrite Hin in H.
  destruct (kind_eqb (df_kind p) (df_kind n)) eqn:Ek; cbn [negb] in H; [|discriminate].
  apply kind_eqb_eq in Ek. rewrite <- Ek in H. destruct Hk as [Hk|Hk]; rewrite Hk in H.
  - apply merge_objects_ifaces. exact H.
  - unfold merge_interfaces in H. destruct (negb _) in H; [discriminate|].
    match type of H with (bind ?X _ = _) => destruct X; cbn [bind] in H; try discriminate end.
    destruct (negb _) in H; [discriminate|]. injection H as <-. reflexivity.
Qed.

Lemma group_ifaces_union : forall ds p out S,
  merge_group p ds = Ok out -> implementing (df_kind p) ->
  Forall (fun d => is_internal_name (df_name d) = false) ds ->
  ifaces_from p S -> ifaces_from out (S ++ ds).
Proof.
  induction ds as [|n r IH]; intros p out S H Hk Hn Hi.
  - cbn [merge_group] in H. injection H as <-. rewrite app_nil_r. exact Hi.
  - cbn [merge_group] in H. destruct (merge2 p n) as [p'|e|e] eqn:E; cbn [bind] in H; try discriminate.
    inversion Hn as [|? ? Hin Hr]; subst.
    destruct (merge2_ifaces _ _ _ E Hin Hk) as [Hif Hkind].
    assert (Hi' : ifaces_from p' (S ++ [n])).
    { intros i. rewrite Hif, In_sort_union. split.
      - intros [Hp|Hq].
        + apply Hi in Hp. destruct Hp as [x [Hx Hxi]]. exists x. split; [apply in_or_app; left; exact Hx|exact Hxi].
        + exists n. split; [apply in_or_app; right; left; reflexivity|exact Hq].
      - intros [x [Hx Hxi]]. apply in_app_or in Hx. destruct Hx as [Hx|[<-|[]]].
        + left. apply Hi. exists x. auto.
        + right. exact Hxi. }
    assert (Hk' : implementing (df_kind p')) by (rewrite Hkind; exact Hk).
    pose proof (IH _ _ _ H Hk' Hr Hi') as G. rewrite <- app_assoc in G. exact G.
Qed.

Theorem group_ifaces d ds out :
  merge_group d ds = Ok out -> implementing (df_kind d) ->
  Forall (fun x => is_internal_name (df_name x) = false) ds ->
  forall i, In i (df_ifaces out) <-> exists x, In x (d :: ds) /\ In i (df_ifaces x).
Proof.
  intros H Hk Hn. apply (group_ifaces_union ds d out [d] H Hk Hn).
  intros i. split; [intros Hi; exists d; split; [left; reflexivity|exact Hi]|intros [x [[<-|[]] Hi]]; exact Hi].
Qed.

(* the same definitions in another order implement the same interfaces *)
Theorem group_ifaces_order_independent d ds d' ds' o1 o2 :
  merge_group d ds = Ok o1 -> merge_group d' ds' = Ok o2 ->
  Permutation (d :: ds) (d' :: ds') ->
  Forall (fun x => is_internal_name (df_name x) = false) (d :: ds) ->
  implementing (df_kind d) -> implementing (df_kind d') ->
  forall i, In i (df_ifaces o1) <-> In i (df_ifaces o2).
Proof.
  intros H1 H2 Hp Hn Hk Hk' i.
  assert (Hn' : Forall (fun x => is_internal_name (df_name x) = false) (d' :: ds')) by (eapply Permutation_Forall; eassumption).
  inversion Hn; subst. inversion Hn'; subst.
  rewrite (group_ifaces d ds o1 H1 Hk) by assumption. rewrite (group_ifaces d' ds' o2 H2 Hk') by assumption.
  split; intros [x [Hx Hi]]; exists x; (split; [|exact Hi]).
  - eapply Permutation_in; eassumption.
  - eapply Permutation_in; [apply Permutation_sym; exact Hp|exact Hx].
Qed.

(* ... for the whole list of definitions: every object and every interface of the result
   implements the same interfaces in both orders *)
Theorem merge_types_ifaces_order_independent all all' out out' k a b :
  Permutation all all' -> Forall wf_def all -> is_internal_name k = false ->
  merge_types all = Ok out -> merge_types all' = Ok out' ->
  find_def k out = Some a -> find_def k out' = Some b -> implementing (df_kind a) ->
  forall i, In i (df_ifaces a) <-> In i (df_ifaces b).
Proof.
  intros Hp Hw Hk H1 H2 Fa Fb Hka.
  pose proof (merge_types_find all out k H1) as F1. pose proof (merge_types_find all' out' k H2) as F2.
  rewrite Fa in F1. rewrite Fb in F2.
  destruct F1 as [d [r [P1 G1]]]. destruct F2 as [d' [r' [P2 G2]]].
  assert (Pdr : Permutation (d :: r) (d' :: r')).
  { eapply Permutation_trans; [apply Permutation_sym; exact P1|].
    eapply Permutation_trans; [apply perm_filter'; exact Hp|exact P2]. }
  assert (Hn : Forall (fun x => is_internal_name (df_name x) = false) (d :: r)).
  { eapply Permutation_Forall; [exact P1|]. apply Forall_forall. intros x Hx. apply filter_In in Hx. destruct Hx as [_ Hx].
    apply String.eqb_eq in Hx. rewrite Hx. exact Hk. }
  destruct (merge_group_name_kind _ _ _ G1) as [_ K1]. destruct (merge_group_name_kind _ _ _ G2) as [_ K2].
  pose proof (merge_types_result_order_independent all all' out out' k Hp Hw Hk H1 H2) as Hs.
  rewrite Fa, Fb in Hs. destruct Hs as [Hkk _].
  apply (group_ifaces_order_independent d r d' r' a b G1 G2 Pdr Hn).
  - rewrite <- K1. exact Hka.
  - rewrite <- K2, <- Hkk. exact Hka.
Qed.

(* C03: a merged object or interface implements exactly the interfaces its definitions implement *)
Theorem merged_ifaces_exact all out k o :
  merge_types all = Ok out -> is_internal_name k = false -> find_def k out = Some o -> implementing (df_kind o) ->
  forall i, In i (df_ifaces o) <-> exists x, In x all /\ df_name x = k /\ In i (df_ifaces x).
Proof.
  intros H Hk Fo Hi i. pose proof (merge_types_find all out k H) as F. rewrite Fo in F. destruct F as [d [r [P G]]].
  destruct (merge_group_name_kind _ _ _ G) as [_ K].
  assert (Hmem : forall x, In x (d :: r) <-> In x all /\ df_name x = k).
  { intros x. split.
    - intros Hx. assert (Hf : In x (filter (named k) all)) by (eapply Permutation_in; [apply Permutation_sym; exact P|exact Hx]).
      apply filter_In in Hf. destruct Hf as [Hin Hn]. apply String.eqb_eq in Hn. tauto.
    - intros [Hin Hn]. eapply Permutation_in; [exact P|]. apply filter_In. split; [exact Hin|]. apply String.eqb_eq. exact Hn. }
  assert (Hn : Forall (fun x => is_internal_name (df_name x) = false) r).
  { apply Forall_forall. intros x Hx. destruct (proj1 (Hmem x) (or_intror Hx)) as [_ Hnx]. rewrite Hnx. exact Hk. }
  rewrite (group_ifaces d r o G) by (try (rewrite <- K; exact Hi); exact Hn).
  split.
  - intros [x [Hx Hxi]]. exists x. destruct (proj1 (Hmem x) Hx) as [A B]. tauto.
  - intros [x [A [B C]]]. exists x. split; [apply Hmem; tauto|exact C].
Qed.

From Coq Require Import String List Bool Arith Lia.
From GW Require Import Base.Res Base.Json Gw.Middleware.
Import ListNotations.
Open Scope list_scope.

Lemma run_response_spec : forall l d e log seen,
  let o := run_response l d e log seen in
  oc_log o = log ++ map rm_id (prefix_upto_fail l) /\
  length (oc_seen o) = length seen + length (prefix_upto_fail l) /\
  oc_err o = match first_failing l with Some x => Some x | None => if e then Some 0 else None end /\
  oc_data o = match first_failing l with Some _ => None | None => fold_left (fun d r => apply_edit r d) l d end.
Proof.
  induction l as [|r rest IH]; intros d e log seen; simpl.
  - rewrite app_nil_r. repeat split; auto.
  - unfold first_failing. simpl. destruct (rm_fails r) eqn:F; simpl.
    + repeat split; auto. rewrite app_length. simpl. lia.
    + destruct (IH (apply_edit r d) e (log ++ [rm_id r]) (seen ++ [d])) as (A & B & C & D).
      rewrite A, B, C, D. rewrite <- app_assoc. simpl. rewrite app_length. simpl.
      repeat split; auto. lia.
Qed.

(* each response middleware runs at most once, and exactly once when no earlier one failed *)
Lemma prefix_upto_fail_all l : filter rm_fails l = [] -> prefix_upto_fail l = l.
Proof.
  induction l as [|r rest IH]; simpl; auto. destruct (rm_fails r); [discriminate|]. intros H. rewrite IH; auto.
Qed.

Lemma prefix_is_prefix l : exists rest, l = prefix_upto_fail l ++ rest.
Proof.
  induction l as [|r rest IH]; simpl; [exists []; reflexivity|].
  destruct (rm_fails r); [exists rest; reflexivity|]. destruct IH as [t Ht]. exists t. simpl. congruence.
Qed.

Theorem gateway_finish_spec mws scrubbed e :
  let o := gateway_finish mws false scrubbed e in
  let rs := response_mws mws in
  oc_log o = map rm_id (prefix_upto_fail rs) /\
  oc_err o = match first_failing rs with Some x => Some x | None => if e then Some 0 else None end /\
  oc_data o = match first_failing rs with Some _ => None | None => fold_left (fun d r => apply_edit r d) rs scrubbed end.
Proof.
  unfold gateway_finish. destruct (run_response_spec (response_mws mws) scrubbed e [] []) as (A & _ & C & D).
  simpl in *. auto.
Qed.

(* the executor's failure does not change which middlewares run or what they are handed *)
Theorem middlewares_run_on_failure_alike mws scrubbed :
  oc_log (gateway_finish mws false scrubbed true) = oc_log (gateway_finish mws false scrubbed false) /\
  oc_seen (gateway_finish mws false scrubbed true) = oc_seen (gateway_finish mws false scrubbed false) /\
  oc_data (gateway_finish mws false scrubbed true) = oc_data (gateway_finish mws false scrubbed false).
Proof.
  unfold gateway_finish. generalize (@nil nat) (@nil data). generalize scrubbed.
  induction (response_mws mws) as [|r rest IH]; intros d log seen; simpl; auto.
  destruct (rm_fails r); simpl; auto.
Qed.

Theorem request_mws_on_every_call mws n c :
  In c (call_request_mws mws n) -> c = request_mws mws.
Proof. unfold call_request_mws. apply repeat_spec. Qed.

(* the split preserves registration order within each kind *)
Theorem split_preserves_order a b :
  response_mws (a ++ b) = response_mws a ++ response_mws b /\ request_mws (a ++ b) = request_mws a ++ request_mws b.
Proof. unfold response_mws, request_mws. rewrite !flat_map_app. auto. Qed.

(* What introspection says about a type determines the type: the answer to the full selection of
   a __Type (the FullType fragment of the canonical introspection query, with type references
   followed to depth D) lists exactly the fields, arguments, input fields, interfaces, enum values
   and possible types of the definition, and decoding it gives the definition back. *)
From Coq Require Import String Ascii List Bool Arith Lia.
From GW Require Import Base.GoStr Base.Json Gql.Syntax Gql.Schema Gql.Spec Gw.Introspect Proofs.IntrospectProofs.
Import ListNotations.
Open Scope string_scope.
Open Scope list_scope.

Definition fld (n : string) (sub : list sel) : sel := Field n n [] [] sub.
Definition fld_all (n : string) (sub : list sel) : sel := Field n n [("includeDeprecated", VBool true)] [] sub.

Definition input_value_sel (D : nat) : list sel :=
  [fld "name" []; fld "type" (type_ref_sel D); fld "defaultValue" []].
Definition field_sel (D : nat) : list sel :=
  [fld "name" []; fld "args" (input_value_sel D); fld "type" (type_ref_sel D); fld "isDeprecated" []].
Definition full_type_sel (D : nat) : list sel :=
  [fld "kind" []; fld "name" [];
   fld_all "fields" (field_sel D);
   fld "inputFields" (input_value_sel D);
   fld "interfaces" [fld "name" []];
   fld_all "enumValues" [fld "name" []; fld "isDeprecated" []];
   fld "possibleTypes" [fld "name" []]].

Section Exact.
  Variable isch : ischema.
  Variable frags : list fragdef.
  Variable vars : list (string * json).
  Notation types := (s_types (is_schema isch)).

  Definition ref (D : nat) (t : option ty) : json :=
    match t with Some t1 => below isch frags vars (2 + D) t1 D | None => JNull end.

  Definition input_value_json (D : nat) (name : string) (t : option ty) (dflt : option gval) : json :=
    JObj [("name", JStr name); ("type", ref D t); ("defaultValue", default_json dflt)].

  Definition field_json (D : nat) (f : fielddef) : json :=
    JObj [("name", JStr (fd_name f));
          ("args", JArr (map (fun a => input_value_json D (ad_name a) (ad_type a) (ad_default a)) (fd_args f)));
          ("type", ref D (fd_type f));
          ("isDeprecated", JBool (is_deprecated (fd_dirs f)))].

  Definition name_json (n : string) : json :=
    match find_def n types with Some d => JObj [("name", JStr (df_name d))] | None => JNull end.

  Definition full_type_json (D : nat) (d : definition) : json :=
    JObj [("kind", JStr (kind_name (df_kind d))); ("name", JStr (df_name d));
          ("fields", match df_kind d with
                     | KObject | KInterface => JArr (map (field_json D) (filter (fun f => negb (is_meta (fd_name f))) (df_fields d)))
                     | _ => JNull end);
          ("inputFields", match df_kind d with
                          | KInputObject => JArr (map (fun f => input_value_json D (fd_name f) (fd_type f) (fd_default f)) (df_fields d))
                          | _ => JNull end);
          ("interfaces", match df_kind d with KObject => JArr (map name_json (df_ifaces d)) | _ => JNull end);
          ("enumValues", match df_kind d with
                         | KEnum => JArr (map (fun e => JObj [("name", JStr (ev_name e)); ("isDeprecated", JBool (is_deprecated (ev_dirs e)))]) (df_enums d))
                         | _ => JNull end);
          ("possibleTypes", match df_kind d with
                            | KInterface | KUnion => JArr (map name_json (match lookup (df_name d) (is_possible isch) with Some l => l | None => [] end))
                            | _ => JNull end)].

  Lemma filter_ext_eq {A} (f g : A -> bool) l : (forall x, f x = g x) -> filter f l = filter g l.
  Proof. intros H. induction l as [|x r IH]; cbn [filter]; [reflexivity|]. rewrite H, IH. reflexivity. Qed.

  Lemma fields_of_full fuel D :
    fields_of frags vars "__Type" (full_type_sel D) (S fuel) =
    [ {| c_key := "kind"; c_name := "kind"; c_args := []; c_sub := [] |};
      {| c_key := "name"; c_name := "name"; c_args := []; c_sub := [] |};
      {| c_key := "fields"; c_name := "fields"; c_args := [("includeDeprecated", VBool true)]; c_sub := field_sel D |};
      {| c_key := "inputFields"; c_name := "inputFields"; c_args := []; c_sub := input_value_sel D |};
      {| c_key := "interfaces"; c_name := "interfaces"; c_args := []; c_sub := [fld "name" []] |};
      {| c_key := "enumValues"; c_name := "enumValues"; c_args := [("includeDeprecated", VBool true)];
         c_sub := [fld "name" []; fld "isDeprecated" []] |};
      {| c_key := "possibleTypes"; c_name := "possibleTypes"; c_args := []; c_sub := [fld "name" []] |} ].
  Proof. reflexivity. Qed.

  Lemma fields_of_field fuel D :
    fields_of frags vars "__Field" (field_sel D) (S fuel) =
    [ {| c_key := "name"; c_name := "name"; c_args := []; c_sub := [] |};
      {| c_key := "args"; c_name := "args"; c_args := []; c_sub := input_value_sel D |};
      {| c_key := "type"; c_name := "type"; c_args := []; c_sub := type_ref_sel D |};
      {| c_key := "isDeprecated"; c_name := "isDeprecated"; c_args := []; c_sub := [] |} ].
  Proof. reflexivity. Qed.

  Lemma fields_of_input_value fuel D :
    fields_of frags vars "__InputValue" (input_value_sel D) (S fuel) =
    [ {| c_key := "name"; c_name := "name"; c_args := []; c_sub := [] |};
      {| c_key := "type"; c_name := "type"; c_args := []; c_sub := type_ref_sel D |};
      {| c_key := "defaultValue"; c_name := "defaultValue"; c_args := []; c_sub := [] |} ].
  Proof. reflexivity. Qed.

  Lemma fields_of_name ty fuel :
    fields_of frags vars ty [fld "name" []] (S fuel) = [ {| c_key := "name"; c_name := "name"; c_args := []; c_sub := [] |} ].
  Proof. reflexivity. Qed.

  Lemma fields_of_enum fuel :
    fields_of frags vars "__EnumValue" [fld "name" []; fld "isDeprecated" []] (S fuel) =
    [ {| c_key := "name"; c_name := "name"; c_args := []; c_sub := [] |};
      {| c_key := "isDeprecated"; c_name := "isDeprecated"; c_args := []; c_sub := [] |} ].
  Proof. reflexivity. Qed.

  (* a named type asked for its name *)
  Lemma named_answer fuel d0 :
    intro_type isch frags vars (S (S fuel)) (TDef d0) [fld "name" []] = JObj [("name", JStr (df_name d0))].
  Proof. cbn [intro_type]. rewrite fields_of_name. reflexivity. Qed.

  (* the answer, spelled out *)
  Theorem full_type_answer D d :
    intro_type isch frags vars (3 + D) (TDef d) (full_type_sel D) = full_type_json D d.
  Proof.
    unfold full_type_json. change (3 + D) with (S (S (S D))). remember (S (S D)) as F eqn:EF.
    cbn [intro_type]. subst F. rewrite fields_of_full.
    unfold answer at 1. cbn [map c_key c_name c_args c_sub].
    rewrite (filter_ext_eq (fun f : fielddef => negb (is_meta (fd_name f)) &&
                   (arg_true vars [("includeDeprecated", VBool true)] "includeDeprecated" || negb (is_deprecated (fd_dirs f))))
                 (fun f => negb (is_meta (fd_name f))) (df_fields d)).
    2:{ intros f. change (arg_true vars [("includeDeprecated", VBool true)] "includeDeprecated") with true. cbn [orb]. apply andb_true_r. }
    rewrite (filter_ext_eq (fun e : enumval => arg_true vars [("includeDeprecated", VBool true)] "includeDeprecated" || negb (is_deprecated (ev_dirs e)))
                 (fun _ => true) (df_enums d)).
    2:{ intros e. reflexivity. }
    assert (Hall : forall l : list enumval, filter (fun _ => true) l = l).
    { induction l as [|x r IH]; cbn [filter]; [reflexivity|rewrite IH; reflexivity]. }
    rewrite Hall.
    destruct (df_kind d); reflexivity.
  Qed.

  (* ---------- reading the definition back ---------- *)
  Record parg := { pa_name : string; pa_type : ty; pa_default : option string }.
  Record pfield := { pf_name : string; pf_args : list parg; pf_type : ty; pf_deprecated : bool }.
  Record ptype := { pt_kind : string; pt_name : string; pt_fields : list pfield; pt_inputs : list parg;
                    pt_ifaces : list string; pt_enums : list (string * bool); pt_possible : list string }.

  Definition the_ty (o : option ty) : ty := match o with Some t => t | None => TNamed "" false end.

  Definition proj_arg (name : string) (t : option ty) (dflt : option gval) : parg :=
    {| pa_name := name; pa_type := the_ty t; pa_default := option_map gv_str dflt |}.
  Definition proj_field (f : fielddef) : pfield :=
    {| pf_name := fd_name f; pf_args := map (fun a => proj_arg (ad_name a) (ad_type a) (ad_default a)) (fd_args f);
       pf_type := the_ty (fd_type f); pf_deprecated := is_deprecated (fd_dirs f) |}.
  Definition proj_type (d : definition) : ptype :=
    {| pt_kind := kind_name (df_kind d); pt_name := df_name d;
       pt_fields := match df_kind d with
                    | KObject | KInterface => map proj_field (filter (fun f => negb (is_meta (fd_name f))) (df_fields d))
                    | _ => [] end;
       pt_inputs := match df_kind d with
                    | KInputObject => map (fun f => proj_arg (fd_name f) (fd_type f) (fd_default f)) (df_fields d)
                    | _ => [] end;
       pt_ifaces := match df_kind d with KObject => df_ifaces d | _ => [] end;
       pt_enums := match df_kind d with KEnum => map (fun e => (ev_name e, is_deprecated (ev_dirs e))) (df_enums d) | _ => [] end;
       pt_possible := match df_kind d with
                      | KInterface | KUnion => match lookup (df_name d) (is_possible isch) with Some l => l | None => [] end
                      | _ => [] end |}.

  Definition obind {A B} (o : option A) (f : A -> option B) : option B := match o with Some x => f x | None => None end.
  Fixpoint seq_opt {A} (l : list (option A)) : option (list A) :=
    match l with
    | [] => Some []
    | o :: r => obind o (fun x => obind (seq_opt r) (fun xs => Some (x :: xs)))
    end.
  Definition dec_str (j : json) : option string := match j with JStr s => Some s | _ => None end.
  Definition dec_opt_str (j : json) : option (option string) :=
    match j with JStr s => Some (Some s) | JNull => Some None | _ => None end.
  Definition dec_bool (j : json) : option bool := match j with JBool b => Some b | _ => None end.
  Definition dec_list {A} (f : json -> option A) (j : json) : option (list A) :=
    match j with JArr l => seq_opt (map f l) | JNull => Some [] | _ => None end.
  Definition field_of (k : string) (j : json) : option json := match j with JObj m => jget k m | _ => None end.

  Definition dec_arg (D : nat) (j : json) : option parg :=
    obind (obind (field_of "name" j) dec_str) (fun n =>
    obind (obind (field_of "type" j) (ty_of_json (S D))) (fun t =>
    obind (obind (field_of "defaultValue" j) dec_opt_str) (fun dv =>
    Some {| pa_name := n; pa_type := t; pa_default := dv |}))).
  Definition dec_field (D : nat) (j : json) : option pfield :=
    obind (obind (field_of "name" j) dec_str) (fun n =>
    obind (obind (field_of "args" j) (dec_list (dec_arg D))) (fun args =>
    obind (obind (field_of "type" j) (ty_of_json (S D))) (fun t =>
    obind (obind (field_of "isDeprecated" j) dec_bool) (fun dep =>
    Some {| pf_name := n; pf_args := args; pf_type := t; pf_deprecated := dep |})))).
  Definition dec_name (j : json) : option string := obind (field_of "name" j) dec_str.
  Definition dec_enum (j : json) : option (string * bool) :=
    obind (obind (field_of "name" j) dec_str) (fun n => obind (obind (field_of "isDeprecated" j) dec_bool) (fun b => Some (n, b))).
  Definition dec_type (D : nat) (j : json) : option ptype :=
    obind (obind (field_of "kind" j) dec_str) (fun k =>
    obind (obind (field_of "name" j) dec_str) (fun n =>
    obind (obind (field_of "fields" j) (dec_list (dec_field D))) (fun fs =>
    obind (obind (field_of "inputFields" j) (dec_list (dec_arg D))) (fun ins =>
    obind (obind (field_of "interfaces" j) (dec_list dec_name)) (fun ifs =>
    obind (obind (field_of "enumValues" j) (dec_list dec_enum)) (fun evs =>
    obind (obind (field_of "possibleTypes" j) (dec_list dec_name)) (fun ps =>
    Some {| pt_kind := k; pt_name := n; pt_fields := fs; pt_inputs := ins; pt_ifaces := ifs; pt_enums := evs; pt_possible := ps |}))))))).

  Lemma seq_map {A B C} (f : B -> option C) (g : A -> B) (h : A -> C) l :
    (forall x, In x l -> f (g x) = Some (h x)) -> seq_opt (map f (map g l)) = Some (map h l).
  Proof.
    induction l as [|x r IH]; intros H; cbn [map seq_opt]; [reflexivity|].
    rewrite (H x (or_introl eq_refl)). cbn [obind]. rewrite IH; [reflexivity|]. intros y Hy. apply H. right. exact Hy.
  Qed.

  (* what the definition must satisfy: its type references name defined types and are no deeper than D *)
  Definition wf_ref (D : nat) (o : option ty) : Prop := exists t, o = Some t /\ ty_defined types t /\ wrappers t <= D.
  Definition name_defined (n : string) : Prop := exists d0, find_def n types = Some d0 /\ df_name d0 = n.
  Definition wf_type (D : nat) (d : definition) : Prop :=
    Forall (fun f => wf_ref D (fd_type f) /\ Forall (fun a => wf_ref D (ad_type a)) (fd_args f)) (df_fields d) /\
    Forall name_defined (df_ifaces d) /\
    Forall name_defined (match lookup (df_name d) (is_possible isch) with Some l => l | None => [] end).

  Lemma dec_ref D o : wf_ref D o -> ty_of_json (S D) (ref D o) = Some (the_ty o).
  Proof. intros [t [-> [Hd Hw]]]. cbn [ref the_ty]. apply type_reference_round_trip; assumption. Qed.

  Lemma dec_arg_ok D name t dflt : wf_ref D t -> dec_arg D (input_value_json D name t dflt) = Some (proj_arg name t dflt).
  Proof.
    intros Hw. unfold dec_arg, input_value_json, field_of. cbn [jget String.eqb Ascii.eqb Bool.eqb obind dec_str].
    change (jget "type" [("name", JStr name); ("type", ref D t); ("defaultValue", default_json dflt)]) with (Some (ref D t)).
    change (jget "defaultValue" [("name", JStr name); ("type", ref D t); ("defaultValue", default_json dflt)]) with (Some (default_json dflt)).
    change (jget "name" [("name", JStr name); ("type", ref D t); ("defaultValue", default_json dflt)]) with (Some (JStr name)).
    cbn [obind dec_str]. rewrite (dec_ref D t Hw). cbn [obind]. destruct dflt; reflexivity.
  Qed.

  Lemma dec_name_ok n : name_defined n -> dec_name (name_json n) = Some n.
  Proof. intros [d0 [Hf Hn]]. unfold name_json. rewrite Hf. unfold dec_name, field_of. cbn. rewrite Hn. reflexivity. Qed.

  Lemma dec_field_ok D f :
    wf_ref D (fd_type f) -> Forall (fun a => wf_ref D (ad_type a)) (fd_args f) -> dec_field D (field_json D f) = Some (proj_field f).
  Proof.
    intros Ht Ha. unfold dec_field, field_json, field_of.
    set (args := JArr (map (fun a => input_value_json D (ad_name a) (ad_type a) (ad_default a)) (fd_args f))).
    set (m := [("name", JStr (fd_name f)); ("args", args); ("type", ref D (fd_type f)); ("isDeprecated", JBool (is_deprecated (fd_dirs f)))]).
    change (jget "name" m) with (Some (JStr (fd_name f))). change (jget "args" m) with (Some args).
    change (jget "type" m) with (Some (ref D (fd_type f))). change (jget "isDeprecated" m) with (Some (JBool (is_deprecated (fd_dirs f)))).
    cbn [obind dec_str dec_bool]. rewrite (dec_ref D _ Ht). cbn [obind].
    unfold args, dec_list.
    rewrite (seq_map (dec_arg D) (fun a => input_value_json D (ad_name a) (ad_type a) (ad_default a))
                     (fun a => proj_arg (ad_name a) (ad_type a) (ad_default a)) (fd_args f)).
    2:{ intros a Hin. apply dec_arg_ok. rewrite Forall_forall in Ha. exact (Ha a Hin). }
    reflexivity.
  Qed.

  (* the round trip: what introspection says about a type is the type *)
  Theorem full_type_round_trip D d : wf_type D d ->
    dec_type D (intro_type isch frags vars (3 + D) (TDef d) (full_type_sel D)) = Some (proj_type d).
  Proof.
    intros (Hf & Hi & Hp). rewrite full_type_answer. unfold full_type_json, dec_type, field_of.
    set (fs := match df_kind d with KObject | KInterface => JArr (map (field_json D) (filter (fun f => negb (is_meta (fd_name f))) (df_fields d))) | _ => JNull end).
    set (ins := match df_kind d with KInputObject => JArr (map (fun f => input_value_json D (fd_name f) (fd_type f) (fd_default f)) (df_fields d)) | _ => JNull end).
    set (ifs := match df_kind d with KObject => JArr (map name_json (df_ifaces d)) | _ => JNull end).
    set (evs := match df_kind d with KEnum => JArr (map (fun e => JObj [("name", JStr (ev_name e)); ("isDeprecated", JBool (is_deprecated (ev_dirs e)))]) (df_enums d)) | _ => JNull end).
    set (ps := match df_kind d with KInterface | KUnion => JArr (map name_json (match lookup (df_name d) (is_possible isch) with Some l => l | None => [] end)) | _ => JNull end).
    set (m := [("kind", JStr (kind_name (df_kind d))); ("name", JStr (df_name d)); ("fields", fs); ("inputFields", ins);
               ("interfaces", ifs); ("enumValues", evs); ("possibleTypes", ps)]).
    change (jget "kind" m) with (Some (JStr (kind_name (df_kind d)))). change (jget "name" m) with (Some (JStr (df_name d))).
    change (jget "fields" m) with (Some fs). change (jget "inputFields" m) with (Some ins). change (jget "interfaces" m) with (Some ifs).
    change (jget "enumValues" m) with (Some evs). change (jget "possibleTypes" m) with (Some ps).
    cbn [obind dec_str].
    assert (Efs : dec_list (dec_field D) fs = Some (pt_fields (proj_type d))).
    { unfold fs, proj_type. cbn [pt_fields]. destruct (df_kind d); try reflexivity.
      all: unfold dec_list; apply seq_map; intros f Hin; apply filter_In in Hin; destruct Hin as [Hin _];
        rewrite Forall_forall in Hf; destruct (Hf f Hin) as [A B]; apply dec_field_ok; assumption. }
    assert (Eins : dec_list (dec_arg D) ins = Some (pt_inputs (proj_type d))).
    { unfold ins, proj_type. cbn [pt_inputs]. destruct (df_kind d); try reflexivity.
      unfold dec_list. apply seq_map. intros f Hin. rewrite Forall_forall in Hf. destruct (Hf f Hin) as [A _]. apply dec_arg_ok. exact A. }
    assert (Eifs : dec_list dec_name ifs = Some (pt_ifaces (proj_type d))).
    { unfold ifs, proj_type. cbn [pt_ifaces]. destruct (df_kind d); try reflexivity.
      unfold dec_list. rewrite <- (map_id (df_ifaces d)) at 2. apply seq_map. intros n Hin. rewrite Forall_forall in Hi. apply dec_name_ok. exact (Hi n Hin). }
    assert (Eevs : dec_list dec_enum evs = Some (pt_enums (proj_type d))).
    { unfold evs, proj_type. cbn [pt_enums]. destruct (df_kind d); try reflexivity.
      unfold dec_list. apply seq_map. intros e _. reflexivity. }
    assert (Eps : dec_list dec_name ps = Some (pt_possible (proj_type d))).
    { unfold ps, proj_type. cbn [pt_possible]. destruct (df_kind d); try reflexivity.
      all: unfold dec_list; match goal with |- _ = Some ?l => rewrite <- (map_id l) at 2 end; apply seq_map; intros n Hin;
        rewrite Forall_forall in Hp; apply dec_name_ok; exact (Hp n Hin). }
    rewrite Efs, Eins, Eifs, Eevs, Eps. reflexivity.
  Qed.

  (* ---------- the whole schema ---------- *)
  Lemma fields_of_types fuel D :
    fields_of frags vars "__Schema" [fld "types" (full_type_sel D)] (S fuel) =
    [ {| c_key := "types"; c_name := "types"; c_args := []; c_sub := full_type_sel D |} ].
  Proof. reflexivity. Qed.

  Theorem schema_types_answer D :
    intro_schema isch frags vars (3 + D) [fld "types" (full_type_sel D)] =
    JObj [("types", JArr (map (fun d => intro_type isch frags vars (3 + D) (TDef d) (full_type_sel D)) types))].
  Proof. unfold intro_schema. change (3 + D) with (S (S (S D))). rewrite fields_of_types. reflexivity. Qed.

  (* { __schema { types { ...FullType } } } read back is the list of the schema's definitions *)
  Theorem full_schema_round_trip D : Forall (wf_type D) types ->
    obind (field_of "types" (intro_schema isch frags vars (3 + D) [fld "types" (full_type_sel D)])) (dec_list (dec_type D)) =
    Some (map proj_type types).
  Proof.
    intros Hw. rewrite schema_types_answer. unfold field_of.
    match goal with |- obind (jget "types" [("types", ?x)]) _ = _ => change (jget "types" [("types", x)]) with (Some x) end.
    cbn [obind]. unfold dec_list. apply seq_map. intros d Hd. rewrite Forall_forall in Hw. apply full_type_round_trip. exact (Hw d Hd).
  Qed.

  (* ---------- directives ---------- *)
  Definition directive_sel (D : nat) : list sel :=
    [fld "name" []; fld "locations" []; fld "isRepeatable" []; fld "args" (input_value_sel D)].

  Record pdir := { pd_name : string; pd_locs : list string; pd_repeatable : bool; pd_args : list parg }.
  Definition proj_dir (d : dirdef) : pdir :=
    {| pd_name := dd_name d; pd_locs := dd_locs d; pd_repeatable := str_mem (dd_name d) (is_repeatable isch);
       pd_args := map (fun a => proj_arg (ad_name a) (ad_type a) (ad_default a)) (dd_args d) |}.

  Definition directive_json (D : nat) (d : dirdef) : json :=
    JObj [("name", JStr (dd_name d)); ("locations", JArr (map JStr (dd_locs d)));
          ("isRepeatable", JBool (str_mem (dd_name d) (is_repeatable isch)));
          ("args", JArr (map (fun a => input_value_json D (ad_name a) (ad_type a) (ad_default a)) (dd_args d)))].

  Lemma fields_of_directive fuel D :
    fields_of frags vars "__Directive" (directive_sel D) (S fuel) =
    [ {| c_key := "name"; c_name := "name"; c_args := []; c_sub := [] |};
      {| c_key := "locations"; c_name := "locations"; c_args := []; c_sub := [] |};
      {| c_key := "isRepeatable"; c_name := "isRepeatable"; c_args := []; c_sub := [] |};
      {| c_key := "args"; c_name := "args"; c_args := []; c_sub := input_value_sel D |} ].
  Proof. reflexivity. Qed.

  Theorem directive_answer D d :
    intro_directive isch frags vars (2 + D) d (directive_sel D) = directive_json D d.
  Proof.
    unfold intro_directive, directive_json. change (2 + D) with (S (S D)). rewrite fields_of_directive.
    unfold answer at 1. cbn [map c_key c_name c_args c_sub]. reflexivity.
  Qed.

  Definition dec_dir (D : nat) (j : json) : option pdir :=
    obind (obind (field_of "name" j) dec_str) (fun n =>
    obind (obind (field_of "locations" j) (dec_list dec_str)) (fun ls =>
    obind (obind (field_of "isRepeatable" j) dec_bool) (fun r =>
    obind (obind (field_of "args" j) (dec_list (dec_arg D))) (fun args =>
    Some {| pd_name := n; pd_locs := ls; pd_repeatable := r; pd_args := args |})))).

  Theorem directive_round_trip D d : Forall (fun a => wf_ref D (ad_type a)) (dd_args d) ->
    dec_dir D (intro_directive isch frags vars (2 + D) d (directive_sel D)) = Some (proj_dir d).
  Proof.
    intros Ha. rewrite directive_answer. unfold directive_json, dec_dir, field_of.
    set (locs := JArr (map JStr (dd_locs d))).
    set (args := JArr (map (fun a => input_value_json D (ad_name a) (ad_type a) (ad_default a)) (dd_args d))).
    set (m := [("name", JStr (dd_name d)); ("locations", locs); ("isRepeatable", JBool (str_mem (dd_name d) (is_repeatable isch))); ("args", args)]).
    change (jget "name" m) with (Some (JStr (dd_name d))). change (jget "locations" m) with (Some locs).
    change (jget "isRepeatable" m) with (Some (JBool (str_mem (dd_name d) (is_repeatable isch)))). change (jget "args" m) with (Some args).
    cbn [obind dec_str dec_bool]. unfold locs, args, dec_list.
    rewrite (seq_map dec_str JStr (fun x => x) (dd_locs d)) by (intros; reflexivity). cbn [obind].
    rewrite (seq_map (dec_arg D) (fun a => input_value_json D (ad_name a) (ad_type a) (ad_default a))
                     (fun a => proj_arg (ad_name a) (ad_type a) (ad_default a)) (dd_args d)).
    2:{ intros a Hin. apply dec_arg_ok. rewrite Forall_forall in Ha. exact (Ha a Hin). }
    cbn [obind]. unfold proj_dir. rewrite map_id. reflexivity.
  Qed.
End Exact.

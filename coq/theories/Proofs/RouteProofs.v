(* Every field is assigned to a service that declares it (the core of C02's confinement). *)
From Coq Require Import String List Bool.
From GW Require Import Base.Res Base.GoStr Gql.Syntax Gw.Locate Proofs.LocateProofs.
Import ListNotations.
Open Scope string_scope.
Open Scope list_scope.

Section Confined.
  Variables (prios : list string) (urls : urlmap) (ft : ftypes) (frags : list fragdef).
  (* the routing table never maps a key to an empty list (RegisterURL always appends a location) *)
  Hypothesis urls_nonempty : forall k locs, assoc k urls = Some locs -> locs <> [].

  Definition confined (r : routed) : Prop :=
    exists locs, url_for urls (r_tcond r) (r_name r) = Ok locs /\ In (r_loc r) locs.

  Lemma bind_ok_inv {A B} (r : res A) (f : A -> res B) y : bind r f = Ok y -> exists x, r = Ok x /\ f x = Ok y.
  Proof. destruct r; simpl; try discriminate. eauto. Qed.

  Lemma route_map_forall (P : routed -> Prop) (f : sel -> res (list routed)) : forall l r,
    Forall (fun x => forall a, f x = Ok a -> Forall P a) l -> route_map f l = Ok r -> Forall P r.
  Proof.
    induction l as [|x t IH]; intros r HF H; simpl in H.
    - injection H as <-. constructor.
    - inversion HF as [|? ? Hx Ht]; subst.
      apply bind_ok_inv in H. destruct H as [a [Ha H]]. apply bind_ok_inv in H. destruct H as [b [Hb H]].
      injection H as <-. apply Forall_app. split; [apply (Hx a Ha)|apply (IH b Ht Hb)].
  Qed.

  Lemma route_confined : forall fuel ptype ploc path s l,
    route fuel prios urls ft frags ptype ploc path s = Ok l -> Forall confined l.
  Proof.
    induction fuel as [|fuel IHf]; intros ptype ploc path s l H; [discriminate|].
    revert ptype ploc path l H.
    induction s as [alias name args dirs sub IH | tcond dirs sub IH | name dirs] using sel_ind';
      intros ptype ploc path l H; cbn [route] in H.
    - (* field *)
      apply bind_ok_inv in H. destruct H as [possible [Hu H]].
      assert (Hhere: confined {| r_path := path ++ [rkey alias name]; r_name := name; r_tcond := ptype;
                                 r_loc := selectLocation prios possible ploc |}).
      { exists possible. split; [exact Hu|]. apply chooser_in.
        unfold url_for in Hu. destruct (assoc (url_key ptype name) urls) eqn:E; [|discriminate].
        injection Hu as <-. eapply urls_nonempty; eauto. }
      destruct sub as [|s0 sub'].
      + injection H as <-. constructor; [exact Hhere|constructor].
      + destruct (assoc (url_key ptype name) ft) as [t|]; [|discriminate].
        apply bind_ok_inv in H. destruct H as [below [Hb H]]. injection H as <-.
        constructor; [exact Hhere|].
        eapply route_map_forall; [|exact Hb].
        eapply Forall_impl; [|exact IH]. intros x Hx a Ha. eapply Hx. exact Ha.
    - (* inline fragment *)
      eapply route_map_forall; [|exact H].
      eapply Forall_impl; [|exact IH]. intros x Hx a Ha. eapply Hx. exact Ha.
    - (* named fragment spread: one unit of fuel *)
      destruct (frag_for name frags) as [f|]; [|discriminate].
      eapply route_map_forall; [|exact H].
      apply Forall_forall. intros x _ a Ha. eapply IHf. exact Ha.
  Qed.

  Theorem route_sels_confined : forall fuel ptype ploc path sels l,
    route_sels fuel prios urls ft frags ptype ploc path sels = Ok l -> Forall confined l.
  Proof.
    intros fuel ptype ploc path sels l H. unfold route_sels in H.
    eapply route_map_forall; [|exact H]. apply Forall_forall. intros x _ a Ha. eapply route_confined. exact Ha.
  Qed.
End Confined.

(* ---------- no needless hop ---------- *)
Section SingleHop.
  Variables (urls : urlmap) (ft : ftypes) (frags : list fragdef) (L : string).

  (* the field of this entry is offered by L (and is not one of the gateway's own) *)
  Definition offered_at (r : routed) : Prop :=
    forall possible, url_for urls (r_tcond r) (r_name r) = Ok possible -> In L possible /\ ~ In internal_loc possible.

  Lemma chooser_stays possible : In L possible -> ~ In internal_loc possible -> selectLocation [] possible L = L.
  Proof.
    intros HL Hni. unfold selectLocation. destruct possible as [|x [|y r]]; [destruct HL| |].
    - destruct HL as [<-|[]]. reflexivity.
    - set (ps := x :: y :: r) in *.
      destruct (str_mem internal_loc ps) eqn:Ei; [apply str_mem_In in Ei; contradiction|].
      cbn [app]. rewrite fp_two. apply str_mem_In in HL. rewrite HL. reflexivity.
  Qed.

  Lemma route_map_forall2 (P Q : routed -> Prop) (f : sel -> res (list routed)) : forall l r,
    Forall (fun x => forall a, f x = Ok a -> Forall Q a -> Forall P a) l ->
    route_map f l = Ok r -> Forall Q r -> Forall P r.
  Proof.
    induction l as [|x t IH]; intros r HF H HQ; simpl in H.
    - injection H as <-. constructor.
    - inversion HF as [|? ? Hx Ht]; subst.
      apply bind_ok_inv in H. destruct H as [a [Ha H]]. apply bind_ok_inv in H. destruct H as [b [Hb H]].
      injection H as <-. apply Forall_app in HQ. destruct HQ as [HQa HQb].
      apply Forall_app. split; [apply (Hx a Ha HQa)|apply (IH b Ht Hb HQb)].
  Qed.

  (* with no priorities configured, a selection whose every field is offered by the location it
     starts at is planned entirely at that location: one step, one request *)
  Lemma route_single_hop : forall fuel ptype path s l,
    route fuel [] urls ft frags ptype L path s = Ok l -> Forall offered_at l -> Forall (fun r => r_loc r = L) l.
  Proof.
    induction fuel as [|fuel IHf]; intros ptype path s l H; [discriminate|].
    revert ptype path l H.
    induction s as [alias name args dirs sub IH | tcond dirs sub IH | name dirs] using sel_ind';
      intros ptype path l H HO; cbn [route] in H.
    - apply bind_ok_inv in H. destruct H as [possible [Hu H]].
      assert (Hloc: forall rest, Forall offered_at
                ({| r_path := path ++ [rkey alias name]; r_name := name; r_tcond := ptype;
                    r_loc := selectLocation [] possible L |} :: rest) -> selectLocation [] possible L = L).
      { intros rest HF. inversion HF as [|? ? Hh _]; subst. destruct (Hh possible Hu) as [A B].
        apply chooser_stays; assumption. }
      destruct sub as [|s0 sub'].
      + injection H as <-. constructor; [apply (Hloc [] HO)|constructor].
      + destruct (assoc (url_key ptype name) ft) as [t|]; [|discriminate].
        apply bind_ok_inv in H. destruct H as [below [Hb H]]. injection H as <-.
        pose proof (Hloc below HO) as E. constructor; [exact E|].
        rewrite E in Hb. inversion HO as [|? ? _ HOb]; subst.
        eapply route_map_forall2; [|exact Hb|exact HOb].
        eapply Forall_impl; [|exact IH]. intros x Hx a Ha HQ. eapply Hx; eassumption.
    - eapply route_map_forall2; [|exact H|exact HO].
      eapply Forall_impl; [|exact IH]. intros x Hx a Ha HQ. eapply Hx; eassumption.
    - destruct (frag_for name frags) as [f|]; [|discriminate].
      eapply route_map_forall2; [|exact H|exact HO].
      apply Forall_forall. intros x _ a Ha HQ. eapply IHf; eassumption.
  Qed.

  Theorem route_sels_single_hop : forall fuel ptype path sels l,
    route_sels fuel [] urls ft frags ptype L path sels = Ok l -> Forall offered_at l -> Forall (fun r => r_loc r = L) l.
  Proof.
    intros fuel ptype path sels l H HO. unfold route_sels in H.
    eapply route_map_forall2; [|exact H|exact HO]. apply Forall_forall. intros x _ a Ha HQ. eapply route_single_hop; eassumption.
  Qed.
End SingleHop.

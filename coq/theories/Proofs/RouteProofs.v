(* Every field is assigned to a service that declares it (the core of C02's confinement). *)
From Coq Require Import String List Bool.
From GW Require Import Base.Res Base.GoStr Gql.Syntax Gw.Locate Proofs.LocateProofs.
Import ListNotations.
Open Scope string_scope.
Open Scope list_scope.

Section Confined.
  Variables (prios : list string) (urls : urlmap) (ft : ftypes) (frags : list fragdef).
  (* the routing table never maps a key to an empty list (RegisterURL always appends a location) *)
  Hypothesis urls_nonempty : forall k locs, assoc k urls = Some locs -> locs <> [].

  Definition confined (r : routed) : Prop :=
    exists locs, url_for urls (r_tcond r) (r_name r) = Ok locs /\ In (r_loc r) locs.

  Lemma bind_ok_inv {A B} (r : res A) (f : A -> res B) y : bind r f = Ok y -> exists x, r = Ok x /\ f x = Ok y.
  Proof. destruct r; simpl; try discriminate. eauto. Qed.

  Lemma route_map_forall (P : routed -> Prop) (f : sel -> res (list routed)) : forall l r,
    Forall (fun x => forall a, f x = Ok a -> Forall P a) l -> route_map f l = Ok r -> Forall P r.
  Proof.
    induction l as [|x t IH]; intros r HF H; simpl in H.
    - injection H as <-. constructor.
    - inversion HF as [|? ? Hx Ht]; subst.
      apply bind_ok_inv in H. destruct H as [a [Ha H]]. apply bind_ok_inv in H. destruct H as [b [Hb H]].
      injection H as <-. apply Forall_app. split; [apply (Hx a Ha)|apply (IH b Ht Hb)].
  Qed.

  Lemma route_confined : forall fuel ptype ploc path s l,
    route fuel prios urls ft frags ptype ploc path s = Ok l -> Forall confined l.
  Proof.
    induction fuel as [|fuel IHf]; intros ptype ploc path s l H; [discriminate|].
    revert ptype ploc path l H.
    induction s as [alias name args dirs sub IH | tcond dirs sub IH | name dirs] using sel_ind';
      intros ptype ploc path l H; cbn [route] in H.
    - (* field *)
      apply bind_ok_inv in H. destruct H as [possible [Hu H]].
      assert (Hhere: confined {| r_path := path ++ [rkey alias name]; r_name := name; r_tcond := ptype;
                                 r_loc := selectLocation prios possible ploc |}).
      { exists possible. split; [exact Hu|]. apply chooser_in.
        unfold url_for in Hu. destruct (assoc (url_key ptype name) urls) eqn:E; [|discriminate].
        injection Hu as <-. eapply urls_nonempty; eauto. }
      destruct sub as [|s0 sub'].
      + injection H as <-. constructor; [exact Hhere|constructor].
      + destruct (assoc (url_key ptype name) ft) as [t|]; [|discriminate].
        apply bind_ok_inv in H. destruct H as [below [Hb H]]. injection H as <-.
        constructor; [exact Hhere|].
        eapply route_map_forall; [|exact Hb].
        eapply Forall_impl; [|exact IH]. intros x Hx a Ha. eapply Hx. exact Ha.
    - (* inline fragment *)
      eapply route_map_forall; [|exact H].
      eapply Forall_impl; [|exact IH]. intros x Hx a Ha. eapply Hx. exact Ha.
    - (* named fragment spread: one unit of fuel *)
      destruct (frag_for name frags) as [f|]; [|discriminate].
      eapply route_map_forall; [|exact H].
      apply Forall_forall. intros x _ a Ha. eapply IHf. exact Ha.
  Qed.

  Theorem route_sels_confined : forall fuel ptype ploc path sels l,
    route_sels fuel prios urls ft frags ptype ploc path sels = Ok l -> Forall confined l.
  Proof.
    intros fuel ptype ploc path sels l H. unfold route_sels in H.
    eapply route_map_forall; [|exact H]. apply Forall_forall. intros x _ a Ha. eapply route_confined. exact Ha.
  Qed.
End Confined.

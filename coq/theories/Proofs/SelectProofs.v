(* Exactly the named operation is chosen, wherever it stands in the document and whatever stands
   around it; a missing or unknown name chooses nothing. *)
From Coq Require Import String List Bool.
From GW Require Import Base.Res Gw.Select.
Import ListNotations.
Open Scope string_scope.
Open Scope list_scope.

Section SelectProofs.
  Variable plan : Type.
  Variable name_of : plan -> string.
  Notation for_operation := (for_operation plan name_of).
  Notation choose_plan := (choose_plan plan name_of).

  Lemma for_operation_sound plans name p : for_operation plans name = Ok p -> In p plans /\ name_of p = name.
  Proof.
    induction plans as [|q r IH]; cbn [for_operation]; [discriminate|].
    destruct (String.eqb (name_of q) name) eqn:E.
    - intros [= <-]. split; [left; reflexivity|apply String.eqb_eq; exact E].
    - intros H. destruct (IH H) as [A B]. split; [right; exact A|exact B].
  Qed.

  Lemma for_operation_unknown plans name : (forall p, In p plans -> name_of p <> name) -> is_err (for_operation plans name) = true.
  Proof.
    induction plans as [|q r IH]; intros H; cbn [for_operation]; [reflexivity|].
    destruct (String.eqb (name_of q) name) eqn:E.
    - apply String.eqb_eq in E. exfalso. apply (H q); [left; reflexivity|exact E].
    - apply IH. intros p Hp. apply H. right. exact Hp.
  Qed.

  (* operation names are unique in a validated document: the plan with the requested name is found
     wherever it stands and whatever the other plans are *)
  Lemma for_operation_position pre p post :
    (forall q, In q pre -> name_of q <> name_of p) -> for_operation (pre ++ p :: post) (name_of p) = Ok p.
  Proof.
    induction pre as [|q r IH]; intros H; cbn [app for_operation].
    - rewrite String.eqb_refl. reflexivity.
    - destruct (String.eqb (name_of q) (name_of p)) eqn:E.
      + apply String.eqb_eq in E. exfalso. apply (H q); [left; reflexivity|exact E].
      + apply IH. intros q' Hq'. apply H. right. exact Hq'.
  Qed.

  Theorem choose_named pre p post :
    name_of p <> "" -> (forall q, In q pre -> name_of q <> name_of p) ->
    choose_plan (pre ++ p :: post) (name_of p) = Ok p.
  Proof.
    intros Hne Hu. unfold Select.choose_plan.
    destruct (pre ++ p :: post) as [|x [|y t]] eqn:E.
    - destruct pre; discriminate.
    - (* a single plan: it is p *)
      destruct pre as [|a pre']; [injection E as <- _; reflexivity|].
      cbn [app] in E. injection E as _ E. destruct pre'; discriminate.
    - apply String.eqb_neq in Hne. rewrite Hne. rewrite <- E. apply for_operation_position. exact Hu.
  Qed.

  Theorem choose_sound plans name p :
    choose_plan plans name = Ok p -> In p plans /\ (length plans <> 1 -> name_of p = name /\ name <> "").
  Proof.
    unfold Select.choose_plan. destruct plans as [|x [|y t]].
    - cbn [for_operation]. destruct (String.eqb name ""); discriminate.
    - intros [= <-]. split; [left; reflexivity|]. cbn [length]. congruence.
    - destruct (String.eqb name "") eqn:E; [discriminate|]. intros H. apply for_operation_sound in H.
      destruct H as [A B]. split; [exact A|]. intros _. split; [exact B|]. apply String.eqb_neq. exact E.
  Qed.

  Theorem choose_missing_or_unknown plans name :
    length plans <> 1 -> (name = "" \/ forall p, In p plans -> name_of p <> name) ->
    is_err (choose_plan plans name) = true.
  Proof.
    intros Hl H. unfold Select.choose_plan. destruct plans as [|x [|y t]]; [|cbn [length] in Hl; congruence|].
    - destruct (String.eqb name ""); reflexivity.
    - destruct (String.eqb name "") eqn:E; [reflexivity|]. destruct H as [->|H]; [rewrite String.eqb_refl in E; discriminate|].
      apply for_operation_unknown. exact H.
  Qed.

  (* no plan chosen, nothing run: the executor (and with it every service) is reached only through
     the chosen plan *)
  Theorem execute_nothing_without_plan {R} (run : plan -> R) plans name :
    is_err (choose_plan plans name) = true -> is_err (execute plan name_of run plans name) = true.
  Proof. unfold execute. destruct (choose_plan plans name); simpl; congruence. Qed.

  Theorem execute_runs_chosen {R} (run : plan -> R) plans name p :
    choose_plan plans name = Ok p -> execute plan name_of run plans name = Ok (run p).
  Proof. unfold execute. intros ->. reflexivity. Qed.
End SelectProofs.

(* what is computed for a plan depends on that plan only *)
Theorem scrub_all_local {plan S} (scrub_of : plan -> S) pre p post pre' post' :
  nth_error (scrub_all scrub_of (pre ++ p :: post)) (length pre) = Some (p, scrub_of p) /\
  nth_error (scrub_all scrub_of (pre' ++ p :: post')) (length pre') = Some (p, scrub_of p).
Proof.
  unfold scrub_all. split; rewrite map_app, nth_error_app2; rewrite map_length; try apply le_n;
    rewrite PeanoNat.Nat.sub_diag; reflexivity.
Qed.

(* A dependent step at any depth, followed by the scrubber: every object at the end of the path
   ends with exactly the reference answer to l1 and l2. *)
From Coq Require Import String List Bool Arith ZArith Lia.
From GW Require Import Base.Res Base.GoStr Base.Json Gql.Syntax Gql.Spec Gw.Points
     Proofs.PointsProofs Proofs.StitchSound Proofs.JoinSound Proofs.StepJoin Proofs.StepScrub Proofs.DeepPoints.
Import ListNotations.
Open Scope string_scope.
Open Scope list_scope.

Section DeepScrub.
  Variable w : world.
  Variable frags : list fragdef.
  Variable vars : list (string * json).
  Hypothesis world_atomic : atomic_world w vars.
  Variable l1 l2 : list sel.
  Hypothesis good_sub : good (l1 ++ [id_sel]).
  Hypothesis good_l2 : good l2.
  Hypothesis compat_12 : compat (l1 ++ [id_sel]) l2.
  Hypothesis no_id_l2 : ~ In "id" (map key_of l2).
  Variable fuel : nat.

  Theorem deep_step_and_scrub e r sels fsels po rt :
    pathsel l1 (e :: r) sels -> fpath (e :: r) fsels -> shaped w vars (e :: r) po rt ->
    exists m ps acc' acc'',
      exec (S (F fuel (length r))) w frags vars po rt sels = JObj m /\
      find_insertion_points (map pe_key (e :: r)) fsels m [] = Ok ps /\
      join_all w frags vars l2 fuel ps (JObj m) = Ok acc' /\
      scrub_points "id" acc' ps = Ok acc'' /\
      Forall2 (holds_clean w frags vars l1 l2 fuel acc'') ps (leaves w vars (e :: r) po rt).
  Proof.
    intros Hp Hf Hs.
    destruct (find_path w frags vars l1 good_sub fuel r e sels fsels po rt Hp Hf Hs) as [m [sufs [Em [A [B [C D]]]]]].
    assert (Hpar : Forall2 (holds_parent w frags vars l1 fuel (JObj m)) sufs (leaves w vars (e :: r) po rt)).
    { clear - B D. induction B as [|s o ss os [Hn He] Hr IHr]; [constructor|].
      inversion D as [|? ? Hs Hss]; subst. constructor; [|exact (IHr Hss)].
      split; [exact Hs|]. split; [exact Hn|exact He]. }
    destruct (step_is_sound_and_total w frags vars world_atomic l1 l2 good_sub good_l2 compat_12 fuel _ _ _ C Hpar) as [acc' [Hrun Hall]].
    inversion good_l2 as [? P2 ? ?]; subst.
    destruct (step_scrubbed w frags vars l1 l2 good_sub P2 no_id_l2 fuel sufs _ acc' C Hall) as [acc'' [Hscrub Hclean]].
    exists m, sufs, acc', acc''. split; [exact Em|]. split; [|split; [exact Hrun|split; [exact Hscrub|exact Hclean]]].
    unfold find_insertion_points. cbn [length map Nat.ltb Nat.leb skipn]. cbn [map] in A. rewrite (A []). f_equal.
    clear. induction sufs as [|x xs IH]; cbn [map app]; [reflexivity|]. f_equal. exact IH.
  Qed.
End DeepScrub.

(* The flattened form the executor consults (graphql.ApplyFragments, modelled by Gw/Fed.v: flatten)
   of a parent selection that holds a path, holds the path too, with the shapes the schema
   declares: the premise fpath of Proofs/DeepPoints.v is met by the executor's own input. *)
From Coq Require Import String List Bool Arith Lia.
From GW Require Import Base.Res Base.GoStr Base.Json Gql.Syntax Gql.Spec Gw.Locate Gw.Plan Gw.Points Gw.Scrub Gw.Fed
     Proofs.StitchSound Proofs.JoinSound Proofs.DeepPoints.
Import ListNotations.
Open Scope string_scope.
Open Scope list_scope.

Lemma fold_add_fsel_nodup : forall (l acc : list fsel),
  NoDup (map fs_key (acc ++ l)) ->
  fold_left (fun a x => match x with FS k li nn sub => add_fsel k li nn sub a end) l acc = acc ++ l.
Proof.
  induction l as [|[k li nn sub] r IH]; intros acc Hn; cbn [fold_left]; [rewrite app_nil_r; reflexivity|].
  assert (Hadd : add_fsel k li nn sub acc = acc ++ [FS k li nn sub]).
  { assert (Hk : ~ In k (map fs_key acc)).
    { rewrite map_app in Hn. cbn [map fs_key] in Hn. apply NoDup_remove_2 in Hn. intros H. apply Hn. apply in_or_app. left. exact H. }
    clear - Hk. induction acc as [|[k' l' n' s'] t IHt]; cbn [add_fsel app]; [reflexivity|].
    cbn [map fs_key In] in Hk. destruct (String.eqb k' k) eqn:E; [apply String.eqb_eq in E; exfalso; apply Hk; left; exact E|].
    f_equal. apply IHt. intros H. apply Hk. right. exact H. }
  rewrite Hadd. rewrite IH; [rewrite <- app_assoc; reflexivity|]. rewrite <- app_assoc. exact Hn.
Qed.

Lemma find_selection_map (g : sel -> fsel) : forall l s,
  (forall x, fs_key (g x) = key_of x) -> NoDup (map key_of l) -> In s l ->
  find_selection (key_of s) (map g l) = Some (g s).
Proof.
  induction l as [|x r IH]; intros s Hg Hn Hin; [destruct Hin|].
  cbn [map] in Hn. inversion Hn as [|? ? Hx Hr]; subst. cbn [map find_selection]. rewrite Hg.
  destruct Hin as [->|Hin]; [rewrite String.eqb_refl; reflexivity|].
  destruct (String.eqb (key_of x) (key_of s)) eqn:E; [|apply IH; assumption].
  apply String.eqb_eq in E. exfalso. apply Hx. rewrite E. apply in_map. exact Hin.
Qed.

Section FlattenPath.
  Variable sh : fshape.
  Variable l1 : list sel.

  (* the schema declares the fields of the path, with the shapes the path carries *)
  Fixpoint typed_path (ptype : string) (path : list pelem) : Prop :=
    match path with
    | [] => True
    | e :: r => exists t, shape_of (ptype ++ "." ++ pe_name e) sh = Some (t, (pe_list e, pe_nonnull e)) /\ typed_path t r
    end.

  (* one flattened entry per plain field *)
  Definition flat_one (f : nat) (ptype : string) (s : sel) : fsel :=
    match s with
    | Field alias name _ _ sub =>
        match shape_of (ptype ++ "." ++ name) sh with
        | Some (t, (li, nn)) => FS (rkey alias name) li nn (flatten f sh t sub)
        | None => FS (rkey alias name) false false (flatten f sh "" sub)
        end
    | _ => FS "" false false []
    end.

  Lemma flat_one_key f ptype x : fs_key (flat_one f ptype x) = key_of x.
  Proof.
    destruct x as [alias name args dirs sub| |]; cbn [flat_one key_of fs_key]; try reflexivity.
    destruct (shape_of (ptype ++ "." ++ name) sh) as [[t [li nn]]|]; reflexivity.
  Qed.

  Lemma flatten_good f ptype sels : good sels ->
    flatten (S f) sh ptype sels = map (flat_one f ptype) sels.
  Proof.
    intros G. inversion G as [? P N Sg]; subst. unfold flatten.
    assert (Hraw : flat_map (flat_sel (S f) sh ptype) sels =
                   map (fun s => match s with
                                 | Field alias name _ _ sub =>
                                     match shape_of (ptype ++ "." ++ name) sh with
                                     | Some (t, (li, nn)) => FS (rkey alias name) li nn (flat_map (flat_sel f sh t) sub)
                                     | None => FS (rkey alias name) false false (flat_map (flat_sel f sh "") sub)
                                     end
                                 | _ => FS "" false false []
                                 end) sels).
    { clear N Sg G. induction P as [|s r Hs Hr IH]; [reflexivity|]. cbn [flat_map map]. rewrite IH.
      destruct s as [alias name args dirs sub| |]; try destruct Hs. cbn [flat_sel].
      destruct (shape_of (ptype ++ "." ++ name) sh) as [[t [li nn]]|]; reflexivity. }
    rewrite Hraw. cbn [merge_fsels].
    rewrite (fold_add_fsel_nodup _ []).
    - cbn [app]. rewrite map_map. apply map_ext_in. intros s Hin.
      rewrite Forall_forall in P. pose proof (P s Hin) as Hs.
      destruct s as [alias name args dirs sub| |]; try destruct Hs. cbn [flat_one].
      destruct (shape_of (ptype ++ "." ++ name) sh) as [[t [li nn]]|]; reflexivity.
    - cbn [app]. rewrite map_map.
      assert (E : map (fun x => fs_key (match x with
                                 | Field alias name _ _ sub =>
                                     match shape_of (ptype ++ "." ++ name) sh with
                                     | Some (t, (li, nn)) => FS (rkey alias name) li nn (flat_map (flat_sel f sh t) sub)
                                     | None => FS (rkey alias name) false false (flat_map (flat_sel f sh "") sub)
                                     end
                                 | _ => FS "" false false []
                                 end)) sels = map key_of sels).
      { apply map_ext_in. intros s Hin. rewrite Forall_forall in P. pose proof (P s Hin) as Hs.
        destruct s as [alias name args dirs sub| |]; try destruct Hs.
        destruct (shape_of (ptype ++ "." ++ name) sh) as [[t [li nn]]|]; reflexivity. }
      rewrite E. exact N.
  Qed.

  Theorem flatten_holds_path : forall path f ptype sels,
    pathsel l1 path sels -> typed_path ptype path -> length path <= f -> fpath path (flatten f sh ptype sels).
  Proof.
    induction path as [|e r IH]; intros f ptype sels Hp Ht Hlen; [exact I|].
    cbn [pathsel] in Hp. destruct Hp as [G [sub [Hin Hsub]]].
    cbn [typed_path] in Ht. destruct Ht as [t [Hshape Htr]].
    destruct f as [|f']; [cbn [length] in Hlen; lia|].
    rewrite (flatten_good f' ptype sels G). cbn [fpath].
    exists (flatten f' sh t sub). split.
    - inversion G as [? P N Sg]; subst.
      change (pe_key e) with (key_of (pe_field e sub)).
      rewrite (find_selection_map (flat_one f' ptype) sels (pe_field e sub) (flat_one_key f' ptype) N Hin).
      cbn [pe_field flat_one]. rewrite Hshape. reflexivity.
    - apply IH; [exact Hsub|exact Htr|cbn [length] in Hlen; lia].
  Qed.
End FlattenPath.

(* One dependent step, over all its realised points.  The executor visits the points of a step one
   after the other (in any order: Gw/ExecLTS.v); each visit is the join of Proofs/JoinSound.v.  The
   points of one step pairwise part ways (find_points_spec), so a visit changes nothing at the
   other points (insert_frame): after the whole step every point holds the reference answer to the
   parent's selection and the step's selection together, for its own object. *)
From Coq Require Import String List Bool Arith ZArith Lia.
From GW Require Import Base.Res Base.GoStr Base.Json Gql.Syntax Gql.Spec Gw.Points
     Proofs.PointsProofs.
From GW Require Import Proofs.StitchSound Proofs.JoinSound.
Import ListNotations.
Open Scope string_scope.
Open Scope list_scope.

Lemma diverge_sym p q : diverge p q -> diverge q p.
Proof.
  induction 1 as [p q pr qr f1 i1 f2 i2 Hp Hq Hne|p q pr qr f a b Hp Hq Hne|p q pr qr c Hp Hq D IH].
  - eapply dv_field; eauto.
  - eapply dv_index; eauto.
  - eapply dv_below; eauto.
Qed.

(* where a value can be read, a value can be written *)
Lemma extract_then_walk : forall path root f old new,
  extract_value path root = Ok old -> f old = Ok new -> exists root', walk path root f = Ok root'.
Proof.
  induction path as [|point rest IH]; intros root f old new He Hf.
  - cbn [extract_value] in He. injection He as <-. exists new. exact Hf.
  - cbn [extract_value] in He. cbn [walk].
    destruct (get_point_data point) as [pd| |]; cbn [bind] in *; try discriminate.
    destruct root as [| | | | | |m]; try discriminate.
    destruct (is_list_element point).
    + destruct (match jget (pd_field pd) m with Some v => v | None => JArr [] end) as [| | | | |l|]; try discriminate.
      destruct (pd_index pd <? 0)%Z; [discriminate|].
      destruct (IH _ f _ _ He Hf) as [e' E]. rewrite E. cbn [bind]. eexists. reflexivity.
    + destruct (IH _ f _ _ He Hf) as [t' E]. rewrite E. cbn [bind]. eexists. reflexivity.
Qed.

Lemma insert_succeeds p acc tgt src :
  extract_value p acc = Ok (JObj tgt) -> exists acc', insert_object acc p (JObj src) = Ok acc'.
Proof.
  intros He. destruct p as [|x r].
  - cbn [extract_value] in He. injection He as ->. cbn [insert_object]. eexists. reflexivity.
  - unfold insert_object. eapply extract_then_walk; [exact He|reflexivity].
Qed.

Section Step.
  Variable w : world.
  Variable frags : list fragdef.
  Variable vars : list (string * json).
  Hypothesis world_atomic : atomic_world w vars.
  Variable l1 l2 : list sel.
  Hypothesis good_sub : good (l1 ++ [id_sel]).
  Hypothesis good_l2 : good l2.
  Hypothesis compat_12 : compat (l1 ++ [id_sel]) l2.
  Variable fuel : nat.

  Notation sub1 := (l1 ++ [id_sel]).
  Notation answer o sels := (exec (S (S fuel)) w frags vars (Some o) (b_type o) sels).

  (* the visits of one step, as the executor makes them *)
  Fixpoint join_all (ps : list (list string)) (acc : json) : res json :=
    match ps with
    | [] => Ok acc
    | p :: r =>
        match extract_value p acc with
        | Ok (JObj m) =>
            match jget "id" m with
            | Some (JStr id) =>
                match exec (S (S (S fuel))) w frags vars None "Query" [node_sel id l2] with
                | JObj ans =>
                    match jget "node" ans with
                    | Some node => acc' <- insert_object acc p node ;; join_all r acc'
                    | None => Err "the service answered without node"
                    end
                | _ => Err "the service answered no object"
                end
            | _ => Err "no id at the point"
            end
        | Ok _ => Err "no object at the point"
        | Err e => Err e
        | Panic e => Panic e
        end
    end.

  (* point p holds the parent's answer for object o, and o's id names o *)
  Definition holds_parent (acc : json) (p : list string) (o : obj) : Prop :=
    p <> [] /\ find_obj (b_id o) (w_objs w) = Some o /\ extract_value p acc = Ok (answer o sub1).

  Definition holds_joined (acc : json) (p : list string) (o : obj) : Prop :=
    extract_value p acc = Ok (answer o (sub1 ++ l2)).

  Theorem step_join_sound : forall ps os acc acc' done_ps done_os,
    ForallOrdPairs diverge ps ->
    Forall (fun q => Forall (fun p => diverge p q) ps) done_ps ->
    Forall2 (holds_parent acc) ps os ->
    Forall2 (holds_joined acc) done_ps done_os ->
    join_all ps acc = Ok acc' ->
    Forall2 (holds_joined acc') ps os /\ Forall2 (holds_joined acc') done_ps done_os.
  Proof.
    induction ps as [|p r IH]; intros os acc acc' dps dos Hd Hdone Hpar Hj Hrun.
    - inversion Hpar; subst. cbn [join_all] in Hrun. injection Hrun as <-. split; [constructor|exact Hj].
    - inversion Hpar as [|? o ? os' [Hne [Hf Hold]] Hrest]; subst.
      inversion Hd as [|? ? Hpr Hrr]; subst.
      cbn [join_all] in Hrun. rewrite Hold in Hrun.
      destruct (answer_has_id w frags vars l1 good_sub fuel o) as [m [Em Eid]].
      rewrite Em in Hrun. rewrite Eid in Hrun.
      rewrite (node_answer w frags vars fuel o l2 Hf) in Hrun.
      cbn [jget] in Hrun. rewrite String.eqb_refl in Hrun.
      destruct (insert_object acc p (answer o l2)) as [acc1|e|e] eqn:Hins; cbn [bind] in Hrun; try discriminate.
      (* this visit *)
      assert (Hp1 : holds_joined acc1 p o).
      { unfold holds_joined.
        exact (stitch_at_point w frags vars world_atomic (S fuel) (Some o) (b_type o) sub1 l2 p acc acc1
                 (find_obj_in _ _ _ Hf) good_sub good_l2 compat_12 Hne Hold Hins). }
      (* the points still to visit are untouched *)
      assert (Hrest1 : Forall2 (holds_parent acc1) r os').
      { clear - Hrest Hpr Hins Hne. induction Hrest as [|q o' qs os'' [Hq1 [Hq2 Hq3]] Hr IHr]; [constructor|].
        inversion Hpr as [|? ? Hpq Hpr']; subst. constructor; [|exact (IHr Hpr')].
        split; [exact Hq1|]. split; [exact Hq2|].
        rewrite (insert_frame p acc _ acc1 q Hne Hins Hpq). exact Hq3. }
      (* the points already visited are untouched *)
      assert (Hj1 : Forall2 (holds_joined acc1) dps dos).
      { clear - Hj Hdone Hins Hne. induction Hj as [|q o' qs os'' Hq Hr IHr]; [constructor|].
        inversion Hdone as [|? ? Hq' Hdone']; subst. constructor; [|exact (IHr Hdone')].
        unfold holds_joined in *. inversion Hq' as [|? ? Hpq _]; subst.
        rewrite (insert_frame p acc _ acc1 q Hne Hins Hpq). exact Hq. }
      assert (Hdone1 : Forall (fun q => Forall (fun p0 => diverge p0 q) r) (p :: dps)).
      { constructor.
        - clear - Hpr. induction Hpr as [|q qs Hq Hr IHr]; constructor; [apply diverge_sym; exact Hq|exact IHr].
        - clear - Hdone. induction Hdone as [|q qs Hq Hr IHr]; constructor; [inversion Hq; assumption|exact IHr]. }
      destruct (IH os' acc1 acc' (p :: dps) (o :: dos) Hrr Hdone1 Hrest1 (Forall2_cons _ _ Hp1 Hj1) Hrun) as [A B].
      inversion B as [|? ? ? ? B1 B2]; subst. split; [constructor; assumption|exact B2].
  Qed.

  (* ... and the step never fails on the way *)
  Theorem step_join_total : forall ps os acc,
    ForallOrdPairs diverge ps -> Forall2 (holds_parent acc) ps os -> exists acc', join_all ps acc = Ok acc'.
  Proof.
    induction ps as [|p r IH]; intros os acc Hd Hpar.
    - exists acc. reflexivity.
    - inversion Hpar as [|? o ? os' [Hne [Hf Hold]] Hrest]; subst.
      inversion Hd as [|? ? Hpr Hrr]; subst.
      cbn [join_all]. rewrite Hold.
      destruct (answer_has_id w frags vars l1 good_sub fuel o) as [m [Em Eid]].
      rewrite Em. rewrite Eid. rewrite (node_answer w frags vars fuel o l2 Hf).
      cbn [jget]. rewrite String.eqb_refl.
      rewrite Em in Hold.
      assert (Hl2 : exists src, answer o l2 = JObj src) by (rewrite exec_unfold; eexists; reflexivity).
      destruct Hl2 as [src Esrc]. rewrite Esrc.
      destruct (insert_succeeds p acc m src Hold) as [acc1 Hins]. rewrite Hins. cbn [bind].
      apply (IH os' acc1 Hrr).
      clear - Hrest Hpr Hins Hne. induction Hrest as [|q o' qs os'' [Hq1 [Hq2 Hq3]] Hr IHr]; [constructor|].
      inversion Hpr as [|? ? Hpq Hpr']; subst. constructor; [|exact (IHr Hpr')].
      split; [exact Hq1|]. split; [exact Hq2|].
      rewrite (insert_frame p acc _ acc1 q Hne Hins Hpq). exact Hq3.
  Qed.

  (* the statement for a whole step *)
  Corollary step_joins_every_point ps os acc acc' :
    ForallOrdPairs diverge ps -> Forall2 (holds_parent acc) ps os ->
    join_all ps acc = Ok acc' -> Forall2 (holds_joined acc') ps os.
  Proof.
    intros Hd Hp Hrun.
    exact (proj1 (step_join_sound ps os acc acc' [] [] Hd (Forall_nil _) Hp (Forall2_nil _) Hrun)).
  Qed.

  Corollary step_is_sound_and_total ps os acc :
    ForallOrdPairs diverge ps -> Forall2 (holds_parent acc) ps os ->
    exists acc', join_all ps acc = Ok acc' /\ Forall2 (holds_joined acc') ps os.
  Proof.
    intros Hd Hp. destruct (step_join_total ps os acc Hd Hp) as [acc' Hrun].
    exists acc'. split; [exact Hrun|]. exact (step_joins_every_point ps os acc acc' Hd Hp Hrun).
  Qed.
End Step.

(* the premises can be met: two users in a list, names from one service, photos from another *)
Example step_example :
  let u1 := {| b_id := "u1"; b_type := "User"; b_fields := [("name", FScalar (JStr "ann")); ("photo", FScalar (JStr "a.png"))] |} in
  let u2 := {| b_id := "u2"; b_type := "User"; b_fields := [("name", FScalar (JStr "bob")); ("photo", FScalar (JStr "b.png"))] |} in
  let w := {| w_objs := [u1; u2]; w_roots := [("Query.users", FList [FRef "u1"; FRef "u2"])]; w_possible := []; w_ftypes := [] |} in
  let l1 := [Field "" "name" [] [] []] in
  let l2 := [Field "" "photo" [] [] []] in
  let acc := exec 6 w [] [] None "Query" [Field "" "users" [] [] (l1 ++ [id_sel])] in
  let ps := [["users:0#u1"]; ["users:1#u2"]] in
  atomic_world w [] /\ ForallOrdPairs diverge ps /\
  Forall2 (holds_parent w [] [] l1 3 acc) ps [u1; u2] /\
  join_all w [] [] l2 3 ps acc =
    Ok (JObj [("users", JArr [JObj [("name", JStr "ann"); ("id", JStr "u1"); ("photo", JStr "a.png")];
                              JObj [("name", JStr "bob"); ("id", JStr "u2"); ("photo", JStr "b.png")]])]).
Proof.
  cbv zeta. split; [apply atomic_world_intro; cbn; repeat constructor|]. split; [|split].
  - constructor; [|constructor; [constructor|constructor]].
    constructor; [|constructor].
    eapply dv_index with (f := "users") (a := 0%Z) (b := 1%Z); [vm_compute; reflexivity|vm_compute; reflexivity|discriminate].
  - constructor; [|constructor; [|constructor]]; (split; [discriminate|split; vm_compute; reflexivity]).
  - vm_compute. reflexivity.
Qed.

(* A dependent step at any depth.  The parent step answered a selection in collected form that holds,
   along a path of fields k1 { k2 { ... { l1 id } } } -- any other fields beside them, lists and
   single objects on the way, nulls among them -- by the reference semantics.
   executorFindInsertionPoints on that answer returns one point per object at the end of the
   chain, in order; every point reads back the answer of its own object; the points pairwise
   part ways.  With Proofs/StepJoin.v: the step's visits succeed and leave at every point the
   reference answer to l1, id and the step's selection together. *)
From Coq Require Import String List Bool Arith ZArith Lia.
From GW Require Import Base.Res Base.GoStr Base.Json Gql.Syntax Gql.Spec Gw.Points
     Proofs.CodecProofs Proofs.PointsProofs.
From GW Require Import Proofs.StitchSound Proofs.JoinSound Proofs.GroupSound Proofs.StepJoin.
Import ListNotations.
Open Scope string_scope.
Open Scope list_scope.

Lemma extract_app : forall a b j, extract_value (a ++ b) j =
  match extract_value a j with Ok x => extract_value b x | Err e => Err e | Panic e => Panic e end.
Proof.
  induction a as [|p r IH]; intros b j; cbn [app extract_value]; [reflexivity|].
  destruct (get_point_data p) as [pd|e|e]; cbn [bind]; try reflexivity.
  destruct j as [| | | | | |m]; try reflexivity.
  destruct (is_list_element p).
  - destruct (match jget (pd_field pd) m with Some v => v | None => JArr [] end) as [| | | | |l|]; try reflexivity.
    destruct (pd_index pd <? 0)%Z; [reflexivity|]. apply IH.
  - apply IH.
Qed.

Lemma fop_app {A} (R : A -> A -> Prop) (a b : list A) :
  ForallOrdPairs R a -> ForallOrdPairs R b -> (forall x y, In x a -> In y b -> R x y) -> ForallOrdPairs R (a ++ b).
Proof.
  induction a as [|x r IH]; intros Ha Hb Hab; cbn [app]; [exact Hb|].
  inversion Ha as [|? ? Hx Hr]; subst. constructor.
  - apply Forall_app. split; [exact Hx|]. apply Forall_forall. intros y Hy. apply Hab; [left; reflexivity|exact Hy].
  - apply IH; [exact Hr|exact Hb|]. intros x' y Hx' Hy. apply Hab; [right; exact Hx'|exact Hy].
Qed.

Lemma fop_map_cons h c (tails : list (list string)) :
  cell h = Some c -> ForallOrdPairs diverge tails -> ForallOrdPairs diverge (map (cons h) tails).
Proof.
  intros Hc. induction 1 as [|t r Ht Hr IH]; cbn [map]; constructor; [|exact IH].
  clear - Hc Ht. induction Ht as [|u us Hu Hus IHu]; cbn [map]; constructor; [|exact IHu].
  eapply dv_below; eauto.
Qed.

Section Deep.
  Variable w : world.
  Variable frags : list fragdef.
  Variable vars : list (string * json).
  Variable l1 : list sel.
  Hypothesis good_sub : good (l1 ++ [id_sel]).
  Variable fuel : nat.

  Notation sub1 := (l1 ++ [id_sel]).
  Definition F (n : nat) : nat := S (S (n + fuel)).
  Notation answer o sels := (exec (S (S fuel)) w frags vars (Some o) (b_type o) sels).

  (* one field on the way: alias, name, arguments, and what the schema declares of its type *)
  Record pelem := { pe_alias : string; pe_name : string; pe_args : list (string * value); pe_list : bool; pe_nonnull : bool }.
  Definition pe_key (e : pelem) : string := rkey (pe_alias e) (pe_name e).
  Definition pe_c (e : pelem) : collected :=
    {| c_key := pe_key e; c_name := pe_name e; c_args := pe_args e; c_sub := [] |}.
  Definition pe_field (e : pelem) (sub : list sel) : sel := Field (pe_alias e) (pe_name e) (pe_args e) [] sub.

  (* the parent's selection holds the path: every level is in collected form and selects the
     path's field (beside whatever else), and the last level is l1 with the join id *)
  Fixpoint pathsel (path : list pelem) (sels : list sel) : Prop :=
    match path with
    | [] => sels = sub1
    | e :: r => good sels /\ exists sub, In (pe_field e sub) sels /\ pathsel r sub
    end.

  (* ... and so does its flattened form, with the declared shapes *)
  Fixpoint fpath (path : list pelem) (fs : list fsel) : Prop :=
    match path with
    | [] => True
    | e :: r => exists fsub, find_selection (pe_key e) fs = Some (FS (pe_key e) (pe_list e) (pe_nonnull e) fsub) /\ fpath r fsub
    end.

  (* the objects at the end of the path, in the order of the answer *)
  Fixpoint leaves (path : list pelem) (po : option obj) (rt : string) : list obj :=
    match path with
    | [] => match po with Some o => [o] | None => [] end
    | e :: r =>
        let one := fun v => match v with
                            | FRef id => match find_obj id (w_objs w) with
                                         | Some o => leaves r (Some o) (b_type o)
                                         | None => []
                                         end
                            | _ => []
                            end in
        match resolve w vars po rt (pe_c e) with
        | FList l => flat_map one l
        | v => one v
        end
    end.

  (* the data has the shape the schema declares: response keys are GraphQL names, a list field
     answers a list (of fewer than 2^63 entries) of objects or nulls, an object field an object
     or null, a non-null field is not null, every reference names an object *)
  Fixpoint shaped (path : list pelem) (po : option obj) (rt : string) : Prop :=
    match path with
    | [] => match po with Some o => find_obj (b_id o) (w_objs w) = Some o | None => False end
    | e :: r =>
        clean_key (pe_key e) /\ pe_key e <> "" /\
        let one := fun v => match v with
                            | FNull => True
                            | FRef id => exists o, find_obj id (w_objs w) = Some o /\ shaped r (Some o) (b_type o)
                            | _ => False
                            end in
        match resolve w vars po rt (pe_c e) with
        | FList l => pe_list e = true /\ Forall one l /\ (Z.of_nat (length l) <= int64_max)%Z
        | FNull => pe_nonnull e = false
        | v => pe_list e = false /\ one v
        end
    end.

  (* the answer to a selection below an object *)
  Definition below (n : nat) : obj -> list sel -> json :=
    fun o' sub => exec (F n) w frags vars (Some o') (b_type o') sub.

  Lemma jget_map_in (f : sel -> json) : forall l s,
    NoDup (map key_of l) -> In s l -> jget (key_of s) (map (fun x => (key_of x, f x)) l) = Some (f s).
  Proof.
    induction l as [|x r IH]; intros s Hnd Hin; [destruct Hin|].
    cbn [map] in Hnd. inversion Hnd as [|? ? Hx Hr]; subst. cbn [map jget].
    destruct Hin as [->|Hin]; [rewrite String.eqb_refl; reflexivity|].
    destruct (String.eqb (key_of s) (key_of x)) eqn:E; [|apply IH; assumption].
    apply String.eqb_eq in E. exfalso. apply Hx. rewrite <- E. apply in_map. exact Hin.
  Qed.

  (* the value the parent's answer holds under the path's key *)
  Lemma path_value e sub sels po rt n :
    good sels -> In (pe_field e sub) sels ->
    exists m, exec (S (F n)) w frags vars po rt sels = JObj m /\
              jget (pe_key e) m = Some (complete_with (below n) w sub (resolve w vars po rt (pe_c e))).
  Proof.
    intros G Hin. unfold F. rewrite (exec_good w frags vars (S (n + fuel)) po rt sels G).
    eexists. split; [reflexivity|].
    inversion G as [? P N Sg]; subst.
    change (pe_key e) with (key_of (pe_field e sub)).
    unfold answer_of. rewrite (jget_map_in _ sels (pe_field e sub) N Hin).
    rewrite (resolve_same w vars po rt (to_c (pe_field e sub)) (pe_c e)) by reflexivity. reflexivity.
  Qed.

  (* a suffix of a point, read inside the object it was found in *)
  Definition reads_in (m : list (string * json)) (t : list string) (o : obj) : Prop :=
    find_obj (b_id o) (w_objs w) = Some o /\ extract_value t (JObj m) = Ok (answer o sub1).

  (* ---------- one level of the walk ---------- *)
  Section Level.
    Variable k : string.
    Hypothesis k_clean : clean_key k.
    Hypothesis k_ne : k <> "".
    Variable rest : list string.
    Variable sub : list fsel.
    Let last : bool := match rest with [] => true | _ => false end.

    (* what is known of one element of the field's value: the tails of the points found in it,
       and the objects they lead to *)
    Inductive elem : json -> list (list string) -> list obj -> Prop :=
    | e_null : elem JNull [] []
    | e_obj m tails los :
        Forall2 (reads_in m) tails los -> ForallOrdPairs diverge tails ->
        (if last then tails = [[]] /\ exists o, los = [o] /\ jget "id" m = Some (JStr (b_id o))
         else forall br, find_points rest sub m br = Ok (map (app br) tails)) ->
        elem (JObj m) tails los.

    Definition head_of (idx : option nat) (ej : json) : string :=
      let base := match idx with Some j => enc_elem k j | None => k end in
      if last then
        match ej with
        | JObj m => match jget "id" m with Some id => with_id base (fmt_v id) | None => base end
        | _ => base
        end
      else base.

    Definition triple := (json * list (list string) * list obj)%type.
    Definition t_json (t : triple) := fst (fst t).
    Definition t_tails (t : triple) := snd (fst t).
    Definition t_objs (t : triple) := snd t.

    Fixpoint sufs_from (i : nat) (els : list triple) : list (list string) :=
      match els with
      | [] => []
      | t :: r => map (cons (head_of (Some i) (t_json t))) (t_tails t) ++ sufs_from (S i) r
      end.

    Lemma last_below m br : last = true -> find_points rest sub m br = Ok [br].
    Proof. unfold last. destruct rest; [reflexivity|discriminate]. Qed.

    Lemma entries_level branch : forall els i,
      Forall (fun t => elem (t_json t) (t_tails t) (t_objs t)) els ->
      find_entries last k (fun m br => find_points rest sub m br) branch (map t_json els) i =
      Ok (map (app branch) (sufs_from i els)).
    Proof.
      induction els as [|[[ej tails] los] r IH]; intros i Hall; cbn [map find_entries sufs_from]; [reflexivity|].
      inversion Hall as [|? ? He Hr]; subst. cbn [t_json t_tails t_objs fst snd] in *.
      inversion He as [|m tl lo Hreads Hdiv Hfind]; subst.
      - cbn [map app]. apply IH. exact Hr.
      - unfold head_of. destruct last eqn:El.
        + destruct Hfind as [-> [o [-> Hid]]]. rewrite Hid. cbn [bind fmt_v].
          rewrite (last_below m _ El). cbn [bind]. rewrite (IH (S i) Hr). cbn [bind map app].
          reflexivity.
        + cbn [bind]. rewrite (Hfind (branch ++ [enc_elem k i])). cbn [bind]. rewrite (IH (S i) Hr). cbn [bind].
          rewrite map_app, map_map. f_equal. f_equal. apply map_ext. intros t. rewrite <- app_assoc. reflexivity.
    Qed.

    Lemma cell_head_list i ej : (Z.of_nat i <= int64_max)%Z -> cell (head_of (Some i) ej) = Some (k, Some (Z.of_nat i)).
    Proof.
      intros Hi. unfold head_of.
      assert (Hbase : cell (enc_elem k i) = Some (k, Some (Z.of_nat i))).
      { unfold cell. rewrite (decode_elem k i k_clean Hi).
        destruct (list_element_elem_id k i "" k_clean Hi) as [_ ->]. reflexivity. }
      assert (Hid : forall id, cell (with_id (enc_elem k i) id) = Some (k, Some (Z.of_nat i))).
      { intros id. unfold cell. rewrite (decode_elem_id k i id k_clean Hi).
        destruct (list_element_elem_id k i id k_clean Hi) as [-> _]. reflexivity. }
      destruct last; [|exact Hbase]. destruct ej; try exact Hbase.
      destruct (jget "id" _); [apply Hid|exact Hbase].
    Qed.

    Lemma cell_head_obj ej : cell (head_of None ej) = Some (k, None).
    Proof.
      unfold head_of.
      assert (Hbase : cell k = Some (k, None)).
      { unfold cell. rewrite (decode_key k k_clean).
        destruct (list_element_key_id k "" k_clean k_ne) as [_ ->]. reflexivity. }
      assert (Hid : forall id, cell (with_id k id) = Some (k, None)).
      { intros id. unfold cell. rewrite (decode_key_id k id k_clean).
        destruct (list_element_key_id k id k_clean k_ne) as [-> _]. reflexivity. }
      destruct last; [|exact Hbase]. destruct ej; try exact Hbase.
      destruct (jget "id" _); [apply Hid|exact Hbase].
    Qed.

    (* reading through the head of a suffix *)
    Lemma extract_head_list chunk L i ej t :
      jget k chunk = Some (JArr L) -> nth_error L i = Some ej -> (Z.of_nat i <= int64_max)%Z ->
      extract_value (head_of (Some i) ej :: t) (JObj chunk) = extract_value t ej.
    Proof.
      intros Hk Hn Hi. pose proof (cell_head_list i ej Hi) as Hc. unfold cell in Hc.
      cbn [extract_value].
      destruct (get_point_data (head_of (Some i) ej)) as [pd|e|e]; try discriminate.
      destruct (is_list_element (head_of (Some i) ej)); [|discriminate].
      injection Hc as Hf Hx. cbn [bind]. rewrite Hf, Hk, Hx.
      destruct (Z.of_nat i <? 0)%Z eqn:E; [apply Z.ltb_lt in E; lia|].
      rewrite Nat2Z.id. unfold rd. rewrite Hn. reflexivity.
    Qed.

    Lemma extract_head_obj chunk m t :
      jget k chunk = Some (JObj m) ->
      extract_value (head_of None (JObj m) :: t) (JObj chunk) = extract_value t (JObj m).
    Proof.
      intros Hk. pose proof (cell_head_obj (JObj m)) as Hc. unfold cell in Hc.
      cbn [extract_value].
      destruct (get_point_data (head_of None (JObj m))) as [pd|e|e]; try discriminate.
      destruct (is_list_element (head_of None (JObj m))); [discriminate|].
      injection Hc as Hf. cbn [bind]. rewrite Hf, Hk. reflexivity.
    Qed.

    Lemma reads_level chunk : forall els pre,
      jget k chunk = Some (JArr (pre ++ map t_json els)) ->
      (Z.of_nat (length pre + length els) <= int64_max)%Z ->
      Forall (fun t => elem (t_json t) (t_tails t) (t_objs t)) els ->
      Forall2 (reads_in chunk) (sufs_from (length pre) els) (flat_map t_objs els).
    Proof.
      induction els as [|[[ej tails] los] r IH]; intros pre Hk Hb Hall; cbn [sufs_from flat_map]; [constructor|].
      inversion Hall as [|? ? He Hr]; subst. cbn [t_json t_tails t_objs fst snd length map] in *.
      apply Forall2_app.
      - assert (Hn : nth_error (pre ++ ej :: map t_json r) (length pre) = Some ej)
          by (rewrite nth_error_app2 by lia; rewrite Nat.sub_diag; reflexivity).
        inversion He as [|m tl lo Hreads Hdiv Hfind]; subst; [constructor|].
        clear - Hreads Hk Hn Hb k_clean. induction Hreads as [|t o ts os [Hnamed Hext] Hrest IHr]; cbn [map]; constructor; [|exact IHr].
        split; [exact Hnamed|]. rewrite (extract_head_list chunk _ _ _ t Hk Hn) by lia. exact Hext.
      - replace (S (length pre)) with (length (pre ++ [ej])) by (rewrite app_length; cbn; lia).
        apply IH; [rewrite <- app_assoc; exact Hk|rewrite app_length; cbn [length]; lia|exact Hr].
    Qed.

    Lemma in_sufs_from : forall els i s, In s (sufs_from i els) ->
      exists j ej t, i <= j /\ j < i + length els /\ s = head_of (Some j) ej :: t.
    Proof.
      induction els as [|[[ej tails] los] r IH]; intros i s Hin; cbn [sufs_from] in Hin; [destruct Hin|].
      apply in_app_or in Hin. destruct Hin as [Hin|Hin].
      - apply in_map_iff in Hin. destruct Hin as [t [<- _]]. exists i, ej, t. cbn [length t_json fst]. repeat split; lia.
      - destruct (IH _ _ Hin) as [j [ej' [t [A [B C]]]]]. exists j, ej', t. cbn [length]. repeat split; [lia|lia|exact C].
    Qed.

    Lemma diverge_level : forall els i,
      (Z.of_nat (i + length els) <= int64_max)%Z ->
      Forall (fun t => elem (t_json t) (t_tails t) (t_objs t)) els ->
      ForallOrdPairs diverge (sufs_from i els).
    Proof.
      induction els as [|[[ej tails] los] r IH]; intros i Hb Hall; cbn [sufs_from]; [constructor|].
      inversion Hall as [|? ? He Hr]; subst. cbn [t_json t_tails t_objs fst snd length] in *.
      apply fop_app.
      - inversion He as [|m tl lo Hreads Hdiv Hfind]; subst; [constructor|].
        eapply fop_map_cons; [apply cell_head_list; lia|exact Hdiv].
      - apply IH; [lia|exact Hr].
      - intros x y Hx Hy. apply in_map_iff in Hx. destruct Hx as [t [<- _]].
        destruct (in_sufs_from _ _ _ Hy) as [j [ej' [t' [A [B ->]]]]].
        eapply dv_index; [apply cell_head_list; lia|apply cell_head_list; lia|lia].
    Qed.

    Lemma list_level chunk els fsels nn :
      find_selection k fsels = Some (FS k true nn sub) ->
      jget k chunk = Some (JArr (map t_json els)) ->
      (Z.of_nat (length els) <= int64_max)%Z ->
      Forall (fun t => elem (t_json t) (t_tails t) (t_objs t)) els ->
      (forall branch, find_points (k :: rest) fsels chunk branch = Ok (map (app branch) (sufs_from 0 els))) /\
      Forall2 (reads_in chunk) (sufs_from 0 els) (flat_map t_objs els) /\
      ForallOrdPairs diverge (sufs_from 0 els).
    Proof.
      intros Hsel Hk Hb Hall. split; [|split].
      - intros branch. cbn [find_points]. rewrite Hsel. rewrite Hk.
        destruct (map t_json els) eqn:E; [destruct els; [reflexivity|discriminate]|].
        rewrite <- E. apply entries_level. exact Hall.
      - apply (reads_level chunk els []); [exact Hk|cbn; exact Hb|exact Hall].
      - apply diverge_level; [cbn; exact Hb|exact Hall].
    Qed.

    Lemma obj_level chunk root tails los fsels nn :
      find_selection k fsels = Some (FS k false nn sub) ->
      (root = JNull -> nn = false) ->
      jget k chunk = Some root -> elem root tails los ->
      (forall branch, find_points (k :: rest) fsels chunk branch =
                      Ok (map (app branch) (map (cons (head_of None root)) tails))) /\
      Forall2 (reads_in chunk) (map (cons (head_of None root)) tails) los /\
      ForallOrdPairs diverge (map (cons (head_of None root)) tails).
    Proof.
      intros Hsel Hnn Hk He. inversion He as [|m tl lo Hreads Hdiv Hfind]; subst.
      - split; [|split; constructor]. intros branch.
        cbn [find_points]. rewrite Hsel. rewrite Hk. rewrite (Hnn eq_refl). reflexivity.
      - split; [|split].
        + intros branch. cbn [find_points]. rewrite Hsel. rewrite Hk.
          clear He. unfold head_of. unfold last in *. destruct rest as [|x xs] eqn:Er.
          * destruct Hfind as [-> [o [-> Hid]]]. rewrite Hid. cbn [map app]. reflexivity.
          * rewrite <- Er in *. rewrite (Hfind (branch ++ [k])). rewrite map_map. f_equal.
            apply map_ext. intros t. rewrite <- app_assoc. reflexivity.
        + clear He Hfind Hdiv. induction Hreads as [|t o ts os [Hnamed Hext] Hrest IHr]; cbn [map]; constructor; [|exact IHr].
          split; [exact Hnamed|]. rewrite (extract_head_obj chunk m t Hk). exact Hext.
        + eapply fop_map_cons; [apply cell_head_obj|exact Hdiv].
    Qed.
  End Level.

  (* ---------- the whole path ---------- *)
  Definition one_leaves (r : list pelem) (v : fval) : list obj :=
    match v with
    | FRef id => match find_obj id (w_objs w) with Some o => leaves r (Some o) (b_type o) | None => [] end
    | _ => []
    end.

  Definition one_shaped (r : list pelem) (v : fval) : Prop :=
    match v with
    | FNull => True
    | FRef id => exists o, find_obj id (w_objs w) = Some o /\ shaped r (Some o) (b_type o)
    | _ => False
    end.

  (* the conclusion for the path e :: r below (po, rt), for a parent selection and its flattened form *)
  Definition path_spec (e : pelem) (r : list pelem) (sels : list sel) (fsels : list fsel) (po : option obj) (rt : string) : Prop :=
    exists m sufs,
      exec (S (F (length r))) w frags vars po rt sels = JObj m /\
      (forall branch, find_points (map pe_key (e :: r)) fsels m branch = Ok (map (app branch) sufs)) /\
      Forall2 (reads_in m) sufs (leaves (e :: r) po rt) /\
      ForallOrdPairs diverge sufs /\ Forall (fun s => s <> []) sufs.

  (* one level, given what holds for every object below it *)
  Lemma level_from_objects e r sels fsels sub fsub :
    good sels -> In (pe_field e sub) sels ->
    find_selection (pe_key e) fsels = Some (FS (pe_key e) (pe_list e) (pe_nonnull e) fsub) ->
    (forall o, shaped r (Some o) (b_type o) ->
       exists tails, elem (map pe_key r) fsub (below (length r) o sub) tails (leaves r (Some o) (b_type o))) ->
    forall po rt, shaped (e :: r) po rt -> path_spec e r sels fsels po rt.
  Proof.
    intros G Hin Hsel Hobj po rt Hs. cbn [shaped] in Hs. destruct Hs as [Hk [Hne Hs]].
    assert (Hone : forall v, one_shaped r v ->
              exists tails, elem (map pe_key r) fsub (complete_with (below (length r)) w sub v) tails (one_leaves r v)).
    { intros v Hv. destruct v as [|j|id|l]; cbn [one_shaped] in Hv.
      - exists []. cbn [complete_with one_leaves]. constructor.
      - destruct Hv.
      - destruct Hv as [o [Hf Ho]]. cbn [complete_with one_leaves]. rewrite Hf. exact (Hobj o Ho).
      - destruct Hv. }
    destruct (path_value e sub sels po rt (length r) G Hin) as [m [Em Ev]].
    unfold path_spec. exists m. cbn [leaves map]. fold (one_leaves r).
    destruct (resolve w vars po rt (pe_c e)) as [|j|id|l] eqn:Er.
    - (* null *)
      exists []. cbn [complete_with] in Ev. split; [exact Em|]. split; [|split; [constructor|split; constructor]].
      intros branch. cbn [find_points]. rewrite Hsel. rewrite Ev. rewrite Hs. reflexivity.
    - destruct Hs as [_ []].
    - (* one object *)
      destruct Hs as [Hli Hv]. destruct (Hone (FRef id) Hv) as [tails He]. rewrite Hli in Hsel.
      assert (Hnn : complete_with (below (length r)) w sub (FRef id) = JNull -> pe_nonnull e = false).
      { destruct Hv as [o [Hf _]]. cbn [complete_with]. rewrite Hf. unfold below, F. rewrite exec_unfold. discriminate. }
      destruct (obj_level (pe_key e) Hk Hne (map pe_key r) fsub m _ tails _ fsels (pe_nonnull e) Hsel Hnn Ev He) as [A [B C]].
      eexists. split; [exact Em|]. split; [exact A|]. split; [exact B|]. split; [exact C|].
      apply Forall_forall. intros s Hi. apply in_map_iff in Hi. destruct Hi as [t [<- _]]. discriminate.
    - (* a list *)
      destruct Hs as [Hli [Hall Hb]]. rewrite Hli in Hsel.
      assert (Hels : exists els, map t_json els = map (complete_with (below (length r)) w sub) l /\
                                 Forall (fun t => elem (map pe_key r) fsub (t_json t) (t_tails t) (t_objs t)) els /\
                                 flat_map t_objs els = flat_map (one_leaves r) l).
      { clear - Hall Hone. induction Hall as [|v vs Hv Hvs IH]; [exists []; repeat split; constructor|].
        destruct IH as [els [E1 [E2 E3]]]. destruct (Hone v Hv) as [tails He].
        exists ((complete_with (below (length r)) w sub v, tails, one_leaves r v) :: els).
        cbn [map flat_map t_json t_tails t_objs fst snd]. rewrite E1, E3. repeat split. constructor; [exact He|exact E2]. }
      destruct Hels as [els [E1 [E2 E3]]].
      cbn [complete_with] in Ev. rewrite <- E1 in Ev.
      destruct (list_level (pe_key e) Hk (map pe_key r) fsub m els fsels (pe_nonnull e) Hsel Ev
                  ltac:(rewrite <- (map_length t_json), E1, map_length; exact Hb) E2) as [A [B C]].
      rewrite <- E3.
      eexists. split; [exact Em|]. split; [exact A|]. split; [exact B|]. split; [exact C|].
      apply Forall_forall. intros s Hi. destruct (in_sufs_from _ _ _ _ _ Hi) as [j [ej [t [_ [_ ->]]]]]. discriminate.
  Qed.

  Theorem find_path : forall r e sels fsels po rt,
    pathsel (e :: r) sels -> fpath (e :: r) fsels -> shaped (e :: r) po rt -> path_spec e r sels fsels po rt.
  Proof.
    induction r as [|e2 r2 IH]; intros e sels fsels po rt Hp Hf Hs;
      cbn [pathsel] in Hp; destruct Hp as [G [sub [Hin Hsub]]];
      cbn [fpath] in Hf; destruct Hf as [fsub [Hsel Hfsub]];
      apply (level_from_objects e _ sels fsels sub fsub G Hin Hsel); try exact Hs.
    - (* the objects at the end of the path *)
      cbn [pathsel] in Hsub. subst sub.
      intros o Ho. cbn [shaped] in Ho. cbn [map length leaves].
      unfold below. change (F 0) with (S (S fuel)).
      destruct (answer_has_id w frags vars l1 good_sub fuel o) as [m [Em Eid]].
      exists [[]]. rewrite Em. constructor.
      + constructor; [|constructor]. split; [exact Ho|]. cbn [extract_value]. rewrite Em. reflexivity.
      + constructor; constructor.
      + split; [reflexivity|]. exists o. split; [reflexivity|exact Eid].
    - (* the objects on the way *)
      intros o Ho. destruct (IH e2 sub fsub (Some o) (b_type o) Hsub Hfsub Ho) as [m [sufs [Em [A [B [C _]]]]]].
      exists sufs. unfold below. cbn [length]. change (F (S (length r2))) with (S (F (length r2))).
      rewrite Em. constructor; [exact B|exact C|]. cbn [map]. exact A.
  Qed.

  (* ---------- the dependent step at the end of the path ---------- *)
  Hypothesis world_atomic : atomic_world w vars.
  Variable l2 : list sel.
  Hypothesis good_l2 : good l2.
  Hypothesis compat_12 : compat (l1 ++ [id_sel]) l2.

  (* A dependent step at any depth.  The parent's selection is in collected form at every level of
     the path and selects the path's fields beside whatever else; at the end of the path it is l1
     with the join id.  The data has the declared shape: keys that are GraphQL names, lists of
     fewer than 2^63 entries, nulls where the schema allows them, every reference naming an
     object.  Then executorFindInsertionPoints on the parent's reference answer returns one point
     per object at the end of the path, in the order of the answer; the step's visits all
     succeed; afterwards every point holds the reference answer to l1, id and l2 together for its
     own object. *)
  Theorem deep_step_sound e r sels fsels po rt :
    pathsel (e :: r) sels -> fpath (e :: r) fsels -> shaped (e :: r) po rt ->
    exists m ps acc',
      exec (S (F (length r))) w frags vars po rt sels = JObj m /\
      find_insertion_points (map pe_key (e :: r)) fsels m [] = Ok ps /\
      join_all w frags vars l2 fuel ps (JObj m) = Ok acc' /\
      Forall2 (holds_joined w frags vars l1 l2 fuel acc') ps (leaves (e :: r) po rt).
  Proof.
    intros Hp Hf Hs. destruct (find_path r e sels fsels po rt Hp Hf Hs) as [m [sufs [Em [A [B [C D]]]]]].
    assert (Hpar : Forall2 (holds_parent w frags vars l1 fuel (JObj m)) sufs (leaves (e :: r) po rt)).
    { clear - B D. induction B as [|s o ss os [Hn He] Hr IHr]; [constructor|].
      inversion D as [|? ? Hs Hss]; subst. constructor; [|exact (IHr Hss)].
      split; [exact Hs|]. split; [exact Hn|exact He]. }
    destruct (step_is_sound_and_total w frags vars world_atomic l1 l2 good_sub good_l2 compat_12 fuel _ _ _ C Hpar) as [acc' [Hrun Hall]].
    exists m, sufs, acc'. split; [exact Em|]. split; [|split; [exact Hrun|exact Hall]].
    unfold find_insertion_points. cbn [length map Nat.ltb Nat.leb skipn]. cbn [map] in A. rewrite (A []). f_equal. clear. induction sufs as [|x xs IH]; cbn [map app]; [reflexivity|]. f_equal. exact IH.
  Qed.
End Deep.

(* the premises can be met: users (other fields beside it) -> friends under the alias pals (lists, a
   null among them) -> names from one service, photos from another *)
Example deep_example :
  let u n fs := {| b_id := n; b_type := "User"; b_fields := fs |} in
  let u1 := u "u1" [("name", FScalar (JStr "ann")); ("photo", FScalar (JStr "a.png")); ("friends", FList [FRef "u2"; FNull; FRef "u:3#x"])] in
  let u2 := u "u2" [("name", FScalar (JStr "bob")); ("photo", FScalar (JStr "b.png")); ("friends", FList [])] in
  let u3 := u "u:3#x" [("name", FScalar (JStr "cy")); ("photo", FScalar (JStr "c.png")); ("friends", FList [FRef "u1"])] in
  let w := {| w_objs := [u1; u2; u3]; w_roots := [("Query.users", FList [FRef "u1"; FRef "u:3#x"])]; w_possible := []; w_ftypes := [] |} in
  let l1 := [Field "" "name" [] [] []] in
  let path := [{| pe_alias := ""; pe_name := "users"; pe_args := []; pe_list := true; pe_nonnull := false |};
               {| pe_alias := "pals"; pe_name := "friends"; pe_args := []; pe_list := true; pe_nonnull := true |}] in
  let sels := [Field "" "hello" [] [] [];
               Field "" "users" [] [] [Field "handle" "name" [] [] []; Field "pals" "friends" [] [] (l1 ++ [id_sel]); Field "" "photo" [] [] []]] in
  let fsels := [FS "hello" false false [];
                FS "users" true false [FS "handle" false false []; FS "pals" true true [FS "name" false false []; FS "id" false true []];
                                        FS "photo" false false []]] in
  atomic_world w [] /\ pathsel l1 path sels /\ fpath path fsels /\ shaped w [] path None "Query" /\
  leaves w [] path None "Query" = [u2; u3; u1] /\
  find_insertion_points ["users"; "pals"] fsels
    (match exec 6 w [] [] None "Query" sels with JObj m => m | _ => [] end) [] =
    Ok [["users:0"; "pals:0#u2"]; ["users:0"; "pals:2#u:3#x"]; ["users:1"; "pals:0#u1"]].
Proof.
  cbv zeta. split; [apply atomic_world_intro; cbn; repeat constructor|]. split; [|split; [|split; [|split; [reflexivity|vm_compute; reflexivity]]]].
  - cbn [pathsel]. split.
    + constructor; [repeat constructor| |].
      * cbn. repeat constructor; cbn; intuition discriminate.
      * repeat constructor; cbn; try (intuition discriminate).
    + eexists. split; [right; left; reflexivity|]. cbn [pathsel]. split.
      * constructor; [repeat constructor| |].
        -- cbn. repeat constructor; cbn; intuition discriminate.
        -- repeat constructor; cbn; try (intuition discriminate).
      * eexists. split; [right; left; reflexivity|reflexivity].
  - cbn. eexists. split; [reflexivity|]. eexists. split; [reflexivity|exact I].
  - cbn. repeat (first [split | reflexivity | discriminate | constructor | eexists | (vm_compute; intro; discriminate)]).
Qed.

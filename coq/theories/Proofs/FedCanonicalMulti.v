(* The canonical join with several dependent steps at one insertion point: the root list field k
   answers objects whose fields l1 live at the root field's service, and the groups of scalar
   fields d1, d2, ... live at other services, one dependent step each, all hanging at [k].  The
   execution half of Gw/Fed.v -- every step's points are found in the root step's answer, the
   follow-up fetches are stitched into the same elements one step after the other, the scrubber
   runs once -- returns exactly the reference answer to k { l1 d1 d2 ... }. *)
From Coq Require Import String List Bool Arith ZArith Lia.
From GW Require Import Base.Res Base.GoStr Base.Json Gql.Syntax Gql.Spec Gw.Locate Gw.Plan Gw.Points Gw.Scrub Gw.Fed
     Proofs.CodecProofs Proofs.PointsProofs Proofs.StitchSound Proofs.JoinSound Proofs.StepJoin Proofs.StepPoints
     Proofs.GroupSound Proofs.ExactJoin Proofs.FedCanonical.
Import ListNotations.
Open Scope string_scope.
Open Scope list_scope.

(* the steps hanging below one step are run one after the other *)
Lemma run_thens_cons w vars sh fuel m ps pt s rest start result acc :
  run_thens w vars sh fuel (S m) ps pt (s :: rest) start result acc =
  (a <- run_thens w vars sh fuel (S m) ps pt [s] start result acc ;; run_thens w vars sh fuel (S m) ps pt rest start result a).
Proof.
  cbn [run_thens fold_left].
  match goal with |- fold_left ?F rest ?x = _ => set (Fn := F); set (first := x) end.
  assert (Herr : forall l e, fold_left Fn l (Err e) = Err e) by (induction l as [|c r IH]; intros e; cbn [fold_left]; [reflexivity|apply IH]).
  assert (Hpan : forall l e, fold_left Fn l (Panic e) = Panic e) by (induction l as [|c r IH]; intros e; cbn [fold_left]; [reflexivity|apply IH]).
  destruct first as [a|e|e]; cbn [bind]; [reflexivity|apply Herr|apply Hpan].
Qed.

Section Multi.
  Variable w : world.
  Variable vars : list (string * json).
  Hypothesis world_atomic : atomic_world w vars.
  Variable sh : fshape.
  Variable n : nat.
  Variable ka kn : string.
  Notation k := (rkey ka kn).
  Hypothesis k_clean : clean_key k.
  Variable args : list (string * value).
  Variable l1 : list sel.
  Variable rootT T t : string.
  Variable nn : bool.
  Hypothesis k_shape : shape_of (rootT ++ "." ++ kn) sh = Some (t, (true, nn)).
  Variable os : list obj.
  Hypothesis k_value : resolve w vars None rootT (to_c (Field ka kn args [] (l1 ++ [id_sel]))) = FList (map (fun o => FRef (b_id o)) os).
  Hypothesis os_named : Forall (fun o => find_obj (b_id o) (w_objs w) = Some o) os.
  Hypothesis os_bound : (Z.of_nat (length os) <= int64_max)%Z.
  Hypothesis os_typed : Forall (fun o => type_matches w T (b_type o) = true) os.

  Notation sub1 := (l1 ++ [id_sel]).
  Notation fuel := (S (S (S n))).
  Notation answer o sels := (exec (S (S n)) w [] vars (Some o) (b_type o) sels).
  Hypothesis good_sub1 : good sub1.

  (* the elements after the steps for [pre] have been stitched *)
  Definition Q (pre : list sel) (o : obj) : json := answer o (sub1 ++ pre).

  (* one more step: its visits turn Q pre into Q (pre ++ l) *)
  Lemma visits_step pre l :
    good (sub1 ++ pre ++ l) -> no_id_var l -> Forall (fun o => flat_at w vars o l) os ->
    forall objs done,
    (Z.of_nat (length done + length objs) <= int64_max)%Z ->
    Forall (fun o => find_obj (b_id o) (w_objs w) = Some o) objs ->
    Forall (fun o => type_matches w T (b_type o) = true) objs ->
    Forall (fun o => flat_at w vars o l) objs ->
    fold_left (visit w vars sh n T l) (points_from k (length done) objs) (Ok (JObj [(k, JArr (done ++ map (Q pre) objs))])) =
    Ok (JObj [(k, JArr (done ++ map (Q (pre ++ l)) objs))]).
  Proof.
    intros G Hnv _. rewrite app_assoc in G. destruct (good_app _ _ G) as [Gp [Gl C]].
    induction objs as [|o r IH]; intros done Hb Hnamed Htyped Hflat; cbn [points_from map fold_left]; [reflexivity|].
    inversion Hnamed as [|? ? Ho Hr]; subst. inversion Htyped as [|? ? Hto Htr]; subst. inversion Hflat as [|? ? Hfo Hfr]; subst.
    cbn [length] in Hb.
    assert (Hi : (Z.of_nat (length done) <= int64_max)%Z) by lia.
    assert (Hn : nth_error (done ++ Q pre o :: map (Q pre) r) (length done) = Some (Q pre o))
      by (rewrite nth_error_app2 by lia; rewrite Nat.sub_diag; reflexivity).
    unfold visit at 2. cbn [bind]. rewrite (last_id_point ka kn k_clean _ o Hi).
    rewrite (node_answer_eq w vars n T o l Ho Hto Gl Hfo Hnv). cbn [bind].
    assert (Hq : exists m, Q pre o = JObj m) by (unfold Q; rewrite exec_unfold; eexists; reflexivity).
    destruct Hq as [m Em].
    assert (Hsrc : exists src, answer o l = JObj src) by (rewrite exec_unfold; eexists; reflexivity).
    destruct Hsrc as [src Esrc]. rewrite Esrc.
    unfold insert_object, point_of.
    rewrite (walk_elem_exact k k_clean _ (length done) (b_id o) _ (Q pre o) (JObj (merge_obj m src)) Hi Hn)
      by (rewrite Em; reflexivity).
    cbn [bind run_thens fold_left]. rewrite upd_nth_app.
    assert (HJ : JObj (merge_obj m src) = Q (pre ++ l) o).
    { unfold Q. rewrite app_assoc.
      rewrite (stitch_sound w [] vars world_atomic (S (S n)) (Some o) (b_type o) (sub1 ++ pre) l (find_obj_in _ _ _ Ho) Gp Gl C).
      unfold Q in Em. rewrite Em, Esrc. rewrite merge_value_obj. reflexivity. }
    rewrite HJ.
    replace (done ++ Q (pre ++ l) o :: map (Q pre) r) with ((done ++ [Q (pre ++ l) o]) ++ map (Q pre) r) by (rewrite <- app_assoc; reflexivity).
    replace (S (length done)) with (length (done ++ [Q (pre ++ l) o])) by (rewrite app_length; cbn; lia).
    rewrite (IH (done ++ [Q (pre ++ l) o])); [rewrite <- app_assoc; reflexivity|rewrite app_length; cbn [length]; lia|exact Hr|exact Htr|exact Hfr].
  Qed.

  (* the dependent steps: (service, selection) pairs, all below [k] with parent type T *)
  Definition mkstep (d : string * list sel) : pstep := PStep (fst d) T [k] (snd d) [].
  Definition all_of (deps : list (string * list sel)) : list sel := concat (map snd deps).

  Notation Pj := (P w [] vars l1 n).

  Lemma run_steps_exact parent_sels :
    (exists subf, flatten fuel sh rootT parent_sels = [FS k true nn subf]) ->
    forall deps pre,
    good (sub1 ++ pre ++ all_of deps) ->
    Forall (fun d => no_id_var (snd d)) deps ->
    Forall (fun d => Forall (fun o => flat_at w vars o (snd d)) os) deps ->
    run_thens w vars sh fuel fuel parent_sels rootT (map mkstep deps) [] (JObj [(k, JArr (map Pj os))])
              (JObj [(k, JArr (map (Q pre) os))]) =
    Ok (JObj [(k, JArr (map (Q (pre ++ all_of deps)) os))]).
  Proof.
    intros [subf Ef]. induction deps as [|[loc l] rest IH]; intros pre G Hnv Hflat.
    - cbn [map run_thens fold_left all_of concat]. rewrite app_nil_r. reflexivity.
    - cbn [map]. rewrite run_thens_cons.
      inversion Hnv as [|? ? Hnv1 Hnvr]; subst. inversion Hflat as [|? ? Hf1 Hfr]; subst. cbn [snd] in Hnv1, Hf1.
      unfold all_of in G. cbn [map concat snd] in G. fold (all_of rest) in G.
      assert (G1 : good (sub1 ++ pre ++ l)).
      { assert (E : sub1 ++ pre ++ l ++ all_of rest = (sub1 ++ pre ++ l) ++ all_of rest) by (rewrite <- !app_assoc; reflexivity).
        rewrite E in G. apply good_app in G. destruct G as [G' _]. exact G'. }
      assert (Hone : run_thens w vars sh fuel fuel parent_sels rootT [mkstep (loc, l)] [] (JObj [(k, JArr (map Pj os))])
                       (JObj [(k, JArr (map (Q pre) os))]) = Ok (JObj [(k, JArr (map (Q (pre ++ l)) os))])).
      { cbn [run_thens fold_left bind mkstep fst snd]. rewrite Ef. cbn [obj_fields].
        unfold find_insertion_points. cbn [length Nat.ltb Nat.leb skipn find_points find_selection fs_key].
        rewrite String.eqb_refl. cbn [jget]. rewrite String.eqb_refl.
        unfold P. rewrite (entries_of_answers w [] vars l1 good_sub1 n k os 0). cbn [bind].
        exact (visits_step pre l G1 Hnv1 Hf1 os [] os_bound os_named os_typed Hf1). }
      rewrite Hone. cbn [bind].
      rewrite (IH (pre ++ l)); [unfold all_of; cbn [map concat snd]; rewrite <- app_assoc; reflexivity| |exact Hnvr|exact Hfr].
      assert (E : sub1 ++ (pre ++ l) ++ all_of rest = sub1 ++ pre ++ l ++ all_of rest) by (rewrite <- !app_assoc; reflexivity).
      rewrite E. exact G.
  Qed.

  Variable deps : list (string * list sel).
  Hypothesis good_all : good (sub1 ++ all_of deps).
  Hypothesis deps_no_id_var : Forall (fun d => no_id_var (snd d)) deps.
  Hypothesis deps_flat : Forall (fun d => Forall (fun o => flat_at w vars o (snd d)) os) deps.
  Variable locA : string.
  Variable tops : list sel.

  Definition multi_plan : pstep :=
    PStep "" rootT [] tops [PStep locA rootT [] [Field ka kn args [] (l1 ++ [id_field])] (map mkstep deps)].

  Lemma all_facts : good (all_of deps) /\ compat sub1 (all_of deps) /\ ~ In "id" (map key_of (all_of deps)).
  Proof.
    destruct (good_app _ _ good_all) as [_ [Ga C]]. split; [exact Ga|]. split; [exact C|].
    inversion good_all as [? _ N _]; subst. rewrite !map_app in N. cbn [map] in N.
    intros Hin. rewrite <- app_assoc in N. apply NoDup_remove_2 in N. apply N. apply in_or_app. right. exact Hin.
  Qed.

  Lemma with_id_field_m fuel' ob rt : exec (S (S fuel')) w [] vars ob rt (l1 ++ [id_field]) = exec (S (S fuel')) w [] vars ob rt sub1.
  Proof.
    inversion good_sub1 as [? Pl ? ?]; subst. apply Forall_app in Pl. destruct Pl as [Pl1 _].
    apply exec_to_c; [apply Forall_app; split; [exact Pl1|repeat constructor]|apply Forall_app; split; [exact Pl1|repeat constructor]|].
    rewrite !map_app. reflexivity.
  Qed.

  Lemma run_plan_multi :
    run_plan w vars sh fuel rootT multi_plan = Ok (JObj [(k, JArr (map (Q (all_of deps)) os))]).
  Proof.
    unfold run_plan, multi_plan. cbn [fold_left bind].
    assert (Hres' : resolve w vars None rootT (to_c (Field ka kn args [] (l1 ++ [id_field]))) = FList (map (fun o => FRef (b_id o)) os))
      by (rewrite <- k_value; apply resolve_same; reflexivity).
    rewrite (list_field_answer w [] vars n k None rootT ka kn args (l1 ++ [id_field]) os eq_refl Hres' os_named).
    rewrite (map_ext _ (fun o => exec (S (S n)) w [] vars (Some o) (b_type o) sub1) (fun o => with_id_field_m n (Some o) (b_type o))).
    cbn [insert_object merge_obj jget jset merge_value bind].
    change (map (fun o => exec (S (S n)) w [] vars (Some o) (b_type o) sub1) os) with (map Pj os).
    assert (HQ : map Pj os = map (Q []) os) by (apply map_ext; intros o; unfold P, Q; rewrite app_nil_r; reflexivity).
    rewrite HQ at 2.
    rewrite (run_steps_exact [Field ka kn args [] (l1 ++ [id_field])]
               (flatten_one (S (S n)) sh rootT ka kn args (l1 ++ [id_field]) t true nn k_shape) deps []); [reflexivity| |exact deps_no_id_var|exact deps_flat].
    cbn [app]. exact good_all.
  Qed.

  Lemma Q_has_id : forall l i, Forall (fun o => find_obj (b_id o) (w_objs w) = Some o) l ->
    find_entries true k (fun _ br => Ok [br]) [] (map (Q (all_of deps)) l) i = Ok (points_from k i l).
  Proof.
    destruct all_facts as [Ga [C Nid]].
    induction l as [|o r IH]; intros i Hn; cbn [map find_entries points_from]; [reflexivity|].
    inversion Hn as [|? ? Ho Hr]; subst.
    assert (Hid : exists mj, Q (all_of deps) o = JObj mj /\ jget "id" mj = Some (JStr (b_id o))).
    { unfold Q.
      rewrite (stitch_sound w [] vars world_atomic (S (S n)) (Some o) (b_type o) sub1 (all_of deps) (find_obj_in _ _ _ Ho) good_sub1 Ga C).
      destruct (answer_has_id w [] vars l1 good_sub1 n o) as [m [Em Eid]]. rewrite Em.
      rewrite (exec_good w [] vars n (Some o) (b_type o) (all_of deps) Ga). rewrite merge_value_obj.
      eexists. split; [reflexivity|]. rewrite merge_obj_other; [exact Eid|].
      unfold answer_of. apply (jget_map_notin _ (all_of deps) "id" Nid). }
    destruct Hid as [mj [Ej Eid]]. rewrite Ej. rewrite Eid. cbn [bind fmt_v app]. rewrite (IH _ Hr). cbn [bind app]. reflexivity.
  Qed.

  (* Several dependent steps at one point, end to end on the execution side. *)
  Theorem multi_join_end_to_end :
    (data <- run_plan w vars sh fuel rootT multi_plan ;;
     scrub_all_paths (flatten fuel sh rootT [Field ka kn args [] (l1 ++ all_of deps)]) [[k]] data) =
    Ok (exec fuel w [] vars None rootT [Field ka kn args [] (l1 ++ all_of deps)]).
  Proof.
    destruct all_facts as [Ga [C Nid]].
    rewrite run_plan_multi. cbn [bind].
    unfold scrub_all_paths. cbn [fold_left bind]. unfold scrub_location.
    destruct (flatten_one (S (S n)) sh rootT ka kn args (l1 ++ all_of deps) t true nn k_shape) as [subf Ef]. rewrite Ef.
    unfold find_insertion_points. cbn [length Nat.ltb Nat.leb skipn find_points find_selection fs_key].
    rewrite String.eqb_refl. cbn [jget]. rewrite String.eqb_refl.
    rewrite (Q_has_id os 0 os_named). cbn [bind].
    pose proof (scrub_points_exact w [] vars l1 (all_of deps) good_sub1 Ga Nid n k k_clean os [] os_bound) as Hs.
    cbn [app length] in Hs. unfold J, ExactJoin.C in Hs. unfold Q. rewrite Hs. f_equal.
    assert (Hres2 : resolve w vars None rootT (to_c (Field ka kn args [] (l1 ++ all_of deps))) = FList (map (fun o => FRef (b_id o)) os))
      by (rewrite <- k_value; apply resolve_same; reflexivity).
    rewrite (list_field_answer w [] vars n k None rootT ka kn args (l1 ++ all_of deps) os eq_refl Hres2 os_named). reflexivity.
  Qed.
End Multi.

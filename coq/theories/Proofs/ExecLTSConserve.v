(* Conservation in the executor LTS: every node of the realised call tree is called exactly once
   and stitched exactly once, and the errors recorded are exactly the failed nodes -- in every
   reachable state as a counting invariant, hence when Execute returns as permutations. *)
From Coq Require Import List Arith Bool Lia Permutation.
From GW Require Import Gw.ExecLTS Proofs.ExecLTSProofs.
Import ListNotations.

Section Conserve.
  Variable rcap : nat.
  Notation steps := (steps rcap).
  Notation task_steps := (task_steps rcap).
  Notation all_task_steps := (all_task_steps rcap).

  Definition cnt (x : nat) (l : list nat) : nat := count_occ Nat.eq_dec l x.

  Arguments cnt : simpl never.

  Lemma cnt_app x a b : cnt x (a ++ b) = cnt x a + cnt x b.
  Proof. apply count_occ_app. Qed.
  Lemma cnt_cons x y l : cnt x (y :: l) = (if Nat.eq_dec y x then 1 else 0) + cnt x l.
  Proof. unfold cnt. simpl. destruct (Nat.eq_dec y x); lia. Qed.
  Lemma cnt_nil x : cnt x [] = 0. Proof. reflexivity. Qed.

  Lemma cnt_flat_map_app {A} (f : A -> list nat) x a b :
    cnt x (flat_map f (a ++ b)) = cnt x (flat_map f a) + cnt x (flat_map f b).
  Proof. rewrite flat_map_app. apply cnt_app. Qed.
  Lemma cnt_flat_map_cons {A} (f : A -> list nat) x t l :
    cnt x (flat_map f (t :: l)) = cnt x (f t) + cnt x (flat_map f l).
  Proof. simpl. apply cnt_app. Qed.

  Definition idsl (l : list ctree) : list nat := flat_map ids l.
  Definition failingl (l : list ctree) : list nat := flat_map failing l.

  Lemma ids_unfold n : ids n = id_of n :: idsl (kids_of n).
  Proof. destruct n; reflexivity. Qed.
  Lemma failing_unfold n : failing n = (if fails_of n then [id_of n] else []) ++ failingl (kids_of n).
  Proof. destruct n; reflexivity. Qed.

  (* what a task still has to call / to get stitched / to report as failed *)
  Definition uncalled (t : task) : list nat :=
    match t_pc t with PCall => ids (t_node t) | PAdded => idsl (kids_of (t_node t)) | PSent r => idsl r end.
  Definition unstitched (t : task) : list nat :=
    match t_pc t with PCall | PAdded => ids (t_node t) | PSent r => idsl r end.
  Definition unreported (t : task) : list nat :=
    match t_pc t with PCall | PAdded => failing (t_node t) | PSent r => failingl r end.

  Definition queued_fail (q : list (nat * bool)) : list nat := map fst (filter snd q).

  Definition InvC (roots : list ctree) (s : st) : Prop :=
    forall x,
      cnt x (idsl roots) = cnt x (flat_map uncalled (tasks s)) + cnt x (called s) /\
      cnt x (idsl roots) = cnt x (flat_map unstitched (tasks s)) + cnt x (map fst (rch s)) + cnt x (ins s) /\
      cnt x (failingl roots) = cnt x (flat_map unreported (tasks s)) + cnt x (queued_fail (rch s)) + cnt x (errs s).

  Lemma queued_fail_app a b : queued_fail (a ++ b) = queued_fail a ++ queued_fail b.
  Proof. unfold queued_fail. rewrite filter_app, map_app. reflexivity. Qed.

  Ltac norm :=
    repeat rewrite ?cnt_flat_map_app, ?cnt_flat_map_cons, ?cnt_app, ?cnt_cons, ?cnt_nil, ?map_app, ?queued_fail_app in *;
    simpl in *.

  Ltac crunch :=
    simpl; norm; unfold uncalled, unstitched, unreported, idsl, failingl, queued_fail in *; simpl in *;
    rewrite ?ids_unfold, ?failing_unfold in *; unfold idsl, failingl in *; norm;
    repeat match goal with
           | |- context [Nat.eq_dec ?a ?b] => destruct (Nat.eq_dec a b)
           | H : context [Nat.eq_dec ?a ?b] |- _ => destruct (Nat.eq_dec a b)
           end.

  Lemma task_step_conserve roots s pre t post s' :
    tasks s = pre ++ t :: post -> InvC roots s -> In s' (task_steps s pre t post) -> InvC roots s'.
  Proof.
    intros Ht HI Hin x. specialize (HI x). rewrite Ht in HI. destruct HI as (A & B & C).
    unfold task_steps in Hin. destruct t as [n p]. simpl in Hin.
    destruct p as [| |r].
    - destruct Hin as [<-|[]]. crunch; repeat split; lia.
    - destruct (length (rch s) <? rcap); [|contradiction]. destruct Hin as [<-|[]].
      destruct (kids_of n) as [|k ks] eqn:Ek; crunch; rewrite ?Ek in *; crunch; destruct (fails_of n); crunch; repeat split; lia.
    - destruct r as [|k [|k2 ks]]; destruct Hin as [<-|[]]; crunch; repeat split; lia.
  Qed.

  Lemma all_task_steps_conserve roots s : forall l pre s',
    tasks s = pre ++ l -> InvC roots s -> In s' (all_task_steps s pre l) -> InvC roots s'.
  Proof.
    induction l as [|t post IH]; intros pre s' Ht HI Hin; simpl in Hin; [contradiction|].
    apply in_app_or in Hin. destruct Hin as [Hin|Hin].
    - eapply task_step_conserve; eauto.
    - eapply (IH (pre ++ [t])); eauto. rewrite <- app_assoc. exact Ht.
  Qed.

  Theorem step_conserve roots s s' : InvC roots s -> In s' (steps s) -> InvC roots s'.
  Proof.
    unfold steps. intros HI Hin. destruct (ret s); [contradiction|].
    apply in_app_or in Hin. destruct Hin as [Hin|Hin].
    - eapply (all_task_steps_conserve roots s (tasks s) []); eauto.
    - apply in_app_or in Hin. destruct Hin as [Hin|Hin].
      + unfold coll_steps in Hin. destruct (rch s) as [|[i f] r] eqn:E; [contradiction|]. destruct Hin as [<-|[]].
        intros x. specialize (HI x). rewrite E in HI. destruct HI as (A & B & C).
        destruct f; crunch; repeat split; lia.
      + unfold main_steps in Hin. destruct (wg s =? 0); [|contradiction]. destruct Hin as [<-|[]]. exact HI.
  Qed.

  Lemma init_conserve roots : InvC roots (init roots).
  Proof.
    intros x. unfold init, idsl, failingl. simpl.
    assert (E1: flat_map uncalled (map (fun r => {| t_node := r; t_pc := PCall |}) roots) = flat_map ids roots).
    { clear. induction roots as [|r rs IH]; [reflexivity|]. cbn [map flat_map]. rewrite IH. reflexivity. }
    assert (E2: flat_map unstitched (map (fun r => {| t_node := r; t_pc := PCall |}) roots) = flat_map ids roots).
    { clear. induction roots as [|r rs IH]; [reflexivity|]. cbn [map flat_map]. rewrite IH. reflexivity. }
    assert (E3: flat_map unreported (map (fun r => {| t_node := r; t_pc := PCall |}) roots) = flat_map failing roots).
    { clear. induction roots as [|r rs IH]; [reflexivity|]. cbn [map flat_map]. rewrite IH. reflexivity. }
    rewrite E1, E2, E3. unfold queued_fail. simpl. rewrite !cnt_nil. repeat split; lia.
  Qed.

  Theorem reach_conserve roots s : reach rcap roots s -> InvC roots s.
  Proof. induction 1 as [|s s' Hr IH Hs]; [apply init_conserve|]. apply (step_conserve _ _ _ IH Hs). Qed.

  (* ---------- when Execute has returned ---------- *)
  Lemma cnt_perm a b : (forall x, cnt x a = cnt x b) -> Permutation a b.
  Proof. intros H. apply (Permutation_count_occ Nat.eq_dec). exact H. Qed.

  Hypothesis rcap_pos : 0 < rcap.

  Theorem returned_after_all roots s :
    reach rcap roots s -> ret s = true ->
    tasks s = [] /\ rch s = [] /\
    Permutation (called s) (idsl roots) /\ Permutation (ins s) (idsl roots) /\ Permutation (errs s) (failingl roots).
  Proof.
    intros Hr Hret.
    (* the last step was Wait returning: nothing is running or queued in a returned state *)
    assert (Hq: tasks s = [] /\ rch s = []).
    { clear - Hr Hret rcap_pos. induction Hr as [|s s' Hr IH Hs]; [discriminate|].
      pose proof (reach_inv rcap rcap_pos roots s Hr) as HI.
      unfold ExecLTS.steps in Hs. destruct (ret s) eqn:Er; [contradiction|].
      apply in_app_or in Hs. destruct Hs as [Hs|Hs].
      - destruct (all_task_steps_facts rcap rcap_pos s (tasks s) [] s' eq_refl HI Er Hs) as (_ & _ & E & _). congruence.
      - apply in_app_or in Hs. destruct Hs as [Hs|Hs].
        + destruct (coll_step_facts rcap rcap_pos s s' HI Er Hs) as (_ & _ & E). congruence.
        + destruct (main_step_facts rcap rcap_pos s s' HI Er Hs) as (_ & _ & _ & A & B & _). auto. }
    destruct Hq as [Ht Hq]. split; [exact Ht|]. split; [exact Hq|].
    pose proof (reach_conserve roots s Hr) as HC.
    split; [|split]; apply cnt_perm; intros x; destruct (HC x) as (A & B & C); rewrite Ht, Hq in *; simpl in *;
      unfold queued_fail in *; simpl in *; norm; lia.
  Qed.
End Conserve.

(* The comparisons the merge makes are transitive (they are equalities of what they compare), and
   a merged definition is compared with a third one exactly as the definitions it was merged from. *)
From Coq Require Import String List Bool Arith Lia.
From GW Require Import Base.Res Base.GoStr Gql.Schema Gw.Merge Gw.MergeCheck Proofs.MergeBasics Proofs.MergeProofs Proofs.DirEq Proofs.MergeSym.
Import ListNotations.
Open Scope string_scope.
Open Scope list_scope.

(* ---------- generic: matched lists ---------- *)
Section MatchTrans.
  Variable A : Type.
  Variable name : A -> string.
  Variable find : string -> list A -> option A.
  Hypothesis find_some : forall n l a, find n l = Some a -> In a l /\ name a = n.
  Variable R : A -> A -> bool.

  Lemma all_matched_trans l1 l2 l3 :
    (forall a b c, In a l1 -> In b l2 -> In c l3 -> R a b = true -> R b c = true -> R a c = true) ->
    all_matched A name find R l1 l2 = true -> all_matched A name find R l2 l3 = true ->
    all_matched A name find R l1 l3 = true.
  Proof.
    unfold all_matched. intros HT H12 H23. rewrite forallb_forall in H12, H23. apply forallb_forall. intros a Ha.
    specialize (H12 a Ha). destruct (find (name a) l2) as [b|] eqn:Eb; [|discriminate].
    destruct (find_some _ _ _ Eb) as [Hb Hnb]. specialize (H23 b Hb). rewrite Hnb in H23.
    destruct (find (name a) l3) as [c|] eqn:Ec; [|discriminate].
    destruct (find_some _ _ _ Ec) as [Hc _]. exact (HT a b c Ha Hb Hc H12 H23).
  Qed.
End MatchTrans.

(* ---------- values ---------- *)
Lemma values_equal_trans a b c : values_equal a b = true -> values_equal b c = true -> values_equal a c = true.
Proof. intros H1 H2. apply values_equal_eq in H1, H2. subst. apply values_equal_eq. reflexivity. Qed.

Lemma types_equal_trans a b c : types_equal a b = true -> types_equal b c = true -> types_equal a c = true.
Proof. intros H1 H2. apply types_equal_eq in H1, H2. subst. apply types_equal_eq. reflexivity. Qed.

(* ---------- arguments of applied directives ---------- *)
Lemma appl_args_equal_trans l1 l2 l3 :
  appl_args_equal l1 l2 = true -> appl_args_equal l2 l3 = true -> appl_args_equal l1 l3 = true.
Proof.
  unfold appl_args_equal. intros H12 H23.
  apply andb_prop in H12. destruct H12 as [L12 F12]. apply andb_prop in H23. destruct H23 as [L23 F23].
  apply Nat.eqb_eq in L12, L23. apply andb_true_intro. split; [apply Nat.eqb_eq; lia|].
  rewrite forallb_forall in F12, F23. apply forallb_forall. intros [k v] Hin. cbn [fst snd].
  specialize (F12 _ Hin). cbn [fst snd] in F12. destruct (find_appl_arg k l2) as [v2|] eqn:E2; [|discriminate].
  pose proof (find_appl_arg_in _ _ _ E2) as Hin2. specialize (F23 _ Hin2). cbn [fst snd] in F23.
  destruct (find_appl_arg k l3) as [v3|]; [|discriminate]. eapply values_equal_trans; eassumption.
Qed.

(* ---------- lists of applied directives ---------- *)
Lemma dirlists_equal_trans l1 l2 l3 :
  dirlists_equal l1 l2 = true -> dirlists_equal l2 l3 = true -> dirlists_equal l1 l3 = true.
Proof.
  unfold dirlists_equal. intros H12 H23.
  apply andb_prop in H12. destruct H12 as [L12 C12]. apply andb_prop in H23. destruct H23 as [L23 C23].
  apply Nat.eqb_eq in L12, L23. apply andb_true_intro. split; [apply Nat.eqb_eq; lia|].
  apply (dirs_cmp_spec l2 l1 []) in C12. apply (dirs_cmp_spec l3 l2 []) in C23. apply (dirs_cmp_spec l3 l1 []).
  rewrite Forall_forall in C12, C23. apply Forall_forall. intros e He.
  destruct (C12 e He) as [args2 [Hin2 Ha12]]. destruct (C23 _ Hin2) as [args3 [Hin3 Ha23]]. cbn [fst snd] in *.
  exists args3. split; [exact Hin3|]. eapply appl_args_equal_trans; eassumption.
Qed.

(* ---------- argument definitions and fields ---------- *)
Lemma argdef_ok_trans a b c : argdef_ok false a b = true -> argdef_ok false b c = true -> argdef_ok false a c = true.
Proof.
  unfold argdef_ok. cbn [orb]. intros H1 H2. apply andb_prop in H1, H2. destruct H1 as [H1 D1], H2 as [H2 D2].
  apply andb_prop in H1, H2. destruct H1 as [T1 V1], H2 as [T2 V2].
  rewrite (types_equal_trans _ _ _ T1 T2), (values_equal_trans _ _ _ V1 V2). exact (dirlists_equal_trans _ _ _ D1 D2).
Qed.

Lemma argdefs_ok_trans l1 l2 l3 :
  argdefs_ok false l1 l2 = true -> argdefs_ok false l2 l3 = true -> argdefs_ok false l1 l3 = true.
Proof.
  unfold argdefs_ok. intros H1 H2. apply andb_prop in H1, H2. destruct H1 as [L1 M1], H2 as [L2 M2].
  apply Nat.eqb_eq in L1, L2. apply andb_true_intro. split; [apply Nat.eqb_eq; lia|].
  eapply (all_matched_trans argdef ad_name find_arg find_arg_Some); [|exact M1|exact M2].
  intros a b c _ _ _. apply argdef_ok_trans.
Qed.

Lemma field_ok_trans f g h : field_ok f g = true -> field_ok g h = true -> field_ok f h = true.
Proof.
  unfold field_ok. intros H1 H2.
  apply andb_prop in H1. destruct H1 as [H1 D1]. apply andb_prop in H1. destruct H1 as [H1 V1]. apply andb_prop in H1. destruct H1 as [T1 A1].
  apply andb_prop in H2. destruct H2 as [H2 D2]. apply andb_prop in H2. destruct H2 as [H2 V2]. apply andb_prop in H2. destruct H2 as [T2 A2].
  rewrite (types_equal_trans _ _ _ T1 T2), (argdefs_ok_trans _ _ _ A1 A2), (values_equal_trans _ _ _ V1 V2), (dirlists_equal_trans _ _ _ D1 D2).
  reflexivity.
Qed.

(* ---------- what a comparison looks at ---------- *)
Definition asig (a : argdef) : string * option ty * option gval * list dirapp := (ad_name a, ad_type a, ad_default a, ad_dirs a).
Definition fsig (f : fielddef) : option ty * list (string * option ty * option gval * list dirapp) * option gval * list dirapp :=
  (fd_type f, map asig (fd_args f), fd_default f, fd_dirs f).

Lemma asig_inj a a' : asig a = asig a' -> ad_name a = ad_name a' /\ ad_type a = ad_type a' /\ ad_default a = ad_default a'.
Proof. unfold asig. intros H. inversion H. auto. Qed.
Lemma asig_dirs a a' : asig a = asig a' -> ad_dirs a = ad_dirs a'.
Proof. unfold asig. intros H. inversion H. auto. Qed.

Lemma map_cons_inv {A B} (f : A -> B) a r a' r' : map f (a :: r) = map f (a' :: r') -> f a = f a' /\ map f r = map f r'.
Proof. cbn [map]. intros H. inversion H. auto. Qed.

Lemma find_arg_sig n : forall l l', map asig l = map asig l' ->
  option_map asig (find_arg n l) = option_map asig (find_arg n l').
Proof.
  induction l as [|a r IH]; intros [|a' r'] E; try discriminate E; [reflexivity|].
  apply map_cons_inv in E. destruct E as [Ea Er]. destruct (asig_inj _ _ Ea) as [En _].
  cbn [find_arg]. rewrite En. destruct (String.eqb (ad_name a') n); [cbn [option_map]; rewrite Ea; reflexivity|apply IH; exact Er].
Qed.

Lemma argdef_ok_sig_l ig a a' b : asig a = asig a' -> argdef_ok ig a b = argdef_ok ig a' b.
Proof. intros H. destruct (asig_inj _ _ H) as [_ [Et Ed]]. unfold argdef_ok. rewrite Et, Ed, (asig_dirs _ _ H). reflexivity. Qed.

Lemma argdef_ok_sig_r ig a b b' : asig b = asig b' -> argdef_ok ig a b = argdef_ok ig a b'.
Proof. intros H. destruct (asig_inj _ _ H) as [_ [Et Ed]]. unfold argdef_ok. rewrite Et, Ed, (asig_dirs _ _ H). reflexivity. Qed.

Lemma argdefs_ok_sig_l ig l l' m : map asig l = map asig l' -> argdefs_ok ig l m = argdefs_ok ig l' m.
Proof.
  intros E. unfold argdefs_ok, all_matched. f_equal.
  - rewrite <- (map_length asig l), <- (map_length asig l'), E. reflexivity.
  - revert l' E. induction l as [|a r IH]; intros [|a' r'] E; try discriminate E; [reflexivity|].
    apply map_cons_inv in E. destruct E as [Ea Er]. destruct (asig_inj _ _ Ea) as [En _].
    cbn [forallb]. rewrite (IH r' Er). rewrite En.
    destruct (find_arg (ad_name a') m); [rewrite (argdef_ok_sig_l ig a a' _ Ea); reflexivity|reflexivity].
Qed.

Lemma argdefs_ok_sig_r ig m l l' : map asig l = map asig l' -> argdefs_ok ig m l = argdefs_ok ig m l'.
Proof.
  intros E. unfold argdefs_ok, all_matched. f_equal.
  - rewrite <- (map_length asig l), <- (map_length asig l'), E. reflexivity.
  - apply forallb_ext'. intros a. pose proof (find_arg_sig (ad_name a) l l' E) as H.
    destruct (find_arg (ad_name a) l) as [b|], (find_arg (ad_name a) l') as [b'|]; cbn [option_map] in H; try discriminate; [|reflexivity].
    assert (Hb : asig b = asig b') by congruence. apply argdef_ok_sig_r. exact Hb.
Qed.

Lemma field_ok_sig_l f f' g : fsig f = fsig f' -> field_ok f g = field_ok f' g.
Proof.
  unfold fsig, field_ok. intros H. inversion H as [[Et Ea Ed Er]]. rewrite (argdefs_ok_sig_l false _ _ _ Ea). reflexivity.
Qed.

Lemma field_ok_sig_r f g g' : fsig g = fsig g' -> field_ok f g = field_ok f g'.
Proof.
  unfold fsig, field_ok. intros H. inversion H as [[Et Ea Ed Er]]. rewrite (argdefs_ok_sig_r false _ _ _ Ea). reflexivity.
Qed.

Lemma asig_names l : forall l', map asig l = map asig l' -> map ad_name l = map ad_name l'.
Proof.
  induction l as [|a r IH]; intros [|a' r'] H; try discriminate; [reflexivity|].
  apply map_cons_inv in H. destruct H as [Ha Hr]. apply asig_inj in Ha. destruct Ha as [Hn _].
  cbn [map]. rewrite Hn, (IH _ Hr). reflexivity.
Qed.

Lemma adwf_sig l : forall l', map asig l = map asig l' -> adwf l' -> adwf l.
Proof.
  intros l' E [N D]. split; [rewrite (asig_names _ _ E); exact N|]. clear N.
  revert l' E D. induction l as [|a r IH]; intros [|a' r'] E D; try discriminate; constructor.
  - apply map_cons_inv in E. destruct E as [Ea _]. rewrite (asig_dirs _ _ Ea). inversion D; assumption.
  - apply map_cons_inv in E. destruct E as [_ Er]. inversion D; subst. eapply IH; eassumption.
Qed.

(* merging keeps what the comparisons look at: the merged field is compared like the first one *)
Lemma merge_argdefs_sig ig : forall l1 l2 out, merge_argdefs ig l1 l2 = Ok out -> map asig out = map asig l1.
Proof.
  unfold merge_argdefs. intros l1 l2 out H. destruct (negb (Nat.eqb (length l1) (length l2))); [discriminate|].
  revert out H. induction l1 as [|a r IH]; intros out H; cbn [res_map] in H; [injection H as <-; reflexivity|].
  destruct (find_arg (ad_name a) l2) as [a2|]; cbn [bind] in H; [|discriminate].
  destruct (merge_argdef ig a a2) as [m|e|e] eqn:Em; cbn [bind] in H; try discriminate.
  destruct (res_map _ r) as [ms|e|e] eqn:Er; cbn [bind] in H; try discriminate. injection H as <-.
  cbn [map]. rewrite (IH ms eq_refl). f_equal.
  unfold merge_argdef in Em. destruct (negb (types_equal (ad_type a) (ad_type a2))); [discriminate|].
  destruct (negb ig && negb (values_equal (ad_default a) (ad_default a2))); [discriminate|].
  destruct (negb (dirlists_equal (ad_dirs a) (ad_dirs a2))); [discriminate|]. injection Em as <-. reflexivity.
Qed.

Lemma merge_field_sig f g m : merge_field f g = Ok m -> fsig m = fsig f /\ fd_name m = fd_name f.
Proof.
  unfold merge_field. destruct (negb (types_equal (fd_type f) (fd_type g))); [discriminate|].
  destruct (merge_argdefs false (fd_args f) (fd_args g)) as [args|e|e] eqn:Ea; cbn [bind]; try discriminate.
  destruct (negb (values_equal (fd_default f) (fd_default g))); [discriminate|].
  destruct (negb (dirlists_equal (fd_dirs f) (fd_dirs g))); [discriminate|]. intros [= <-].
  unfold fsig. cbn. rewrite (merge_argdefs_sig _ _ _ _ Ea). split; reflexivity.
Qed.

(* The planner model is total in the nesting depth of the document: with more fuel than the
   document is deep, extractSelection never runs out of it. *)
From Coq Require Import String List Bool Arith Lia.
From GW Require Import Base.Res Base.GoStr Gql.Syntax Gw.Locate Gw.Plan Proofs.LocateProofs.
Import ListNotations.
Open Scope string_scope.
Open Scope list_scope.

(* nesting depth *)
Fixpoint sdepth (s : sel) : nat :=
  match s with
  | Field _ _ _ _ sub => S ((fix go (l : list sel) := match l with [] => 0 | x :: r => Nat.max (sdepth x) (go r) end) sub)
  | Inline _ _ sub => S ((fix go (l : list sel) := match l with [] => 0 | x :: r => Nat.max (sdepth x) (go r) end) sub)
  | Spread _ _ => 1
  end.
Fixpoint ldepth (l : list sel) : nat := match l with [] => 0 | x :: r => Nat.max (sdepth x) (ldepth r) end.

Lemma sdepth_field a n args dirs sub : sdepth (Field a n args dirs sub) = S (ldepth sub).
Proof. reflexivity. Qed.
Lemma sdepth_inline t dirs sub : sdepth (Inline t dirs sub) = S (ldepth sub).
Proof. reflexivity. Qed.

Lemma ldepth_in l x : In x l -> sdepth x <= ldepth l.
Proof. induction l as [|y r IH]; intros H; [destruct H|]. cbn [ldepth]. destruct H as [->|H]; [lia|]. specialize (IH H). lia. Qed.

Lemma ldepth_bound l B : (forall x, In x l -> sdepth x <= B) -> ldepth l <= B.
Proof.
  induction l as [|y r IH]; intros H; cbn [ldepth]; [lia|].
  assert (sdepth y <= B) by (apply H; left; reflexivity). assert (ldepth r <= B) by (apply IH; intros x Hx; apply H; right; exact Hx). lia.
Qed.

(* running out of fuel, as opposed to the errors the planner itself reports *)
Definition fuel_err {A} (r : res A) : bool :=
  match r with
  | Err e => String.eqb e "selection nesting exceeds fuel" || String.eqb e "step nesting exceeds fuel"
  | _ => false
  end.

Lemma fuel_err_bind {A B} (r : res A) (f : A -> res B) :
  fuel_err (bind r f) = match r with Ok x => fuel_err (f x) | Err e => fuel_err (@Err A e) | Panic _ => false end.
Proof. destruct r; reflexivity. Qed.

Section Total.
  Variables (prios : list string) (urls : urlmap) (ft : ftypes).

  Lemma choose_no_fuel t n p : fuel_err (choose prios urls t n p) = false.
  Proof. unfold choose, url_for. destruct (assoc (url_key t n) urls); reflexivity. Qed.

  (* ---- what the groups are made of ---- *)
  Lemma add_at_elems l s m l' ss x : In (l', ss) (add_at l s m) -> In x ss -> x = s \/ exists ss0, In (l', ss0) m /\ In x ss0.
  Proof.
    revert l' ss. induction m as [|[k v] r IH]; intros l' ss H Hx; cbn [add_at] in H.
    - destruct H as [E|[]]. injection E as <- <-. destruct Hx as [<-|[]]. left. reflexivity.
    - destruct (String.eqb l k).
      + destruct H as [E|H].
        * injection E as <- <-. apply in_app_or in Hx. destruct Hx as [Hx|[<-|[]]]; [right; exists v; split; [left; reflexivity|exact Hx]|left; reflexivity].
        * right. exists ss. split; [right; exact H|exact Hx].
      + destruct H as [E|H].
        * injection E as <- <-. right. exists v. split; [left; reflexivity|exact Hx].
        * destruct (IH _ _ H Hx) as [->|[ss0 [A B]]]; [left; reflexivity|right; exists ss0; split; [right; exact A|exact B]].
  Qed.

  Lemma split_inline_elems tc ploc : forall sub m m', split_inline prios urls tc ploc sub m = Ok m' ->
    forall l ss x, In (l, ss) m' -> In x ss -> In x sub \/ exists ss0, In (l, ss0) m /\ In x ss0.
  Proof.
    induction sub as [|s r IH]; intros m m' H l ss x Hin Hx.
    - cbn [split_inline] in H. injection H as <-. right. exists ss. auto.
    - cbn [split_inline] in H. destruct s as [a n args dirs sub'|t dirs sub'|nm dirs].
      + destruct (choose prios urls tc n ploc) as [lc|e|e]; cbn [bind] in H; try discriminate.
        destruct (IH _ _ H l ss x Hin Hx) as [Hr|[ss0 [A B]]]; [left; right; exact Hr|].
        destruct (add_at_elems _ _ _ _ _ _ A B) as [->|R]; [left; left; reflexivity|right; exact R].
      + destruct (IH _ _ H l ss x Hin Hx) as [Hr|[ss0 [A B]]]; [left; right; exact Hr|].
        destruct (add_at_elems _ _ _ _ _ _ A B) as [->|R]; [left; left; reflexivity|right; exact R].
      + destruct (IH _ _ H l ss x Hin Hx) as [Hr|[ss0 [A B]]]; [left; right; exact Hr|].
        destruct (add_at_elems _ _ _ _ _ _ A B) as [->|R]; [left; left; reflexivity|right; exact R].
  Qed.

  Lemma fold_add_depth (tcond : string) (dirs : list directive) B : forall parts acc,
    (forall l ss, In (l, ss) parts -> S (ldepth ss) <= B) ->
    (forall l ss x, In (l, ss) acc -> In x ss -> sdepth x <= B) ->
    forall l ss x, In (l, ss) (fold_left (fun acc lp => add_at (fst lp) (Inline tcond dirs (snd lp)) acc) parts acc) -> In x ss -> sdepth x <= B.
  Proof.
    induction parts as [|[pl pss] r IH]; intros acc Hp Ha l ss x Hin Hx; cbn [fold_left] in Hin; [exact (Ha l ss x Hin Hx)|].
    apply (IH (add_at pl (Inline tcond dirs pss) acc)) with (l := l) (ss := ss); try assumption.
    - intros l0 ss0 H0. apply (Hp l0 ss0). right. exact H0.
    - intros l0 ss0 x0 H0 Hx0. cbn [fst snd] in H0. destruct (add_at_elems _ _ _ _ _ _ H0 Hx0) as [->|[ss1 [A1 B1]]].
      + rewrite sdepth_inline. apply (Hp pl pss). left. reflexivity.
      + exact (Ha _ _ _ A1 B1).
  Qed.

  Lemma group_depth ptype ploc B : forall sels acc g, group prios urls ptype ploc sels acc = Ok g ->
    ldepth sels <= B -> (forall l ss x, In (l, ss) acc -> In x ss -> sdepth x <= B) ->
    forall l ss x, In (l, ss) g -> In x ss -> sdepth x <= B.
  Proof.
    induction sels as [|s r IH]; intros acc g H Hd Ha l ss x Hin Hx.
    - cbn [group] in H. injection H as <-. exact (Ha l ss x Hin Hx).
    - cbn [ldepth] in Hd. cbn [group] in H. destruct s as [a n args dirs sub|t dirs sub|nm dirs]; [| |discriminate].
      + destruct (choose prios urls ptype n ploc) as [lc|e|e]; cbn [bind] in H; try discriminate.
        apply (IH _ _ H) with (l := l) (ss := ss); try assumption; [lia|].
        intros l0 ss0 x0 H0 Hx0. destruct (add_at_elems _ _ _ _ _ _ H0 Hx0) as [->|[ss1 [A1 B1]]]; [lia|exact (Ha _ _ _ A1 B1)].
      + destruct (split_inline prios urls (if String.eqb t "" then ptype else t) ploc sub []) as [parts|e|e] eqn:Es; cbn [bind] in H; try discriminate.
        apply (IH _ _ H) with (l := l) (ss := ss); try assumption; [lia|].
        apply fold_add_depth; [|exact Ha].
        intros l0 ss0 H0. rewrite sdepth_inline in Hd.
        assert (ldepth ss0 <= ldepth sub).
        { apply ldepth_bound. intros y Hy. destruct (split_inline_elems _ _ _ _ _ Es l0 ss0 y H0 Hy) as [Hs|[ss1 [[] _]]]. apply ldepth_in. exact Hs. }
        lia.
  Qed.

  Lemma split_inline_no_fuel tc ploc : forall sub m, fuel_err (split_inline prios urls tc ploc sub m) = false.
  Proof.
    induction sub as [|s r IH]; intros m; cbn [split_inline]; [reflexivity|]. destruct s as [a n args dirs sub'|t dirs sub'|nm dirs]; try apply IH.
    rewrite fuel_err_bind. pose proof (choose_no_fuel tc n ploc) as Hc. destruct (choose prios urls tc n ploc); [apply IH|exact Hc|reflexivity].
  Qed.

  Lemma group_no_fuel ptype ploc : forall sels acc, fuel_err (group prios urls ptype ploc sels acc) = false.
  Proof.
    induction sels as [|s r IH]; intros acc; cbn [group]; [reflexivity|]. destruct s as [a n args dirs sub|t dirs sub|nm dirs]; [| |reflexivity].
    - rewrite fuel_err_bind. pose proof (choose_no_fuel ptype n ploc) as Hc. destruct (choose prios urls ptype n ploc); [apply IH|exact Hc|reflexivity].
    - rewrite fuel_err_bind. pose proof (split_inline_no_fuel (if String.eqb t "" then ptype else t) ploc sub []) as Hs.
      destruct (split_inline prios urls (if String.eqb t "" then ptype else t) ploc sub []); [apply IH|exact Hs|reflexivity].
  Qed.

  Lemma wrap_no_fuel : forall w ss, fuel_err (wrap w ss) = false.
  Proof.
    induction w as [|x r IH]; intros ss; cbn [wrap]; [reflexivity|]. destruct x; try reflexivity.
    rewrite fuel_err_bind. specialize (IH ss). destruct (wrap r ss); [reflexivity|exact IH|reflexivity].
  Qed.

  Lemma queue_others_no_fuel ptype ploc ip w : forall gs, fuel_err (queue_others ptype ploc ip w gs) = false.
  Proof.
    induction gs as [|[l ss] r IH]; cbn [queue_others]; [reflexivity|]. rewrite fuel_err_bind.
    destruct (queue_others ptype ploc ip w r) as [rest|e|e]; [|exact IH|reflexivity].
    destruct (String.eqb l ploc); [reflexivity|]. rewrite fuel_err_bind.
    pose proof (wrap_no_fuel w ss) as Hw. destruct w as [|w0 wr]; [reflexivity|]. destruct (wrap (w0 :: wr) ss); [reflexivity|exact Hw|reflexivity].
  Qed.

  Lemma get_at_in l : forall m ss, get_at l m = Some ss -> In (l, ss) m.
  Proof.
    induction m as [|[k v] r IH]; intros ss H; cbn [get_at] in H; [discriminate|].
    destruct (String.eqb l k) eqn:E; [apply String.eqb_eq in E; injection H as <-; left; congruence|right; apply IH; exact H].
  Qed.

  (* the selections that stay: fuel is needed only below what has a sub-selection *)
  Definition needs_below (s : sel) : option (list sel) :=
    match s with
    | Field _ _ _ _ [] => None
    | Field _ _ _ _ sub => Some sub
    | Inline _ _ sub => Some sub
    | Spread _ _ => None
    end.

  Lemma keep_no_fuel below ptype ipoint wrapper : forall cur,
    (forall s sub, In s cur -> needs_below s = Some sub -> forall t ip w, fuel_err (below t ip w sub) = false) ->
    fuel_err (keep_with ft below ptype ipoint wrapper cur) = false.
  Proof.
    induction cur as [|s r IH]; intros H; cbn [keep_with]; [reflexivity|].
    rewrite fuel_err_bind.
    match goal with |- match ?here with _ => _ end = false => assert (Hh : fuel_err here = false) end.
    { destruct s as [a n args dirs sub|t dirs sub|nm dirs]; [| |reflexivity].
      - destruct sub as [|s0 sr]; [reflexivity|]. destruct (assoc (url_key ptype n) ft) as [t0|]; [|reflexivity].
        rewrite fuel_err_bind. pose proof (H _ (s0 :: sr) (or_introl eq_refl) eq_refl t0 (ipoint ++ [a]) []) as Hb.
        destruct (below t0 (ipoint ++ [a]) [] (s0 :: sr)); [reflexivity|exact Hb|reflexivity].
      - rewrite fuel_err_bind. pose proof (H _ sub (or_introl eq_refl) eq_refl (if String.eqb t "" then ptype else t) ipoint (wrapper ++ [Inline t dirs sub])) as Hb.
        destruct (below _ ipoint (wrapper ++ [Inline t dirs sub]) sub); [reflexivity|exact Hb|reflexivity]. }
    match goal with |- match ?here with _ => _ end = false => destruct here as [h|e|e]; [|exact Hh|reflexivity] end.
    rewrite fuel_err_bind. specialize (IH (fun s' sub' Hs' => H s' sub' (or_intror Hs'))).
    fold (keep_with ft below ptype ipoint wrapper) in *.
    destruct (keep_with ft below ptype ipoint wrapper r); [reflexivity|exact IH|reflexivity].
  Qed.

  (* extractSelection never runs out of fuel when it has more than the selection is deep *)
  Theorem extract_total : forall fuel ptype ploc ip w sels,
    ldepth sels < fuel -> fuel_err (extract prios urls ft fuel ptype ploc ip w sels) = false.
  Proof.
    induction fuel as [|f IH]; intros ptype ploc ip w sels Hd; [lia|]. cbn [extract].
    rewrite fuel_err_bind. pose proof (group_no_fuel ptype ploc sels []) as Hg.
    destruct (group prios urls ptype ploc sels []) as [groups|e|e] eqn:Eg; [|exact Hg|reflexivity].
    rewrite fuel_err_bind. pose proof (queue_others_no_fuel ptype ploc ip w groups) as Hq.
    destruct (queue_others ptype ploc ip w groups) as [others|e|e]; [|exact Hq|reflexivity].
    rewrite fuel_err_bind.
    match goal with |- match ?k with _ => _ end = false => assert (Hk : fuel_err k = false) end.
    { apply keep_no_fuel. intros s sub Hs Hnb t ip' w'.
      assert (Hds : s = id_field \/ sdepth s <= ldepth sels).
      { assert (Hcur : forall x, In x (match get_at ploc groups with Some ss => ss | None => [] end) -> sdepth x <= ldepth sels).
        { intros x Hx. destruct (get_at ploc groups) as [ss|] eqn:Ega; [|destruct Hx].
          apply (group_depth ptype ploc (ldepth sels) sels [] groups Eg (le_n _)) with (l := ploc) (ss := ss); [intros ? ? ? []|apply get_at_in; exact Ega|exact Hx]. }
        destruct others as [|o orest]; [right; apply Hcur; exact Hs|].
        apply in_app_or in Hs. destruct Hs as [Hs|[<-|[]]]; [right; apply Hcur; exact Hs|left; reflexivity]. }
      destruct Hds as [->|Hds]; [discriminate Hnb|].
      destruct s as [a n args dirs sub0|t0 dirs sub0|nm dirs]; [| |discriminate Hnb].
      - rewrite sdepth_field in Hds. destruct sub0 as [|s0 sr]; [discriminate Hnb|]. injection Hnb as <-. apply IH. lia.
      - rewrite sdepth_inline in Hds. injection Hnb as <-. apply IH. lia. }
    match goal with |- match ?k with _ => _ end = false => destruct k; [reflexivity|exact Hk|reflexivity] end.
  Qed.

  (* ---------- the steps a step queues ---------- *)
  Definition tc_of (ptype tcond : string) : string := if String.eqb tcond "" then ptype else tcond.

  (* every field reachable without crossing a field is placed at l when l is the enclosing location *)
  Fixpoint settled_sel (l ptype : string) (s : sel) : Prop :=
    match s with
    | Field _ n _ _ _ => forall l', choose prios urls ptype n l = Ok l' -> l' = l
    | Inline t _ sub => (fix go (ss : list sel) : Prop := match ss with [] => True | x :: r => settled_sel l (tc_of ptype t) x /\ go r end) sub
    | Spread _ _ => True
    end.
  Definition settled (l ptype : string) (ss : list sel) : Prop := Forall (settled_sel l ptype) ss.

  Lemma settled_inline l ptype t dirs sub : settled_sel l ptype (Inline t dirs sub) <-> settled l (tc_of ptype t) sub.
  Proof.
    cbn [settled_sel]. unfold settled. induction sub as [|x r IH]; [split; [constructor|intros; exact I]|].
    split.
    - intros [A B]. constructor; [exact A|apply IH; exact B].
    - intros H. inversion H as [|? ? A B]; subst. split; [exact A|apply IH; exact B].
  Qed.

  Lemma choose_idempotent ptype n ploc l : choose prios urls ptype n ploc = Ok l -> choose prios urls ptype n l = Ok l.
  Proof.
    unfold choose. destruct (url_for urls ptype n) as [ps|e|e]; cbn [bind]; try discriminate.
    intros [= <-]. rewrite chooser_idempotent. reflexivity.
  Qed.

  (* where a group's selections come from *)
  Definition der (sels : list sel) (x : sel) : Prop :=
    In x sels \/ exists t dirs sub ss', x = Inline t dirs ss' /\ In (Inline t dirs sub) sels /\ incl ss' sub.

  (* ... and where the chooser put them *)
  Definition entry_ok (ptype ploc l : string) (x : sel) : Prop :=
    match x with
    | Field _ n _ _ _ => choose prios urls ptype n ploc = Ok l
    | Inline t _ ss' => ss' <> [] /\ forall y, In y ss' ->
                        match y with Field _ n _ _ _ => choose prios urls (tc_of ptype t) n ploc = Ok l | _ => l = ploc end
    | Spread _ _ => False
    end.

  Lemma add_at_nonempty l s : forall m, (forall l0 ss0, In (l0, ss0) m -> ss0 <> []) -> forall l0 ss0, In (l0, ss0) (add_at l s m) -> ss0 <> [].
  Proof.
    induction m as [|[k v] r IH]; intros H l0 ss0 Hin; cbn [add_at] in Hin.
    - destruct Hin as [E|[]]. injection E as <- <-. discriminate.
    - destruct (String.eqb l k).
      + destruct Hin as [E|Hin]; [injection E as <- <-; destruct v; discriminate|apply (H l0 ss0); right; exact Hin].
      + destruct Hin as [E|Hin]; [injection E as <- <-; apply (H k v); left; reflexivity|].
        apply (IH (fun a b Hab => H a b (or_intror Hab)) l0 ss0 Hin).
  Qed.

  Lemma add_at_loc l s m l' ss x : In (l', ss) (add_at l s m) -> In x ss -> (x = s /\ l' = l) \/ exists ss0, In (l', ss0) m /\ In x ss0.
  Proof.
    revert l' ss. induction m as [|[k v] r IH]; intros l' ss H Hx; cbn [add_at] in H.
    - destruct H as [E|[]]. injection E as <- <-. destruct Hx as [<-|[]]. left. auto.
    - destruct (String.eqb l k) eqn:Ek.
      + apply String.eqb_eq in Ek. subst k. destruct H as [E|H].
        * injection E as <- <-. apply in_app_or in Hx. destruct Hx as [Hx|[<-|[]]]; [right; exists v; split; [left; reflexivity|exact Hx]|left; auto].
        * right. exists ss. split; [right; exact H|exact Hx].
      + destruct H as [E|H].
        * injection E as <- <-. right. exists v. split; [left; reflexivity|exact Hx].
        * destruct (IH _ _ H Hx) as [[-> ->]|[ss0 [A B]]]; [left; auto|right; exists ss0; split; [right; exact A|exact B]].
  Qed.

  Definition part_ok (tc ploc l : string) (y : sel) : Prop :=
    match y with Field _ n _ _ _ => choose prios urls tc n ploc = Ok l | _ => l = ploc end.

  Lemma split_inline_parts tc ploc : forall sub m m', split_inline prios urls tc ploc sub m = Ok m' ->
    (forall l ss y, In (l, ss) m -> In y ss -> part_ok tc ploc l y) ->
    forall l ss y, In (l, ss) m' -> In y ss -> part_ok tc ploc l y.
  Proof.
    induction sub as [|s r IH]; intros m m' H Hm l ss y Hin Hy.
    - cbn [split_inline] in H. injection H as <-. exact (Hm l ss y Hin Hy).
    - cbn [split_inline] in H. destruct s as [a n args dirs sub'|t dirs sub'|nm dirs].
      + destruct (choose prios urls tc n ploc) as [lc|e|e] eqn:Ec; cbn [bind] in H; try discriminate.
        apply (IH _ _ H) with (l := l) (ss := ss); try assumption.
        intros l0 ss0 y0 H0 Hy0. destruct (add_at_loc _ _ _ _ _ _ H0 Hy0) as [[-> ->]|[ss1 [A B]]]; [exact Ec|exact (Hm _ _ _ A B)].
      + apply (IH _ _ H) with (l := l) (ss := ss); try assumption.
        intros l0 ss0 y0 H0 Hy0. destruct (add_at_loc _ _ _ _ _ _ H0 Hy0) as [[-> ->]|[ss1 [A B]]]; [reflexivity|exact (Hm _ _ _ A B)].
      + apply (IH _ _ H) with (l := l) (ss := ss); try assumption.
        intros l0 ss0 y0 H0 Hy0. destruct (add_at_loc _ _ _ _ _ _ H0 Hy0) as [[-> ->]|[ss1 [A B]]]; [reflexivity|exact (Hm _ _ _ A B)].
  Qed.

  Lemma split_inline_nonempty tc ploc : forall sub m m', split_inline prios urls tc ploc sub m = Ok m' ->
    (forall l ss, In (l, ss) m -> ss <> []) -> forall l ss, In (l, ss) m' -> ss <> [].
  Proof.
    induction sub as [|s r IH]; intros m m' H Hm; cbn [split_inline] in H; [injection H as <-; exact Hm|].
    destruct s as [a n args dirs sub'|t dirs sub'|nm dirs].
    - destruct (choose prios urls tc n ploc) as [lc|e|e]; cbn [bind] in H; try discriminate.
      apply (IH _ _ H). apply add_at_nonempty. exact Hm.
    - apply (IH _ _ H). apply add_at_nonempty. exact Hm.
    - apply (IH _ _ H). apply add_at_nonempty. exact Hm.
  Qed.

  (* a group entry: where it comes from and where the chooser put it *)
  Definition good_entry (ptype ploc : string) (sels : list sel) (l : string) (x : sel) : Prop :=
    der sels x /\ entry_ok ptype ploc l x.

  Lemma der_mono sels s x : der sels x -> der (s :: sels) x.
  Proof.
    intros [H|[t [dirs [sub [ss' [E [Hin Hi]]]]]]]; [left; right; exact H|].
    right. exists t, dirs, sub, ss'. split; [exact E|]. split; [right; exact Hin|exact Hi].
  Qed.

  Lemma fold_add_good ptype ploc (sels : list sel) (tcond : string) (dirs : list directive) (sub : list sel) :
    In (Inline tcond dirs sub) sels ->
    forall parts acc,
    (forall l ss, In (l, ss) parts -> ss <> [] /\ incl ss sub /\ forall y, In y ss -> part_ok (tc_of ptype tcond) ploc l y) ->
    (forall l ss x, In (l, ss) acc -> In x ss -> good_entry ptype ploc sels l x) ->
    forall l ss x, In (l, ss) (fold_left (fun acc lp => add_at (fst lp) (Inline tcond dirs (snd lp)) acc) parts acc) -> In x ss ->
    good_entry ptype ploc sels l x.
  Proof.
    intros Hsel. induction parts as [|[pl pss] r IH]; intros acc Hp Ha l ss x Hin Hx; cbn [fold_left] in Hin; [exact (Ha l ss x Hin Hx)|].
    apply (IH (add_at pl (Inline tcond dirs pss) acc)) with (l := l) (ss := ss); try assumption.
    - intros l0 ss0 H0. apply (Hp l0 ss0). right. exact H0.
    - intros l0 ss0 x0 H0 Hx0. cbn [fst snd] in H0. destruct (add_at_loc _ _ _ _ _ _ H0 Hx0) as [[-> ->]|[ss1 [A1 B1]]]; [|exact (Ha _ _ _ A1 B1)].
      destruct (Hp pl pss (or_introl eq_refl)) as (Hne & Hincl & Hpart). split.
      + right. exists tcond, dirs, sub, pss. auto.
      + cbn [entry_ok]. split; [exact Hne|]. intros y Hy. specialize (Hpart y Hy). unfold part_ok in Hpart. exact Hpart.
  Qed.

  Lemma group_good ptype ploc : forall sels acc g (all : list sel),
    group prios urls ptype ploc sels acc = Ok g ->
    (forall x, In x sels -> In x all) ->
    (forall l ss x, In (l, ss) acc -> In x ss -> good_entry ptype ploc all l x) ->
    forall l ss x, In (l, ss) g -> In x ss -> good_entry ptype ploc all l x.
  Proof.
    induction sels as [|s r IH]; intros acc g all H Hall Ha l ss x Hin Hx.
    - cbn [group] in H. injection H as <-. exact (Ha l ss x Hin Hx).
    - cbn [group] in H. destruct s as [a n args dirs sub|t dirs sub|nm dirs]; [| |discriminate].
      + destruct (choose prios urls ptype n ploc) as [lc|e|e] eqn:Ec; cbn [bind] in H; try discriminate.
        apply (IH _ _ all H) with (l := l) (ss := ss); try assumption; [intros y Hy; apply Hall; right; exact Hy|].
        intros l0 ss0 x0 H0 Hx0. destruct (add_at_loc _ _ _ _ _ _ H0 Hx0) as [[-> ->]|[ss1 [A1 B1]]]; [|exact (Ha _ _ _ A1 B1)].
        split; [left; apply Hall; left; reflexivity|exact Ec].
      + destruct (split_inline prios urls (if String.eqb t "" then ptype else t) ploc sub []) as [parts|e|e] eqn:Es; cbn [bind] in H; try discriminate.
        apply (IH _ _ all H) with (l := l) (ss := ss); try assumption; [intros y Hy; apply Hall; right; exact Hy|].
        apply (fold_add_good ptype ploc all t dirs sub); [apply Hall; left; reflexivity| |exact Ha].
        intros l0 ss0 H0. split; [apply (split_inline_nonempty _ _ _ _ _ Es (fun _ _ F => match F with end) l0 ss0 H0)|]. split.
        * intros y Hy. destruct (split_inline_elems _ _ _ _ _ Es l0 ss0 y H0 Hy) as [Hs|[ss1 [[] _]]]. exact Hs.
        * intros y Hy. apply (split_inline_parts _ _ _ _ _ Es (fun _ _ _ F => match F with end) l0 ss0 y H0 Hy).
  Qed.

  Lemma der_depth sels x : der sels x -> sdepth x <= ldepth sels.
  Proof.
    intros [H|[t [dirs [sub [ss' [-> [Hin Hi]]]]]]]; [apply ldepth_in; exact H|].
    rewrite sdepth_inline. apply ldepth_in in Hin. rewrite sdepth_inline in Hin.
    assert (ldepth ss' <= ldepth sub) by (apply ldepth_bound; intros y Hy; apply ldepth_in; apply Hi; exact Hy). lia.
  Qed.

  Lemma der_settled l ptype sels x : settled l ptype sels -> der sels x -> settled_sel l ptype x.
  Proof.
    intros Hs [H|[t [dirs [sub [ss' [-> [Hin Hi]]]]]]].
    - unfold settled in Hs. rewrite Forall_forall in Hs. apply Hs. exact H.
    - unfold settled in Hs. rewrite Forall_forall in Hs. specialize (Hs _ Hin). apply settled_inline in Hs. apply settled_inline.
      unfold settled in *. rewrite Forall_forall in *. intros y Hy. apply Hs. apply Hi. exact Hy.
  Qed.

  (* what goes to another location is settled there: the chooser is idempotent *)
  Lemma entry_settled ptype ploc l x : l <> ploc -> entry_ok ptype ploc l x -> settled_sel l ptype x.
  Proof.
    intros Hl He. destruct x as [a n args dirs sub|t dirs ss'|nm dirs]; [| |destruct He].
    - cbn [entry_ok] in He. cbn [settled_sel]. intros l' Hc. rewrite (choose_idempotent _ _ _ _ He) in Hc. congruence.
    - destruct He as [_ He]. apply settled_inline. unfold settled. apply Forall_forall. intros y Hy. specialize (He y Hy).
      destruct y as [a n args dirs' sub|t' dirs' sub|nm dirs']; [|contradiction|contradiction].
      cbn [settled_sel]. intros l' Hc. rewrite (choose_idempotent _ _ _ _ He) in Hc. congruence.
  Qed.

  (* in a settled selection nothing goes elsewhere *)
  Lemma settled_entry_here ptype ploc sels l x : settled ploc ptype sels -> good_entry ptype ploc sels l x -> l = ploc.
  Proof.
    intros Hs [Hd He]. pose proof (der_settled _ _ _ _ Hs Hd) as Hx.
    destruct x as [a n args dirs sub|t dirs ss'|nm dirs]; [| |destruct He].
    - cbn [entry_ok] in He. cbn [settled_sel] in Hx. exact (Hx l He).
    - destruct He as [Hne He]. apply settled_inline in Hx. unfold settled in Hx. rewrite Forall_forall in Hx.
      destruct ss' as [|y r]; [contradiction Hne; reflexivity|]. specialize (He y (or_introl eq_refl)). specialize (Hx y (or_introl eq_refl)).
      destruct y as [a n args dirs' sub|t' dirs' sub|nm dirs']; [|exact He|exact He].
      cbn [settled_sel] in Hx. exact (Hx l He).
  Qed.

  (* ---- the payloads for the other locations ---- *)
  Lemma queue_others_spec ptype ploc ip w : forall gs pls, queue_others ptype ploc ip w gs = Ok pls ->
    forall q, In q pls -> exists l ss, In (l, ss) gs /\ l <> ploc /\ pl_loc q = l /\ pl_ptype q = ptype /\ pl_wrapper q = w /\
                                   (match w with [] => Ok ss | _ => wrap w ss end) = Ok (pl_sels q).
  Proof.
    induction gs as [|[l ss] r IH]; intros pls H q Hq; cbn [queue_others] in H; [injection H as <-; destruct Hq|].
    destruct (queue_others ptype ploc ip w r) as [rest|e|e]; cbn [bind] in H; try discriminate.
    destruct (String.eqb l ploc) eqn:El.
    - injection H as <-. destruct (IH rest eq_refl q Hq) as [l0 [ss0 [A B]]]. exists l0, ss0. split; [right; exact A|exact B].
    - apply String.eqb_neq in El.
      destruct (match w with [] => Ok ss | _ :: _ => wrap w ss end) as [wrapped|e|e] eqn:Ew; cbn [bind] in H; try discriminate.
      injection H as <-. destruct Hq as [<-|Hq].
      + exists l, ss. cbn [pl_loc pl_ptype pl_wrapper pl_sels]. repeat split; auto. left. reflexivity.
      + destruct (IH rest eq_refl q Hq) as [l0 [ss0 [A B]]]. exists l0, ss0. split; [right; exact A|exact B].
  Qed.

  Lemma queue_others_none ptype ploc ip w : forall gs, (forall l ss, In (l, ss) gs -> l = ploc) ->
    queue_others ptype ploc ip w gs = Ok [].
  Proof.
    induction gs as [|[l ss] r IH]; intros H; cbn [queue_others]; [reflexivity|].
    rewrite IH by (intros l0 ss0 H0; apply (H l0 ss0); right; exact H0). cbn [bind].
    rewrite (H l ss (or_introl eq_refl)), String.eqb_refl. reflexivity.
  Qed.

  (* ---- wrapping ---- *)
  Definition chain (T : string) (w : list sel) : string :=
    fold_left (fun t x => match x with Inline tc _ _ => tc_of t tc | _ => t end) w T.

  Lemma wrap_facts l : forall w ss T r, wrap w ss = Ok r ->
    ldepth r <= length w + ldepth ss /\ (settled l (chain T w) ss -> settled l T r).
  Proof.
    induction w as [|x w' IH]; intros ss T r H; cbn [wrap] in H.
    - injection H as <-. cbn [length chain fold_left]. split; [lia|auto].
    - destruct x as [a n args dirs sub|t dirs sub|nm dirs]; try discriminate.
      destruct (wrap w' ss) as [inner|e|e] eqn:Ei; cbn [bind] in H; try discriminate. injection H as <-.
      destruct (IH ss (tc_of T t) inner Ei) as [Hd Hs]. split.
      + cbn [ldepth length]. rewrite sdepth_inline. lia.
      + intros Hc. constructor; [|constructor]. apply settled_inline. apply Hs. exact Hc.
  Qed.

  Lemma chain_snoc T w t dirs sub : chain T (w ++ [Inline t dirs sub]) = tc_of (chain T w) t.
  Proof. unfold chain. rewrite fold_left_app. reflexivity. Qed.

  (* ---- what the kept selections queue ---- *)
  Lemma keep_payloads below ptype ip w : forall cur k pls, keep_with ft below ptype ip w cur = Ok (k, pls) ->
    forall q, In q pls -> exists s, In s cur /\
      match s with
      | Field a n _ _ sub => sub <> [] /\ exists t b, below t (ip ++ [a]) [] sub = Ok b /\ In q (snd b)
      | Inline t dirs sub => exists b, below (tc_of ptype t) ip (w ++ [Inline t dirs sub]) sub = Ok b /\ In q (snd b)
      | Spread _ _ => False
      end.
  Proof.
    induction cur as [|s r IH]; intros k pls H q Hq; cbn [keep_with] in H; [injection H as <- <-; destruct Hq|].
    fold (keep_with ft below ptype ip w) in H.
    match type of H with (bind ?X _ = _) => destruct X as [here|e|e] eqn:Eh; cbn [bind] in H; try discriminate end.
    destruct (keep_with ft below ptype ip w r) as [[k' pls']|e|e] eqn:Er; cbn [bind] in H; try discriminate.
    injection H as <- <-. cbn [fst snd] in Hq. apply in_app_or in Hq. destruct Hq as [Hq|Hq].
    - exists s. split; [left; reflexivity|].
      destruct s as [a n args dirs sub|t dirs sub|nm dirs]; [| |discriminate].
      + destruct sub as [|s0 sr]; [injection Eh as <-; destruct Hq|].
        destruct (assoc (url_key ptype n) ft) as [t0|]; [|discriminate].
        destruct (below t0 (ip ++ [a]) [] (s0 :: sr)) as [b|e|e] eqn:Eb; cbn [bind] in Eh; try discriminate.
        injection Eh as <-. cbn [snd] in Hq. split; [discriminate|]. exists t0, b. auto.
      + destruct (below (if String.eqb t "" then ptype else t) ip (w ++ [Inline t dirs sub]) sub) as [b|e|e] eqn:Eb; cbn [bind] in Eh; try discriminate.
        injection Eh as <-. cbn [snd] in Hq. exists b. auto.
    - destruct (IH _ _ eq_refl q Hq) as [s' [A B]]. exists s'. split; [right; exact A|exact B].
  Qed.

  Lemma wrap_match w ss : (match w with [] => Ok ss | _ => wrap w ss end) = wrap w ss.
  Proof. destruct w; reflexivity. Qed.

  Lemma fold_add_nonempty (tcond : string) (dirs : list directive) : forall parts acc,
    (forall l ss, In (l, ss) acc -> ss <> []) ->
    forall l ss, In (l, ss) (fold_left (fun acc lp => add_at (fst lp) (Inline tcond dirs (snd lp)) acc) parts acc) -> ss <> [].
  Proof.
    induction parts as [|[pl pss] r IH]; intros acc Ha; cbn [fold_left]; [exact Ha|]. apply IH. apply add_at_nonempty. exact Ha.
  Qed.

  Lemma group_nonempty ptype ploc : forall sels acc g, group prios urls ptype ploc sels acc = Ok g ->
    (forall l ss, In (l, ss) acc -> ss <> []) -> forall l ss, In (l, ss) g -> ss <> [].
  Proof.
    induction sels as [|s r IH]; intros acc g H Ha; cbn [group] in H; [injection H as <-; exact Ha|].
    destruct s as [a n args dirs sub|t dirs sub|nm dirs]; [| |discriminate].
    - destruct (choose prios urls ptype n ploc) as [lc|e|e]; cbn [bind] in H; try discriminate.
      apply (IH _ _ H). apply add_at_nonempty. exact Ha.
    - destruct (split_inline prios urls (if String.eqb t "" then ptype else t) ploc sub []) as [parts|e|e]; cbn [bind] in H; try discriminate.
      apply (IH _ _ H). apply fold_add_nonempty. exact Ha.
  Qed.

  (* the selections that stay at this level: the group of this location, and the join id *)
  Lemma current_elems ptype ploc sels groups (others : list payload) s :
    group prios urls ptype ploc sels [] = Ok groups ->
    In s (match others with [] => match get_at ploc groups with Some ss => ss | None => [] end
          | _ :: _ => (match get_at ploc groups with Some ss => ss | None => [] end) ++ [id_field] end) ->
    s = id_field \/ good_entry ptype ploc sels ploc s.
  Proof.
    intros Eg Hs.
    assert (Hcur : forall x, In x (match get_at ploc groups with Some ss => ss | None => [] end) -> good_entry ptype ploc sels ploc x).
    { intros x Hx. destruct (get_at ploc groups) as [ss|] eqn:Ega; [|destruct Hx].
      apply (group_good ptype ploc sels [] groups sels Eg (fun y Hy => Hy) (fun _ _ _ F => match F with end) ploc ss x); [apply get_at_in; exact Ega|exact Hx]. }
    destruct others as [|o orest]; [right; apply Hcur; exact Hs|].
    apply in_app_or in Hs. destruct Hs as [Hs|[<-|[]]]; [right; apply Hcur; exact Hs|left; reflexivity].
  Qed.

  (* what extractSelection queues, at any level: settled where it goes, and no deeper than what it was cut from *)
  Lemma extract_payloads : forall fuel ptype ploc ip w sels kept pls,
    extract prios urls ft fuel ptype ploc ip w sels = Ok (kept, pls) -> chain ptype w = ptype ->
    forall q, In q pls -> settled (pl_loc q) (pl_ptype q) (pl_sels q) /\ ldepth (pl_sels q) <= length w + ldepth sels.
  Proof.
    induction fuel as [|f IH]; intros ptype ploc ip w sels kept pls H Hc q Hq; [discriminate|]. cbn [extract] in H.
    destruct (group prios urls ptype ploc sels []) as [groups|e|e] eqn:Eg; cbn [bind] in H; try discriminate.
    destruct (queue_others ptype ploc ip w groups) as [others|e|e] eqn:Eo; cbn [bind] in H; try discriminate.
    match type of H with (bind ?X _ = _) => destruct X as [[k kp]|e|e] eqn:Ek; cbn [bind] in H; try discriminate end.
    injection H as <- <-. cbn [fst snd] in Hq. apply in_app_or in Hq. destruct Hq as [Hq|Hq].
    - destruct (queue_others_spec _ _ _ _ _ _ Eo q Hq) as (l & ss & Hin & Hl & E1 & E2 & E3 & Ew). rewrite wrap_match in Ew.
      assert (Hgood : forall x, In x ss -> good_entry ptype ploc sels l x).
      { intros x Hx. apply (group_good ptype ploc sels [] groups sels Eg (fun y Hy => Hy) (fun _ _ _ F => match F with end) l ss x Hin Hx). }
      destruct (wrap_facts l w ss ptype (pl_sels q) Ew) as [Hd Hs]. rewrite E1, E2. split.
      + apply Hs. rewrite Hc. unfold settled. apply Forall_forall. intros x Hx. apply (entry_settled ptype ploc l x Hl). apply Hgood. exact Hx.
      + assert (ldepth ss <= ldepth sels) by (apply ldepth_bound; intros x Hx; apply der_depth; apply Hgood; exact Hx). lia.
    - destruct (keep_payloads _ _ _ _ _ _ _ Ek q Hq) as [s [Hs Hcase]].
      destruct (current_elems _ _ _ _ _ _ Eg Hs) as [->|[Hder _]]; [destruct Hcase as [Hne _]; contradiction Hne; reflexivity|].
      pose proof (der_depth _ _ Hder) as Hds.
      destruct s as [a n args dirs sub|t dirs sub|nm dirs]; [| |destruct Hcase].
      + destruct Hcase as [_ [t0 [[bk bp] [Eb Hqb]]]]. rewrite sdepth_field in Hds.
        destruct (IH _ _ _ _ _ _ _ Eb eq_refl q Hqb) as [A B]. split; [exact A|]. cbn [length] in B. lia.
      + destruct Hcase as [[bk bp] [Eb Hqb]]. rewrite sdepth_inline in Hds.
        assert (Hc' : chain (tc_of ptype t) (w ++ [Inline t dirs sub]) = tc_of ptype t).
        { rewrite chain_snoc. unfold tc_of. destruct (String.eqb t "") eqn:Et; [exact Hc|reflexivity]. }
        destruct (IH _ _ _ _ _ _ _ Eb Hc' q Hqb) as [A B]. split; [exact A|]. rewrite app_length in B. cbn [length] in B. lia.
  Qed.

  (* ... and from a settled selection, strictly less deep: a field has to be crossed first *)
  Lemma extract_payloads_settled : forall fuel ptype ploc ip w sels kept pls,
    extract prios urls ft fuel ptype ploc ip w sels = Ok (kept, pls) -> settled ploc ptype sels ->
    forall q, In q pls -> settled (pl_loc q) (pl_ptype q) (pl_sels q) /\ ldepth (pl_sels q) < ldepth sels.
  Proof.
    induction fuel as [|f IH]; intros ptype ploc ip w sels kept pls H Hset q Hq; [discriminate|]. cbn [extract] in H.
    destruct (group prios urls ptype ploc sels []) as [groups|e|e] eqn:Eg; cbn [bind] in H; try discriminate.
    assert (Hhere : forall l ss, In (l, ss) groups -> l = ploc).
    { intros l ss Hin. pose proof (group_nonempty _ _ _ _ _ Eg (fun _ _ F => match F with end) l ss Hin) as Hne.
      destruct ss as [|x r]; [contradiction Hne; reflexivity|].
      apply (settled_entry_here ptype ploc sels l x Hset).
      apply (group_good ptype ploc sels [] groups sels Eg (fun y Hy => Hy) (fun _ _ _ F => match F with end) l (x :: r) x Hin). left. reflexivity. }
    rewrite (queue_others_none ptype ploc ip w groups Hhere) in H. cbn [bind] in H.
    match type of H with (bind ?X _ = _) => destruct X as [[k kp]|e|e] eqn:Ek; cbn [bind] in H; try discriminate end.
    injection H as <- <-. cbn [fst snd app] in Hq.
    destruct (keep_payloads _ _ _ _ _ _ _ Ek q Hq) as [s [Hs Hcase]].
    assert (Hgood : good_entry ptype ploc sels ploc s).
    { destruct (get_at ploc groups) as [ss|] eqn:Ega; [|destruct Hs].
      apply (group_good ptype ploc sels [] groups sels Eg (fun y Hy => Hy) (fun _ _ _ F => match F with end) ploc ss s); [apply get_at_in; exact Ega|exact Hs]. }
    destruct Hgood as [Hder _]. pose proof (der_depth _ _ Hder) as Hds. pose proof (der_settled _ _ _ _ Hset Hder) as Hss.
    destruct s as [a n args dirs sub|t dirs sub|nm dirs]; [| |destruct Hcase].
    - destruct Hcase as [_ [t0 [[bk bp] [Eb Hqb]]]]. rewrite sdepth_field in Hds.
      destruct (extract_payloads _ _ _ _ _ _ _ _ Eb eq_refl q Hqb) as [A B]. split; [exact A|]. cbn [length] in B. lia.
    - destruct Hcase as [[bk bp] [Eb Hqb]]. rewrite sdepth_inline in Hds. apply settled_inline in Hss.
      destruct (IH _ _ _ _ _ _ _ Eb Hss q Hqb) as [A B]. split; [exact A|lia].
  Qed.

  (* ---- the loop over the queued steps ---- *)
  Lemma map_res_no_fuel {A B} (f : A -> res B) : forall l, (forall x, In x l -> fuel_err (f x) = false) -> fuel_err (map_res f l) = false.
  Proof.
    induction l as [|x r IH]; intros H; cbn [map_res]; [reflexivity|]. rewrite fuel_err_bind.
    pose proof (H x (or_introl eq_refl)) as Hx. destruct (f x); [|exact Hx|reflexivity].
    rewrite fuel_err_bind. specialize (IH (fun y Hy => H y (or_intror Hy))). fold (map_res f) in *.
    destruct (map_res f r); [reflexivity|exact IH|reflexivity].
  Qed.

  Lemma build_settled_total : forall fuel p,
    settled (pl_loc p) (pl_ptype p) (pl_sels p) -> ldepth (pl_sels p) < fuel -> fuel_err (build prios urls ft fuel p) = false.
  Proof.
    induction fuel as [|f IH]; intros p Hs Hd; [lia|]. cbn [build]. rewrite fuel_err_bind.
    pose proof (extract_total (S f) (pl_ptype p) (pl_loc p) (pl_ipoint p) (pl_wrapper p) (pl_sels p) Hd) as He.
    destruct (extract prios urls ft (S f) (pl_ptype p) (pl_loc p) (pl_ipoint p) (pl_wrapper p) (pl_sels p)) as [[k pls]|e|e] eqn:Ee; [|exact He|reflexivity].
    rewrite fuel_err_bind. cbn [snd].
    assert (Hm : fuel_err (map_res (build prios urls ft f) pls) = false).
    { apply map_res_no_fuel. intros q Hq. destruct (extract_payloads_settled _ _ _ _ _ _ _ _ Ee Hs q Hq) as [A B]. apply IH; [exact A|lia]. }
    destruct (map_res (build prios urls ft f) pls); [reflexivity|exact Hm|reflexivity].
  Qed.

  (* planning an operation never runs out of fuel when it has two more than the document is deep:
     the steps below the root step are settled (the chooser is idempotent), and each step queued by a
     settled step is cut from strictly deeper in the document *)
  Theorem plan_operation_total fuel root sels :
    ldepth sels + 1 < fuel -> fuel_err (plan_operation prios urls ft fuel root sels) = false.
  Proof.
    intros Hd. unfold plan_operation. destruct fuel as [|f]; [lia|]. cbn [build pl_ptype pl_loc pl_ipoint pl_wrapper pl_sels].
    rewrite fuel_err_bind.
    pose proof (extract_total (S f) root "" [] [] sels) as He.
    destruct (extract prios urls ft (S f) root "" [] [] sels) as [[k pls]|e|e] eqn:Ee; [|apply He; lia|reflexivity].
    rewrite fuel_err_bind. cbn [snd].
    assert (Hm : fuel_err (map_res (build prios urls ft f) pls) = false).
    { apply map_res_no_fuel. intros q Hq. destruct (extract_payloads _ _ _ _ _ _ _ _ Ee eq_refl q Hq) as [A B]. cbn [length] in B.
      apply build_settled_total; [exact A|lia]. }
    destruct (map_res (build prios urls ft f) pls); [reflexivity|exact Hm|reflexivity].
  Qed.

  (* no needless hop, in the planner: the selection a queued step is given stays at that step's
     location when the step is built -- its grouping has no group for another location *)
  Lemma settled_groups_here ptype ploc sels groups :
    settled ploc ptype sels -> group prios urls ptype ploc sels [] = Ok groups -> forall l ss, In (l, ss) groups -> l = ploc.
  Proof.
    intros Hset Eg l ss Hin. pose proof (group_nonempty _ _ _ _ _ Eg (fun _ _ F => match F with end) l ss Hin) as Hne.
    destruct ss as [|x r]; [contradiction Hne; reflexivity|].
    apply (settled_entry_here ptype ploc sels l x Hset).
    apply (group_good ptype ploc sels [] groups sels Eg (fun y Hy => Hy) (fun _ _ _ F => match F with end) l (x :: r) x Hin). left. reflexivity.
  Qed.

  Theorem queued_step_keeps_its_selection fuel ptype ploc ip w sels kept pls q groups :
    extract prios urls ft fuel ptype ploc ip w sels = Ok (kept, pls) -> chain ptype w = ptype -> In q pls ->
    group prios urls (pl_ptype q) (pl_loc q) (pl_sels q) [] = Ok groups ->
    forall l ss, In (l, ss) groups -> l = pl_loc q.
  Proof.
    intros He Hc Hq Hg. destruct (extract_payloads _ _ _ _ _ _ _ _ He Hc q Hq) as [Hs _].
    exact (settled_groups_here _ _ _ _ Hs Hg).
  Qed.

  (* ---------- where the join id is injected ---------- *)
  (* the synthesised field has no alias; every field the client wrote has one (gqlparser sets it to
     the name) *)
  Fixpoint has_id (s : sel) : bool :=
    match s with
    | Field a n _ _ _ => String.eqb a "" && String.eqb n "id"
    | Inline _ _ sub => (fix go (l : list sel) := match l with [] => false | x :: r => has_id x || go r end) sub
    | Spread _ _ => false
    end.
  Definition lhas_id (l : list sel) : bool := existsb has_id l.

  Lemma has_id_inline t dirs sub : has_id (Inline t dirs sub) = lhas_id sub.
  Proof. reflexivity. Qed.

  Fixpoint named (s : sel) : Prop :=
    match s with
    | Field a _ _ _ sub => a <> "" /\ (fix go (l : list sel) : Prop := match l with [] => True | x :: r => named x /\ go r end) sub
    | Inline _ _ sub => (fix go (l : list sel) : Prop := match l with [] => True | x :: r => named x /\ go r end) sub
    | Spread _ _ => True
    end.
  Definition lnamed (l : list sel) : Prop := Forall named l.

  Lemma named_field a n args dirs sub : named (Field a n args dirs sub) <-> a <> "" /\ lnamed sub.
  Proof.
    cbn [named]. unfold lnamed. split; intros [A B]; (split; [exact A|]).
    - induction sub as [|x r IH]; [constructor|]. destruct B as [B1 B2]. constructor; [exact B1|apply IH; exact B2].
    - induction sub as [|x r IH]; [exact I|]. inversion B; subst. split; [assumption|apply IH; assumption].
  Qed.
  Lemma named_inline t dirs sub : named (Inline t dirs sub) <-> lnamed sub.
  Proof.
    cbn [named]. unfold lnamed. split; intros B.
    - induction sub as [|x r IH]; [constructor|]. destruct B as [B1 B2]. constructor; [exact B1|apply IH; exact B2].
    - induction sub as [|x r IH]; [exact I|]. inversion B; subst. split; [assumption|apply IH; assumption].
  Qed.

  Lemma der_named sels x : lnamed sels -> der sels x -> named x.
  Proof.
    unfold lnamed. intros Hn [H|[t [dirs [sub [ss' [-> [Hin Hi]]]]]]].
    - rewrite Forall_forall in Hn. apply Hn. exact H.
    - rewrite Forall_forall in Hn. specialize (Hn _ Hin). apply named_inline in Hn. apply named_inline.
      unfold lnamed in *. rewrite Forall_forall in *. intros y Hy. apply Hn. apply Hi. exact Hy.
  Qed.

  (* every queued step's insertion point extends the one it was queued under *)
  Lemma extract_ipoints : forall fuel ptype ploc ip w sels kept pls,
    extract prios urls ft fuel ptype ploc ip w sels = Ok (kept, pls) ->
    forall q, In q pls -> exists rest, pl_ipoint q = ip ++ rest.
  Proof.
    induction fuel as [|f IH]; intros ptype ploc ip w sels kept pls H q Hq; [discriminate|]. cbn [extract] in H.
    destruct (group prios urls ptype ploc sels []) as [groups|e|e] eqn:Eg; cbn [bind] in H; try discriminate.
    destruct (queue_others ptype ploc ip w groups) as [others|e|e] eqn:Eo; cbn [bind] in H; try discriminate.
    match type of H with (bind ?X _ = _) => destruct X as [[k kp]|e|e] eqn:Ek; cbn [bind] in H; try discriminate end.
    injection H as <- <-. cbn [fst snd] in Hq. apply in_app_or in Hq. destruct Hq as [Hq|Hq].
    - exists []. rewrite app_nil_r. clear - Eo Hq. revert others Eo q Hq. induction groups as [|[l ss] r IHg]; intros others Eo q Hq; cbn [queue_others] in Eo.
      + injection Eo as <-. destruct Hq.
      + destruct (queue_others ptype ploc ip w r) as [rest|e|e]; cbn [bind] in Eo; try discriminate.
        destruct (String.eqb l ploc); [injection Eo as <-; exact (IHg rest eq_refl q Hq)|].
        destruct (match w with [] => Ok ss | _ :: _ => wrap w ss end) as [wr|e|e]; cbn [bind] in Eo; try discriminate.
        injection Eo as <-. destruct Hq as [<-|Hq]; [reflexivity|exact (IHg rest eq_refl q Hq)].
    - destruct (keep_payloads _ _ _ _ _ _ _ Ek q Hq) as [s [Hs Hcase]].
      destruct s as [a n args dirs sub|t dirs sub|nm dirs]; [| |destruct Hcase].
      + destruct Hcase as [_ [t0 [[bk bp] [Eb Hqb]]]]. destruct (IH _ _ _ _ _ _ _ Eb q Hqb) as [rest Hr].
        exists ([a] ++ rest). rewrite Hr, app_assoc. reflexivity.
      + destruct Hcase as [[bk bp] [Eb Hqb]]. exact (IH _ _ _ _ _ _ _ Eb q Hqb).
  Qed.

  (* what the kept selections look like, and that every payload of a level below is passed up *)
  Lemma keep_id below ptype ip w : forall cur k pls, keep_with ft below ptype ip w cur = Ok (k, pls) ->
    (forall s, In s cur -> named s \/ s = id_field) ->
    (lhas_id k = true <->
       In id_field cur \/ exists t dirs sub b, In (Inline t dirs sub) cur /\
                              below (tc_of ptype t) ip (w ++ [Inline t dirs sub]) sub = Ok b /\ lhas_id (fst b) = true) /\
    (forall t dirs sub b, In (Inline t dirs sub) cur -> below (tc_of ptype t) ip (w ++ [Inline t dirs sub]) sub = Ok b -> incl (snd b) pls).
  Proof.
    induction cur as [|s r IH]; intros k pls H Hn; cbn [keep_with] in H.
    - injection H as <- <-. split; [split; [discriminate|intros [[]|[t [d [sb [b [[] _]]]]]]]|intros ? ? ? ? []].
    - fold (keep_with ft below ptype ip w) in H.
      match type of H with (bind ?X _ = _) => destruct X as [here|e|e] eqn:Eh; cbn [bind] in H; try discriminate end.
      destruct (keep_with ft below ptype ip w r) as [[k' pls']|e|e] eqn:Er; cbn [bind] in H; try discriminate.
      injection H as <- <-. destruct (IH _ _ eq_refl (fun s' Hs' => Hn s' (or_intror Hs'))) as [IHa IHb]. clear IH.
      unfold lhas_id in *. cbn [existsb fst snd].
      destruct s as [a n args dirs sub|t dirs sub|nm dirs]; [| |discriminate].
      + (* a field: the synthesised id, or one the client wrote *)
        assert (Hhere : has_id (fst here) = true <-> Field a n args dirs sub = id_field).
        { destruct (Hn _ (or_introl eq_refl)) as [Hnm|Hid].
          - apply named_field in Hnm. destruct Hnm as [Ha _].
            assert (Hf : has_id (fst here) = false).
            { destruct sub as [|s0 sr]; [injection Eh as <-; cbn [fst has_id]; destruct (String.eqb a "") eqn:E; [apply String.eqb_eq in E; contradiction|reflexivity]|].
              destruct (assoc (url_key ptype n) ft) as [t0|]; [|discriminate].
              destruct (below t0 (ip ++ [a]) [] (s0 :: sr)) as [b|e|e]; cbn [bind] in Eh; try discriminate. injection Eh as <-. cbn [fst has_id].
              destruct (String.eqb a "") eqn:E; [apply String.eqb_eq in E; contradiction|reflexivity]. }
            rewrite Hf. split; [discriminate|]. intros E. injection E as -> _. contradiction Ha. reflexivity.
          - unfold id_field in Hid. injection Hid as -> -> -> -> ->. injection Eh as <-. cbn. split; reflexivity. }
        split.
        * rewrite orb_true_iff, Hhere, IHa. split.
          -- intros [E|[Hi|[t [d [sb [b [Hin R]]]]]]]; [left; left; exact E|left; right; exact Hi|right; exists t, d, sb, b; split; [right; exact Hin|exact R]].
          -- intros [[E|Hi]|[t [d [sb [b [[E|Hin] R]]]]]]; [left; exact E|right; left; exact Hi|discriminate E|right; right; exists t, d, sb, b; split; [exact Hin|exact R]].
        * intros t d sb b [E|Hin] Hb; [discriminate E|]. intros q Hq. apply in_or_app. right. exact (IHb t d sb b Hin Hb q Hq).
      + (* an inline fragment *)
        destruct (below (if String.eqb t "" then ptype else t) ip (w ++ [Inline t dirs sub]) sub) as [b0|e|e] eqn:Eb; cbn [bind] in Eh; try discriminate.
        injection Eh as <-. cbn [fst snd]. rewrite has_id_inline. unfold lhas_id. split.
        * rewrite orb_true_iff, IHa. split.
          -- intros [Hb|[Hi|[t' [d [sb [b [Hin R]]]]]]].
             ++ right. exists t, dirs, sub, b0. split; [left; reflexivity|]. split; [exact Eb|exact Hb].
             ++ left. right. exact Hi.
             ++ right. exists t', d, sb, b. split; [right; exact Hin|exact R].
          -- intros [[E|Hi]|[t' [d [sb [b [[E|Hin] [Hb R]]]]]]].
             ++ discriminate E.
             ++ right. left. exact Hi.
             ++ injection E as <- <- <-. left. unfold tc_of in Hb. rewrite Eb in Hb. injection Hb as <-. exact R.
             ++ right. right. exists t', d, sb, b. auto.
        * intros t' d sb b [E|Hin] Hb q Hq.
          -- injection E as <- <- <-. unfold tc_of in Hb. rewrite Eb in Hb. injection Hb as <-. apply in_or_app. left. exact Hq.
          -- apply in_or_app. right. exact (IHb t' d sb b Hin Hb q Hq).
  Qed.

  Lemma queue_others_ipoint ptype ploc ip w : forall gs others, queue_others ptype ploc ip w gs = Ok others ->
    forall q, In q others -> pl_ipoint q = ip.
  Proof.
    induction gs as [|[l ss] r IHg]; intros others Eo q Hq; cbn [queue_others] in Eo; [injection Eo as <-; destruct Hq|].
    destruct (queue_others ptype ploc ip w r) as [rest|e|e]; cbn [bind] in Eo; try discriminate.
    destruct (String.eqb l ploc); [injection Eo as <-; exact (IHg rest eq_refl q Hq)|].
    destruct (match w with [] => Ok ss | _ :: _ => wrap w ss end) as [wr|e|e]; cbn [bind] in Eo; try discriminate.
    injection Eo as <-. destruct Hq as [<-|Hq]; [reflexivity|exact (IHg rest eq_refl q Hq)].
  Qed.

  (* The join id is added to a step's selection at an insertion point exactly when a step is queued
     for that point: no id without a step that needs it, no step without the id it joins on. *)
  Theorem id_injected_iff_step_queued : forall fuel ptype ploc ip w sels kept pls,
    extract prios urls ft fuel ptype ploc ip w sels = Ok (kept, pls) -> lnamed sels ->
    (lhas_id kept = true <-> exists q, In q pls /\ pl_ipoint q = ip).
  Proof.
    induction fuel as [|f IH]; intros ptype ploc ip w sels kept pls H Hn; [discriminate|]. cbn [extract] in H.
    destruct (group prios urls ptype ploc sels []) as [groups|e|e] eqn:Eg; cbn [bind] in H; try discriminate.
    destruct (queue_others ptype ploc ip w groups) as [others|e|e] eqn:Eo; cbn [bind] in H; try discriminate.
    match type of H with (bind ?X _ = _) => destruct X as [[k kp]|e|e] eqn:Ek; cbn [bind] in H; try discriminate end.
    injection H as <- <-. cbn [fst snd].
    set (cur := match others with [] => match get_at ploc groups with Some ss => ss | None => [] end
                | _ :: _ => (match get_at ploc groups with Some ss => ss | None => [] end) ++ [id_field] end) in *.
    assert (Hcur : forall s, In s cur -> named s \/ s = id_field).
    { intros s Hs. destruct (current_elems _ _ _ _ _ _ Eg Hs) as [->|[Hd _]]; [right; reflexivity|left; exact (der_named _ _ Hn Hd)]. }
    destruct (keep_id _ _ _ _ _ _ _ Ek Hcur) as [Hid Hup].
    assert (Hidcur : In id_field cur <-> others <> []).
    { unfold cur. destruct others as [|o r].
      - split; [|intros F; contradiction F; reflexivity]. intros Hin. exfalso.
        destruct (get_at ploc groups) as [ss|] eqn:Ega; [|destruct Hin].
        assert (Hg : good_entry ptype ploc sels ploc id_field).
        { apply (group_good ptype ploc sels [] groups sels Eg (fun y Hy => Hy) (fun _ _ _ F => match F with end) ploc ss id_field); [apply get_at_in; exact Ega|exact Hin]. }
        destruct Hg as [Hd _]. pose proof (der_named _ _ Hn Hd) as Hnm. apply named_field in Hnm. destruct Hnm as [Ha _]. apply Ha. reflexivity.
      - split; [discriminate|]. intros _. apply in_or_app. right. left. reflexivity. }
    split.
    - intros Hk. apply Hid in Hk. destruct Hk as [Hin|[t [dirs [sub [[bk bp] [Hin [Eb Hb]]]]]]].
      + apply Hidcur in Hin. destruct others as [|o r]; [contradiction Hin; reflexivity|].
        exists o. split; [left; reflexivity|]. apply (queue_others_ipoint _ _ _ _ _ _ Eo o). left. reflexivity.
      + assert (Hns : lnamed sub).
        { destruct (Hcur _ Hin) as [Hnm|E]; [apply named_inline in Hnm; exact Hnm|discriminate E]. }
        destruct (proj1 (IH _ _ _ _ _ _ _ Eb Hns) Hb) as [q [Hq Hip]]. exists q. split; [|exact Hip].
        apply in_or_app. right. apply (Hup t dirs sub (bk, bp) Hin Eb). exact Hq.
    - intros [q [Hq Hip]]. apply Hid. apply in_app_or in Hq. destruct Hq as [Hq|Hq].
      + left. apply Hidcur. intros E. rewrite E in Hq. destruct Hq.
      + destruct (keep_payloads _ _ _ _ _ _ _ Ek q Hq) as [s [Hs Hcase]].
        destruct s as [a n args dirs sub|t dirs sub|nm dirs]; [| |destruct Hcase].
        * exfalso. destruct Hcase as [_ [t0 [[bk bp] [Eb Hqb]]]]. destruct (extract_ipoints _ _ _ _ _ _ _ _ Eb q Hqb) as [rest Hr].
          rewrite Hip in Hr. apply (f_equal (@length string)) in Hr. rewrite !app_length in Hr. cbn [length] in Hr. lia.
        * destruct Hcase as [[bk bp] [Eb Hqb]]. right. exists t, dirs, sub, (bk, bp). split; [exact Hs|]. split; [exact Eb|].
          assert (Hns : lnamed sub).
          { destruct (Hcur _ Hs) as [Hnm|E]; [apply named_inline in Hnm; exact Hnm|discriminate E]. }
          apply (proj2 (IH _ _ _ _ _ _ _ Eb Hns)). exists q. split; [exact Hqb|exact Hip].
  Qed.

  (* ---------- ... at every depth of the selection a step sends ---------- *)
  Fixpoint subs_of (a : string) (s : sel) : list (list sel) :=
    match s with
    | Field al _ _ _ sub => if String.eqb al a then [sub] else []
    | Inline _ _ sub => (fix go (l : list sel) := match l with [] => [] | x :: r => subs_of a x ++ go r end) sub
    | Spread _ _ => []
    end.
  Definition lsubs (a : string) (l : list sel) : list (list sel) := flat_map (subs_of a) l.

  Lemma subs_inline a t dirs sub : subs_of a (Inline t dirs sub) = lsubs a sub.
  Proof. cbn [subs_of]. unfold lsubs. induction sub as [|x r IH]; cbn [flat_map]; [reflexivity|rewrite IH; reflexivity]. Qed.

  (* is the synthesised id selected at the end of this path of response keys? *)
  Fixpoint id_at (rest : list string) (l : list sel) : bool :=
    match rest with
    | [] => lhas_id l
    | a :: r => existsb (id_at r) (lsubs a l)
    end.

  Lemma id_at_nil_sel rest : id_at rest [] = false.
  Proof. destruct rest; reflexivity. Qed.

  Lemma keep_subs below ptype ip w a : forall cur k pls, keep_with ft below ptype ip w cur = Ok (k, pls) ->
    forall sub', In sub' (lsubs a k) ->
      sub' = [] \/
      (exists n args dirs sub t b, In (Field a n args dirs sub) cur /\ sub <> [] /\ below t (ip ++ [a]) [] sub = Ok b /\ sub' = fst b /\ incl (snd b) pls) \/
      (exists t dirs sub b, In (Inline t dirs sub) cur /\ below (tc_of ptype t) ip (w ++ [Inline t dirs sub]) sub = Ok b /\
                            In sub' (lsubs a (fst b)) /\ incl (snd b) pls).
  Proof.
    induction cur as [|s r IH]; intros k pls H sub' Hin; cbn [keep_with] in H.
    - injection H as <- <-. destruct Hin.
    - fold (keep_with ft below ptype ip w) in H.
      match type of H with (bind ?X _ = _) => destruct X as [here|e|e] eqn:Eh; cbn [bind] in H; try discriminate end.
      destruct (keep_with ft below ptype ip w r) as [[k' pls']|e|e] eqn:Er; cbn [bind] in H; try discriminate.
      injection H as <- <-. cbn [fst snd] in *. unfold lsubs in Hin. cbn [flat_map] in Hin. apply in_app_or in Hin. destruct Hin as [Hin|Hin].
      + destruct s as [al n args dirs sub|t dirs sub|nm dirs]; [| |discriminate].
        * destruct sub as [|s0 sr].
          -- injection Eh as <-. cbn [fst subs_of] in Hin. destruct (String.eqb al a); [|destruct Hin]. destruct Hin as [<-|[]]. left. reflexivity.
          -- destruct (assoc (url_key ptype n) ft) as [t0|]; [|discriminate].
             destruct (below t0 (ip ++ [al]) [] (s0 :: sr)) as [b|e|e] eqn:Eb; cbn [bind] in Eh; try discriminate. injection Eh as <-.
             cbn [fst subs_of] in Hin. destruct (String.eqb al a) eqn:Ea; [|destruct Hin]. apply String.eqb_eq in Ea. subst al.
             destruct Hin as [<-|[]]. right. left. exists n, args, dirs, (s0 :: sr), t0, b.
             split; [left; reflexivity|]. split; [discriminate|]. split; [exact Eb|]. split; [reflexivity|]. cbn [snd]. intros q Hq. apply in_or_app. left. exact Hq.
        * destruct (below (if String.eqb t "" then ptype else t) ip (w ++ [Inline t dirs sub]) sub) as [b|e|e] eqn:Eb; cbn [bind] in Eh; try discriminate.
          injection Eh as <-. cbn [fst] in Hin. rewrite subs_inline in Hin. right. right. exists t, dirs, sub, b.
          split; [left; reflexivity|]. split; [exact Eb|]. split; [exact Hin|]. cbn [snd]. intros q Hq. apply in_or_app. left. exact Hq.
      + destruct (IH _ _ eq_refl sub' Hin) as [E|[(n & args & dirs & sub & t & b & A & B & C & D & E)|(t & dirs & sub & b & A & B & C & D)]].
        * left. exact E.
        * right. left. exists n, args, dirs, sub, t, b. split; [right; exact A|]. split; [exact B|]. split; [exact C|]. split; [exact D|].
          intros q Hq. apply in_or_app. right. exact (E q Hq).
        * right. right. exists t, dirs, sub, b. split; [right; exact A|]. split; [exact B|]. split; [exact C|].
          intros q Hq. apply in_or_app. right. exact (D q Hq).
  Qed.

  Lemma keep_subs_field below ptype ip w a : forall cur k pls, keep_with ft below ptype ip w cur = Ok (k, pls) ->
    forall n args dirs sub t b, In (Field a n args dirs sub) cur -> sub <> [] -> assoc (url_key ptype n) ft = Some t ->
      below t (ip ++ [a]) [] sub = Ok b -> In (fst b) (lsubs a k).
  Proof.
    induction cur as [|s r IH]; intros k pls H n args dirs sub t b Hin Hne Ht Hb; [destruct Hin|]. cbn [keep_with] in H.
    fold (keep_with ft below ptype ip w) in H.
    match type of H with (bind ?X _ = _) => destruct X as [here|e|e] eqn:Eh; cbn [bind] in H; try discriminate end.
    destruct (keep_with ft below ptype ip w r) as [[k' pls']|e|e] eqn:Er; cbn [bind] in H; try discriminate.
    injection H as <- <-. unfold lsubs. cbn [flat_map fst]. apply in_or_app. destruct Hin as [->|Hin].
    - left. destruct sub as [|s0 sr]; [contradiction Hne; reflexivity|]. rewrite Ht in Eh. rewrite Hb in Eh. cbn [bind] in Eh. injection Eh as <-.
      cbn [fst subs_of]. rewrite String.eqb_refl. left. reflexivity.
    - right. exact (IH _ _ eq_refl n args dirs sub t b Hin Hne Ht Hb).
  Qed.

  Lemma keep_subs_inline below ptype ip w a : forall cur k pls, keep_with ft below ptype ip w cur = Ok (k, pls) ->
    forall t dirs sub b sub', In (Inline t dirs sub) cur -> below (tc_of ptype t) ip (w ++ [Inline t dirs sub]) sub = Ok b ->
      In sub' (lsubs a (fst b)) -> In sub' (lsubs a k).
  Proof.
    induction cur as [|s r IH]; intros k pls H t dirs sub b sub' Hin Hb Hs; [destruct Hin|]. cbn [keep_with] in H.
    fold (keep_with ft below ptype ip w) in H.
    match type of H with (bind ?X _ = _) => destruct X as [here|e|e] eqn:Eh; cbn [bind] in H; try discriminate end.
    destruct (keep_with ft below ptype ip w r) as [[k' pls']|e|e] eqn:Er; cbn [bind] in H; try discriminate.
    injection H as <- <-. unfold lsubs. cbn [flat_map fst]. apply in_or_app. destruct Hin as [->|Hin].
    - left. unfold tc_of in Hb. rewrite Hb in Eh. cbn [bind] in Eh. injection Eh as <-. cbn [fst]. rewrite subs_inline. exact Hs.
    - right. exact (IH _ _ eq_refl t dirs sub b sub' Hin Hb Hs).
  Qed.

  (* the type keep_with looks a field's sub-selection up under is the one recorded for the field *)
  Lemma keep_payloads_t below ptype ip w : forall cur k pls, keep_with ft below ptype ip w cur = Ok (k, pls) ->
    forall q, In q pls -> exists s, In s cur /\
      match s with
      | Field a n _ _ sub => sub <> [] /\ exists t b, assoc (url_key ptype n) ft = Some t /\ below t (ip ++ [a]) [] sub = Ok b /\ In q (snd b)
      | Inline t dirs sub => exists b, below (tc_of ptype t) ip (w ++ [Inline t dirs sub]) sub = Ok b /\ In q (snd b)
      | Spread _ _ => False
      end.
  Proof.
    induction cur as [|s r IH]; intros k pls H q Hq; cbn [keep_with] in H; [injection H as <- <-; destruct Hq|].
    fold (keep_with ft below ptype ip w) in H.
    match type of H with (bind ?X _ = _) => destruct X as [here|e|e] eqn:Eh; cbn [bind] in H; try discriminate end.
    destruct (keep_with ft below ptype ip w r) as [[k' pls']|e|e] eqn:Er; cbn [bind] in H; try discriminate.
    injection H as <- <-. cbn [fst snd] in Hq. apply in_app_or in Hq. destruct Hq as [Hq|Hq].
    - exists s. split; [left; reflexivity|].
      destruct s as [a n args dirs sub|t dirs sub|nm dirs]; [| |discriminate].
      + destruct sub as [|s0 sr]; [injection Eh as <-; destruct Hq|].
        destruct (assoc (url_key ptype n) ft) as [t0|] eqn:Et; [|discriminate].
        destruct (below t0 (ip ++ [a]) [] (s0 :: sr)) as [b|e|e] eqn:Eb; cbn [bind] in Eh; try discriminate.
        injection Eh as <-. cbn [snd] in Hq. split; [discriminate|]. exists t0, b. auto.
      + destruct (below (if String.eqb t "" then ptype else t) ip (w ++ [Inline t dirs sub]) sub) as [b|e|e] eqn:Eb; cbn [bind] in Eh; try discriminate.
        injection Eh as <-. cbn [snd] in Hq. exists b. auto.
    - destruct (IH _ _ eq_refl q Hq) as [s' [A B]]. exists s'. split; [right; exact A|exact B].
  Qed.

  Theorem id_at_iff_step_queued : forall fuel ptype ploc ip w sels kept pls,
    extract prios urls ft fuel ptype ploc ip w sels = Ok (kept, pls) -> lnamed sels ->
    forall rest, id_at rest kept = true <-> exists q, In q pls /\ pl_ipoint q = ip ++ rest.
  Proof.
    induction fuel as [|f IH]; intros ptype ploc ip w sels kept pls H Hn rest; [discriminate|].
    destruct rest as [|a r].
    { rewrite app_nil_r. cbn [id_at]. exact (id_injected_iff_step_queued _ _ _ _ _ _ _ _ H Hn). }
    pose proof H as H0. cbn [extract] in H.
    destruct (group prios urls ptype ploc sels []) as [groups|e|e] eqn:Eg; cbn [bind] in H; try discriminate.
    destruct (queue_others ptype ploc ip w groups) as [others|e|e] eqn:Eo; cbn [bind] in H; try discriminate.
    match type of H with (bind ?X _ = _) => destruct X as [[k kp]|e|e] eqn:Ek; cbn [bind] in H; try discriminate end.
    injection H as <- <-. cbn [fst snd].
    set (cur := match others with [] => match get_at ploc groups with Some ss => ss | None => [] end
                | _ :: _ => (match get_at ploc groups with Some ss => ss | None => [] end) ++ [id_field] end) in *.
    assert (Hcur : forall s, In s cur -> named s \/ s = id_field).
    { intros s Hs. destruct (current_elems _ _ _ _ _ _ Eg Hs) as [->|[Hd _]]; [right; reflexivity|left; exact (der_named _ _ Hn Hd)]. }
    cbn [id_at]. rewrite existsb_exists. split.
    - intros [sub' [Hin Hid]].
      destruct (keep_subs _ _ _ _ a _ _ _ Ek sub' Hin) as [->|[(n & args & dirs & sub & t & [bk bp] & A & B & C & D & E)|(t & dirs & sub & [bk bp] & A & B & C & D)]].
      + rewrite id_at_nil_sel in Hid. discriminate.
      + assert (Hns : lnamed sub) by (destruct (Hcur _ A) as [Hnm|E0]; [apply named_field in Hnm; tauto|injection E0 as _ _ _ _ E1; contradiction (B E1)]).
        cbn [fst] in D. subst sub'. destruct (proj1 (IH _ _ _ _ _ _ _ C Hns r) Hid) as [q [Hq Hip]].
        exists q. split; [apply in_or_app; right; apply E; exact Hq|]. rewrite Hip, <- app_assoc. reflexivity.
      + assert (Hns : lnamed sub) by (destruct (Hcur _ A) as [Hnm|E0]; [apply named_inline in Hnm; exact Hnm|discriminate E0]).
        assert (Hid' : id_at (a :: r) bk = true) by (cbn [id_at]; apply existsb_exists; exists sub'; split; [exact C|exact Hid]).
        destruct (proj1 (IH _ _ _ _ _ _ _ B Hns (a :: r)) Hid') as [q [Hq Hip]].
        exists q. split; [apply in_or_app; right; apply D; exact Hq|exact Hip].
    - intros [q [Hq Hip]]. apply in_app_or in Hq. destruct Hq as [Hq|Hq].
      + exfalso. rewrite (queue_others_ipoint _ _ _ _ _ _ Eo q Hq) in Hip.
        apply (f_equal (@length string)) in Hip. rewrite app_length in Hip. cbn [length] in Hip. lia.
      + destruct (keep_payloads_t _ _ _ _ _ _ _ Ek q Hq) as [s [Hs Hcase]].
        destruct s as [al n args dirs sub|t dirs sub|nm dirs]; [| |destruct Hcase].
        * destruct Hcase as [Hne [t0 [[bk bp] [Et [Eb Hqb]]]]].
          destruct (extract_ipoints _ _ _ _ _ _ _ _ Eb q Hqb) as [rest' Hr].
          rewrite Hip, <- app_assoc in Hr. apply app_inv_head in Hr. cbn [app] in Hr. injection Hr as <- <-.
          assert (Hns : lnamed sub) by (destruct (Hcur _ Hs) as [Hnm|E0]; [apply named_field in Hnm; tauto|injection E0 as _ _ _ _ E1; contradiction (Hne E1)]).
          exists bk. split.
          -- exact (keep_subs_field _ _ _ _ a _ _ _ Ek n args dirs sub t0 (bk, bp) Hs Hne Et Eb).
          -- apply (proj2 (IH _ _ _ _ _ _ _ Eb Hns r)). exists q. split; [exact Hqb|]. rewrite Hip, <- app_assoc. reflexivity.
        * destruct Hcase as [[bk bp] [Eb Hqb]].
          assert (Hns : lnamed sub) by (destruct (Hcur _ Hs) as [Hnm|E0]; [apply named_inline in Hnm; exact Hnm|discriminate E0]).
          assert (Hid' : id_at (a :: r) bk = true) by (apply (proj2 (IH _ _ _ _ _ _ _ Eb Hns (a :: r))); exists q; split; [exact Hqb|exact Hip]).
          cbn [id_at] in Hid'. apply existsb_exists in Hid'. destruct Hid' as [sub' [Hin Hid]].
          exists sub'. split; [|exact Hid]. exact (keep_subs_inline _ _ _ _ a _ _ _ Ek t dirs sub (bk, bp) sub' Hs Eb Hin).
  Qed.
End Total.

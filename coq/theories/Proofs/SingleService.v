(* Documents served by one service.  When every field of an operation (at every depth, through
   inline fragments, whatever its arguments, directives, aliases or repeated keys) is placed at
   one service A -- from the gateway at the top, and from A below -- the planner returns the
   gateway's own step and one step at A holding the client's selection unchanged, and the
   whole-path model answers exactly what the reference answers: one request, nothing stitched,
   nothing scrubbed. *)
From Coq Require Import String List Bool Arith Lia.
From GW Require Import Base.Res Base.GoStr Base.Json Gql.Syntax Gql.Spec Gw.Locate Gw.Plan Gw.Points Gw.Scrub Gw.Fed
     Proofs.PlanCanonical Proofs.ExecKeys.
Import ListNotations.
Open Scope string_scope.
Open Scope list_scope.

Section OneService.
  Variable prios : list string.
  Variable urls : urlmap.
  Variable ft : ftypes.
  Variable A : string.

  Notation choose := (choose prios urls).

  (* every field of s is placed at A when its parent is fetched from A; n bounds the nesting *)
  Definition at1_body (rec : string -> sel -> Prop) (ptype : string) (s : sel) : Prop :=
    match s with
    | Field _ name _ _ sub =>
        choose ptype name A = Ok A /\
        match sub with
        | [] => True
        | _ => exists t, assoc (url_key ptype name) ft = Some t /\ Forall (rec t) sub
        end
    | Inline tcond _ sub => sub <> [] /\ Forall (rec (if String.eqb tcond "" then ptype else tcond)) sub
    | Spread _ _ => False
    end.

  Fixpoint at1 (n : nat) : string -> sel -> Prop :=
    match n with
    | O => at1_body (fun _ _ => False)
    | S n' => at1_body (at1 n')
    end.

  Definition inner (n : nat) : string -> sel -> Prop := match n with O => fun _ _ => False | S n' => at1 n' end.

  Lemma at1_eq n ptype s : at1 n ptype s = at1_body (inner n) ptype s.
  Proof. destruct n; reflexivity. Qed.

  (* ---------- grouping ---------- *)
  Lemma split_all n tc : forall sub pre rest, Forall (at1 n tc) sub ->
    split_inline prios urls tc A sub ((A, pre) :: rest) = Ok ((A, pre ++ sub) :: rest).
  Proof.
    induction sub as [|s r IH]; intros pre rest Hall; cbn [split_inline]; [rewrite app_nil_r; reflexivity|].
    inversion Hall as [|? ? Hs Hr]; subst. rewrite at1_eq in Hs.
    destruct s as [alias name args dirs sub'|tcond dirs sub'|nm dirs]; cbn [at1_body] in Hs.
    - destruct Hs as [Hc _]. rewrite Hc. cbn [bind add_at]. rewrite String.eqb_refl. rewrite (IH _ _ Hr). rewrite <- app_assoc. reflexivity.
    - cbn [add_at]. rewrite String.eqb_refl. rewrite (IH _ _ Hr). rewrite <- app_assoc. reflexivity.
    - destruct Hs.
  Qed.

  Lemma split_all_nil n tc s r : Forall (at1 n tc) (s :: r) ->
    split_inline prios urls tc A (s :: r) [] = Ok [(A, s :: r)].
  Proof.
    intros Hall. inversion Hall as [|? ? Hs Hr]; subst. cbn [split_inline]. rewrite at1_eq in Hs.
    destruct s as [alias name args dirs sub'|tcond dirs sub'|nm dirs]; cbn [at1_body] in Hs.
    - destruct Hs as [Hc _]. rewrite Hc. cbn [bind add_at]. rewrite (split_all n tc r [_] [] Hr). reflexivity.
    - cbn [add_at]. rewrite (split_all n tc r [_] [] Hr). reflexivity.
    - destruct Hs.
  Qed.

  Lemma inline_parts n ptype tcond sub : sub <> [] -> Forall (inner n (if String.eqb tcond "" then ptype else tcond)) sub ->
    split_inline prios urls (if String.eqb tcond "" then ptype else tcond) A sub [] = Ok [(A, sub)].
  Proof.
    intros Hne Hsub. destruct n as [|n']; cbn [inner] in Hsub.
    - destruct sub as [|x xs]; [congruence|]. inversion Hsub as [|? ? Hx _]. destruct Hx.
    - destruct sub as [|x xs]; [congruence|]. exact (split_all_nil n' _ x xs Hsub).
  Qed.

  Lemma group_one n ptype : forall sels pre rest, Forall (at1 n ptype) sels ->
    group prios urls ptype A sels ((A, pre) :: rest) = Ok ((A, pre ++ sels) :: rest).
  Proof.
    induction sels as [|s r IH]; intros pre rest Hall; cbn [group]; [rewrite app_nil_r; reflexivity|].
    inversion Hall as [|? ? Hs Hr]; subst. rewrite at1_eq in Hs.
    destruct s as [alias name args dirs sub|tcond dirs sub|nm dirs]; cbn [at1_body] in Hs.
    - destruct Hs as [Hc _]. rewrite Hc. cbn [bind add_at]. rewrite String.eqb_refl. rewrite (IH _ _ Hr). rewrite <- app_assoc. reflexivity.
    - destruct Hs as [Hne Hsub]. rewrite (inline_parts n ptype tcond sub Hne Hsub).
      cbn [bind fold_left fst snd add_at]. rewrite String.eqb_refl.
      rewrite (IH _ _ Hr). rewrite <- app_assoc. reflexivity.
    - destruct Hs.
  Qed.

  Lemma group_one_nil n ptype s r : Forall (at1 n ptype) (s :: r) ->
    group prios urls ptype A (s :: r) [] = Ok [(A, s :: r)].
  Proof.
    intros Hall. inversion Hall as [|? ? Hs Hr]; subst. cbn [group]. rewrite at1_eq in Hs.
    destruct s as [alias name args dirs sub|tcond dirs sub|nm dirs]; cbn [at1_body] in Hs.
    - destruct Hs as [Hc _]. rewrite Hc. cbn [bind add_at]. rewrite (group_one n ptype r [_] [] Hr). reflexivity.
    - destruct Hs as [Hne Hsub]. rewrite (inline_parts n ptype tcond sub Hne Hsub).
      cbn [bind fold_left fst snd add_at]. rewrite (group_one n ptype r [_] [] Hr). reflexivity.
    - destruct Hs.
  Qed.

  (* ---------- what stays ---------- *)
  Lemma keep_all n ptype ipoint wrapper (below : string -> list string -> list sel -> list sel -> res (list sel * list payload)) :
    (forall t ip wr sub, sub <> [] -> Forall (inner n t) sub -> below t ip wr sub = Ok (sub, [])) ->
    forall sels, Forall (at1 n ptype) sels -> keep_with ft below ptype ipoint wrapper sels = Ok (sels, []).
  Proof.
    intros Hbelow. induction sels as [|s r IH]; intros Hall; [reflexivity|].
    inversion Hall as [|? ? Hs Hr]; subst. rewrite at1_eq in Hs. cbn [keep_with].
    destruct s as [alias name args dirs sub|tcond dirs sub|nm dirs]; cbn [at1_body] in Hs.
    - destruct Hs as [_ Hsub]. destruct sub as [|x xs].
      + cbn [bind fst snd]. rewrite (IH Hr). cbn [bind fst snd app]. reflexivity.
      + destruct Hsub as [t [Ht Hch]]. rewrite Ht. rewrite (Hbelow t _ _ (x :: xs)) by (try discriminate; exact Hch).
        cbn [bind fst snd]. rewrite (IH Hr). cbn [bind fst snd app]. reflexivity.
    - destruct Hs as [Hne Hsub]. rewrite (Hbelow _ _ _ sub Hne Hsub).
      cbn [bind fst snd]. rewrite (IH Hr). cbn [bind fst snd app]. reflexivity.
    - destruct Hs.
  Qed.

  (* extractSelection keeps everything and queues nothing *)
  Lemma extract_all : forall n ptype ipoint wrapper sels, Forall (at1 n ptype) sels ->
    extract prios urls ft (S n) ptype A ipoint wrapper sels = Ok (sels, []).
  Proof.
    induction n as [|n' IH]; intros ptype ipoint wrapper sels Hall; rewrite (extract_S prios urls ft).
    - destruct sels as [|s r]; [reflexivity|].
      rewrite (group_one_nil 0 ptype s r Hall). cbn [bind queue_others]. rewrite String.eqb_refl. cbn [bind get_at]. rewrite String.eqb_refl.
      rewrite (keep_all 0 ptype ipoint wrapper _ ltac:(intros t ip wr sub Hne Hf; destruct sub; [congruence|inversion Hf as [|? ? Hx _]; destruct Hx]) _ Hall).
      cbn [bind fst snd app]. reflexivity.
    - destruct sels as [|s r]; [reflexivity|].
      rewrite (group_one_nil (S n') ptype s r Hall). cbn [bind queue_others]. rewrite String.eqb_refl. cbn [bind get_at]. rewrite String.eqb_refl.
      rewrite (keep_all (S n') ptype ipoint wrapper _ ltac:(intros t ip wr sub Hne Hf; exact (IH t ip wr sub Hf)) _ Hall).
      cbn [bind fst snd app]. reflexivity.
  Qed.

  (* ---------- the plan ---------- *)
  Hypothesis A_ne : A <> "".

  (* at the top every field is placed at A from the gateway *)
  Definition top_at (root : string) (s : sel) : Prop :=
    match s with Field _ name _ _ _ => choose root name "" = Ok A | _ => False end.

  Lemma group_top root : forall sels pre, Forall (top_at root) sels ->
    group prios urls root "" sels [(A, pre)] = Ok [(A, pre ++ sels)].
  Proof.
    induction sels as [|s r IH]; intros pre Hall; cbn [group]; [rewrite app_nil_r; reflexivity|].
    inversion Hall as [|? ? Hs Hr]; subst. destruct s as [alias name args dirs sub|tc dirs sub|nm dirs]; [|destruct Hs|destruct Hs].
    cbn [top_at] in Hs. rewrite Hs. cbn [bind add_at]. rewrite String.eqb_refl. rewrite (IH _ Hr). rewrite <- app_assoc. reflexivity.
  Qed.

  Theorem single_service_plan n root s r :
    Forall (top_at root) (s :: r) -> Forall (at1 n root) (s :: r) ->
    plan_operation prios urls ft (S (S n)) root (s :: r) =
    Ok (PStep "" root [] [id_field] [PStep A root [] (s :: r) []]).
  Proof.
    intros Htop Hall. unfold plan_operation. cbn [build pl_ptype pl_loc pl_ipoint pl_wrapper pl_sels].
    rewrite (extract_S prios urls ft).
    assert (Hg : group prios urls root "" (s :: r) [] = Ok [(A, s :: r)]).
    { inversion Htop as [|? ? Hs Hr]; subst. cbn [group]. destruct s as [alias name args dirs sub|tc dirs sub|nm dirs]; [|destruct Hs|destruct Hs].
      cbn [top_at] in Hs. rewrite Hs. cbn [bind add_at]. rewrite (group_top root r [_] Hr). reflexivity. }
    rewrite Hg. cbn [bind queue_others].
    destruct (String.eqb A "") eqn:E; [apply String.eqb_eq in E; congruence|]. cbn [bind get_at].
    assert (E' : String.eqb "" A = false) by (rewrite String.eqb_sym; exact E). rewrite E'. cbn [app].
    rewrite (keep_leaves ft) by (repeat constructor). cbn [bind fst snd app map_res].
    cbn [build pl_ptype pl_loc pl_ipoint pl_wrapper pl_sels].
    rewrite (extract_all n root [] [] (s :: r) Hall). cbn [bind fst snd map_res]. reflexivity.
  Qed.
End OneService.

(* ---------- the whole path ---------- *)
Theorem single_service_transparent :
  forall prios urls ft sh w vars A n root s r client,
  A <> "" ->
  Forall (top_at prios urls A root) (s :: r) -> Forall (at1 prios urls ft A n root) (s :: r) ->
  gateway_answer (S (S n)) prios urls ft sh w vars root (s :: r) client =
  Ok (exec (S (S n)) w [] vars None root (s :: r)).
Proof.
  intros prios urls ft sh w vars A n root s r client HA Htop Hall. unfold gateway_answer.
  rewrite (single_service_plan prios urls ft A HA n root s r Htop Hall). cbn [bind].
  unfold run_plan. cbn [fold_left bind].
  rewrite insert_answer_into_empty. cbn [bind run_thens fold_left].
  unfold scrub_fields. cbn [scrub_walk]. change (descend [] client) with (Ok client). cbn [bind].
  rewrite andb_false_r. cbn [app dedupe bind]. unfold scrub_all_paths. cbn [fold_left]. reflexivity.
Qed.

(* the premises can be met: nested selections, an inline fragment, an alias, a repeated key, arguments and a directive *)
Example single_service_example :
  let urls : urlmap := [("Query.me", ["A"]); ("Query.hello", ["A"; "B"]); ("User.name", ["A"]); ("User.friends", ["A"]); ("User.id", ["A"; "B"])] in
  let ft : ftypes := [("Query.me", "User"); ("User.friends", "User")] in
  let u1 := {| b_id := "u1"; b_type := "User"; b_fields := [("name", FScalar (JStr "ann")); ("friends", FList [FRef "u1"])] |} in
  let w := {| w_objs := [u1]; w_roots := [("Query.me", FRef "u1")]; w_possible := []; w_ftypes := [] |} in
  let sels := [Field "me" "me" [] [] [Field "n" "name" [] [] []; Inline "User" [] [Field "friends" "friends" [] [] [Field "name" "name" [] [] []; Field "id" "id" [] [] []]];
                                      Field "n" "name" [] [] []];
               Field "hello" "hello" [] [{| d_name := "include"; d_args := [("if", VBool true)] |}] []] in
  gateway_answer 5 ["A"] urls ft [] w [] "Query" sels [] = Ok (exec 5 w [] [] None "Query" sels) /\
  exec 5 w [] [] None "Query" sels =
    JObj [("me", JObj [("n", JStr "ann"); ("friends", JArr [JObj [("name", JStr "ann"); ("id", JStr "u1")]])]); ("hello", JStr "x=null")].
Proof.
  cbv zeta. split; [|vm_compute; reflexivity].
  apply single_service_transparent with (A := "A"); [discriminate| |].
  - repeat constructor.
  - repeat (first [constructor | split | reflexivity | discriminate | eexists]).
Qed.

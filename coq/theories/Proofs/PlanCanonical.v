(* The planner on the canonical join.  One root field (aliased, as gqlparser leaves every field)
   placed at service A from the gateway and kept there by A; below it scalar fields l1 that A keeps
   and scalar fields l2 that go to service B and stay there.  The planner model Gw/Plan.v returns
   the plan of three steps: the gateway's own, the root field with l1 and the join id at A, and
   l2 at B hanging at [alias]. *)
From Coq Require Import String List Bool Arith.
From GW Require Import Base.Res Base.GoStr Gql.Syntax Gw.Locate Gw.Plan.

Import ListNotations.
Open Scope string_scope.
Open Scope list_scope.

Section PlanCanon.
  Variable prios : list string.
  Variable urls : urlmap.
  Variable ft : ftypes.

  Notation choose := (choose prios urls).

  (* a scalar field that the chooser places at L when its parent is fetched from ploc *)
  Definition at_loc (ptype ploc L : string) (s : sel) : Prop :=
    match s with Field _ name _ _ [] => choose ptype name ploc = Ok L | _ => False end.

  Lemma group_all ptype ploc L : forall l acc, Forall (at_loc ptype ploc L) l ->
    group prios urls ptype ploc l acc = Ok (fold_left (fun a s => add_at L s a) l acc).
  Proof.
    induction l as [|s r IH]; intros acc Hall; cbn [group fold_left]; [reflexivity|].
    inversion Hall as [|? ? Hs Hr]; subst. destruct s as [alias name args dirs sub| |]; try destruct Hs.
    destruct sub; [|destruct Hs]. cbn [at_loc] in Hs. rewrite Hs. cbn [bind]. apply IH. exact Hr.
  Qed.

  Lemma add_all_same L : forall l pre rest, fold_left (fun a s => add_at L s a) l ((L, pre) :: rest) = (L, pre ++ l) :: rest.
  Proof.
    induction l as [|s r IH]; intros pre rest; cbn [fold_left add_at]; [rewrite app_nil_r; reflexivity|].
    rewrite String.eqb_refl. rewrite IH. rewrite <- app_assoc. reflexivity.
  Qed.

  Lemma add_all_nil L s r : fold_left (fun a x => add_at L x a) (s :: r) [] = [(L, s :: r)].
  Proof. change (fold_left (fun a x => add_at L x a) r [(L, [s])] = [(L, s :: r)]). rewrite add_all_same. reflexivity. Qed.

  Lemma add_all_other A L l1 s r : A <> L ->
    fold_left (fun a x => add_at L x a) (s :: r) [(A, l1)] = [(A, l1); (L, s :: r)].
  Proof.
    intros Hne. assert (E : String.eqb L A = false) by (apply String.eqb_neq; congruence).
    change (fold_left (fun a x => add_at L x a) r (add_at L s [(A, l1)]) = [(A, l1); (L, s :: r)]).
    cbn [add_at]. rewrite E. cbn [add_at].
    assert (H : forall l pre, fold_left (fun a x => add_at L x a) l [(A, l1); (L, pre)] = [(A, l1); (L, pre ++ l)]).
    { induction l as [|y ys IH]; intros pre; cbn [fold_left]; [rewrite app_nil_r; reflexivity|].
      cbn [add_at]. rewrite E. rewrite String.eqb_refl. rewrite IH. rewrite <- app_assoc. reflexivity. }
    rewrite H. reflexivity.
  Qed.

  Lemma group_app ptype ploc : forall a b acc,
    group prios urls ptype ploc (a ++ b) acc = (acc' <- group prios urls ptype ploc a acc ;; group prios urls ptype ploc b acc').
  Proof.
    induction a as [|s r IH]; intros b acc; cbn [app group bind]; [reflexivity|].
    destruct s as [alias name args dirs sub|tc dirs sub|nm dirs].
    - destruct (choose ptype name ploc) as [l|e|e]; cbn [bind]; [apply IH|reflexivity|reflexivity].
    - destruct (split_inline prios urls _ ploc sub []) as [parts|e|e]; cbn [bind]; [apply IH|reflexivity|reflexivity].
    - reflexivity.
  Qed.

  (* scalar fields stay as they are *)
  Definition leaf (s : sel) : Prop := match s with Field _ _ _ _ [] => True | _ => False end.

  Lemma keep_leaves below ptype ipoint wrapper : forall l, Forall leaf l ->
    keep_with ft below ptype ipoint wrapper l = Ok (l, []).
  Proof.
    induction l as [|s r IH]; intros Hall; [reflexivity|].
    inversion Hall as [|? ? Hs Hr]; subst. destruct s as [alias name args dirs sub| |]; try destruct Hs.
    destruct sub; [|destruct Hs]. cbn [keep_with bind fst snd]. rewrite (IH Hr). cbn [bind fst snd app]. reflexivity.
  Qed.

  Lemma at_loc_leaf ptype ploc L l : Forall (at_loc ptype ploc L) l -> Forall leaf l.
  Proof.
    intros H. eapply Forall_impl; [|exact H]. intros s Hs. destruct s as [? ? ? ? sub| |]; try destruct Hs. destruct sub; [exact I|destruct Hs].
  Qed.

  Lemma extract_S fuel' ptype ploc ipoint wrapper sels :
    extract prios urls ft (S fuel') ptype ploc ipoint wrapper sels =
    (groups <- group prios urls ptype ploc sels [] ;;
     others <- queue_others ptype ploc ipoint wrapper groups ;;
     let current := match get_at ploc groups with Some ss => ss | None => [] end in
     let current := match others with [] => current | _ => current ++ [id_field] end in
     kept <- keep_with ft (fun t ip w sub => extract prios urls ft fuel' t ploc ip w sub) ptype ipoint wrapper current ;;
     Ok (fst kept, others ++ snd kept)).
  Proof. reflexivity. Qed.

  Variable rootT T locA locB : string.
  Variable ka kn : string.
  Variable args : list (string * value).
  Variable l1 l2 : list sel.
  Hypothesis locA_ne : locA <> "".
  Hypothesis locAB : locA <> locB.
  Hypothesis root_from_gateway : choose rootT kn "" = Ok locA.
  Hypothesis root_stays : choose rootT kn locA = Ok locA.
  Hypothesis root_type : assoc (url_key rootT kn) ft = Some T.
  Hypothesis l1_at_A : Forall (at_loc T locA locA) l1.
  Hypothesis l2_to_B : Forall (at_loc T locA locB) l2.
  Hypothesis l2_stays : Forall (at_loc T locB locB) l2.
  Hypothesis l2_ne : l2 <> [].

  Definition payB : payload := {| pl_loc := locB; pl_ptype := T; pl_ipoint := [ka]; pl_wrapper := []; pl_sels := l2 |}.

  Lemma extract_objects f :
    extract prios urls ft (S f) T locA [ka] [] (l1 ++ l2) = Ok (l1 ++ [id_field], [payB]).
  Proof.
    assert (EBA : String.eqb locB locA = false) by (apply String.eqb_neq; congruence).
    rewrite extract_S. rewrite group_app. rewrite (group_all T locA locA l1 [] l1_at_A). cbn [bind].
    rewrite (group_all T locA locB l2 _ l2_to_B).
    unfold payB. destruct l2 as [|s2 r2]; [congruence|].
    pose proof (at_loc_leaf _ _ _ _ l1_at_A) as Hleaf1.
    destruct l1 as [|s1 r1].
    - change (fold_left (fun a s => add_at locA s a) [] []) with (@nil (string * list sel)).
      rewrite add_all_nil. cbn [bind queue_others]. rewrite EBA. cbn [bind get_at]. rewrite String.eqb_sym, EBA.
      cbn [app]. rewrite keep_leaves by (repeat constructor). cbn [bind fst snd app]. reflexivity.
    - rewrite add_all_nil. rewrite (add_all_other locA locB _ s2 r2 locAB). cbn [bind queue_others].
      rewrite EBA. cbn [bind]. rewrite String.eqb_refl. cbn [bind get_at]. rewrite String.eqb_refl.
      rewrite keep_leaves by (apply Forall_app; split; [exact Hleaf1|repeat constructor]).
      cbn [bind fst snd app]. reflexivity.
  Qed.

  Lemma extract_remote f : extract prios urls ft (S f) T locB [ka] [] l2 = Ok (l2, []).
  Proof.
    rewrite extract_S. rewrite (group_all T locB locB l2 [] l2_stays).
    destruct l2 as [|s2 r2] eqn:E2; [congruence|]. rewrite add_all_nil. cbn [bind queue_others].
    rewrite String.eqb_refl. cbn [bind get_at]. rewrite String.eqb_refl.
    rewrite keep_leaves by (rewrite <- E2 in l2_stays; subst; eapply at_loc_leaf; exact l2_stays).
    cbn [bind fst snd app]. reflexivity.
  Qed.

  Definition root_field (sub : list sel) : sel := Field ka kn args [] sub.

  Lemma extract_root f :
    extract prios urls ft (S (S f)) rootT locA [] [] [root_field (l1 ++ l2)] = Ok ([root_field (l1 ++ [id_field])], [payB]).
  Proof.
    rewrite extract_S. cbn [group root_field]. rewrite root_stays. cbn [bind add_at queue_others]. rewrite String.eqb_refl.
    cbn [bind get_at]. rewrite String.eqb_refl.
    cbn [keep_with]. destruct (l1 ++ l2) as [|x r] eqn:E.
    - apply app_eq_nil in E. destruct E as [_ E]. congruence.
    - rewrite root_type. rewrite <- E. cbn [app]. rewrite (extract_objects f). cbn [bind fst snd app]. reflexivity.
  Qed.

  Definition payA : payload := {| pl_loc := locA; pl_ptype := rootT; pl_ipoint := []; pl_wrapper := []; pl_sels := [root_field (l1 ++ l2)] |}.

  Lemma extract_top f :
    extract prios urls ft (S f) rootT "" [] [] [root_field (l1 ++ l2)] = Ok ([id_field], [payA]).
  Proof.
    rewrite extract_S. cbn [group root_field]. rewrite root_from_gateway. cbn [bind add_at queue_others].
    destruct (String.eqb locA "") eqn:E; [apply String.eqb_eq in E; congruence|]. cbn [bind get_at].
    assert (E' : String.eqb "" locA = false) by (rewrite String.eqb_sym; exact E). rewrite E'.
    cbn [app]. rewrite keep_leaves by (repeat constructor). cbn [bind fst snd app]. reflexivity.
  Qed.

  (* the plan of the canonical join *)
  Theorem canonical_plan_is_planned n :
    plan_operation prios urls ft (S (S (S n))) rootT [root_field (l1 ++ l2)] =
    Ok (PStep "" rootT [] [id_field]
          [PStep locA rootT [] [root_field (l1 ++ [id_field])] [PStep locB T [ka] l2 []]]).
  Proof.
    unfold plan_operation. cbn [build pl_ptype pl_loc pl_ipoint pl_wrapper pl_sels].
    rewrite (extract_top (S (S n))). cbn [bind snd fst map_res].
    cbn [build payA pl_ptype pl_loc pl_ipoint pl_wrapper pl_sels].
    rewrite (extract_root n). cbn [bind snd fst map_res].
    cbn [build payB pl_ptype pl_loc pl_ipoint pl_wrapper pl_sels].
    rewrite (extract_remote n). cbn [bind snd fst map_res]. reflexivity.
  Qed.
End PlanCanon.

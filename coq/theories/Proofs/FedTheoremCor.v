(* The end-to-end theorems with the routing premises reduced by the chooser's idempotence (C20): a
   field the chooser moves to a service is kept by that service, so "stays there" need not be
   assumed for the root field and for l2. *)
From Coq Require Import String List Bool Arith ZArith Lia.
From GW Require Import Base.Res Base.GoStr Base.Json Gql.Syntax Gql.Spec Gw.Locate Gw.Plan Gw.Points Gw.Scrub Gw.Fed
     Proofs.CodecProofs Proofs.LocateProofs Proofs.StitchSound Proofs.JoinSound Proofs.FedCanonical Proofs.PlanCanonical
     Proofs.SingleService Proofs.FedTheorem Proofs.FedTheorem2 Proofs.FedTheoremObj.
Import ListNotations.
Open Scope string_scope.
Open Scope list_scope.

Lemma choose_stays prios urls ptype name ploc L :
  choose prios urls ptype name ploc = Ok L -> choose prios urls ptype name L = Ok L.
Proof.
  unfold choose. destruct (url_for urls ptype name) as [possible|e|e]; cbn [bind]; try discriminate.
  intros [= <-]. f_equal. apply chooser_idempotent.
Qed.

Lemma at_loc_stays prios urls T locA locB l : Forall (at_loc prios urls T locA locB) l -> Forall (at_loc prios urls T locB locB) l.
Proof.
  intros H. eapply Forall_impl; [|exact H]. intros s Hs. destruct s as [? name ? ? sub| |]; try exact Hs.
  destruct sub; [|exact Hs]. cbn [at_loc] in *. eapply choose_stays. exact Hs.
Qed.

Theorem gateway_answers_canonical_join_routed :
  forall prios urls ft sh w vars, atomic_world w vars ->
  forall rootT T t ka kn args l1 l2 nn locA locB os client target n,
  ka <> "" -> clean_key ka ->
  locA <> "" -> locA <> locB ->
  choose prios urls rootT kn "" = Ok locA ->
  assoc (url_key rootT kn) ft = Some T ->
  Forall (at1 prios urls ft locA n T) l1 -> Forall (at_loc prios urls T locA locB) l2 -> l2 <> [] ->
  shape_of (rootT ++ "." ++ kn) sh = Some (t, (true, nn)) ->
  good (l1 ++ [id_sel]) -> good l2 -> compat (l1 ++ [id_sel]) l2 ->
  ~ In "id" (map key_of l2) -> no_id_var l2 ->
  descend [ka] client = Ok target -> natural_id target = false ->
  resolve w vars None rootT (to_c (Field ka kn args [] (l1 ++ [id_sel]))) = FList (map (fun o => FRef (b_id o)) os) ->
  Forall (fun o => find_obj (b_id o) (w_objs w) = Some o) os ->
  (Z.of_nat (length os) <= int64_max)%Z ->
  Forall (fun o => type_matches w T (b_type o) = true) os ->
  Forall (fun o => flat_at w vars o l2) os ->
  gateway_answer (S (S (S n))) prios urls ft sh w vars rootT [Field ka kn args [] (l1 ++ l2)] client =
  Ok (exec (S (S (S n))) w [] vars None rootT [Field ka kn args [] (l1 ++ l2)]).
Proof.
  intros prios urls ft sh w vars Hw rootT T t ka kn args l1 l2 nn locA locB os client target n
         H1 H2 H3 H4 Hroot Htype Hl1 Hl2 Hne.
  apply (gateway_answers_canonical_join_nested prios urls ft sh w vars Hw rootT T t ka kn args l1 l2 nn locA locB os client target n
           H1 H2 H3 H4 Hroot (choose_stays _ _ _ _ _ _ Hroot) Htype Hl1 Hl2 (at_loc_stays _ _ _ _ _ _ Hl2) Hne).
Qed.

(* The whole-path model equals the reference on the canonical join with any number of services
   below the root field: a selection tree l1 that stays with the root field's service A and
   groups of scalar fields d_1 ... d_N, each at a service of its own. *)
From Coq Require Import String List Bool Arith ZArith Lia.
From GW Require Import Base.Res Base.GoStr Base.Json Gql.Syntax Gql.Spec Gw.Locate Gw.Plan Gw.Points Gw.Scrub Gw.Fed
     Proofs.CodecProofs Proofs.StitchSound Proofs.JoinSound Proofs.FedCanonical Proofs.PlanCanonical Proofs.FedTheorem
     Proofs.SingleService Proofs.PlanCanonical2 Proofs.FedTheoremCor Proofs.GroupSound Proofs.FedCanonicalMulti Proofs.PlanCanonicalMulti.
Import ListNotations.
Open Scope string_scope.
Open Scope list_scope.

Lemma path_eqb_refl p : path_eqb p p = true.
Proof. induction p as [|x r IH]; cbn [path_eqb]; [reflexivity|]. rewrite String.eqb_refl. exact IH. Qed.

Lemma dedupe_repeat p : forall m, dedupe (repeat p m) [p] = [p].
Proof.
  induction m as [|m IH]; cbn [repeat dedupe]; [reflexivity|].
  cbn [contains_path existsb]. rewrite path_eqb_refl. cbn [orb]. exact IH.
Qed.

Section WholeMulti.
  Variable prios : list string.
  Variable urls : urlmap.
  Variable ft : ftypes.
  Variable sh : fshape.
  Variable w : world.
  Variable vars : list (string * json).
  Hypothesis world_atomic : atomic_world w vars.
  Variable rootT T t : string.
  Variable ka kn : string.
  Variable args : list (string * value).
  Variable l1 : list sel.
  Variable deps : list (string * list sel).
  Variable nn : bool.
  Variable locA : string.
  Variable os : list obj.
  Variable client target : list ksel.
  Variable n : nat.

  Hypothesis ka_ne : ka <> "".
  Hypothesis ka_clean : clean_key ka.
  Hypothesis locA_ne : locA <> "".
  Hypothesis root_from_gateway : choose prios urls rootT kn "" = Ok locA.
  Hypothesis root_type : assoc (url_key rootT kn) ft = Some T.
  Hypothesis l1_at_A : Forall (at1 prios urls ft locA n T) l1.
  Hypothesis deps_ok : Forall (dep_ok prios urls T locA) deps.
  Hypothesis deps_ne : deps <> [].
  Hypothesis locs_distinct : NoDup (locA :: map fst deps).
  Hypothesis k_shape : shape_of (rootT ++ "." ++ kn) sh = Some (t, (true, nn)).
  Hypothesis good_all : good ((l1 ++ [id_sel]) ++ all_of deps).
  Hypothesis deps_no_id_var : Forall (fun d => no_id_var (snd d)) deps.
  Hypothesis client_at_k : descend [ka] client = Ok target.
  Hypothesis client_no_id : natural_id target = false.
  Hypothesis k_value : resolve w vars None rootT (to_c (Field ka kn args [] (l1 ++ [id_sel]))) = FList (map (fun o => FRef (b_id o)) os).
  Hypothesis os_named : Forall (fun o => find_obj (b_id o) (w_objs w) = Some o) os.
  Hypothesis os_bound : (Z.of_nat (length os) <= int64_max)%Z.
  Hypothesis os_typed : Forall (fun o => type_matches w T (b_type o) = true) os.
  Hypothesis deps_flat : Forall (fun d => Forall (fun o => flat_at w vars o (snd d)) os) deps.

  Notation fuel := (S (S (S n))).
  Notation query := [Field ka kn args [] (l1 ++ all_of deps)].

  Definition walk_all (f : nat) : list pstep -> res (list (list string)) :=
    fix go (l : list pstep) : res (list (list string)) :=
      match l with
      | [] => Ok []
      | x :: r => a <- scrub_walk f client x ;; b <- go r ;; Ok (a ++ b)
      end.

  Lemma walk_all_cons f x r : walk_all f (x :: r) = (a <- scrub_walk f client x ;; b <- walk_all f r ;; Ok (a ++ b)).
  Proof. reflexivity. Qed.

  Lemma walk_one f d : scrub_walk (S f) client (step_of T ka d) = Ok [[ka]].
  Proof.
    cbn [step_of scrub_walk]. rewrite client_at_k. cbn [bind]. rewrite client_no_id. cbn [negb andb app bind]. reflexivity.
  Qed.

  Lemma scrub_walk_deps f : forall ds, walk_all (S f) (map (step_of T ka) ds) = Ok (repeat [ka] (length ds)).
  Proof.
    induction ds as [|d r IH]; cbn [map length repeat]; [reflexivity|].
    rewrite walk_all_cons. rewrite walk_one. cbn [bind]. rewrite IH. cbn [bind app]. reflexivity.
  Qed.

  Lemma scrub_fields_multi :
    scrub_fields fuel client
      (PStep "" rootT [] [id_field] [PStep locA rootT [] [Field ka kn args [] (l1 ++ [id_field])] (map (step_of T ka) deps)]) = Ok [[ka]].
  Proof.
    unfold scrub_fields.
    change (a <- scrub_walk fuel client (PStep locA rootT [] [Field ka kn args [] (l1 ++ [id_field])] (map (step_of T ka) deps)) ;;
            b <- Ok [] ;; Ok (a ++ b)) with
      (a <- (target0 <- descend [] client ;;
             let own := if negb (natural_id target0) && negb true then [[]] else [] in
             below <- walk_all (S (S n)) (map (step_of T ka) deps) ;; Ok (own ++ below)) ;;
       b <- Ok [] ;; Ok (a ++ b)).
    change (descend [] client) with (Ok client). cbn [bind].
    rewrite andb_false_r. rewrite (scrub_walk_deps (S n) deps). cbn [bind app]. rewrite app_nil_r.
    destruct deps as [|d r]; [congruence|]. cbn [length repeat dedupe contains_path existsb app]. f_equal. apply dedupe_repeat.
  Qed.

  Theorem gateway_answers_multi_service_join :
    gateway_answer fuel prios urls ft sh w vars rootT query client = Ok (exec fuel w [] vars None rootT query).
  Proof.
    unfold gateway_answer.
    pose proof (multi_plan_is_planned prios urls ft T locA ka rootT kn args l1 deps n locA_ne root_from_gateway root_type
                  l1_at_A deps_ok deps_ne locs_distinct) as Hp.
    unfold root_field in Hp. change (all_sel deps) with (all_of deps) in Hp. rewrite Hp. clear Hp. cbn [bind].
    assert (Hk : rkey ka kn = ka) by (apply rkey_alias; exact ka_ne).
    assert (k_clean : clean_key (rkey ka kn)) by (rewrite Hk; exact ka_clean).
    destruct (good_app _ _ good_all) as [good_sub _].
    pose proof (multi_join_end_to_end w vars world_atomic sh n ka kn k_clean args l1 rootT T t nn k_shape os k_value
                  os_named os_bound os_typed good_sub deps good_all deps_no_id_var deps_flat locA [id_field]) as H.
    unfold multi_plan, mkstep in H. rewrite Hk in H. unfold step_of.
    destruct (run_plan w vars sh fuel rootT _) as [data|e|e] eqn:Er; cbn [bind] in H |- *; try discriminate.
    pose proof scrub_fields_multi as Hs. unfold step_of in Hs. rewrite Hs. cbn [bind]. exact H.
  Qed.
End WholeMulti.

(* the premises can be met: { users { name photo email } } with name at A, photo at B, email at C *)
Example multi_service_example :
  let u n nm ph em := {| b_id := n; b_type := "User"; b_fields := [("name", FScalar (JStr nm)); ("photo", FScalar (JStr ph)); ("email", FScalar (JStr em))] |} in
  let u1 := u "u1" "ann" "a.png" "a@x" in
  let u2 := u "u:2#x" "bob" "b.png" "b@x" in
  let w := {| w_objs := [u1; u2]; w_roots := [("Query.users", FList [FRef "u1"; FRef "u:2#x"])]; w_possible := []; w_ftypes := [] |} in
  let urls : urlmap := [("Query.users", ["A"]); ("User.name", ["A"]); ("User.photo", ["B"]); ("User.email", ["C"]); ("User.id", ["A"; "B"; "C"])] in
  let ft : ftypes := [("Query.users", "User")] in
  let sh : fshape := [("Query.users", ("User", (true, false)))] in
  let l1 := [Field "name" "name" [] [] []] in
  let deps := [("B", [Field "photo" "photo" [] [] []]); ("C", [Field "email" "email" [] [] []])] in
  let query := [Field "users" "users" [] [] (l1 ++ all_of deps)] in
  let client := [KS "users" "users" [KS "name" "name" []; KS "photo" "photo" []; KS "email" "email" []]] in
  gateway_answer 4 [] urls ft sh w [] "Query" query client = Ok (exec 4 w [] [] None "Query" query) /\
  exec 4 w [] [] None "Query" query =
    JObj [("users", JArr [JObj [("name", JStr "ann"); ("photo", JStr "a.png"); ("email", JStr "a@x")];
                          JObj [("name", JStr "bob"); ("photo", JStr "b.png"); ("email", JStr "b@x")]])].
Proof.
  cbv zeta. split; [|vm_compute; reflexivity].
  eapply gateway_answers_multi_service_join with (T := "User") (t := "User") (nn := false) (locA := "A")
    (os := [ {| b_id := "u1"; b_type := "User"; b_fields := [("name", FScalar (JStr "ann")); ("photo", FScalar (JStr "a.png")); ("email", FScalar (JStr "a@x"))] |};
             {| b_id := "u:2#x"; b_type := "User"; b_fields := [("name", FScalar (JStr "bob")); ("photo", FScalar (JStr "b.png")); ("email", FScalar (JStr "b@x"))] |} ])
    (target := [KS "name" "name" []; KS "photo" "photo" []; KS "email" "email" []]).
  - apply atomic_world_intro; cbn; repeat constructor.
  - discriminate.
  - split; reflexivity.
  - discriminate.
  - reflexivity.
  - reflexivity.
  - repeat (first [constructor | split | reflexivity | discriminate | eexists]).
  - repeat (first [constructor | split | reflexivity | discriminate]).
  - discriminate.
  - repeat constructor; cbn; intuition discriminate.
  - reflexivity.
  - constructor; [repeat constructor| |repeat constructor]. cbn. repeat constructor; cbn; intuition discriminate.
  - repeat constructor; cbn; discriminate.
  - reflexivity.
  - reflexivity.
  - reflexivity.
  - repeat constructor.
  - vm_compute. discriminate.
  - repeat constructor.
  - repeat constructor.
Qed.

(* Proofs about Gw/Locate.v: the chooser meets the rule of C20, the rule determines the
   location whenever one of its clauses applies, the chooser is idempotent, and the location of
   a field does not depend on the syntactic wrapper it is written in. *)
From Coq Require Import String List Bool.
From GW Require Import Base.Res Base.GoStr Gql.Syntax Gw.Locate.
Import ListNotations.
Open Scope string_scope.
Open Scope list_scope.

Lemma fp_app a b ps : first_possible (a ++ b) ps =
  match first_possible a ps with Some p => Some p | None => first_possible b ps end.
Proof. induction a as [|c a IH]; simpl; auto. destruct (str_mem c ps); auto. Qed.

Lemma fp_sound c ps p : first_possible c ps = Some p -> In p ps /\ In p c.
Proof.
  induction c as [|x c IH]; simpl; [discriminate|].
  destruct (str_mem x ps) eqn:E.
  - intros [= <-]. split; [apply str_mem_In; exact E|auto].
  - intros H. destruct (IH H). auto.
Qed.

Lemma fp_none c ps : first_possible c ps = None -> forall x, In x c -> ~ In x ps.
Proof.
  induction c as [|y c IH]; simpl; intros H x Hx; [contradiction|].
  destruct (str_mem y ps) eqn:E; [discriminate|].
  destruct Hx as [<-|Hx]; [|apply IH; auto].
  intros Hin. apply str_mem_In in Hin. congruence.
Qed.

Lemma fp_two a b ps :
  first_possible [a; b] ps =
  if str_mem a ps then Some a else if str_mem b ps then Some b else None.
Proof. reflexivity. Qed.

Theorem chooser_in prios ps parent : ps <> [] -> In (selectLocation prios ps parent) ps.
Proof.
  intros Hne. unfold selectLocation. destruct ps as [|x [|y r]]; [congruence|simpl; auto|].
  destruct (str_mem internal_loc (x :: y :: r)) eqn:Ei; [apply str_mem_In; exact Ei|].
  destruct (first_possible _ _) eqn:E.
  - apply fp_sound in E. tauto.
  - simpl; auto.
Qed.

Theorem chooser_meets_rule prios ps parent :
  ps <> [] -> spec_loc prios ps parent (selectLocation prios ps parent).
Proof.
  intros Hne. split; [apply chooser_in; assumption|].
  unfold selectLocation. destruct ps as [|x [|y r]]; [congruence| |].
  - (* one declaring service: every clause can only name it *)
    split; [intros [<-|[]]; reflexivity|]. split.
    + intros _ p Hp. apply fp_sound in Hp. destruct Hp as [[<-|[]] _]. reflexivity.
    + intros _ _ [<-|[]]. reflexivity.
  - set (ps := x :: y :: r). destruct (str_mem internal_loc ps) eqn:Ei.
    + split; [reflexivity|]. apply str_mem_In in Ei. split; intros Hn; contradiction.
    + assert (Hni: ~ In internal_loc ps) by (intros H; apply str_mem_In in H; congruence).
      split; [intros H; contradiction|]. rewrite fp_app. split.
      * intros _ p Hp. rewrite Hp. reflexivity.
      * intros _ Hn Hpar. rewrite Hn, fp_two. apply str_mem_In in Hpar. rewrite Hpar. reflexivity.
Qed.

(* whenever the gateway itself, a priority or the parent offers the field, the rule leaves no choice *)
Theorem rule_determines prios ps parent l1 l2 :
  spec_loc prios ps parent l1 -> spec_loc prios ps parent l2 ->
  (In internal_loc ps \/ first_possible prios ps <> None \/ In parent ps) ->
  l1 = l2.
Proof.
  intros (_ & A1 & B1 & C1) (_ & A2 & B2 & C2) H.
  destruct (str_mem internal_loc ps) eqn:Ei.
  - apply str_mem_In in Ei. rewrite (A1 Ei), (A2 Ei). reflexivity.
  - assert (Hni: ~ In internal_loc ps) by (intros Hin; apply str_mem_In in Hin; congruence).
    destruct (first_possible prios ps) as [p|] eqn:E.
    + rewrite (B1 Hni p eq_refl), (B2 Hni p eq_refl). reflexivity.
    + destruct H as [H|[H|H]]; [contradiction|congruence|].
      rewrite (C1 Hni eq_refl H), (C2 Hni eq_refl H). reflexivity.
Qed.

Theorem spec_locb_correct prios ps parent l :
  spec_locb prios ps parent l = true <-> spec_loc prios ps parent l.
Proof.
  unfold spec_locb, spec_loc. rewrite andb_true_iff, str_mem_In.
  destruct (str_mem internal_loc ps) eqn:Ei.
  - apply str_mem_In in Ei. rewrite String.eqb_eq. split.
    + intros [Hin ->]. split; [exact Hin|]. split; [reflexivity|]. split; intros Hn; contradiction.
    + intros (Hin & A & _). split; auto.
  - assert (Hni: ~ In internal_loc ps) by (intros Hin; apply str_mem_In in Hin; congruence).
    destruct (first_possible prios ps) as [p|] eqn:E.
    + rewrite String.eqb_eq. split.
      * intros [Hin ->]. split; [exact Hin|]. split; [intros H; contradiction|]. split; [intros _ q [= <-]; reflexivity|intros _ H; discriminate].
      * intros (Hin & _ & B & _). split; auto.
    + destruct (str_mem parent ps) eqn:Ep.
      * rewrite String.eqb_eq. apply str_mem_In in Ep. split.
        -- intros [Hin ->]. split; [exact Hin|]. split; [intros H; contradiction|]. split; [intros _ q H; discriminate|reflexivity].
        -- intros (Hin & _ & _ & C). split; auto.
      * assert (Hn: ~ In parent ps) by (intros Hin; apply str_mem_In in Hin; congruence).
        split.
        -- intros [Hin _]. split; [exact Hin|]. split; [intros H; contradiction|]. split; [intros _ q H; discriminate|intros _ _ H; contradiction].
        -- intros (Hin & _). split; auto.
Qed.

(* a field sent to location L stays at L when L's own step is planned *)
Theorem chooser_idempotent prios ps parent :
  selectLocation prios ps (selectLocation prios ps parent) = selectLocation prios ps parent.
Proof.
  unfold selectLocation. destruct ps as [|x [|y r]]; auto.
  - simpl. rewrite !fp_app. destruct (first_possible prios []); auto.
  - set (ps := x :: y :: r). destruct (str_mem internal_loc ps) eqn:Ei; [reflexivity|].
    rewrite !fp_app.
    destruct (first_possible prios ps) eqn:EP; auto.
    rewrite !fp_two. rewrite Ei.
    destruct (str_mem parent ps) eqn:Epar.
    + rewrite Epar. reflexivity.
    + assert (H: str_mem x ps = true) by (apply str_mem_In; simpl; auto).
      change (hd "" ps) with x. rewrite H. reflexivity.
Qed.

(* ---- the wrapper does not matter ---- *)

Section Route.
  Variables (prios : list string) (urls : urlmap) (ft : ftypes) (frags : list fragdef).

  (* the location of a plainly written field: the chooser applied to the services declaring it on
     the type it is selected on, with the enclosing field's location as parent *)
  Theorem route_field fuel ptype ploc path alias name args dirs sub l :
    route (S fuel) prios urls ft frags ptype ploc path (Field alias name args dirs sub) = Ok l ->
    exists possible rest,
      url_for urls ptype name = Ok possible /\
      l = {| r_path := path ++ [rkey alias name]; r_name := name; r_tcond := ptype;
             r_loc := selectLocation prios possible ploc |} :: rest.
  Proof.
    cbn [route]. destruct (url_for urls ptype name) as [possible| |]; cbn [bind]; try discriminate.
    intros H. exists possible. destruct sub as [|s0 sub'].
    - injection H as <-. eexists; split; reflexivity.
    - destruct (assoc (url_key ptype name) ft); try discriminate.
      match type of H with (bind ?X _ = _) => destruct X; cbn [bind] in H; try discriminate end.
      injection H as <-. eexists; split; reflexivity.
  Qed.

  (* inside [route (S fuel)] the traversal of a sub-selection is route itself *)
  Lemma route_one_is_route fuel ptype ploc path s :
    route (S fuel) prios urls ft frags ptype ploc path s =
    (fix route_one (ptype ploc : string) (path : list string) (s : sel) {struct s} : res (list routed) :=
         match s with
         | Field alias name _ _ sub =>
             possible <- url_for urls ptype name ;;
             let loc := selectLocation prios possible ploc in
             let here := {| r_path := path ++ [rkey alias name]; r_name := name; r_tcond := ptype; r_loc := loc |} in
             match sub with
             | [] => Ok [here]
             | _ => match assoc (url_key ptype name) ft with
                    | None => Err "no type for field"
                    | Some t => below <- route_map (route_one t loc (path ++ [rkey alias name])) sub ;; Ok (here :: below)
                    end
             end
         | Inline tcond _ sub =>
             route_map (route_one (if String.eqb tcond "" then ptype else tcond) ploc path) sub
         | Spread name _ =>
             match frag_for name frags with
             | None => Err "Could not find definition for fragment"
             | Some f => route_map (route fuel prios urls ft frags (f_tcond f) ploc path) (f_sel f)
             end
         end) ptype ploc path s.
  Proof. reflexivity. Qed.

  Lemma route_map_ext (f g : sel -> res (list routed)) l : (forall x, f x = g x) -> route_map f l = route_map g l.
  Proof. intros H. induction l as [|x r IH]; simpl; [reflexivity|]. rewrite H, IH. reflexivity. Qed.

  Theorem route_inline fuel ptype ploc path tcond dirs sub :
    route (S fuel) prios urls ft frags ptype ploc path (Inline tcond dirs sub) =
    route_sels (S fuel) prios urls ft frags (if String.eqb tcond "" then ptype else tcond) ploc path sub.
  Proof. unfold route_sels. cbn [route]. apply route_map_ext. intros x. reflexivity. Qed.

  Theorem route_spread fuel ptype ploc path name dirs f :
    frag_for name frags = Some f ->
    route (S fuel) prios urls ft frags ptype ploc path (Spread name dirs) =
    route_sels fuel prios urls ft frags (f_tcond f) ploc path (f_sel f).
  Proof. intros Hf. unfold route_sels. cbn [route]. rewrite Hf. reflexivity. Qed.
End Route.

(* Proofs about Gw/Merge.v.
   Semantic relations ("same signature") are stated as Props over name lookups; the code's
   pairwise mergers succeed only on related definitions, the merged value stays related to
   everything merged into it, hence a group of definitions of one name merges successfully only
   if its members are pairwise related, and related definitions are never [incompatible]. *)
From Coq Require Import String Ascii List Bool Arith Lia.
From GW Require Import Base.Res Base.GoStr Gql.Schema Gw.Merge Gw.MergeCheck Proofs.MergeBasics.
Import ListNotations.
Open Scope string_scope.
Open Scope list_scope.

(* ---------- arguments ---------- *)

Definition asig (c : bool) (l : list argdef) (n : string) : option (option ty * option gval) :=
  option_map (fun a => (ad_type a, if c then ad_default a else None)) (find_arg n l).

Definition asame (c : bool) (a b : list argdef) : Prop := forall n, asig c a n = asig c b n.

Lemma asame_refl c a : asame c a a. Proof. intros n; reflexivity. Qed.
Lemma asame_sym c a b : asame c a b -> asame c b a. Proof. intros H n; symmetry; apply H. Qed.
Lemma asame_trans c a b d : asame c a b -> asame c b d -> asame c a d.
Proof. intros H1 H2 n; rewrite H1; apply H2. Qed.

Lemma merge_argdef_ok ig p n r :
  merge_argdef ig p n = Ok r ->
  ad_type p = ad_type n /\ (ig = false -> ad_default p = ad_default n) /\
  ad_name r = ad_name p /\ ad_type r = ad_type p /\ ad_default r = ad_default p.
Proof.
  unfold merge_argdef. destruct (types_equal (ad_type p) (ad_type n)) eqn:Et; simpl; [|discriminate].
  apply types_equal_eq in Et.
  destruct ig; simpl.
  - destruct (dirlists_equal (ad_dirs p) (ad_dirs n)); simpl; [|discriminate].
    intros [= <-]. simpl. repeat split; auto. discriminate.
  - destruct (values_equal (ad_default p) (ad_default n)) eqn:Ev; simpl; [|discriminate].
    destruct (dirlists_equal (ad_dirs p) (ad_dirs n)); simpl; [|discriminate].
    apply values_equal_eq in Ev. intros [= <-]. simpl. repeat split; auto.
Qed.

Lemma merge_argdefs_ok ig a b r :
  merge_argdefs ig a b = Ok r -> NoDup (map ad_name a) ->
  asame (negb ig) a b /\ (forall c, asame c r a) /\ map ad_name r = map ad_name a.
Proof.
  unfold merge_argdefs. destruct (Nat.eqb (length a) (length b)) eqn:El; simpl; [|discriminate].
  apply Nat.eqb_eq in El. intros Hr Hnd.
  apply res_map_ok_elems in Hr.
  (* every argument of a has a partner in b *)
  assert (Hall: forall x, In x a -> exists y, find_arg (ad_name x) b = Some y /\
                 ad_type x = ad_type y /\ (ig = false -> ad_default x = ad_default y)).
  { intros x Hx. clear El Hnd. induction Hr as [|x0 y0 l l' Hxy Hrest IH]; [contradiction|].
    destruct Hx as [->|Hx]; [|apply IH; exact Hx].
    destruct (find_arg (ad_name x) b) as [y|]; [|discriminate].
    apply merge_argdef_ok in Hxy. exists y. tauto. }
  assert (Hincl: incl (map ad_name a) (map ad_name b)).
  { intros n Hn. apply in_map_iff in Hn. destruct Hn as [x [<- Hx]].
    destruct (Hall x Hx) as [y [Hy _]]. apply find_arg_Some in Hy. destruct Hy as [Hy <-]. apply in_map. exact Hy. }
  assert (Hincl': incl (map ad_name b) (map ad_name a)).
  { apply nodup_same_length_incl; auto. rewrite !map_length. exact El. }
  split; [|split].
  - intros n. unfold asig. destruct (find_arg n a) as [x|] eqn:Ea.
    + pose proof (find_arg_Some _ _ _ Ea) as [Hx Hn]. destruct (Hall x Hx) as [y [Hy [Ht Hd]]].
      rewrite Hn in Hy. rewrite Hy. simpl. rewrite Ht. destruct ig; simpl; auto. rewrite (Hd eq_refl). reflexivity.
    + destruct (find_arg n b) as [y|] eqn:Eb; auto. exfalso.
      apply find_arg_None in Ea. apply Ea. apply Hincl'. apply find_arg_Some in Eb. destruct Eb as [Hy <-]. apply in_map. exact Hy.
  - intros c n. unfold asig. clear Hall Hincl Hincl' El Hnd.
    induction Hr as [|x y l l' Hxy Hrest IH]; [reflexivity|].
    destruct (find_arg (ad_name x) b) as [z|]; [|discriminate].
    apply merge_argdef_ok in Hxy. destruct Hxy as (_ & _ & Hn & Ht & Hd).
    simpl. rewrite Hn. destruct (String.eqb (ad_name x) n); [simpl; rewrite Ht, Hd; reflexivity|exact IH].
  - clear Hall Hincl Hincl' El Hnd. induction Hr as [|x y l l' Hxy Hrest IH]; [reflexivity|].
    destruct (find_arg (ad_name x) b) as [z|]; [|discriminate].
    apply merge_argdef_ok in Hxy. destruct Hxy as (_ & _ & Hn & _). simpl. rewrite Hn, IH. reflexivity.
Qed.

(* related argument lists are not [argdefs_differ] *)
Lemma asame_not_differ c a b :
  NoDup (map ad_name a) -> asame c a b -> argdefs_differ c a b = false.
Proof.
  intros Hnd H. unfold argdefs_differ. apply orb_false_iff. split.
  - apply negb_false_iff. apply set_eqb_spec. split; intros n Hn.
    + destruct (find_arg n b) eqn:E; [apply find_arg_Some in E; destruct E as [Hy <-]; apply in_map; exact Hy|].
      exfalso. specialize (H n). unfold asig in H. rewrite E in H.
      destruct (find_arg n a) eqn:E2; [discriminate|]. apply find_arg_None in E2. contradiction.
    + destruct (find_arg n a) eqn:E; [apply find_arg_Some in E; destruct E as [Hy <-]; apply in_map; exact Hy|].
      exfalso. specialize (H n). unfold asig in H. rewrite E in H.
      destruct (find_arg n b) eqn:E2; [discriminate|]. apply find_arg_None in E2. contradiction.
  - apply not_true_iff_false. intros Hex. apply existsb_exists in Hex. destruct Hex as [x [Hx Hd]].
    destruct (find_arg (ad_name x) b) as [y|] eqn:Eb; [|discriminate].
    specialize (H (ad_name x)). unfold asig in H. rewrite Eb in H.
    rewrite (find_arg_In_nodup _ _ Hnd Hx) in H. simpl in H. injection H as Ht Hdf.
    apply orb_true_iff in Hd. destruct Hd as [Hd|Hd].
    + apply negb_true_iff in Hd. rewrite Ht in Hd.
      assert (E: opt_eqb ty_eqb (ad_type y) (ad_type y) = true) by (apply opt_eqb_eq; [apply ty_eqb_eq|reflexivity]).
      congruence.
    + apply andb_true_iff in Hd. destruct Hd as [Hc Hd]. subst c. apply negb_true_iff in Hd. rewrite Hdf in Hd.
      assert (E: opt_eqb gval_eqb (ad_default y) (ad_default y) = true) by (apply opt_eqb_eq; [apply gval_eqb_eq|reflexivity]).
      congruence.
Qed.

(* ---------- fields ---------- *)

Definition fsame (f g : fielddef) : Prop :=
  fd_type f = fd_type g /\ asame true (fd_args f) (fd_args g) /\ fd_default f = fd_default g.

Lemma fsame_refl f : fsame f f.
Proof. split; [reflexivity|split; [apply asame_refl|reflexivity]]. Qed.
Lemma fsame_sym f g : fsame f g -> fsame g f.
Proof. intros (A & B & C). split; [auto|split; [apply asame_sym; auto|auto]]. Qed.
Lemma fsame_trans f g h : fsame f g -> fsame g h -> fsame f h.
Proof. intros (A & B & C) (A' & B' & C'). split; [congruence|split; [eapply asame_trans; eauto|congruence]]. Qed.

Definition wf_field (f : fielddef) : Prop := NoDup (map ad_name (fd_args f)).

Lemma merge_field_ok f g m :
  merge_field f g = Ok m -> wf_field f ->
  fsame f g /\ fsame m f /\ fd_name m = fd_name f /\ wf_field m.
Proof.
  unfold merge_field, wf_field. intros H Hwf.
  destruct (types_equal (fd_type f) (fd_type g)) eqn:Et; simpl in H; [|discriminate].
  apply types_equal_eq in Et.
  destruct (merge_argdefs false (fd_args f) (fd_args g)) as [args| |] eqn:Ea; simpl in H; try discriminate.
  destruct (values_equal (fd_default f) (fd_default g)) eqn:Ev; simpl in H; [|discriminate].
  apply values_equal_eq in Ev.
  destruct (dirlists_equal (fd_dirs f) (fd_dirs g)); simpl in H; [|discriminate].
  injection H as <-. apply merge_argdefs_ok in Ea; auto. destruct Ea as (A & B & C).
  split; [|split; [|split]].
  - split; [exact Et|split; [exact A|exact Ev]].
  - split; [reflexivity|split; [apply B|reflexivity]].
  - reflexivity.
  - simpl. rewrite C. exact Hwf.
Qed.

Lemma fsame_not_differ f g : wf_field f -> fsame f g -> fields_differ f g = false.
Proof.
  intros Hwf (A & B & C). unfold fields_differ. rewrite A, C.
  rewrite (asame_not_differ true _ _ Hwf B).
  assert (E1: opt_eqb ty_eqb (fd_type g) (fd_type g) = true) by (apply opt_eqb_eq; [apply ty_eqb_eq|reflexivity]).
  assert (E2: opt_eqb gval_eqb (fd_default g) (fd_default g) = true) by (apply opt_eqb_eq; [apply gval_eqb_eq|reflexivity]).
  rewrite E1, E2. reflexivity.
Qed.

Definition rel_opt {A} (R : A -> A -> Prop) (a b : option A) : Prop :=
  match a, b with Some x, Some y => R x y | None, None => True | _, _ => False end.

Definition fl_same (a b : list fielddef) : Prop := forall n, rel_opt fsame (find_field n a) (find_field n b).
Definition fl_common (a b : list fielddef) : Prop :=
  forall n f g, find_field n a = Some f -> find_field n b = Some g -> fsame f g.

Lemma fl_same_sym a b : fl_same a b -> fl_same b a.
Proof. intros H n. specialize (H n). destruct (find_field n a), (find_field n b); simpl in *; auto. apply fsame_sym; auto. Qed.
Lemma fl_same_trans a b c : fl_same a b -> fl_same b c -> fl_same a c.
Proof.
  intros H1 H2 n. specialize (H1 n). specialize (H2 n).
  destruct (find_field n a), (find_field n b), (find_field n c); simpl in *; auto; try contradiction.
  eapply fsame_trans; eauto.
Qed.

(* the loop shared by mergeInterfaces and mergeFieldList *)
Definition match_fields (pfs nfs : list fielddef) : res (list fielddef) :=
  res_map (fun f => match find_field (fd_name f) nfs with
                    | None => Err "could not find field"
                    | Some g => merge_field f g
                    end) pfs.

Lemma match_fields_ok pfs nfs fs :
  match_fields pfs nfs = Ok fs -> length pfs = length nfs ->
  NoDup (map fd_name pfs) -> Forall wf_field pfs ->
  fl_same pfs nfs /\ fl_same fs pfs /\ map fd_name fs = map fd_name pfs /\ Forall wf_field fs.
Proof.
  unfold match_fields. intros Hr El Hnd Hwf. apply res_map_ok_elems in Hr.
  assert (Hall: forall x, In x pfs -> exists y, find_field (fd_name x) nfs = Some y /\ fsame x y).
  { intros x Hx. clear El Hnd. induction Hr as [|x0 y0 l l' Hxy Hrest IH]; [contradiction|].
    inversion Hwf; subst. destruct Hx as [->|Hx]; [|apply IH; auto].
    destruct (find_field (fd_name x) nfs) as [y|]; [|discriminate].
    apply merge_field_ok in Hxy; auto. exists y. tauto. }
  assert (Hincl: incl (map fd_name pfs) (map fd_name nfs)).
  { intros n Hn. apply in_map_iff in Hn. destruct Hn as [x [<- Hx]].
    destruct (Hall x Hx) as [y [Hy _]]. apply find_field_Some in Hy. destruct Hy as [Hy <-]. apply in_map. exact Hy. }
  assert (Hincl': incl (map fd_name nfs) (map fd_name pfs)).
  { apply nodup_same_length_incl; auto. rewrite !map_length. exact El. }
  split; [|split; [|split]].
  - intros n. destruct (find_field n pfs) as [x|] eqn:Ea.
    + pose proof (find_field_Some _ _ _ Ea) as [Hx Hn]. destruct (Hall x Hx) as [y [Hy Hs]].
      rewrite Hn in Hy. rewrite Hy. exact Hs.
    + destruct (find_field n nfs) as [y|] eqn:Eb; simpl; auto.
      apply find_field_None in Ea. apply Ea. apply Hincl'. apply find_field_Some in Eb. destruct Eb as [Hy <-]. apply in_map. exact Hy.
  - intros n. clear Hall Hincl Hincl' El Hnd.
    induction Hr as [|x y l l' Hxy Hrest IH]; [simpl; auto|].
    inversion Hwf; subst.
    destruct (find_field (fd_name x) nfs) as [z|]; [|discriminate].
    apply merge_field_ok in Hxy; auto. destruct Hxy as (_ & Hs & Hn & _).
    simpl. rewrite Hn. destruct (String.eqb (fd_name x) n); [exact Hs|apply IH; auto].
  - clear Hall Hincl Hincl' El Hnd. induction Hr as [|x y l l' Hxy Hrest IH]; [reflexivity|].
    inversion Hwf; subst.
    destruct (find_field (fd_name x) nfs) as [z|]; [|discriminate].
    apply merge_field_ok in Hxy; auto. destruct Hxy as (_ & _ & Hn & _). simpl. rewrite Hn, IH; auto.
  - clear Hall Hincl Hincl' El Hnd. induction Hr as [|x y l l' Hxy Hrest IH]; [constructor|].
    inversion Hwf; subst.
    destruct (find_field (fd_name x) nfs) as [z|]; [|discriminate].
    apply merge_field_ok in Hxy; auto. destruct Hxy as (_ & _ & _ & Hw). constructor; auto.
Qed.

Lemma fl_same_not_differ a b :
  NoDup (map fd_name a) -> Forall wf_field a -> fl_same a b ->
  set_eqb (names_of_fields a) (names_of_fields b) = true /\ common_field_differs a b = false.
Proof.
  intros Hnd Hwf H. split.
  - apply set_eqb_spec. unfold names_of_fields. split; intros n Hn.
    + specialize (H n). destruct (find_field n b) eqn:E; [apply find_field_Some in E; destruct E as [Hy <-]; apply in_map; exact Hy|].
      destruct (find_field n a) eqn:E2; [contradiction|]. apply find_field_None in E2. contradiction.
    + specialize (H n). destruct (find_field n a) eqn:E; [apply find_field_Some in E; destruct E as [Hy <-]; apply in_map; exact Hy|].
      destruct (find_field n b) eqn:E2; [contradiction|]. apply find_field_None in E2. contradiction.
  - apply not_true_iff_false. intros Hex. apply existsb_exists in Hex. destruct Hex as [x [Hx Hd]].
    destruct (find_field (fd_name x) b) as [y|] eqn:Eb; [|discriminate].
    specialize (H (fd_name x)). rewrite (find_field_In_nodup _ _ Hnd Hx), Eb in H. simpl in H.
    rewrite Forall_forall in Hwf. rewrite (fsame_not_differ _ _ (Hwf x Hx) H) in Hd. discriminate.
Qed.

Lemma fl_common_not_differ a b :
  NoDup (map fd_name a) -> Forall wf_field a -> fl_common a b -> common_field_differs a b = false.
Proof.
  intros Hnd Hwf H. apply not_true_iff_false. intros Hex. apply existsb_exists in Hex. destruct Hex as [x [Hx Hd]].
  destruct (find_field (fd_name x) b) as [y|] eqn:Eb; [|discriminate].
  pose proof (H (fd_name x) x y (find_field_In_nodup _ _ Hnd Hx) Eb) as Hs.
  rewrite Forall_forall in Hwf. rewrite (fsame_not_differ _ _ (Hwf x Hx) Hs) in Hd. discriminate.
Qed.

(* ---------- definitions ---------- *)

Definition wf_def (d : definition) : Prop :=
  NoDup (map fd_name (df_fields d)) /\ Forall wf_field (df_fields d) /\
  NoDup (map ev_name (df_enums d)) /\ NoDup (df_members d).

Definition names_same (a b : list string) : Prop := forall n, In n a <-> In n b.

(* "same signature" per kind; for objects: the fields both declare agree *)
Definition drel (a b : definition) : Prop :=
  df_kind a = df_kind b /\
  match df_kind a with
  | KObject => fl_common (df_fields a) (df_fields b)
  | KInterface | KInputObject => fl_same (df_fields a) (df_fields b)
  | KEnum => names_same (map ev_name (df_enums a)) (map ev_name (df_enums b))
  | KUnion => names_same (df_members a) (df_members b)
  | KScalar => True
  end.

Lemma kind_eqb_eq a b : kind_eqb a b = true <-> a = b.
Proof. destruct a, b; simpl; split; try discriminate; auto. Qed.

Lemma names_same_set_eqb a b : names_same a b -> set_eqb a b = true.
Proof. intros H. apply set_eqb_spec. split; intros n Hn; apply H; auto. Qed.

Theorem drel_not_incompatible a b : wf_def a -> drel a b -> incompatible a b = false.
Proof.
  intros (Hnd & Hwf & _ & _) [Hk H]. unfold incompatible.
  assert (Ek: kind_eqb (df_kind a) (df_kind b) = true) by (apply kind_eqb_eq; exact Hk).
  rewrite Ek. simpl. destruct (df_kind a).
  - reflexivity.
  - apply fl_common_not_differ; auto.
  - destruct (fl_same_not_differ _ _ Hnd Hwf H) as [E1 E2]. rewrite E1, E2. reflexivity.
  - rewrite (names_same_set_eqb _ _ H). reflexivity.
  - rewrite (names_same_set_eqb _ _ H). reflexivity.
  - destruct (fl_same_not_differ _ _ Hnd Hwf H) as [E1 E2]. rewrite E1, E2. reflexivity.
Qed.

(* ---- interfaces / inputs ---- *)

Lemma merge_interfaces_ok p n p' :
  merge_interfaces p n = Ok p' -> wf_def p ->
  fl_same (df_fields p) (df_fields n) /\ fl_same (df_fields p') (df_fields p) /\
  df_kind p' = df_kind p /\ wf_def p'.
Proof.
  unfold merge_interfaces. intros H (Hnd & Hwf & He & Hm).
  destruct (Nat.eqb (length (df_fields p)) (length (df_fields n))) eqn:El; simpl in H; [|discriminate].
  apply Nat.eqb_eq in El.
  match type of H with (bind ?X _ = _) => destruct X as [fs| |] eqn:Er; simpl in H; try discriminate end.
  destruct (dirlists_equal (df_dirs p) (df_dirs n)); simpl in H; [|discriminate].
  injection H as <-. change (match_fields (df_fields p) (df_fields n) = Ok fs) in Er.
  destruct (match_fields_ok _ _ _ Er El Hnd Hwf) as (A & B & C & D).
  repeat split; simpl; auto. rewrite C. exact Hnd.
Qed.

Lemma merge_inputs_ok p n p' :
  merge_inputs p n = Ok p' -> wf_def p ->
  fl_same (df_fields p) (df_fields n) /\ p' = p.
Proof.
  unfold merge_inputs. intros H (Hnd & Hwf & He & Hm).
  destruct (Nat.eqb (length (df_fields p)) (length (df_fields n))) eqn:El; simpl in H; [|discriminate].
  apply Nat.eqb_eq in El.
  match type of H with (bind ?X _ = _) => destruct X as [fs| |] eqn:Er; simpl in H; try discriminate end.
  destruct (dirlists_equal (df_dirs p) (df_dirs n)); simpl in H; [|discriminate].
  injection H as <-. change (match_fields (df_fields p) (df_fields n) = Ok fs) in Er.
  destruct (match_fields_ok _ _ _ Er El Hnd Hwf) as (A & _). auto.
Qed.

(* ---- enums ---- *)

Lemma enum_match_ok (ns : list enumval) : forall vs out,
  res_map (fun v => match find_enum (ev_name v) ns with
                    | None => Err "inconsistent enum"
                    | Some w => if negb (dirlists_equal (ev_dirs v) (ev_dirs w)) then Err "enum value directives"
                                else Ok {| ev_name := ev_name v; ev_desc := first_desc (ev_desc v) (ev_desc w);
                                           ev_dirs := ev_dirs v |}
                    end) vs = Ok out ->
  incl (map ev_name vs) (map ev_name ns) /\ map ev_name out = map ev_name vs.
Proof.
  induction vs as [|v r IH]; simpl; intros out H.
  - injection H as <-. split; [intros x []|reflexivity].
  - destruct (find_enum (ev_name v) ns) as [w|] eqn:E; simpl in H; [|discriminate].
    destruct (dirlists_equal (ev_dirs v) (ev_dirs w)); simpl in H; [|discriminate].
    match type of H with (bind ?X _ = _) => destruct X as [out'| |] eqn:Er; simpl in H; try discriminate end.
    injection H as <-. specialize (IH out' eq_refl). destruct IH as [A B]. split.
    + intros x [<-|Hx]; [|apply A; exact Hx].
      destruct (in_dec string_dec (ev_name v) (map ev_name ns)) as [Hin|Hnin]; auto.
      apply find_enum_None in Hnin. congruence.
    + simpl. rewrite B. reflexivity.
Qed.

Lemma merge_enums_ok p n p' :
  merge_enums p n = Ok p' -> is_internal_name (df_name p) = false -> wf_def p ->
  names_same (map ev_name (df_enums p)) (map ev_name (df_enums n)) /\
  map ev_name (df_enums p') = map ev_name (df_enums p) /\
  df_kind p' = df_kind p /\ df_fields p' = df_fields p /\ df_members p' = df_members p.
Proof.
  unfold merge_enums. intros H Hint (Hnd & Hwf & He & Hm). rewrite Hint in H.
  destruct (Nat.eqb (length (df_enums p)) (length (df_enums n))) eqn:El; simpl in H; [|discriminate].
  apply Nat.eqb_eq in El.
  match type of H with (bind ?X _ = _) => destruct X as [vs| |] eqn:Er; simpl in H; try discriminate end.
  destruct (dirlists_equal (df_dirs p) (df_dirs n)); simpl in H; [|discriminate].
  injection H as <-. simpl. destruct (enum_match_ok _ _ _ Er) as [Hincl Hmap].
  assert (Hincl': incl (map ev_name (df_enums n)) (map ev_name (df_enums p))).
  { apply nodup_same_length_incl; auto. rewrite !map_length. exact El. }
  split; [|split; [exact Hmap|repeat split]].
  intros x; split; intros Hx; [apply Hincl|apply Hincl']; exact Hx.
Qed.

(* ---- unions ---- *)

Lemma merge_unions_ok p n p' :
  merge_unions p n = Ok p' -> NoDup (df_members n) ->
  names_same (df_members p) (df_members n) /\ p' = p.
Proof.
  unfold merge_unions, slices_equivalent. intros H Hnd.
  destruct (Nat.eqb (length (df_members p)) (length (df_members n)) &&
            forallb (fun x => str_mem x (df_members p)) (df_members n)) eqn:E; [|discriminate].
  destruct (dirlists_equal (df_dirs p) (df_dirs n)); simpl in H; [|discriminate].
  injection H as <-. apply andb_true_iff in E. destruct E as [El Hs]. apply Nat.eqb_eq in El.
  assert (Hincl: incl (df_members n) (df_members p)) by (apply subset_incl; exact Hs).
  assert (Hincl': incl (df_members p) (df_members n)) by (apply nodup_same_length_incl; auto).
  split; auto. intros x; split; intros Hx; [apply Hincl'|apply Hincl]; exact Hx.
Qed.

(* ---- objects ---- *)

Lemma find_replace_field m acc n :
  find_field (fd_name m) acc <> None ->
  find_field n (replace_field m acc) = if String.eqb (fd_name m) n then Some m else find_field n acc.
Proof.
  induction acc as [|g r IH]; simpl; intros H; [congruence|].
  destruct (String.eqb (fd_name g) (fd_name m)) eqn:E.
  - apply String.eqb_eq in E. simpl. rewrite E. destruct (String.eqb (fd_name m) n); reflexivity.
  - simpl. destruct (String.eqb (fd_name g) n) eqn:E2.
    + apply String.eqb_eq in E2. destruct (String.eqb (fd_name m) n) eqn:E3; auto.
      apply String.eqb_eq in E3. apply String.eqb_neq in E. congruence.
    + apply IH. exact H.
Qed.

Lemma find_app_one acc nf n :
  find_field n (acc ++ [nf]) =
  match find_field n acc with Some f => Some f | None => if String.eqb (fd_name nf) n then Some nf else None end.
Proof. induction acc as [|g r IH]; simpl; auto. destruct (String.eqb (fd_name g) n); auto. Qed.

Lemma Forall_replace_field m acc : wf_field m -> Forall wf_field acc -> Forall wf_field (replace_field m acc).
Proof.
  intros Hm H. induction H as [|g r Hg Hr IH]; simpl; [constructor|].
  destruct (String.eqb (fd_name g) (fd_name m)); constructor; auto.
Qed.

Lemma merge_object_fields_ok : forall news acc out,
  merge_object_fields acc news = Ok out ->
  NoDup (map fd_name news) -> Forall wf_field acc -> Forall wf_field news ->
  (forall n f, find_field n acc = Some f -> exists m, find_field n out = Some m /\ fsame m f) /\
  (forall n g, find_field n news = Some g -> exists m, find_field n out = Some m /\ fsame m g) /\
  (forall n f g, find_field n acc = Some f -> find_field n news = Some g -> fsame f g) /\
  Forall wf_field out.
Proof.
  induction news as [|nf r IH]; intros acc out H Hnd Hwa Hwn.
  - simpl in H. injection H as <-. split; [|split; [|split; [|exact Hwa]]].
    + intros n f Hf. exists f. split; [exact Hf|apply fsame_refl].
    + intros n g Hg. discriminate.
    + intros n f g _ Hg. discriminate.
  - simpl in H. inversion Hnd as [|? ? Hnotin Hnd']; subst. inversion Hwn as [|? ? Hwnf Hwr]; subst.
    destruct (find_field (fd_name nf) acc) as [pf|] eqn:Ef.
    + destruct (merge_field pf nf) as [m| |] eqn:Em; simpl in H; try discriminate.
      pose proof (find_field_Some _ _ _ Ef) as [Hpfin Hpfn].
      assert (Hwpf: wf_field pf) by (rewrite Forall_forall in Hwa; apply Hwa; exact Hpfin).
      destruct (merge_field_ok _ _ _ Em Hwpf) as (Hs1 & Hs2 & Hmn & Hwm).
      assert (Hne: find_field (fd_name m) acc <> None) by (rewrite Hmn, Hpfn, Ef; discriminate).
      destruct (IH _ _ H Hnd' (Forall_replace_field _ _ Hwm Hwa) Hwr) as (A & B & C & D).
      assert (Hmname: fd_name m = fd_name nf) by congruence.
      split; [|split; [|split; [|exact D]]].
      * intros n f Hf. destruct (String.eqb (fd_name nf) n) eqn:E.
        -- apply String.eqb_eq in E. subst n. rewrite Ef in Hf. injection Hf as <-.
           destruct (A (fd_name nf) m) as [m' [Hm' Hs']].
           { rewrite find_replace_field by exact Hne. rewrite Hmname, String.eqb_refl. reflexivity. }
           exists m'. split; auto. eapply fsame_trans; eauto.
        -- apply (A n f). rewrite find_replace_field by exact Hne. rewrite Hmname, E. exact Hf.
      * intros n g Hg. simpl in Hg. destruct (String.eqb (fd_name nf) n) eqn:E.
        -- injection Hg as <-. apply String.eqb_eq in E. subst n.
           destruct (A (fd_name nf) m) as [m' [Hm' Hs']].
           { rewrite find_replace_field by exact Hne. rewrite Hmname, String.eqb_refl. reflexivity. }
           exists m'. split; auto. eapply fsame_trans; [exact Hs'|]. eapply fsame_trans; [exact Hs2|exact Hs1].
        -- apply (B n g Hg).
      * intros n f g Hf Hg. simpl in Hg. destruct (String.eqb (fd_name nf) n) eqn:E.
        -- injection Hg as <-. apply String.eqb_eq in E. subst n. rewrite Ef in Hf. injection Hf as <-. exact Hs1.
        -- apply (C n f g); auto. rewrite find_replace_field by exact Hne. rewrite Hmname, E. exact Hf.
    + assert (Hwa': Forall wf_field (acc ++ [nf])) by (apply Forall_app; split; auto).
      destruct (IH _ _ H Hnd' Hwa' Hwr) as (A & B & C & D).
      split; [|split; [|split; [|exact D]]].
      * intros n f Hf. apply (A n f). rewrite find_app_one, Hf. reflexivity.
      * intros n g Hg. simpl in Hg. destruct (String.eqb (fd_name nf) n) eqn:E.
        -- injection Hg as <-. apply String.eqb_eq in E. subst n.
           apply (A (fd_name nf) nf). rewrite find_app_one, Ef, String.eqb_refl. reflexivity.
        -- apply (B n g Hg).
      * intros n f g Hf Hg. simpl in Hg. destruct (String.eqb (fd_name nf) n) eqn:E.
        -- apply String.eqb_eq in E. subst n. congruence.
        -- apply (C n f g); auto. rewrite find_app_one, Hf. reflexivity.
Qed.

Lemma merge_objects_ok p n p' :
  merge_objects p n = Ok p' -> NoDup (map fd_name (df_fields n)) ->
  Forall wf_field (df_fields p) -> Forall wf_field (df_fields n) ->
  (forall nm f, find_field nm (df_fields p) = Some f -> exists m, find_field nm (df_fields p') = Some m /\ fsame m f) /\
  (forall nm g, find_field nm (df_fields n) = Some g -> exists m, find_field nm (df_fields p') = Some m /\ fsame m g) /\
  fl_common (df_fields p) (df_fields n) /\ Forall wf_field (df_fields p') /\
  df_kind p' = df_kind p /\ df_name p' = df_name p.
Proof.
  unfold merge_objects. intros H Hnd Hwp Hwn.
  destruct (merge_object_fields (df_fields p) (df_fields n)) as [fs| |] eqn:Ef; simpl in H; try discriminate.
  destruct (dirlists_equal (df_dirs p) (df_dirs n)); simpl in H; [|discriminate].
  injection H as <-. simpl.
  destruct (merge_object_fields_ok _ _ _ Ef Hnd Hwp Hwn) as (A & B & C & D).
  split; [exact A|split; [exact B|split; [exact C|split; [exact D|split; reflexivity]]]].
Qed.

(* ---------- drel is symmetric; an equivalence away from objects ---------- *)

Lemma names_same_sym a b : names_same a b -> names_same b a.
Proof. intros H n. symmetry. apply H. Qed.
Lemma names_same_trans a b c : names_same a b -> names_same b c -> names_same a c.
Proof. intros H1 H2 n. specialize (H1 n). specialize (H2 n). tauto. Qed.

Lemma fl_common_sym a b : fl_common a b -> fl_common b a.
Proof. intros H n f g Hf Hg. apply fsame_sym. eapply H; eauto. Qed.

Lemma fl_same_refl a : fl_same a a.
Proof. intros n. destruct (find_field n a); simpl; auto. apply fsame_refl. Qed.

Lemma drel_refl a : drel a a.
Proof.
  split; [reflexivity|]. destruct (df_kind a); auto; try apply fl_same_refl; try (intros n; tauto).
  intros n f g Hf Hg. rewrite Hf in Hg. injection Hg as <-. apply fsame_refl.
Qed.

Lemma drel_sym a b : drel a b -> drel b a.
Proof.
  intros [Hk H]. split; [auto|]. rewrite <- Hk. destruct (df_kind a); auto.
  - apply fl_common_sym; auto.
  - apply fl_same_sym; auto.
  - apply names_same_sym; auto.
  - apply names_same_sym; auto.
  - apply fl_same_sym; auto.
Qed.

Lemma drel_trans a b c : df_kind a <> KObject -> drel a b -> drel b c -> drel a c.
Proof.
  intros Hno [Hk1 H1] [Hk2 H2]. split; [congruence|]. rewrite <- Hk1 in H2.
  destruct (df_kind a); auto; try congruence.
  - eapply fl_same_trans; eauto.
  - eapply names_same_trans; eauto.
  - eapply names_same_trans; eauto.
  - eapply fl_same_trans; eauto.
Qed.

(* ---------- one step of the loop over the definitions of one name ---------- *)

Definition covers (p d : definition) : Prop :=
  df_kind p = df_kind d /\
  match df_kind d with
  | KObject => forall nm f, find_field nm (df_fields d) = Some f ->
                            exists m, find_field nm (df_fields p) = Some m /\ fsame m f
  | _ => drel p d
  end.

Definition wf_acc (p : definition) : Prop :=
  Forall wf_field (df_fields p) /\ (df_kind p <> KObject -> wf_def p).

Lemma wf_def_acc d : wf_def d -> wf_acc d.
Proof. intros H. split; [apply H|intros _; exact H]. Qed.

Lemma covers_self d : covers d d.
Proof.
  split; [reflexivity|]. destruct (df_kind d) eqn:E; try apply drel_refl.
  intros nm f Hf. exists f. split; [exact Hf|apply fsame_refl].
Qed.

Lemma merge2_step p n p' :
  merge2 p n = Ok p' ->
  is_internal_name (df_name n) = false -> is_internal_name (df_name p) = false ->
  wf_acc p -> wf_def n ->
  wf_acc p' /\ df_name p' = df_name p /\ df_kind p' = df_kind p /\ covers p' n /\
  (forall d, covers p d -> covers p' d /\ drel d n).
Proof.
  unfold merge2. intros H Hin Hip [Hwfp Hwp] Hwn. rewrite Hin in H.
  destruct (kind_eqb (df_kind p) (df_kind n)) eqn:Ek; simpl in H; [|discriminate].
  apply kind_eqb_eq in Ek.
  destruct (df_kind n) eqn:Kn.
  - (* scalar *)
    unfold merge_scalars in H. destruct (dirlists_equal (df_dirs p) (df_dirs n)); simpl in H; [|discriminate].
    injection H as <-. assert (Hno: df_kind p <> KObject) by congruence.
    split; [|split; [reflexivity|split; [reflexivity|split]]].
    + split; [exact Hwfp|]. intros _. apply (Hwp Hno).
    + split; [simpl; congruence|]. rewrite Kn. split; [simpl; congruence|]. simpl. rewrite Ek. exact I.
    + intros d [Hkd Hd]. assert (Kd: df_kind d = KScalar) by congruence. rewrite Kd in Hd. split.
      * split; [simpl; congruence|]. rewrite Kd. destruct Hd as [_ Hd]. split; [simpl; congruence|]. simpl. rewrite Ek. exact I.
      * split; [congruence|]. rewrite Kd. exact I.
  - (* object *)
    destruct Hwn as (Hndn & Hwfn & _).
    destruct (merge_objects_ok _ _ _ H Hndn Hwfp Hwfn) as (A & B & C & D & E & F).
    split; [|split; [exact F|split; [exact E|split]]].
    + split; [exact D|]. intros Hno. congruence.
    + split; [congruence|]. rewrite Kn. exact B.
    + intros d [Hkd Hd]. assert (Kd: df_kind d = KObject) by congruence. rewrite Kd in Hd. split.
      * split; [congruence|]. rewrite Kd. intros nm f Hf. destruct (Hd nm f Hf) as [m [Hm Hs]].
        destruct (A nm m Hm) as [m' [Hm' Hs']]. exists m'. split; auto. eapply fsame_trans; eauto.
      * split; [congruence|]. rewrite Kd. intros nm f g Hf Hg. destruct (Hd nm f Hf) as [m [Hm Hs]].
        pose proof (C nm m g Hm Hg) as Hs2. eapply fsame_trans; [apply fsame_sym; exact Hs|exact Hs2].
  - (* interface *)
    assert (Hno: df_kind p <> KObject) by congruence. pose proof (Hwp Hno) as Hwd.
    destruct (merge_interfaces_ok _ _ _ H Hwd) as (A & B & C & D).
    assert (Hpn: drel p n) by (split; [congruence|rewrite Ek; exact A]).
    assert (Hp'p: drel p' p) by (split; [exact C|rewrite C, Ek; exact B]).
    assert (Hno': df_kind p' <> KObject) by congruence.
    split; [|split; [|split; [exact C|split]]].
    + split; [apply D|intros _; exact D].
    + unfold merge_interfaces in H. destruct (negb _) in H; [discriminate|].
      match type of H with (bind ?X _ = _) => destruct X; simpl in H; try discriminate end.
      destruct (negb _) in H; [discriminate|]. injection H as <-. reflexivity.
    + split; [congruence|]. rewrite Kn. eapply drel_trans; eauto.
    + intros d [Hkd Hd]. assert (Kd: df_kind d = KInterface) by congruence. rewrite Kd in Hd. split.
      * split; [congruence|]. rewrite Kd. eapply drel_trans; eauto.
      * eapply drel_trans; [congruence|apply drel_sym; exact Hd|exact Hpn].
  - (* union *)
    assert (Hno: df_kind p <> KObject) by congruence.
    destruct Hwn as (_ & _ & _ & Hndm).
    destruct (merge_unions_ok _ _ _ H Hndm) as (A & ->).
    assert (Hpn: drel p n) by (split; [congruence|rewrite Ek; exact A]).
    split; [|split; [reflexivity|split; [reflexivity|split]]].
    + split; [exact Hwfp|exact Hwp].
    + split; [congruence|]. rewrite Kn. exact Hpn.
    + intros d [Hkd Hd]. assert (Kd: df_kind d = KUnion) by congruence. rewrite Kd in Hd. split.
      * split; [congruence|]. rewrite Kd. exact Hd.
      * eapply drel_trans; [congruence|apply drel_sym; exact Hd|exact Hpn].
  - (* enum *)
    assert (Hno: df_kind p <> KObject) by congruence. pose proof (Hwp Hno) as Hwd.
    destruct (merge_enums_ok _ _ _ H Hip Hwd) as (A & B & C & D & E).
    assert (Hpn: drel p n) by (split; [congruence|rewrite Ek; exact A]).
    assert (Hp'p: drel p' p).
    { split; [exact C|]. rewrite C, Ek. intros x. rewrite B. tauto. }
    assert (Hno': df_kind p' <> KObject) by congruence.
    assert (Hwd': wf_def p').
    { destruct Hwd as (W1 & W2 & W3 & W4). unfold wf_def. rewrite D, B, E. auto. }
    split; [|split; [|split; [exact C|split]]].
    + split; [apply Hwd'|intros _; exact Hwd'].
    + unfold merge_enums in H. rewrite Hip in H. destruct (negb _) in H; [discriminate|].
      match type of H with (bind ?X _ = _) => destruct X; simpl in H; try discriminate end.
      destruct (negb _) in H; [discriminate|]. injection H as <-. reflexivity.
    + split; [congruence|]. rewrite Kn. eapply drel_trans; eauto.
    + intros d [Hkd Hd]. assert (Kd: df_kind d = KEnum) by congruence. rewrite Kd in Hd. split.
      * split; [congruence|]. rewrite Kd. eapply drel_trans; eauto.
      * eapply drel_trans; [congruence|apply drel_sym; exact Hd|exact Hpn].
  - (* input *)
    assert (Hno: df_kind p <> KObject) by congruence. pose proof (Hwp Hno) as Hwd.
    destruct (merge_inputs_ok _ _ _ H Hwd) as (A & ->).
    assert (Hpn: drel p n) by (split; [congruence|rewrite Ek; exact A]).
    split; [|split; [reflexivity|split; [reflexivity|split]]].
    + split; [exact Hwfp|exact Hwp].
    + split; [congruence|]. rewrite Kn. exact Hpn.
    + intros d [Hkd Hd]. assert (Kd: df_kind d = KInputObject) by congruence. rewrite Kd in Hd. split.
      * split; [congruence|]. rewrite Kd. exact Hd.
      * eapply drel_trans; [congruence|apply drel_sym; exact Hd|exact Hpn].
Qed.

(* ---------- the whole group of definitions of one name ---------- *)

Definition ok_def (d : definition) : Prop := is_internal_name (df_name d) = false /\ wf_def d.

Lemma merge_group_pairwise : forall ds p out earlier,
  merge_group p ds = Ok out ->
  is_internal_name (df_name p) = false -> wf_acc p -> Forall ok_def ds ->
  (forall d, In d earlier -> covers p d) ->
  (forall d x, In d earlier -> In x ds -> drel d x) /\ ForallOrdPairs drel ds /\
  df_kind out = df_kind p /\ df_name out = df_name p.
Proof.
  induction ds as [|n r IH]; intros p out earlier H Hip Hwp Hok Hcov.
  - simpl in H. injection H as <-. split; [intros d x _ []|split; [constructor|split; reflexivity]].
  - simpl in H. destruct (merge2 p n) as [p'| |] eqn:E; simpl in H; try discriminate.
    inversion Hok as [|? ? [Hin Hwn] Hok']; subst.
    destruct (merge2_step _ _ _ E Hin Hip Hwp Hwn) as (Hwp' & Hname & Hkind & Hcn & Hstep).
    assert (Hip': is_internal_name (df_name p') = false) by (rewrite Hname; exact Hip).
    assert (Hcov': forall d, In d (n :: earlier) -> covers p' d).
    { intros d [<-|Hd]; [exact Hcn|]. apply Hstep. apply Hcov. exact Hd. }
    destruct (IH _ _ _ H Hip' Hwp' Hok' Hcov') as (A & B & C & D).
    split; [|split; [|split; congruence]].
    + intros d x Hd [<-|Hx].
      * apply Hstep. apply Hcov. exact Hd.
      * apply A; [right; exact Hd|exact Hx].
    + constructor; [|exact B]. apply Forall_forall. intros x Hx. apply A; [left; reflexivity|exact Hx].
Qed.

Theorem group_ok_pairwise d ds out :
  merge_group d ds = Ok out -> Forall ok_def (d :: ds) ->
  ForallOrdPairs drel (d :: ds) /\ df_kind out = df_kind d /\ df_name out = df_name d.
Proof.
  intros H Hok. inversion Hok as [|? ? [Hin Hwf] Hok']; subst.
  destruct (merge_group_pairwise ds d out [d] H Hin (wf_def_acc _ Hwf) Hok') as (A & B & C & D).
  { intros x [<-|[]]. apply covers_self. }
  split; [|split; assumption]. constructor; [|exact B].
  apply Forall_forall. intros x Hx. apply A; [left; reflexivity|exact Hx].
Qed.

(* any two members of a successfully merged group are related, hence not incompatible *)
Theorem group_ok_no_incompatible d ds out a b :
  merge_group d ds = Ok out -> Forall ok_def (d :: ds) ->
  In a (d :: ds) -> In b (d :: ds) -> incompatible a b = false.
Proof.
  intros H Hok Ha Hb. destruct (group_ok_pairwise _ _ _ H Hok) as [Hp _].
  assert (Hwa: wf_def a) by (rewrite Forall_forall in Hok; apply Hok; exact Ha).
  apply drel_not_incompatible; [exact Hwa|].
  destruct (ForallOrdPairs_In Hp _ _ Ha Hb) as [->|[Hr|Hr]].
  - apply drel_refl.
  - exact Hr.
  - apply drel_sym. exact Hr.
Qed.

(* ---------- all the definitions of all the services ---------- *)

Lemma dedup_In l x : In x (dedup l) <-> In x l.
Proof.
  induction l as [|y r IH]; simpl; [tauto|]. rewrite filter_In, IH, negb_true_iff.
  destruct (String.eqb y x) eqn:E.
  - apply String.eqb_eq in E. subst. split; auto.
  - apply String.eqb_neq in E. split; [intros [->|[H _]]; auto|intros [H|H]; auto; congruence].
Qed.

Lemma group_by_In {A} (name : A -> string) l k xs :
  In (k, xs) (group_by name l) <-> In k (map name l) /\ xs = filter (fun x => String.eqb (name x) k) l.
Proof.
  unfold group_by. rewrite in_map_iff. split.
  - intros [k' [E Hk]]. injection E as <- <-. apply (proj1 (dedup_In _ _)) in Hk. split; [exact Hk|reflexivity].
  - intros [Hk ->]. exists k. split; auto. apply (proj2 (dedup_In _ _)). exact Hk.
Qed.

Lemma is_iface_kind d : is_iface d = true <-> df_kind d = KInterface.
Proof. unfold is_iface. apply kind_eqb_eq. Qed.

Lemma find_def_Some n l d : find_def n l = Some d -> In d l /\ df_name d = n.
Proof.
  induction l as [|x r IH]; simpl; [discriminate|].
  destruct (String.eqb (df_name x) n) eqn:E.
  - intros [= <-]. apply String.eqb_eq in E. auto.
  - intros H. destruct (IH H). auto.
Qed.

Lemma find_def_None n l : find_def n l = None -> forall d, In d l -> df_name d <> n.
Proof.
  induction l as [|x r IH]; simpl; intros H d Hd; [contradiction|].
  destruct (String.eqb (df_name x) n) eqn:E; [discriminate|].
  destruct Hd as [<-|Hd]; [apply String.eqb_neq; exact E|apply IH; auto].
Qed.

Lemma merge_named_group_ok (g : string * list definition) out :
  merge_named_group g = Ok out -> exists d ds, snd g = d :: ds /\ merge_group d ds = Ok out.
Proof. unfold merge_named_group. destruct (snd g) as [|d ds]; [discriminate|]. intros H. eauto. Qed.

Lemma merge2_name_kind p n p' : merge2 p n = Ok p' -> df_name p' = df_name p /\ df_kind p' = df_kind p.
Proof.
  unfold merge2. destruct (is_internal_name (df_name n)); [intros [= <-]; auto|].
  destruct (negb (kind_eqb (df_kind p) (df_kind n))); [discriminate|].
  destruct (df_kind n).
  - unfold merge_scalars. destruct (negb _); [discriminate|]. intros [= <-]. auto.
  - unfold merge_objects. destruct (merge_object_fields _ _); simpl; try discriminate.
    destruct (negb _); [discriminate|]. intros [= <-]. auto.
  - unfold merge_interfaces. destruct (negb _); [discriminate|].
    match goal with |- (bind ?X _ = _) -> _ => destruct X; simpl; try discriminate end.
    destruct (negb _); [discriminate|]. intros [= <-]. auto.
  - unfold merge_unions. destruct (slices_equivalent _ _); [|discriminate].
    destruct (negb _); [discriminate|]. intros [= <-]. auto.
  - unfold merge_enums. destruct (is_internal_name (df_name p)); [intros [= <-]; auto|].
    destruct (negb _); [discriminate|].
    match goal with |- (bind ?X _ = _) -> _ => destruct X; simpl; try discriminate end.
    destruct (negb _); [discriminate|]. intros [= <-]. auto.
  - unfold merge_inputs. destruct (negb _); [discriminate|].
    match goal with |- (bind ?X _ = _) -> _ => destruct X; simpl; try discriminate end.
    destruct (negb _); [discriminate|]. intros [= <-]. auto.
Qed.

Lemma merge_group_name_kind : forall ds p out, merge_group p ds = Ok out -> df_name out = df_name p /\ df_kind out = df_kind p.
Proof.
  induction ds as [|n r IH]; simpl; intros p out H.
  - injection H as <-. auto.
  - destruct (merge2 p n) as [p'| |] eqn:E; simpl in H; try discriminate.
    destruct (merge2_name_kind _ _ _ E) as [A B]. destruct (IH _ _ H) as [C D]. split; congruence.
Qed.

Lemma merge_group_kind_mismatch i d ds out :
  is_internal_name (df_name d) = false -> df_kind i <> df_kind d -> merge_group i (d :: ds) = Ok out -> False.
Proof.
  intros Hin Hk. simpl. unfold merge2. rewrite Hin.
  destruct (kind_eqb (df_kind i) (df_kind d)) eqn:E; [apply kind_eqb_eq in E; contradiction|].
  simpl. discriminate.
Qed.

Theorem merge_types_ok_no_incompatible all out a b :
  merge_types all = Ok out -> Forall wf_def all ->
  In a all -> In b all -> df_name a = df_name b -> is_internal_name (df_name a) = false ->
  incompatible a b = false.
Proof.
  unfold merge_types. intros H Hwf Ha Hb Hname Hint.
  set (ifs := filter is_iface all) in *. set (ots := filter (fun d => negb (is_iface d)) all) in *.
  destruct (res_map merge_named_group (group_by df_name ifs)) as [mi| |] eqn:Ei; simpl in H; try discriminate.
  match type of H with (bind ?X _ = _) => destruct X as [mo| |] eqn:Eo; simpl in H; try discriminate end.
  clear H. apply res_map_ok_elems in Ei. apply res_map_ok_elems in Eo.
  set (k := df_name a) in *.
  assert (Hokd: forall l, incl l all -> Forall ok_def (filter (fun x => String.eqb (df_name x) k) l)).
  { intros l Hl. apply Forall_forall. intros x Hx. apply filter_In in Hx. destruct Hx as [Hx E].
    apply String.eqb_eq in E. split; [rewrite E; exact Hint|]. rewrite Forall_forall in Hwf. apply Hwf. apply Hl. exact Hx. }
  assert (Hifs: incl ifs all) by (intros x Hx; apply filter_In in Hx; tauto).
  assert (Hots: incl ots all) by (intros x Hx; apply filter_In in Hx; tauto).
  (* every merged interface is an interface carrying the key of its group as its name *)
  assert (Hmi: forall i, In i mi -> df_kind i = KInterface).
  { intros i Hi. destruct (Forall2_In_r Ei Hi) as [[k' xs] [Hg Hm]].
    apply group_by_In in Hg. destruct Hg as [_ ->].
    apply merge_named_group_ok in Hm. destruct Hm as [d [ds [Hs Hm]]]. simpl in Hs.
    destruct (merge_group_name_kind _ _ _ Hm) as [_ Hk]. rewrite Hk.
    assert (Hd: In d (filter (fun x => String.eqb (df_name x) k') ifs)) by (rewrite Hs; left; reflexivity).
    apply filter_In in Hd. destruct Hd as [Hd _]. apply filter_In in Hd. apply is_iface_kind. tauto. }
  (* a group of the second pass that meets a merged interface cannot succeed *)
  assert (Hclash: forall x, In x ots -> df_name x = k -> find_def k mi = None).
  { intros x Hx Hxn. destruct (find_def k mi) as [i'|] eqn:Ef; [exfalso|reflexivity].
    pose proof (find_def_Some _ _ _ Ef) as [Hi' _].
    assert (Hg: In (k, filter (fun y => String.eqb (df_name y) k) ots) (group_by df_name ots)).
    { apply group_by_In. split; auto. rewrite <- Hxn. apply in_map. exact Hx. }
    destruct (Forall2_In_l Eo Hg) as [o [_ Hmo]]. simpl in Hmo. rewrite Ef in Hmo.
    destruct (filter (fun y => String.eqb (df_name y) k) ots) as [|d ds] eqn:Ex.
    - assert (Hin: In x (filter (fun y => String.eqb (df_name y) k) ots))
        by (apply filter_In; split; [exact Hx|rewrite Hxn; apply String.eqb_refl]).
      rewrite Ex in Hin. contradiction.
    - assert (Hd: In d (filter (fun y => String.eqb (df_name y) k) ots)) by (rewrite Ex; left; reflexivity).
      apply filter_In in Hd. destruct Hd as [Hd E]. apply String.eqb_eq in E.
      apply filter_In in Hd. destruct Hd as [_ Hd]. apply negb_true_iff in Hd.
      apply (merge_group_kind_mismatch i' d ds o); auto.
      + rewrite E. exact Hint.
      + rewrite (Hmi _ Hi'). intros Hc. symmetry in Hc. apply is_iface_kind in Hc. congruence. }
  destruct (is_iface a) eqn:Ia; destruct (is_iface b) eqn:Ib.
  - (* both interfaces: the same group of the first pass *)
    assert (Hg: In (k, filter (fun x => String.eqb (df_name x) k) ifs) (group_by df_name ifs)).
    { apply group_by_In. split; auto. apply in_map. apply filter_In. auto. }
    destruct (Forall2_In_l Ei Hg) as [i [_ Hm]]. apply merge_named_group_ok in Hm.
    destruct Hm as [d [ds [Hs Hm]]]. simpl in Hs.
    pose proof (Hokd ifs Hifs) as Hok. rewrite Hs in Hok.
    apply (group_ok_no_incompatible _ _ _ a b Hm Hok); rewrite <- Hs; apply filter_In; split.
    + apply filter_In; auto.
    + apply String.eqb_refl.
    + apply filter_In; auto.
    + rewrite <- Hname. apply String.eqb_refl.
  - (* a is an interface, b is not: b's group meets the merged interface named k *)
    exfalso.
    assert (Hga: In (k, filter (fun x => String.eqb (df_name x) k) ifs) (group_by df_name ifs)).
    { apply group_by_In. split; auto. apply in_map. apply filter_In. auto. }
    destruct (Forall2_In_l Ei Hga) as [i [Hi Hm]].
    apply merge_named_group_ok in Hm. destruct Hm as [d [ds [Hs Hm]]]. simpl in Hs.
    destruct (merge_group_name_kind _ _ _ Hm) as [Hn _].
    assert (Hd: In d (filter (fun x => String.eqb (df_name x) k) ifs)) by (rewrite Hs; left; reflexivity).
    apply filter_In in Hd. destruct Hd as [_ E]. apply String.eqb_eq in E.
    assert (Hbo: In b ots) by (apply filter_In; rewrite Ib; auto).
    pose proof (Hclash b Hbo (eq_sym Hname)) as Hnone.
    apply (find_def_None _ _ Hnone i Hi). congruence.
  - (* symmetric *)
    exfalso.
    assert (Hgb: In (k, filter (fun x => String.eqb (df_name x) k) ifs) (group_by df_name ifs)).
    { apply group_by_In. split; auto. rewrite Hname. apply in_map. apply filter_In. auto. }
    destruct (Forall2_In_l Ei Hgb) as [i [Hi Hm]].
    apply merge_named_group_ok in Hm. destruct Hm as [d [ds [Hs Hm]]]. simpl in Hs.
    destruct (merge_group_name_kind _ _ _ Hm) as [Hn _].
    assert (Hd: In d (filter (fun x => String.eqb (df_name x) k) ifs)) by (rewrite Hs; left; reflexivity).
    apply filter_In in Hd. destruct Hd as [_ E]. apply String.eqb_eq in E.
    assert (Hao: In a ots) by (apply filter_In; rewrite Ia; auto).
    pose proof (Hclash a Hao eq_refl) as Hnone.
    apply (find_def_None _ _ Hnone i Hi). congruence.
  - (* neither is an interface: the same group of the second pass, merged on its own *)
    assert (Hao: In a ots) by (apply filter_In; rewrite Ia; auto).
    assert (Hbo: In b ots) by (apply filter_In; rewrite Ib; auto).
    assert (Hg: In (k, filter (fun x => String.eqb (df_name x) k) ots) (group_by df_name ots)).
    { apply group_by_In. split; auto. apply in_map. exact Hao. }
    destruct (Forall2_In_l Eo Hg) as [o [_ Hm]]. simpl in Hm.
    rewrite (Hclash a Hao eq_refl) in Hm.
    apply merge_named_group_ok in Hm. destruct Hm as [d [ds [Hs Hm]]]. simpl in Hs.
    pose proof (Hokd ots Hots) as Hok. rewrite Hs in Hok.
    apply (group_ok_no_incompatible _ _ _ a b Hm Hok); rewrite <- Hs; apply filter_In; split; auto.
    + apply String.eqb_refl.
    + rewrite <- Hname. apply String.eqb_refl.
Qed.

(* ---------- whole schemas ---------- *)

Theorem merge_schemas_rejects_incompatible sources a b :
  Forall wf_def (flat_map s_types sources) ->
  In a (flat_map s_types sources) -> In b (flat_map s_types sources) ->
  df_name a = df_name b -> is_internal_name (df_name a) = false ->
  incompatible a b = true ->
  is_ok (merge_schemas sources) = false.
Proof.
  intros Hwf Ha Hb Hn Hi Hinc. unfold merge_schemas.
  destruct (merge_types (flat_map s_types sources)) as [types| |] eqn:E; simpl; auto.
  pose proof (merge_types_ok_no_incompatible _ _ a b E Hwf Ha Hb Hn Hi). congruence.
Qed.

(* ---------- no outcome of the merge is a panic ---------- *)

Ltac nopanic :=
  repeat match goal with
         | |- is_panic (if ?c then _ else _) = false => destruct c
         | |- is_panic (Ok _) = false => reflexivity
         | |- is_panic (Err _) = false => reflexivity
         | |- is_panic (match ?x with Some _ => _ | None => _ end) = false => destruct x
         end.

Lemma bind_no_panic {A B} (r : res A) (f : A -> res B) :
  is_panic r = false -> (forall a, is_panic (f a) = false) -> is_panic (bind r f) = false.
Proof. destruct r; simpl; auto. Qed.

Lemma merge_argdef_np ig p n : is_panic (merge_argdef ig p n) = false.
Proof. unfold merge_argdef. nopanic. Qed.

Lemma merge_argdefs_np ig a b : is_panic (merge_argdefs ig a b) = false.
Proof.
  unfold merge_argdefs. nopanic. apply res_map_no_panic. intros x _. nopanic. apply merge_argdef_np.
Qed.

Lemma merge_field_np f g : is_panic (merge_field f g) = false.
Proof.
  unfold merge_field. nopanic. apply bind_no_panic; [apply merge_argdefs_np|]. intros a. nopanic.
Qed.

Lemma match_fields_np a b : is_panic (match_fields a b) = false.
Proof. unfold match_fields. apply res_map_no_panic. intros x _. nopanic. apply merge_field_np. Qed.

Lemma merge_object_fields_np : forall news acc, is_panic (merge_object_fields acc news) = false.
Proof.
  induction news as [|nf r IH]; intros acc; simpl; [reflexivity|].
  destruct (find_field (fd_name nf) acc); [|apply IH].
  apply bind_no_panic; [apply merge_field_np|]. intros m. apply IH.
Qed.

Lemma merge2_np p n : is_panic (merge2 p n) = false.
Proof.
  unfold merge2. nopanic. destruct (df_kind n).
  - unfold merge_scalars. nopanic.
  - unfold merge_objects. apply bind_no_panic; [apply merge_object_fields_np|]. intros fs. nopanic.
  - unfold merge_interfaces. nopanic. apply bind_no_panic; [apply (match_fields_np (df_fields p) (df_fields n))|]. intros fs. nopanic.
  - unfold merge_unions. nopanic.
  - unfold merge_enums. nopanic. apply bind_no_panic; [|intros vs; nopanic].
    apply res_map_no_panic. intros v _. nopanic.
  - unfold merge_inputs. nopanic. apply bind_no_panic; [apply (match_fields_np (df_fields p) (df_fields n))|]. intros fs. nopanic.
Qed.

Lemma merge_group_np : forall ds p, is_panic (merge_group p ds) = false.
Proof.
  induction ds as [|n r IH]; intros p; simpl; [reflexivity|].
  apply bind_no_panic; [apply merge2_np|]. intros p'. apply IH.
Qed.

Lemma merge_named_group_np g : is_panic (merge_named_group g) = false.
Proof. unfold merge_named_group. destruct (snd g); [reflexivity|apply merge_group_np]. Qed.

Lemma merge_types_np all : is_panic (merge_types all) = false.
Proof.
  unfold merge_types. apply bind_no_panic.
  - apply res_map_no_panic. intros g _. apply merge_named_group_np.
  - intros mi. apply bind_no_panic; [|intros mo; reflexivity].
    apply res_map_no_panic. intros g _. destruct (find_def (fst g) mi); [apply merge_group_np|apply merge_named_group_np].
Qed.

Lemma merge_dirdef_np p n : is_panic (merge_dirdef p n) = false.
Proof.
  unfold merge_dirdef. destruct (negb (Bool.eqb (dd_repeatable p) (dd_repeatable n))); [reflexivity|]. apply bind_no_panic.
  - unfold merge_locations. nopanic.
  - intros locs. apply bind_no_panic; [apply merge_argdefs_np|]. intros args. reflexivity.
Qed.

Lemma merge_dir_group_np : forall ds p, is_panic (merge_dir_group p ds) = false.
Proof.
  induction ds as [|n r IH]; intros p; simpl; [reflexivity|].
  apply bind_no_panic; [apply merge_dirdef_np|]. intros p'. apply IH.
Qed.

Theorem merge_schemas_never_panics sources : is_panic (merge_schemas sources) = false.
Proof.
  unfold merge_schemas. apply bind_no_panic; [apply merge_types_np|]. intros types.
  apply bind_no_panic; [|intros dirs; reflexivity].
  apply res_map_no_panic. intros g _. destruct (snd g); [reflexivity|apply merge_dir_group_np].
Qed.

(* ---------- executable well-formedness (what gqlparser guarantees of every loaded schema) ---------- *)

Definition wf_fieldb (f : fielddef) : bool := nodupb (map ad_name (fd_args f)).
Definition wf_defb (d : definition) : bool :=
  nodupb (map fd_name (df_fields d)) && forallb wf_fieldb (df_fields d) &&
  nodupb (map ev_name (df_enums d)) && nodupb (df_members d).

Lemma wf_defb_sound d : wf_defb d = true -> wf_def d.
Proof.
  unfold wf_defb, wf_def. rewrite !andb_true_iff. intros [[[A B] C] D].
  repeat split; try (apply nodupb_NoDup; assumption).
  apply Forall_forall. intros f Hf. rewrite forallb_forall in B. apply nodupb_NoDup. apply (B f Hf).
Qed.

Lemma forallb_wf_defb_sound l : forallb wf_defb l = true -> Forall wf_def l.
Proof. rewrite forallb_forall. intros H. apply Forall_forall. intros d Hd. apply wf_defb_sound. auto. Qed.

(* The canonical join below a field that answers ONE object, as an equation between whole
   responses (the list case is Proofs/ExactJoin.v). *)
From Coq Require Import String List Bool Arith ZArith Lia.
From GW Require Import Base.Res Base.GoStr Base.Json Gql.Syntax Gql.Spec Gw.Points
     Proofs.CodecProofs Proofs.PointsProofs Proofs.StitchSound Proofs.JoinSound Proofs.StepJoin Proofs.StepPoints Proofs.ExactJoin.
Import ListNotations.
Open Scope string_scope.
Open Scope list_scope.

Section ExactObj.
  Variable w : world.
  Variable frags : list fragdef.
  Variable vars : list (string * json).
  Hypothesis world_atomic : atomic_world w vars.
  Variable l1 l2 : list sel.
  Hypothesis good_sub : good (l1 ++ [id_sel]).
  Hypothesis good_l2 : good l2.
  Hypothesis compat_12 : compat (l1 ++ [id_sel]) l2.
  Hypothesis no_id_l2 : ~ In "id" (map key_of l2).
  Variable fuel : nat.
  Variable k : string.
  Hypothesis k_clean : clean_key k.
  Hypothesis k_ne : k <> "".

  Notation sub1 := (l1 ++ [id_sel]).
  Notation answer o sels := (exec (S (S fuel)) w frags vars (Some o) (b_type o) sels).
  Notation Pj := (P w frags vars l1 fuel).
  Notation Jj := (J w frags vars l1 l2 fuel).
  Notation Cj := (C w frags vars l1 l2 fuel).

  (* writing at the object under k *)
  Lemma walk_obj_exact id f tgt new :
    f (JObj tgt) = Ok new ->
    walk [with_id k id] (JObj [(k, JObj tgt)]) f = Ok (JObj [(k, new)]).
  Proof.
    intros Hf. cbn [walk]. rewrite (decode_key_id k id k_clean). cbn [bind pd_field].
    destruct (list_element_key_id k id k_clean k_ne) as [-> _].
    cbn [jget]. rewrite String.eqb_refl. rewrite Hf. cbn [bind jset]. rewrite String.eqb_refl. reflexivity.
  Qed.

  Lemma read_obj id v : extract_value [with_id k id] (JObj [(k, JObj v)]) = Ok (JObj v).
  Proof.
    cbn [extract_value]. rewrite (decode_key_id k id k_clean). cbn [bind pd_field].
    destruct (list_element_key_id k id k_clean k_ne) as [-> _]. cbn [jget]. rewrite String.eqb_refl. reflexivity.
  Qed.

  Lemma join_obj_exact o : find_obj (b_id o) (w_objs w) = Some o ->
    join_all w frags vars l2 fuel [[with_id k (b_id o)]] (JObj [(k, Pj o)]) = Ok (JObj [(k, Jj o)]).
  Proof.
    intros Ho. cbn [join_all].
    destruct (answer_has_id w frags vars l1 good_sub fuel o) as [m [Em Eid]].
    unfold P. rewrite Em. rewrite read_obj. rewrite Eid. rewrite (node_answer w frags vars fuel o l2 Ho).
    cbn [jget]. rewrite String.eqb_refl.
    assert (Hsrc : exists src, answer o l2 = JObj src) by (rewrite exec_unfold; eexists; reflexivity).
    destruct Hsrc as [src Esrc]. rewrite Esrc. unfold insert_object.
    rewrite (walk_obj_exact (b_id o) _ m (JObj (merge_obj m src))) by reflexivity. cbn [bind]. f_equal. f_equal. f_equal. f_equal.
    unfold J. rewrite (stitch_sound w frags vars world_atomic (S (S fuel)) (Some o) (b_type o) sub1 l2 (find_obj_in _ _ _ Ho) good_sub good_l2 compat_12).
    rewrite Em, Esrc. rewrite merge_value_obj. reflexivity.
  Qed.

  Lemma scrub_obj_exact o :
    scrub_points "id" (JObj [(k, Jj o)]) [[with_id k (b_id o)]] = Ok (JObj [(k, Cj o)]).
  Proof.
    cbn [scrub_points]. assert (Hobj : exists m, Jj o = JObj m) by (unfold J; rewrite exec_unfold; eexists; reflexivity).
    destruct Hobj as [m Em]. rewrite Em. unfold scrub_at.
    rewrite (walk_obj_exact (b_id o) _ m (JObj (jdel "id" m))) by reflexivity. cbn [bind]. f_equal. f_equal. f_equal. f_equal.
    unfold C. inversion good_l2 as [? P2 ? ?]; subst.
    apply (scrubbed_join w frags vars l1 good_sub fuel o l2 P2 no_id_l2 m Em).
  Qed.

  (* the reference answer to an object field, for any sub-selection *)
  Lemma obj_field_answer po rt a nm args s o :
    rkey a nm = k ->
    resolve w vars po rt (to_c (Field a nm args [] s)) = FRef (b_id o) ->
    find_obj (b_id o) (w_objs w) = Some o ->
    exec (S (S (S fuel))) w frags vars po rt [Field a nm args [] s] = JObj [(k, answer o s)].
  Proof.
    intros Hkey Hres Ho. rewrite exec_unfold.
    rewrite collect_plain by (constructor; [exact I|constructor]).
    cbn [fst fold_left]. rewrite add_c_fresh by (intros []). cbn [app map]. rewrite Hres.
    assert (Ekey : c_key (to_c (Field a nm args [] s)) = k) by (cbn [to_c c_key key_of]; exact Hkey).
    rewrite Ekey. cbn [c_sub to_c sub_of complete_with]. rewrite Ho. reflexivity.
  Qed.

  Theorem canonical_join_exact_obj po rt a nm args o nonnull subf :
    rkey a nm = k ->
    resolve w vars po rt (to_c (Field a nm args [] sub1)) = FRef (b_id o) ->
    find_obj (b_id o) (w_objs w) = Some o ->
    exists m ps acc',
      exec (S (S (S fuel))) w frags vars po rt [Field a nm args [] sub1] = JObj m /\
      find_insertion_points [k] [FS k false nonnull subf] m [] = Ok ps /\
      join_all w frags vars l2 fuel ps (JObj m) = Ok acc' /\
      scrub_points "id" acc' ps = Ok (exec (S (S (S fuel))) w frags vars po rt [Field a nm args [] (l1 ++ l2)]).
  Proof.
    intros Hkey Hres Ho.
    rewrite (obj_field_answer po rt a nm args sub1 o Hkey Hres Ho).
    assert (Hres2 : resolve w vars po rt (to_c (Field a nm args [] (l1 ++ l2))) = FRef (b_id o))
      by (rewrite <- Hres; apply resolve_same; reflexivity).
    rewrite (obj_field_answer po rt a nm args (l1 ++ l2) o Hkey Hres2 Ho).
    exists [(k, Pj o)], [[with_id k (b_id o)]], (JObj [(k, Jj o)]).
    split; [reflexivity|]. split; [|split].
    - unfold find_insertion_points. cbn [length Nat.ltb Nat.leb skipn find_points find_selection fs_key].
      rewrite String.eqb_refl. cbn [jget]. rewrite String.eqb_refl.
      destruct (answer_has_id w frags vars l1 good_sub fuel o) as [m [Em Eid]].
      unfold P. rewrite Em. rewrite Eid. reflexivity.
    - exact (join_obj_exact o Ho).
    - exact (scrub_obj_exact o).
  Qed.
End ExactObj.

(* Whether the type definitions of a list of services merge does not depend on the order of the
   services: merge_types succeeds exactly when, for every name, every two of its definitions are
   compatible (MergeGroup), and that condition is invariant under permutation. *)
From Coq Require Import String List Bool Arith Lia Permutation.
From GW Require Import Base.Res Base.GoStr Gql.Schema Gw.Merge Gw.MergeCheck Proofs.MergeBasics Proofs.MergeProofs
  Proofs.DirEq Proofs.MergeSym Proofs.MergeTrans Proofs.MergeGroup.
Import ListNotations.
Open Scope string_scope.
Open Scope list_scope.

Definition named (k : string) (d : definition) : bool := String.eqb (df_name d) k.

(* the definitions of one name: the gateway's own names (__Schema, __Type, ...) are never compared *)
Definition gok (k : string) (l : list definition) : bool := is_internal_name k || pairs_ok l.

Definition types_ok (all : list definition) : bool :=
  forallb (fun k => gok k (filter (named k) all)) (dedup (map df_name all)).

Definition all_named (k : string) (l : list definition) : Prop := Forall (fun x => df_name x = k) l.

Lemma filter_all_named k l : all_named k (filter (named k) l).
Proof. apply Forall_forall. intros x Hx. apply filter_In in Hx. destruct Hx as [_ Hx]. apply String.eqb_eq. exact Hx. Qed.

Lemma named_W k l : is_internal_name k = false -> Forall dwf l -> all_named k l -> Forall W l.
Proof.
  intros Hk Hd Hn. apply Forall_forall. intros x Hx. unfold all_named in Hn. rewrite Forall_forall in Hd, Hn.
  split; [apply Hd; exact Hx|rewrite (Hn x Hx); exact Hk].
Qed.

Lemma merge_group_internal : forall ds p, Forall (fun x => is_internal_name (df_name x) = true) ds -> merge_group p ds = Ok p.
Proof.
  induction ds as [|n r IH]; intros p H; cbn [merge_group]; [reflexivity|]. inversion H as [|? ? Hn Hr]; subst.
  unfold merge2. rewrite Hn. cbn [bind]. apply IH. exact Hr.
Qed.

Lemma gok_group k d r : Forall dwf (d :: r) -> all_named k (d :: r) -> is_ok (merge_group d r) = gok k (d :: r).
Proof.
  intros Hd Hn. unfold gok. destruct (is_internal_name k) eqn:Ek; cbn [orb].
  - rewrite merge_group_internal; [reflexivity|]. inversion Hn as [|? ? _ Hr]; subst.
    apply Forall_forall. intros x Hx. unfold all_named in Hr. rewrite Forall_forall in Hr. rewrite (Hr x Hx). exact Ek.
  - pose proof (named_W k _ Ek Hd Hn) as Hw. inversion Hw; subst. apply group_ok_pairs; assumption.
Qed.

Lemma gok_perm k l l' : Permutation l l' -> Forall dwf l -> all_named k l -> gok k l = gok k l'.
Proof.
  intros Hp Hd Hn. unfold gok. destruct (is_internal_name k) eqn:Ek; cbn [orb]; [reflexivity|].
  apply pairs_ok_perm; [exact Hp|]. exact (named_W k l Ek Hd Hn).
Qed.

Lemma merge_group_app : forall a p b, merge_group p (a ++ b) = (p' <- merge_group p a ;; merge_group p' b).
Proof.
  induction a as [|n r IH]; intros p b; cbn [app merge_group bind]; [reflexivity|].
  destruct (merge2 p n) as [p'|e|e]; cbn [bind]; [apply IH|reflexivity|reflexivity].
Qed.

Lemma filter_nonempty k (l : list definition) : In k (map df_name l) -> exists d r, filter (named k) l = d :: r.
Proof.
  intros H. apply in_map_iff in H. destruct H as [d [E Hd]].
  assert (Hin : In d (filter (named k) l)). { apply filter_In. split; [exact Hd|]. unfold named. rewrite E. apply String.eqb_refl. }
  destruct (filter (named k) l) as [|x r]; [destruct Hin|eauto].
Qed.

Lemma filter_empty k (l : list definition) : ~ In k (map df_name l) -> filter (named k) l = [].
Proof.
  intros H. induction l as [|d r IH]; [reflexivity|]. cbn [filter]. unfold named at 1.
  destruct (String.eqb (df_name d) k) eqn:E.
  - exfalso. apply H. left. apply String.eqb_eq. exact E.
  - apply IH. intros Hin. apply H. right. exact Hin.
Qed.

Lemma Forall_filter {A} (P : A -> Prop) f (l : list A) : Forall P l -> Forall P (filter f l).
Proof. intros H. apply Forall_forall. intros x Hx. apply filter_In in Hx. rewrite Forall_forall in H. apply H. tauto. Qed.

Lemma forallb_map {A B} (f : B -> bool) (g : A -> B) l : forallb f (map g l) = forallb (fun x => f (g x)) l.
Proof. induction l as [|x r IH]; cbn [map forallb]; [reflexivity|rewrite IH; reflexivity]. Qed.

(* the interface pass *)
Lemma ifaces_ok I : Forall dwf I ->
  is_ok (res_map merge_named_group (group_by df_name I)) = types_ok I.
Proof.
  intros WI. rewrite res_map_ok. unfold group_by, types_ok. rewrite forallb_map. apply forallb_ext_in. intros k Hk.
  apply (proj1 (dedup_In _ _)) in Hk. destruct (filter_nonempty k I Hk) as [d [r E]].
  unfold merge_named_group. cbn [snd]. fold (named k). rewrite E.
  apply gok_group; rewrite <- E; [apply Forall_filter; exact WI|apply filter_all_named].
Qed.

(* what the second pass finds for a name among the merged interfaces *)
Lemma find_merged I k : forall ks mi,
  (forall k', In k' ks -> In k' (map df_name I)) ->
  res_map merge_named_group (map (fun k => (k, filter (fun x => String.eqb (df_name x) k) I)) ks) = Ok mi ->
  match find_def k mi with
  | Some i => exists d r, filter (named k) I = d :: r /\ merge_group d r = Ok i
  | None => ~ In k ks
  end.
Proof.
  induction ks as [|k0 ks IH]; intros mi Hks H.
  - cbn in H. injection H as <-. cbn. tauto.
  - cbn [map res_map] in H.
    destruct (merge_named_group _) as [i0|e|e] eqn:E0; cbn [bind] in H; try discriminate.
    destruct (res_map _ _) as [mi'|e|e] eqn:Er; cbn [bind] in H; try discriminate.
    injection H as <-. cbn [find_def].
    destruct (filter_nonempty k0 I (Hks k0 (or_introl eq_refl))) as [d [r Ef]].
    unfold merge_named_group in E0. cbn [snd] in E0. fold (named k0) in E0. rewrite Ef in E0.
    assert (Hn : df_name i0 = k0).
    { destruct (merge_group_name_kind _ _ _ E0) as [Hn _]. rewrite Hn.
      assert (Hd : In d (filter (named k0) I)) by (rewrite Ef; left; reflexivity).
      apply filter_In in Hd. destruct Hd as [_ Hd]. apply String.eqb_eq. exact Hd. }
    destruct (String.eqb (df_name i0) k) eqn:Ek.
    + apply String.eqb_eq in Ek. assert (Hkk : k0 = k) by congruence. rewrite Hkk in *. exists d, r. split; assumption.
    + apply String.eqb_neq in Ek. specialize (IH mi' (fun k' Hk' => Hks k' (or_intror Hk')) eq_refl).
      destruct (find_def k mi'); [exact IH|]. intros [->|Hin]; [congruence|tauto].
Qed.

Lemma pairs_ok_app_l a b : pairs_ok (a ++ b) = true -> pairs_ok a = true.
Proof.
  induction a as [|x r IH]; cbn [app pairs_ok]; [reflexivity|]. intros H. apply andb_prop in H. destruct H as [H1 H2].
  rewrite forallb_app in H1. apply andb_prop in H1. destruct H1 as [H1 _]. rewrite H1, (IH H2). reflexivity.
Qed.

Lemma gok_app_l k a b : gok k (a ++ b) = true -> gok k a = true.
Proof. unfold gok. destruct (is_internal_name k); cbn [orb]; [reflexivity|apply pairs_ok_app_l]. Qed.

(* the second pass, for one name *)
Lemma others_ok I O mi k :
  Forall dwf I -> Forall dwf O ->
  res_map merge_named_group (group_by df_name I) = Ok mi -> In k (map df_name O) ->
  is_ok (match find_def k mi with
         | Some i => merge_group i (filter (named k) O)
         | None => merge_named_group (k, filter (named k) O)
         end) = gok k (filter (named k) I ++ filter (named k) O).
Proof.
  intros WI WO Hm Hk. unfold group_by in Hm.
  pose proof (find_merged I k (dedup (map df_name I)) mi (fun k' Hk' => proj1 (dedup_In _ _) Hk') Hm) as Hf.
  destruct (find_def k mi) as [i|].
  - destruct Hf as [d [r [Ef Eg]]].
    assert (Wdr : Forall dwf (d :: r)) by (rewrite <- Ef; apply Forall_filter; exact WI).
    assert (Ndr : all_named k (d :: r)) by (rewrite <- Ef; apply filter_all_named).
    rewrite Ef. cbn [app]. rewrite <- (gok_group k d (r ++ filter (named k) O)).
    + rewrite merge_group_app, Eg. reflexivity.
    + change (Forall dwf ((d :: r) ++ filter (named k) O)). apply Forall_app. split; [exact Wdr|apply Forall_filter; exact WO].
    + change (all_named k ((d :: r) ++ filter (named k) O)). apply Forall_app. split; [exact Ndr|apply filter_all_named].
  - rewrite (filter_empty k I). 2:{ intros Hin. apply Hf. apply dedup_In. exact Hin. }
    cbn [app]. destruct (filter_nonempty k O Hk) as [d [r E]]. rewrite E. unfold merge_named_group. cbn [snd].
    apply gok_group; rewrite <- E; [apply Forall_filter; exact WO|apply filter_all_named].
Qed.

Lemma filter_filter_named k f (l : list definition) : filter (named k) (filter f l) = filter f (filter (named k) l).
Proof.
  induction l as [|x r IH]; [reflexivity|]. cbn [filter].
  destruct (f x) eqn:Ef; destruct (named k x) eqn:En; cbn [filter]; rewrite ?Ef, ?En, IH; reflexivity.
Qed.

Lemma filter_split_perm {A} (f : A -> bool) l : Permutation l (filter f l ++ filter (fun x => negb (f x)) l).
Proof.
  induction l as [|x r IH]; [constructor|]. cbn [filter]. destruct (f x); cbn [negb app].
  - constructor. exact IH.
  - apply Permutation_cons_app. exact IH.
Qed.

Definition I_of (all : list definition) := filter is_iface all.
Definition O_of (all : list definition) := filter (fun d => negb (is_iface d)) all.

Lemma named_split k all : Permutation (filter (named k) all) (filter (named k) (I_of all) ++ filter (named k) (O_of all)).
Proof. unfold I_of, O_of. rewrite !filter_filter_named. apply filter_split_perm. Qed.

(* merge_types succeeds exactly when every two definitions of every name are compatible *)
Theorem merge_types_ok_iff all : Forall dwf all -> is_ok (merge_types all) = types_ok all.
Proof.
  intros Wall. unfold merge_types. fold (I_of all). fold (O_of all).
  assert (WI : Forall dwf (I_of all)) by (apply Forall_filter; exact Wall).
  assert (WO : Forall dwf (O_of all)) by (apply Forall_filter; exact Wall).
  rewrite is_ok_bind. pose proof (ifaces_ok (I_of all) WI) as HI.
  destruct (res_map merge_named_group (group_by df_name (I_of all))) as [mi|e|e] eqn:Em; cbn [is_ok] in HI.
  - rewrite is_ok_bind.
    match goal with |- match ?r with _ => _ end = _ =>
      assert (HO : is_ok r = forallb (fun k => gok k (filter (named k) (I_of all) ++ filter (named k) (O_of all))) (dedup (map df_name (O_of all)))) end.
    { rewrite res_map_ok. unfold group_by. rewrite forallb_map. apply forallb_ext_in. intros k Hk. apply (proj1 (dedup_In _ _)) in Hk.
      cbn [fst snd]. apply (others_ok (I_of all) (O_of all) mi k WI WO Em Hk). }
    match goal with |- match ?r with _ => _ end = _ => destruct r as [mo|e|e]; cbn [is_ok] in HO |- * end.
    + (* both passes succeeded: every name's definitions are pairwise compatible *)
      symmetry. unfold types_ok. apply forallb_forall. intros k Hk. apply (proj1 (dedup_In _ _)) in Hk.
      rewrite (gok_perm k _ _ (named_split k all) (Forall_filter _ _ _ Wall) (filter_all_named k all)).
      destruct (in_dec string_dec k (map df_name (O_of all))) as [HkO|HkO].
      * symmetry in HO. rewrite forallb_forall in HO. apply HO. apply dedup_In. exact HkO.
      * rewrite (filter_empty k (O_of all) HkO), app_nil_r.
        symmetry in HI. unfold types_ok in HI. rewrite forallb_forall in HI. apply HI. apply dedup_In.
        destruct (in_dec string_dec k (map df_name (I_of all))) as [HkI|HkI]; [exact HkI|].
        exfalso. destruct (filter_nonempty k all Hk) as [d [r E]].
        pose proof (Permutation_length (named_split k all)) as Hl.
        rewrite E, (filter_empty k _ HkI), (filter_empty k _ HkO) in Hl. discriminate.
    + symmetry. apply not_true_is_false. intros Ht. symmetry in HO. apply not_true_iff_false in HO. apply HO.
      apply forallb_forall. intros k Hk. apply (proj1 (dedup_In _ _)) in Hk.
      rewrite <- (gok_perm k _ _ (named_split k all) (Forall_filter _ _ _ Wall) (filter_all_named k all)).
      unfold types_ok in Ht. rewrite forallb_forall in Ht. apply Ht. apply dedup_In.
      apply in_map_iff in Hk. destruct Hk as [d [E Hd]]. apply in_map_iff. exists d. split; [exact E|].
      unfold O_of in Hd. apply filter_In in Hd. tauto.
    + symmetry. apply not_true_is_false. intros Ht. symmetry in HO. apply not_true_iff_false in HO. apply HO.
      apply forallb_forall. intros k Hk. apply (proj1 (dedup_In _ _)) in Hk.
      rewrite <- (gok_perm k _ _ (named_split k all) (Forall_filter _ _ _ Wall) (filter_all_named k all)).
      unfold types_ok in Ht. rewrite forallb_forall in Ht. apply Ht. apply dedup_In.
      apply in_map_iff in Hk. destruct Hk as [d [E Hd]]. apply in_map_iff. exists d. split; [exact E|].
      unfold O_of in Hd. apply filter_In in Hd. tauto.
  - symmetry. apply not_true_is_false. intros Ht. symmetry in HI. apply not_true_iff_false in HI. apply HI.
    unfold types_ok in *. apply forallb_forall. intros k Hk. apply (proj1 (dedup_In _ _)) in Hk.
    rewrite forallb_forall in Ht.
    assert (Hka : In k (dedup (map df_name all))).
    { apply dedup_In. apply in_map_iff in Hk. destruct Hk as [d [E Hd]]. apply in_map_iff. exists d. split; [exact E|].
      unfold I_of in Hd. apply filter_In in Hd. tauto. }
    specialize (Ht k Hka). rewrite (gok_perm k _ _ (named_split k all) (Forall_filter _ _ _ Wall) (filter_all_named k all)) in Ht.
    exact (gok_app_l _ _ _ Ht).
  - symmetry. apply not_true_is_false. intros Ht. symmetry in HI. apply not_true_iff_false in HI. apply HI.
    unfold types_ok in *. apply forallb_forall. intros k Hk. apply (proj1 (dedup_In _ _)) in Hk.
    rewrite forallb_forall in Ht.
    assert (Hka : In k (dedup (map df_name all))).
    { apply dedup_In. apply in_map_iff in Hk. destruct Hk as [d [E Hd]]. apply in_map_iff. exists d. split; [exact E|].
      unfold I_of in Hd. apply filter_In in Hd. tauto. }
    specialize (Ht k Hka). rewrite (gok_perm k _ _ (named_split k all) (Forall_filter _ _ _ Wall) (filter_all_named k all)) in Ht.
    exact (gok_app_l _ _ _ Ht).
Qed.

(* Whether the definitions of one name merge does not depend on the order in which they are met:
   merging succeeds exactly when every two of them are compatible, and compatibility is symmetric. *)
From Coq Require Import String List Bool Arith Lia Permutation.
From GW Require Import Base.Res Base.GoStr Gql.Schema Gw.Merge Gw.MergeCheck Proofs.MergeBasics Proofs.MergeProofs Proofs.DirEq Proofs.MergeSym Proofs.MergeTrans.
Import ListNotations.
Open Scope string_scope.
Open Scope list_scope.

Notation fmatched := (all_matched fielddef fd_name find_field field_ok).
Notation fcommon := (common_related fielddef fd_name find_field field_ok).
Notation ematched := (all_matched enumval ev_name find_enum enum_ok).

(* two definitions can be merged: the comparisons mergeSchemas makes for their kind all succeed *)
Definition compat (p n : definition) : bool :=
  kind_eqb (df_kind p) (df_kind n) &&
  match df_kind n with
  | KObject => fcommon (df_fields p) (df_fields n) && dirlists_equal (df_dirs p) (df_dirs n)
  | KInterface => Nat.eqb (length (df_fields p)) (length (df_fields n)) && fmatched (df_fields p) (df_fields n) &&
                  dirlists_equal (df_dirs p) (df_dirs n)
  | KInputObject => Nat.eqb (length (df_fields p)) (length (df_fields n)) && fmatched (df_fields p) (df_fields n) &&
                    dirlists_equal (df_dirs p) (df_dirs n)
  | KEnum => Nat.eqb (length (df_enums p)) (length (df_enums n)) && ematched (df_enums p) (df_enums n) &&
             dirlists_equal (df_dirs p) (df_dirs n)
  | KScalar => dirlists_equal (df_dirs p) (df_dirs n)
  | KUnion => slices_equivalent (df_members p) (df_members n) && dirlists_equal (df_dirs p) (df_dirs n)
  end.

Lemma is_ok_bind {A B} (r : res A) (f : A -> res B) : is_ok (bind r f) = match r with Ok x => is_ok (f x) | _ => false end.
Proof. destruct r; reflexivity. Qed.

Lemma fields_res_map_ok pfs nfs :
  is_ok (res_map (fun f => match find_field (fd_name f) nfs with None => Err "could not find field" | Some g => merge_field f g end) pfs) =
  fmatched pfs nfs.
Proof.
  rewrite res_map_ok. unfold all_matched. apply forallb_ext'. intros f.
  destruct (find_field (fd_name f) nfs); [apply merge_field_is_ok|reflexivity].
Qed.

Lemma merge2_compat p n :
  is_internal_name (df_name p) = false -> is_internal_name (df_name n) = false -> NoDup (map fd_name (df_fields n)) ->
  is_ok (merge2 p n) = compat p n.
Proof.
  intros Hip Hin Nn. unfold merge2, compat. rewrite Hin.
  destruct (kind_eqb (df_kind p) (df_kind n)); cbn [negb andb]; [|reflexivity].
  destruct (df_kind n).
  - unfold merge_scalars. destruct (dirlists_equal (df_dirs p) (df_dirs n)); reflexivity.
  - unfold merge_objects. rewrite is_ok_bind. rewrite <- (object_fields_is_ok _ _ Nn).
    destruct (merge_object_fields (df_fields p) (df_fields n)); cbn [is_ok andb]; try reflexivity.
    destruct (dirlists_equal (df_dirs p) (df_dirs n)); reflexivity.
  - unfold merge_interfaces. destruct (Nat.eqb (length (df_fields p)) (length (df_fields n))); cbn [negb andb]; [|reflexivity].
    rewrite is_ok_bind. rewrite <- fields_res_map_ok.
    destruct (res_map _ (df_fields p)); cbn [is_ok andb]; try reflexivity.
    destruct (dirlists_equal (df_dirs p) (df_dirs n)); reflexivity.
  - unfold merge_unions. destruct (slices_equivalent (df_members p) (df_members n)); cbn [andb]; [|reflexivity].
    destruct (dirlists_equal (df_dirs p) (df_dirs n)); reflexivity.
  - unfold merge_enums. rewrite Hip.
    destruct (Nat.eqb (length (df_enums p)) (length (df_enums n))); cbn [negb andb]; [|reflexivity].
    rewrite is_ok_bind.
    match goal with |- match ?r with _ => _ end = _ => assert (Hr : is_ok r = ematched (df_enums p) (df_enums n)) end.
    { rewrite res_map_ok. unfold all_matched, enum_ok. apply forallb_ext'. intros v.
      destruct (find_enum (ev_name v) (df_enums n)) as [w|]; [|reflexivity]. destruct (dirlists_equal (ev_dirs v) (ev_dirs w)); reflexivity. }
    rewrite <- Hr. match goal with |- match ?r with _ => _ end = _ => destruct r; cbn [is_ok andb]; try reflexivity end.
    destruct (dirlists_equal (df_dirs p) (df_dirs n)); reflexivity.
  - unfold merge_inputs. destruct (Nat.eqb (length (df_fields p)) (length (df_fields n))); cbn [negb andb]; [|reflexivity].
    rewrite is_ok_bind. rewrite <- fields_res_map_ok.
    destruct (res_map _ (df_fields p)); cbn [is_ok andb]; try reflexivity.
    destruct (dirlists_equal (df_dirs p) (df_dirs n)); reflexivity.
Qed.

Lemma nodup_snoc' {A} (l : list A) x : NoDup l -> ~ In x l -> NoDup (l ++ [x]).
Proof.
  induction l as [|y r IH]; intros Hn Hx; cbn [app]; [constructor; [intros []|constructor]|].
  inversion Hn as [|? ? Hy Hr]; subst. constructor.
  - intros Hin. apply in_app_or in Hin. destruct Hin as [Hin|[<-|[]]]; [exact (Hy Hin)|apply Hx; left; reflexivity].
  - apply IH; [exact Hr|]. intros H. apply Hx. right. exact H.
Qed.

(* ---------- well-formedness is kept by merging ---------- *)
Definition W (d : definition) : Prop := dwf d /\ is_internal_name (df_name d) = false.

Lemma fsig_fwf f m : fsig m = fsig f -> fwf f -> fwf m.
Proof.
  unfold fsig. intros H [Wf Df]. inversion H as [[Et Ea Ed Er]]. split.
  - exact (adwf_sig _ _ Ea Wf).
  - rewrite Er. exact Df.
Qed.

Lemma replace_field_names m : forall acc pf, find_field (fd_name m) acc = Some pf ->
  map fd_name (replace_field m acc) = map fd_name acc.
Proof.
  induction acc as [|g r IH]; intros pf H; cbn [find_field] in H; [discriminate|]. cbn [replace_field map].
  destruct (String.eqb (fd_name g) (fd_name m)) eqn:E; [apply String.eqb_eq in E; cbn [map]; rewrite E; reflexivity|].
  cbn [map]. rewrite (IH _ H). reflexivity.
Qed.

Lemma Forall_replace (P : fielddef -> Prop) m : forall acc, P m -> Forall P acc -> Forall P (replace_field m acc).
Proof.
  induction acc as [|g r IH]; intros Hm Ha; cbn [replace_field]; [constructor|].
  inversion Ha as [|? ? Hg Hr]; subst. destruct (String.eqb (fd_name g) (fd_name m)); constructor; auto.
Qed.

Lemma mof_wf : forall news acc out, merge_object_fields acc news = Ok out ->
  fields_wf acc -> fields_wf news -> fields_wf out.
Proof.
  induction news as [|nf r IH]; intros acc out H [Na Fa] [Nn Fn]; cbn [merge_object_fields] in H; [injection H as <-; split; assumption|].
  cbn [map] in Nn. inversion Nn as [|? ? Hx Nr]; subst. inversion Fn as [|? ? Hnf Fr]; subst.
  destruct (find_field (fd_name nf) acc) as [pf|] eqn:Ef.
  - destruct (merge_field pf nf) as [m|e|e] eqn:Em; cbn [bind] in H; try discriminate.
    destruct (merge_field_sig _ _ _ Em) as [Hs Hn]. destruct (find_field_Some _ _ _ Ef) as [Hpf Hpn].
    assert (Ef' : find_field (fd_name m) acc = Some pf) by (rewrite Hn, Hpn; exact Ef).
    apply (IH _ _ H); [|split; assumption]. split.
    + rewrite (replace_field_names m acc pf Ef'). exact Na.
    + apply Forall_replace; [|exact Fa]. rewrite Forall_forall in Fa. exact (fsig_fwf pf m Hs (Fa pf Hpf)).
  - apply (IH _ _ H); [|split; assumption]. split.
    + rewrite map_app. cbn [map]. apply nodup_snoc'; [exact Na|]. apply find_field_None. exact Ef.
    + apply Forall_app. split; [exact Fa|constructor; [exact Hnf|constructor]].
Qed.

Lemma forallb_andb' {A} (f g : A -> bool) l : forallb (fun x => f x && g x) l = forallb f l && forallb g l.
Proof.
  induction l as [|x r IH]; cbn [forallb]; [reflexivity|]. rewrite IH.
  destruct (f x), (g x), (forallb f r), (forallb g r); reflexivity.
Qed.

(* what the merged field list holds under each name: the accumulated field if there was one
   (compared like it), else the new one *)
Lemma mof_find : forall news acc out, merge_object_fields acc news = Ok out -> NoDup (map fd_name news) ->
  forall nm, option_map fsig (find_field nm out) =
             match find_field nm acc with Some f => Some (fsig f) | None => option_map fsig (find_field nm news) end.
Proof.
  induction news as [|nf r IH]; intros acc out H Nn nm; cbn [merge_object_fields] in H.
  - injection H as <-. cbn [find_field option_map]. destruct (find_field nm acc); reflexivity.
  - cbn [map] in Nn. inversion Nn as [|? ? Hx Nr]; subst.
    destruct (find_field (fd_name nf) acc) as [pf|] eqn:Ef.
    + destruct (merge_field pf nf) as [m|e|e] eqn:Em; cbn [bind] in H; try discriminate.
      destruct (merge_field_sig _ _ _ Em) as [Hs Hn]. destruct (find_field_Some _ _ _ Ef) as [_ Hpn].
      rewrite (IH _ _ H Nr nm). rewrite find_replace_field by (rewrite Hn, Hpn, Ef; discriminate).
      rewrite Hn, Hpn. cbn [find_field]. destruct (String.eqb (fd_name nf) nm) eqn:E.
      * apply String.eqb_eq in E. subst nm. rewrite Ef. rewrite Hs. reflexivity.
      * reflexivity.
    + rewrite (IH _ _ H Nr nm). rewrite find_app_one. cbn [find_field].
      destruct (find_field nm acc) as [f|]; [reflexivity|].
      destruct (String.eqb (fd_name nf) nm) eqn:E; [|reflexivity].
      cbn [option_map]. reflexivity.
Qed.

(* comparing the merged field list with a third one: as comparing both lists it was merged from *)
Lemma fcommon_merged pfs nfs fs xs :
  merge_object_fields pfs nfs = Ok fs -> fields_wf pfs -> fields_wf nfs -> fields_wf xs ->
  fcommon pfs nfs = true ->
  fcommon fs xs = fcommon pfs xs && fcommon nfs xs.
Proof.
  intros Hm [Np Fp] [Nn Fn] [Nx Fx] Hpn. unfold common_related in *.
  rewrite <- forallb_andb'. apply forallb_ext_in. intros y Hy.
  pose proof (mof_find _ _ _ Hm Nn (fd_name y)) as Hf.
  destruct (find_field (fd_name y) pfs) as [pf|] eqn:Ep.
  - destruct (find_field (fd_name y) fs) as [m|]; cbn [option_map] in Hf; [|discriminate].
    assert (Hs : fsig m = fsig pf) by congruence. rewrite (field_ok_sig_l _ _ _ Hs).
    destruct (find_field (fd_name y) nfs) as [nf|] eqn:En; [|rewrite andb_true_r; reflexivity].
    (* the field is in all three: pf ~ nf is known, so pf ~ y exactly when nf ~ y *)
    destruct (find_field_Some _ _ _ Ep) as [Hpf Hpn']. destruct (find_field_Some _ _ _ En) as [Hnf Hnn].
    rewrite forallb_forall in Hpn. specialize (Hpn nf Hnf). rewrite Hnn, Ep in Hpn.
    rewrite Forall_forall in Fp, Fn, Fx.
    destruct (field_ok pf y) eqn:E1; cbn [andb]; [|reflexivity].
    symmetry. apply (field_ok_trans nf pf y); [|exact E1].
    apply field_ok_sym; [exact (Fp pf Hpf)|exact (Fn nf Hnf)|exact Hpn].
  - destruct (find_field (fd_name y) nfs) as [nf|] eqn:En.
    + destruct (find_field (fd_name y) fs) as [m|]; cbn [option_map] in Hf; [|discriminate].
      assert (Hs : fsig m = fsig nf) by congruence. rewrite (field_ok_sig_l _ _ _ Hs). reflexivity.
    + destruct (find_field (fd_name y) fs); [discriminate|reflexivity].
Qed.

(* ---------- compatibility is symmetric, and transitive away from objects ---------- *)
Lemma W_nodup d : W d -> NoDup (map fd_name (df_fields d)).
Proof. intros [[[N _] _] _]. exact N. Qed.

Lemma compat_sym p n : W p -> W n -> compat p n = true -> compat n p = true.
Proof.
  intros Wp Wn H. rewrite <- (merge2_compat n p (proj2 Wn) (proj2 Wp) (W_nodup p Wp)).
  apply (merge2_ok_sym p n (proj1 Wp) (proj1 Wn) (proj2 Wp) (proj2 Wn)).
  rewrite (merge2_compat p n (proj2 Wp) (proj2 Wn) (W_nodup n Wn)). exact H.
Qed.

Lemma slices_equivalent_trans a b c : slices_equivalent a b = true -> slices_equivalent b c = true -> slices_equivalent a c = true.
Proof.
  unfold slices_equivalent. intros H1 H2. apply andb_prop in H1, H2. destruct H1 as [L1 F1], H2 as [L2 F2].
  apply Nat.eqb_eq in L1, L2. apply andb_true_intro. split; [apply Nat.eqb_eq; lia|].
  rewrite forallb_forall in F1, F2. apply forallb_forall. intros x Hx.
  apply F1. apply str_mem_In. apply F2. exact Hx.
Qed.

Lemma fmatched_trans l1 l2 l3 : fmatched l1 l2 = true -> fmatched l2 l3 = true -> fmatched l1 l3 = true.
Proof.
  intros H1 H2. eapply (all_matched_trans fielddef fd_name find_field find_field_Some); [|exact H1|exact H2].
  intros a b c _ _ _. apply field_ok_trans.
Qed.

Lemma ematched_trans l1 l2 l3 : ematched l1 l2 = true -> ematched l2 l3 = true -> ematched l1 l3 = true.
Proof.
  intros H1 H2. eapply (all_matched_trans enumval ev_name find_enum find_enum_Some); [|exact H1|exact H2].
  intros a b c _ _ _. unfold enum_ok. apply dirlists_equal_trans.
Qed.

Lemma compat_trans a b c : df_kind a <> KObject -> compat a b = true -> compat b c = true -> compat a c = true.
Proof.
  unfold compat. intros Hk H1 H2. apply andb_prop in H1, H2. destruct H1 as [K1 H1], H2 as [K2 H2].
  apply kind_eqb_eq in K1, K2. assert (K3 : kind_eqb (df_kind a) (df_kind c) = true) by (apply kind_eqb_eq; congruence).
  rewrite K3. cbn [andb]. rewrite <- K2 in *. destruct (df_kind b) eqn:Kb.
  - eapply dirlists_equal_trans; eassumption.
  - congruence.
  - apply andb_prop in H1, H2. destruct H1 as [H1 D1], H2 as [H2 D2].
    apply andb_prop in H1, H2. destruct H1 as [L1 M1], H2 as [L2 M2]. apply Nat.eqb_eq in L1, L2.
    apply andb_true_intro. split; [apply andb_true_intro; split; [apply Nat.eqb_eq; lia|eapply fmatched_trans; eassumption]|eapply dirlists_equal_trans; eassumption].
  - apply andb_prop in H1, H2. destruct H1 as [H1 D1], H2 as [H2 D2].
    apply andb_true_intro. split; [eapply slices_equivalent_trans; eassumption|eapply dirlists_equal_trans; eassumption].
  - apply andb_prop in H1, H2. destruct H1 as [H1 D1], H2 as [H2 D2].
    apply andb_prop in H1, H2. destruct H1 as [L1 M1], H2 as [L2 M2]. apply Nat.eqb_eq in L1, L2.
    apply andb_true_intro. split; [apply andb_true_intro; split; [apply Nat.eqb_eq; lia|eapply ematched_trans; eassumption]|eapply dirlists_equal_trans; eassumption].
  - apply andb_prop in H1, H2. destruct H1 as [H1 D1], H2 as [H2 D2].
    apply andb_prop in H1, H2. destruct H1 as [L1 M1], H2 as [L2 M2]. apply Nat.eqb_eq in L1, L2.
    apply andb_true_intro. split; [apply andb_true_intro; split; [apply Nat.eqb_eq; lia|eapply fmatched_trans; eassumption]|eapply dirlists_equal_trans; eassumption].
Qed.

(* ---------- a merged definition is compared like the first of the two ---------- *)
Definition flike (m f : fielddef) : Prop := fd_name m = fd_name f /\ fsig m = fsig f.
Definition elike (v w : enumval) : Prop := ev_name v = ev_name w /\ ev_dirs v = ev_dirs w.

Lemma flike_find n : forall fs ps, Forall2 flike fs ps ->
  match find_field n fs, find_field n ps with
  | Some m, Some f => flike m f
  | None, None => True
  | _, _ => False
  end.
Proof.
  induction 1 as [|m f fs ps [Hn Hs] Hr IH]; cbn [find_field]; [exact I|].
  rewrite Hn. destruct (String.eqb (fd_name f) n); [split; assumption|exact IH].
Qed.

Lemma fmatched_like fs ps xs : Forall2 flike fs ps -> fmatched fs xs = fmatched ps xs.
Proof.
  unfold all_matched. induction 1 as [|m f fs ps [Hn Hs] Hr IH]; cbn [forallb]; [reflexivity|].
  rewrite IH, Hn. destruct (find_field (fd_name f) xs); [rewrite (field_ok_sig_l _ _ _ Hs); reflexivity|reflexivity].
Qed.

Lemma fcommon_like fs ps xs : Forall2 flike fs ps -> fcommon fs xs = fcommon ps xs.
Proof.
  intros H. unfold common_related. apply forallb_ext'. intros y.
  pose proof (flike_find (fd_name y) fs ps H) as Hf.
  destruct (find_field (fd_name y) fs) as [m|], (find_field (fd_name y) ps) as [f|]; try destruct Hf; [|reflexivity].
  apply field_ok_sig_l. assumption.
Qed.

Lemma flike_names fs ps : Forall2 flike fs ps -> map fd_name fs = map fd_name ps.
Proof. induction 1 as [|m f fs' ps' [Hn _] _ IH]; cbn [map]; [reflexivity|]. rewrite Hn, IH. reflexivity. Qed.

Lemma flike_fwf fs ps : Forall2 flike fs ps -> Forall fwf ps -> Forall fwf fs.
Proof.
  induction 1 as [|m f fs' ps' [_ Hs] _ IH]; intros F; [constructor|]. inversion F as [|? ? Hf Fr]; subst.
  constructor; [exact (fsig_fwf f m Hs Hf)|apply IH; exact Fr].
Qed.

Lemma flike_wf fs ps : Forall2 flike fs ps -> fields_wf ps -> fields_wf fs.
Proof. intros H [N F]. split; [rewrite (flike_names _ _ H); exact N|exact (flike_fwf _ _ H F)]. Qed.

Lemma ematched_like vs ws xs : Forall2 elike vs ws -> ematched vs xs = ematched ws xs.
Proof.
  unfold all_matched, enum_ok. induction 1 as [|v w vs ws [Hn Hd] Hr IH]; cbn [forallb]; [reflexivity|].
  rewrite IH, Hn, Hd. reflexivity.
Qed.

Lemma res_map_fields_like pfs nfs fs :
  res_map (fun f => match find_field (fd_name f) nfs with None => Err "could not find field" | Some g => merge_field f g end) pfs = Ok fs ->
  Forall2 flike fs pfs.
Proof.
  intros H. apply res_map_ok_elems in H. induction H as [|f m pfs fs Hf Hr IH]; [constructor|].
  constructor; [|exact IH]. destruct (find_field (fd_name f) nfs) as [g|]; [|discriminate].
  destruct (merge_field_sig _ _ _ Hf) as [Hs Hn]. split; assumption.
Qed.

Lemma elike_names vs ws : Forall2 elike vs ws -> map ev_name vs = map ev_name ws.
Proof. induction 1 as [|v w vs' ws' [Hn _] _ IH]; cbn [map]; [reflexivity|]. rewrite Hn, IH. reflexivity. Qed.

Lemma elike_dirs vs ws : Forall2 elike vs ws -> Forall (fun v => args_wf (ev_dirs v)) ws -> Forall (fun v => args_wf (ev_dirs v)) vs.
Proof.
  induction 1 as [|v w vs' ws' [_ Hd] _ IH]; intros F; [constructor|]. inversion F as [|? ? Hw Fr]; subst.
  constructor; [rewrite Hd; exact Hw|apply IH; exact Fr].
Qed.

(* one step of the merge loop: the merged definition is well formed, and a third definition is
   compatible with it exactly when it is compatible with both definitions it was merged from *)
Lemma merge2_stable p n p' :
  merge2 p n = Ok p' -> W p -> W n ->
  W p' /\ forall x, W x -> compat p' x = compat p x && compat n x.
Proof.
  intros H Wp Wn.
  assert (Hc : compat p n = true).
  { rewrite <- (merge2_compat p n (proj2 Wp) (proj2 Wn) (W_nodup n Wn)). rewrite H. reflexivity. }
  destruct (merge2_name_kind _ _ _ H) as [Hname Hkind].
  destruct Wp as [(Fp & Ep & EDp & Mp & Dp) Hip]. destruct Wn as [(Fn & En & EDn & Mn & Dn) Hin].
  assert (Wp : W p) by exact (conj (conj Fp (conj Ep (conj EDp (conj Mp Dp)))) Hip).
  assert (Wn : W n) by exact (conj (conj Fn (conj En (conj EDn (conj Mn Dn)))) Hin).
  (* away from objects: it is enough that the merged definition looks like p *)
  assert (Hlike : forall (Hobj : df_kind p <> KObject),
            df_dirs p' = df_dirs p -> df_members p' = df_members p ->
            Forall2 flike (df_fields p') (df_fields p) -> Forall2 elike (df_enums p') (df_enums p) ->
            W p' /\ forall x, W x -> compat p' x = compat p x && compat n x).
  { intros Hobj Hd Hm Hf He. split.
    - split; [|rewrite Hname; exact Hip]. split; [exact (flike_wf _ _ Hf Fp)|]. split; [rewrite (elike_names _ _ He); exact Ep|].
      split; [exact (elike_dirs _ _ He EDp)|]. split; [rewrite Hm; exact Mp|rewrite Hd; exact Dp].
    - intros x Wx.
      assert (E1 : compat p' x = compat p x).
      { unfold compat. rewrite Hkind, Hd, Hm.
        assert (Lf : length (df_fields p') = length (df_fields p)) by (rewrite <- (map_length fd_name), (flike_names _ _ Hf), map_length; reflexivity).
        assert (Le : length (df_enums p') = length (df_enums p)) by (rewrite <- (map_length ev_name), (elike_names _ _ He), map_length; reflexivity).
        rewrite Lf, Le, (fmatched_like _ _ _ Hf), (fcommon_like _ _ _ Hf), (ematched_like _ _ _ He). reflexivity. }
      rewrite E1. destruct (compat p x) eqn:Epx; cbn [andb]; [|reflexivity].
      symmetry. apply (compat_trans n p x).
      + unfold compat in Hc. apply andb_prop in Hc. destruct Hc as [K _]. apply kind_eqb_eq in K. congruence.
      + apply compat_sym; assumption.
      + exact Epx. }
  unfold merge2 in H. rewrite Hin in H.
  unfold compat in Hc. apply andb_prop in Hc. destruct Hc as [Kc Hc]. pose proof Kc as Kc'. apply kind_eqb_eq in Kc'.
  rewrite Kc in H. cbn [negb] in H.
  destruct (df_kind n) eqn:Kn.
  - (* scalar *)
    unfold merge_scalars in H. destruct (dirlists_equal (df_dirs p) (df_dirs n)); cbn [negb] in H; [|discriminate]. injection H as <-.
    apply Hlike; try reflexivity; try congruence.
    + cbn. clear. induction (df_fields p); constructor; [split; reflexivity|assumption].
    + cbn. clear. induction (df_enums p); constructor; [split; reflexivity|assumption].
  - (* object *)
    unfold merge_objects in H.
    destruct (merge_object_fields (df_fields p) (df_fields n)) as [fs|e|e] eqn:Ef; cbn [bind] in H; try discriminate.
    destruct (dirlists_equal (df_dirs p) (df_dirs n)) eqn:Ed; cbn [negb] in H; [|discriminate]. injection H as <-.
    apply andb_prop in Hc. destruct Hc as [Hcf _].
    split.
    + split; [|cbn; exact Hip]. cbn. exact (conj (mof_wf _ _ _ Ef Fp Fn) (conj Ep (conj EDp (conj Mp Dp)))).
    + intros x Wx. destruct Wx as [(Fx & Ex & EDx & Mx & Dx) Hix]. unfold compat. cbn [df_kind df_fields df_dirs].
      rewrite Kc'. rewrite Kn. destruct (kind_eqb KObject (df_kind x)) eqn:Kx; cbn [andb]; [|reflexivity].
      apply kind_eqb_eq in Kx. rewrite <- Kx.
      rewrite (fcommon_merged _ _ _ _ Ef Fp Fn Fx Hcf).
      destruct (fcommon (df_fields p) (df_fields x)) eqn:E1; cbn [andb]; [|reflexivity].
      destruct (fcommon (df_fields n) (df_fields x)) eqn:E2; cbn [andb]; [|destruct (dirlists_equal (df_dirs p) (df_dirs x)); reflexivity].
      destruct (dirlists_equal (df_dirs p) (df_dirs x)) eqn:E3; cbn [andb]; [|reflexivity].
      symmetry. apply (dirlists_equal_trans (df_dirs n) (df_dirs p) (df_dirs x)); [|exact E3].
      apply dirlists_equal_sym; assumption.
  - (* interface *)
    unfold merge_interfaces in H.
    destruct (Nat.eqb (length (df_fields p)) (length (df_fields n))); cbn [negb] in H; [|discriminate].
    match type of H with bind ?r _ = _ => destruct r as [fs|e|e] eqn:Ef; cbn [bind] in H; try discriminate end.
    destruct (negb (dirlists_equal (df_dirs p) (df_dirs n))); [discriminate|]. injection H as <-.
    apply Hlike; try reflexivity; try congruence.
    + cbn. exact (res_map_fields_like _ _ _ Ef).
    + cbn. clear. induction (df_enums p); constructor; [split; reflexivity|assumption].
  - (* union *)
    unfold merge_unions in H. destruct (slices_equivalent (df_members p) (df_members n)); [|discriminate].
    destruct (negb (dirlists_equal (df_dirs p) (df_dirs n))); [discriminate|]. injection H as <-.
    apply Hlike; try reflexivity; try congruence.
    + clear. induction (df_fields p); constructor; [split; reflexivity|assumption].
    + clear. induction (df_enums p); constructor; [split; reflexivity|assumption].
  - (* enum *)
    unfold merge_enums in H. rewrite Hip in H.
    destruct (Nat.eqb (length (df_enums p)) (length (df_enums n))); cbn [negb] in H; [|discriminate].
    match type of H with bind ?r _ = _ => destruct r as [vs|e|e] eqn:Ev; cbn [bind] in H; try discriminate end.
    destruct (negb (dirlists_equal (df_dirs p) (df_dirs n))); [discriminate|]. injection H as <-.
    apply Hlike; try reflexivity; try congruence.
    + cbn. clear. induction (df_fields p); constructor; [split; reflexivity|assumption].
    + cbn. apply res_map_ok_elems in Ev. clear - Ev. induction Ev as [|v v' vs vs' Hv Hr IH]; [constructor|].
      constructor; [|exact IH]. destruct (find_enum (ev_name v) (df_enums n)) as [w|]; [|discriminate].
      destruct (negb (dirlists_equal (ev_dirs v) (ev_dirs w))); [discriminate|]. injection Hv as <-. split; reflexivity.
  - (* input object *)
    unfold merge_inputs in H.
    destruct (Nat.eqb (length (df_fields p)) (length (df_fields n))); cbn [negb] in H; [|discriminate].
    match type of H with bind ?r _ = _ => destruct r as [fs|e|e]; cbn [bind] in H; try discriminate end.
    destruct (negb (dirlists_equal (df_dirs p) (df_dirs n))); [discriminate|]. injection H as <-.
    apply Hlike; try reflexivity; try congruence.
    + clear. induction (df_fields p); constructor; [split; reflexivity|assumption].
    + clear. induction (df_enums p); constructor; [split; reflexivity|assumption].
Qed.

(* ---------- the definitions of one name ---------- *)
Fixpoint pairs_ok (l : list definition) : bool :=
  match l with [] => true | x :: r => forallb (compat x) r && pairs_ok r end.

(* merging the definitions of a name succeeds exactly when every two of them are compatible *)
Theorem group_ok_pairs : forall ds p, W p -> Forall W ds -> is_ok (merge_group p ds) = pairs_ok (p :: ds).
Proof.
  induction ds as [|n r IH]; intros p Wp Wds; cbn [merge_group pairs_ok forallb]; [reflexivity|].
  inversion Wds as [|? ? Wn Wr]; subst. rewrite is_ok_bind.
  pose proof (merge2_compat p n (proj2 Wp) (proj2 Wn) (W_nodup n Wn)) as Hc.
  destruct (merge2 p n) as [p'|e|e] eqn:Em; cbn [is_ok] in Hc.
  - destruct (merge2_stable p n p' Em Wp Wn) as [Wp' Hst].
    rewrite (IH p' Wp' Wr). cbn [pairs_ok]. rewrite <- Hc. cbn [andb].
    assert (E : forallb (compat p') r = forallb (compat p) r && forallb (compat n) r).
    { rewrite <- forallb_andb'. apply forallb_ext_in. intros x Hx. rewrite Forall_forall in Wr. exact (Hst x (Wr x Hx)). }
    rewrite E. destruct (forallb (compat p) r), (forallb (compat n) r), (pairs_ok r); reflexivity.
  - rewrite <- Hc. reflexivity.
  - rewrite <- Hc. reflexivity.
Qed.

Lemma compat_comm x y : W x -> W y -> compat x y = compat y x.
Proof.
  intros Wx Wy. destruct (compat x y) eqn:E1; destruct (compat y x) eqn:E2; try reflexivity.
  - rewrite (compat_sym x y Wx Wy E1) in E2. discriminate.
  - rewrite (compat_sym y x Wy Wx E2) in E1. discriminate.
Qed.

Lemma forallb_perm {A} (f : A -> bool) l l' : Permutation l l' -> forallb f l = forallb f l'.
Proof.
  induction 1 as [|x l l' _ IH|x y l|l l' l'' _ IH1 _ IH2]; cbn [forallb]; try reflexivity.
  - rewrite IH. reflexivity.
  - destruct (f x), (f y); reflexivity.
  - congruence.
Qed.

Lemma pairs_ok_perm l l' : Permutation l l' -> Forall W l -> pairs_ok l = pairs_ok l'.
Proof.
  induction 1 as [|x l l' Hp IH|x y l|l l' l'' Hp1 IH1 Hp2 IH2]; intros Wl; cbn [pairs_ok forallb]; try reflexivity.
  - inversion Wl as [|? ? Wx Wr]; subst. rewrite (forallb_perm _ _ _ Hp), (IH Wr). reflexivity.
  - inversion Wl as [|? ? Wy Wr]; subst. inversion Wr as [|? ? Wx Wr']; subst.
    rewrite (compat_comm y x Wy Wx).
    destruct (compat x y), (forallb (compat y) l), (forallb (compat x) l), (pairs_ok l); reflexivity.
  - rewrite (IH1 Wl). apply IH2. eapply Permutation_Forall; eassumption.
Qed.

(* Whether the definitions of one name merge does not depend on the order in which the services
   declare them. *)
Theorem group_success_order_independent d ds d' ds' :
  Permutation (d :: ds) (d' :: ds') -> Forall W (d :: ds) ->
  is_ok (merge_group d ds) = is_ok (merge_group d' ds').
Proof.
  intros Hp Wl. assert (Wl' : Forall W (d' :: ds')) by (eapply Permutation_Forall; eassumption).
  inversion Wl as [|? ? Wd Wds]; subst. inversion Wl' as [|? ? Wd' Wds']; subst.
  rewrite (group_ok_pairs ds d Wd Wds), (group_ok_pairs ds' d' Wd' Wds'). apply pairs_ok_perm; assumption.
Qed.

(* The whole-path model against the reference, on the canonical federation join.  One root field k
   answers a list of objects; the fields l1 of the objects live at the root field's service, the
   fields l2 at another one; the plan is the root step k { l1 id } with one dependent step l2 at
   [k].  Then the execution half of Gw/Fed.v -- the calls, executorFindInsertionPoints, the
   follow-up fetches node(id) { ... on T { l2 } } with the variable id bound, stitching, and the
   scrubber -- returns exactly the reference answer to k { l1 l2 }. *)
From Coq Require Import String List Bool Arith ZArith Lia.
From GW Require Import Base.Res Base.GoStr Base.Json Gql.Syntax Gql.Spec Gw.Locate Gw.Plan Gw.Points Gw.Scrub Gw.Fed
     Proofs.CodecProofs Proofs.PointsProofs.
From GW Require Import Proofs.StitchSound Proofs.JoinSound Proofs.GroupSound Proofs.StepJoin Proofs.StepPoints Proofs.ExactJoin.
Import ListNotations.
Open Scope string_scope.
Open Scope list_scope.

(* values that hold no reference: scalars, nulls and lists of them *)
Fixpoint flatv (v : fval) : Prop :=
  match v with
  | FRef _ => False
  | FList l => (fix all (l : list fval) : Prop := match l with [] => True | x :: r => flatv x /\ all r end) l
  | _ => True
  end.

Lemma flatv_list l : flatv (FList l) -> Forall flatv l.
Proof. cbn [flatv]. induction l as [|x r IH]; intros H; [constructor|]. destruct H. constructor; [assumption|apply IH; assumption]. Qed.

(* completing them never looks below *)
Lemma complete_flat b1 b2 w sub v : flatv v -> complete_with b1 w sub v = complete_with b2 w sub v.
Proof.
  induction v as [| j | id | l IH] using fval_ind'; intros Hf; cbn [complete_with]; try reflexivity.
  - destruct Hf.
  - f_equal. apply flatv_list in Hf. induction IH as [|x r Hx Hr IHr]; cbn [map]; [reflexivity|].
    inversion Hf; subst. f_equal; [apply Hx; assumption|apply IHr; assumption].
Qed.

Section Canon.
  Variable w : world.
  Variable vars : list (string * json).

  (* the variable id bound over the client's variables changes nothing for a field that does not pass $id *)
  Lemma lookup_ext n v : n <> "id" -> @lookup json n (("id", v) :: vars) = lookup n vars.
  Proof. intros Hn. cbn [lookup]. destruct (String.eqb n "id") eqn:E; [apply String.eqb_eq in E; congruence|reflexivity]. Qed.

  Lemma arg_json_ext v a : a <> VVar "id" -> arg_json (("id", v) :: vars) a = arg_json vars a.
  Proof.
    intros Ha. destruct a; try reflexivity. cbn [arg_json]. rewrite lookup_ext; [reflexivity|]. intros ->. apply Ha. reflexivity.
  Qed.

  Lemma resolve_ext v ob rt c :
    lookup "x" (c_args c) <> Some (VVar "id") ->
    resolve w (("id", v) :: vars) (Some ob) rt c = resolve w vars (Some ob) rt c.
  Proof.
    intros Hx. unfold resolve, echo_of. destruct (lookup "x" (c_args c)) as [a|]; [|reflexivity].
    rewrite arg_json_ext by (intros ->; apply Hx; reflexivity). reflexivity.
  Qed.

  (* ---------- selections of scalar fields ---------- *)
  Definition flat_at (vs : list (string * json)) (o : obj) (l : list sel) : Prop :=
    Forall (fun s => flatv (resolve w vs (Some o) (b_type o) (to_c s))) l.

  Definition no_id_var (l : list sel) : Prop :=
    Forall (fun s => lookup "x" (args_of s) <> Some (VVar "id")) l.

  Definition flat_answer (vs : list (string * json)) (o : obj) (l : list sel) : json :=
    JObj (map (fun s => (key_of s, complete_with (fun _ _ => JNull) w (sub_of s) (resolve w vs (Some o) (b_type o) (to_c s)))) l).

  Lemma exec_flat fuel frags vs o l : good l -> flat_at vs o l ->
    exec (S (S fuel)) w frags vs (Some o) (b_type o) l = flat_answer vs o l.
  Proof.
    intros G Hf. rewrite (exec_good w frags vs fuel (Some o) (b_type o) l G). unfold flat_answer. f_equal.
    apply map_ext_in. intros s Hin. unfold answer_of. f_equal. apply complete_flat.
    unfold flat_at in Hf. rewrite Forall_forall in Hf. exact (Hf s Hin).
  Qed.

  Lemma flat_at_ext v o l : no_id_var l -> flat_at vars o l -> flat_at (("id", v) :: vars) o l.
  Proof.
    unfold no_id_var, flat_at. rewrite !Forall_forall. intros Hn Hf s Hin.
    rewrite resolve_ext by (apply Hn; exact Hin). exact (Hf s Hin).
  Qed.

  Lemma flat_answer_ext v o l : no_id_var l -> flat_answer (("id", v) :: vars) o l = flat_answer vars o l.
  Proof.
    unfold no_id_var. rewrite Forall_forall. intros Hn. unfold flat_answer. f_equal. apply map_ext_in. intros s Hin.
    rewrite resolve_ext by (apply Hn; exact Hin). reflexivity.
  Qed.

  (* a follow-up fetch wraps the step's selection in the parent type *)
  Lemma exec_inline_flat n vs T o l :
    type_matches w T (b_type o) = true -> good l -> flat_at vs o l ->
    exec (S (S (S n))) w [] vs (Some o) (b_type o) [Inline T [] l] = flat_answer vs o l.
  Proof.
    intros Htm G Hf. rewrite exec_unfold.
    assert (Hc : collect (S (S n)) w [] vs (b_type o) [] [Inline T [] l] [] =
                 (fold_left (fun a s => add_c (to_c s) a) l [], [])).
    { inversion G as [? P N Sg]; subst.
      cbn [collect]. cbn [skipped existsb orb]. rewrite Htm. cbn [negb].
      pose proof (collect_plain n w [] vs (b_type o) l [] [] P) as E. cbn [collect] in E. rewrite E. reflexivity. }
    rewrite Hc. cbn [fst]. inversion G as [? P N Sg]; subst.
    rewrite (fold_add_nodup l [] N) by (intros s _ []). cbn [app]. rewrite map_map.
    unfold flat_answer. f_equal. apply map_ext_in. intros s Hin. cbn [to_c c_key c_sub]. f_equal.
    apply complete_flat. unfold flat_at in Hf. rewrite Forall_forall in Hf. exact (Hf s Hin).
  Qed.

  (* what the service answers to the follow-up fetch for the object with that id *)
  Lemma node_answer_eq n T o l :
    find_obj (b_id o) (w_objs w) = Some o -> type_matches w T (b_type o) = true ->
    good l -> flat_at vars o l -> no_id_var l ->
    Fed.node_answer w vars (S (S (S n))) T l (b_id o) = Ok (exec (S (S n)) w [] vars (Some o) (b_type o) l).
  Proof.
    intros Hf Htm G Hflat Hnv. unfold Fed.node_answer. rewrite Hf. f_equal.
    rewrite (exec_inline_flat n _ T o l Htm G (flat_at_ext _ o l Hnv Hflat)).
    rewrite (flat_answer_ext _ o l Hnv). symmetry. apply exec_flat; assumption.
  Qed.
End Canon.

Lemma jget_map_notin (f : sel -> json) : forall l x, ~ In x (map key_of l) -> jget x (map (fun s => (key_of s, f s)) l) = None.
Proof.
  induction l as [|s r IH]; intros x Hn; cbn [map jget]; [reflexivity|].
  cbn [map In] in Hn. destruct (String.eqb x (key_of s)) eqn:E.
  - apply String.eqb_eq in E. exfalso. apply Hn. left. symmetry. exact E.
  - apply IH. intros H. apply Hn. right. exact H.
Qed.

Lemma flatten_one fuel' sh rootT a nm args s t li nn :
  shape_of (rootT ++ "." ++ nm) sh = Some (t, (li, nn)) ->
  exists subf, flatten (S fuel') sh rootT [Field a nm args [] s] = [FS (rkey a nm) li nn subf].
Proof.
  intros Hs. unfold flatten. cbn [flat_map flat_sel app]. rewrite Hs.
  cbn [merge_fsels fold_left add_fsel map]. eexists. reflexivity.
Qed.

(* the answer depends on a selection of plain fields only through what is collected from it *)
Lemma exec_to_c fuel w frags vars o rt l l' :
  Forall plain l -> Forall plain l' -> map to_c l = map to_c l' ->
  exec (S (S fuel)) w frags vars o rt l = exec (S (S fuel)) w frags vars o rt l'.
Proof.
  intros P P' E. rewrite !exec_unfold. rewrite (collect_plain fuel w frags vars rt l [] [] P), (collect_plain fuel w frags vars rt l' [] [] P').
  cbn [fst]. f_equal. f_equal.
  assert (H : forall (x : list sel) acc, fold_left (fun a s => add_c (to_c s) a) x acc = fold_left (fun a c => add_c c a) (map to_c x) acc).
  { induction x as [|s r IH]; intros acc; cbn [map fold_left]; [reflexivity|apply IH]. }
  rewrite !H, E. reflexivity.
Qed.

Section Canonical.
  Variable w : world.
  Variable vars : list (string * json).
  Hypothesis world_atomic : atomic_world w vars.
  Variable sh : fshape.
  Variable n : nat.
  Variable ka kn : string.
  Notation k := (rkey ka kn).
  Hypothesis k_clean : clean_key k.
  Variable args : list (string * value).
  Variable l1 l2 : list sel.
  Hypothesis good_sub : good (l1 ++ [id_sel]).
  Hypothesis good_l2 : good l2.
  Hypothesis compat_12 : compat (l1 ++ [id_sel]) l2.
  Hypothesis no_id_l2 : ~ In "id" (map key_of l2).
  Hypothesis no_id_var_l2 : no_id_var l2.
  Variable rootT T t : string.
  Variable nn : bool.
  Hypothesis k_shape : shape_of (rootT ++ "." ++ kn) sh = Some (t, (true, nn)).
  Variable os : list obj.
  Hypothesis k_value : resolve w vars None rootT (to_c (Field ka kn args [] (l1 ++ [id_sel]))) = FList (map (fun o => FRef (b_id o)) os).
  Hypothesis os_named : Forall (fun o => find_obj (b_id o) (w_objs w) = Some o) os.
  Hypothesis os_bound : (Z.of_nat (length os) <= int64_max)%Z.
  Hypothesis os_typed : Forall (fun o => type_matches w T (b_type o) = true) os.
  Hypothesis os_flat : Forall (fun o => flat_at w vars o l2) os.

  Notation sub1 := (l1 ++ [id_sel]).
  Notation fuel := (S (S (S n))).
  Notation Pj := (P w [] vars l1 n).
  Notation Jj := (J w [] vars l1 l2 n).
  Notation Cj := (C w [] vars l1 l2 n).

  Lemma J_has_id o : find_obj (b_id o) (w_objs w) = Some o ->
    exists mj, Jj o = JObj mj /\ jget "id" mj = Some (JStr (b_id o)).
  Proof.
    intros Ho. unfold J.
    rewrite (stitch_sound w [] vars world_atomic (S (S n)) (Some o) (b_type o) sub1 l2 (find_obj_in _ _ _ Ho) good_sub good_l2 compat_12).
    destruct (answer_has_id w [] vars l1 good_sub n o) as [m [Em Eid]]. rewrite Em.
    rewrite (exec_good w [] vars n (Some o) (b_type o) l2 good_l2). rewrite merge_value_obj.
    eexists. split; [reflexivity|]. rewrite merge_obj_other; [exact Eid|].
    unfold answer_of. apply (jget_map_notin _ l2 "id" no_id_l2).
  Qed.

  (* the follow-up fetches and the stitching of the dependent step, as Gw/Fed.v makes them *)
  Definition visit (ptype : string) (sels : list sel) (racc : res json) (p : list string) : res json :=
    acc1 <- racc ;;
    r <- Fed.node_answer w vars fuel ptype sels (last_point_id p) ;;
    acc2 <- insert_object acc1 p r ;;
    run_thens w vars sh fuel (S (S n)) sels ptype [] p r acc2.

  Lemma last_id_point i o : (Z.of_nat i <= int64_max)%Z -> last_point_id [point_of k i o] = b_id o.
  Proof. intros Hi. unfold last_point_id, point_of. cbn [rev app]. rewrite (decode_elem_id k i (b_id o) k_clean Hi). reflexivity. Qed.

  Lemma visits_exact : forall l pre,
    (Z.of_nat (length pre + length l) <= int64_max)%Z ->
    Forall (fun o => find_obj (b_id o) (w_objs w) = Some o) l ->
    Forall (fun o => type_matches w T (b_type o) = true) l ->
    Forall (fun o => flat_at w vars o l2) l ->
    fold_left (visit T l2) (points_from k (length pre) l) (Ok (JObj [(k, JArr (pre ++ map Pj l))])) =
    Ok (JObj [(k, JArr (pre ++ map Jj l))]).
  Proof.
    induction l as [|o r IH]; intros pre Hb Hnamed Htyped Hflat; cbn [points_from map fold_left]; [reflexivity|].
    inversion Hnamed as [|? ? Ho Hr]; subst. inversion Htyped as [|? ? Hto Htr]; subst. inversion Hflat as [|? ? Hfo Hfr]; subst.
    cbn [length] in Hb.
    assert (Hi : (Z.of_nat (length pre) <= int64_max)%Z) by lia.
    assert (Hn : nth_error (pre ++ Pj o :: map Pj r) (length pre) = Some (Pj o))
      by (rewrite nth_error_app2 by lia; rewrite Nat.sub_diag; reflexivity).
    unfold visit at 2. cbn [bind]. rewrite (last_id_point _ o Hi).
    rewrite (node_answer_eq w vars n T o l2 Ho Hto good_l2 Hfo no_id_var_l2). cbn [bind].
    destruct (answer_has_id w [] vars l1 good_sub n o) as [m [Em Eid]].
    assert (Hsrc : exists src, exec (S (S n)) w [] vars (Some o) (b_type o) l2 = JObj src) by (rewrite exec_unfold; eexists; reflexivity).
    destruct Hsrc as [src Esrc]. rewrite Esrc.
    unfold insert_object, point_of.
    rewrite (walk_elem_exact k k_clean _ (length pre) (b_id o) _ (Pj o) (JObj (merge_obj m src)) Hi Hn)
      by (unfold P; rewrite Em; reflexivity).
    cbn [bind run_thens fold_left]. rewrite upd_nth_app.
    assert (HJ : JObj (merge_obj m src) = Jj o).
    { unfold J. rewrite (stitch_sound w [] vars world_atomic (S (S n)) (Some o) (b_type o) sub1 l2 (find_obj_in _ _ _ Ho) good_sub good_l2 compat_12).
      rewrite Em, Esrc. rewrite merge_value_obj. reflexivity. }
    rewrite HJ.
    replace (pre ++ Jj o :: map Pj r) with ((pre ++ [Jj o]) ++ map Pj r) by (rewrite <- app_assoc; reflexivity).
    replace (S (length pre)) with (length (pre ++ [Jj o])) by (rewrite app_length; cbn; lia).
    rewrite (IH (pre ++ [Jj o])); [rewrite <- app_assoc; reflexivity|rewrite app_length; cbn [length]; lia|exact Hr|exact Htr|exact Hfr].
  Qed.

  Lemma entries_of_J : forall l i, Forall (fun o => find_obj (b_id o) (w_objs w) = Some o) l ->
    find_entries true k (fun _ br => Ok [br]) [] (map Jj l) i = Ok (points_from k i l).
  Proof.
    induction l as [|o r IH]; intros i Hn; cbn [map find_entries points_from]; [reflexivity|].
    inversion Hn as [|? ? Ho Hr]; subst.
    destruct (J_has_id o Ho) as [mj [Ej Eid]]. rewrite Ej. rewrite Eid. cbn [bind fmt_v app]. rewrite (IH _ Hr). cbn [bind app]. reflexivity.
  Qed.

  Variable locA locB : string.

  (* the plan of the canonical join: the root field with l1 and the join id at one service, l2
     for every element at another *)
  Variable tops : list sel.
  Definition canonical_plan : pstep :=
    PStep "" rootT [] tops [PStep locA rootT [] [Field ka kn args [] (l1 ++ [id_field])] [PStep locB T [k] l2 []]].

  (* the join id the planner adds and the one of Proofs/JoinSound.v are collected alike *)
  Lemma with_id_field fuel' o rt : exec (S (S fuel')) w [] vars o rt (l1 ++ [id_field]) = exec (S (S fuel')) w [] vars o rt sub1.
  Proof.
    inversion good_sub as [? Pl ? ?]; subst. apply Forall_app in Pl. destruct Pl as [Pl1 _].
    apply exec_to_c; [apply Forall_app; split; [exact Pl1|repeat constructor]|apply Forall_app; split; [exact Pl1|repeat constructor]|].
    rewrite !map_app. reflexivity.
  Qed.

  Lemma run_plan_exact :
    run_plan w vars sh fuel rootT canonical_plan = Ok (JObj [(k, JArr (map Jj os))]).
  Proof.
    unfold run_plan, canonical_plan. cbn [fold_left bind].
    assert (Hres' : resolve w vars None rootT (to_c (Field ka kn args [] (l1 ++ [id_field]))) = FList (map (fun o => FRef (b_id o)) os))
      by (rewrite <- k_value; apply resolve_same; reflexivity).
    rewrite (list_field_answer w [] vars n k None rootT ka kn args (l1 ++ [id_field]) os eq_refl Hres' os_named).
    rewrite (map_ext _ (fun o => exec (S (S n)) w [] vars (Some o) (b_type o) sub1) (fun o => with_id_field n (Some o) (b_type o))).
    cbn [insert_object merge_obj jget jset merge_value bind].
    cbn [run_thens fold_left bind].
    destruct (flatten_one (S (S n)) sh rootT ka kn args (l1 ++ [id_field]) t true nn k_shape) as [subf Ef]. rewrite Ef.
    cbn [obj_fields]. unfold find_insertion_points. cbn [length Nat.ltb Nat.leb skipn find_points find_selection fs_key].
    rewrite String.eqb_refl. cbn [jget]. rewrite String.eqb_refl.
    rewrite (entries_of_answers w [] vars l1 good_sub n k os 0). cbn [bind].
    change (fold_left (visit T l2) (points_from k 0 os) (Ok (JObj [(k, JArr ([] ++ map Pj os))])) = Ok (JObj [(k, JArr ([] ++ map Jj os))])).
    apply (visits_exact os []); [cbn; exact os_bound|exact os_named|exact os_typed|exact os_flat].
  Qed.

  Lemma scrub_exact :
    scrub_all_paths (flatten fuel sh rootT [Field ka kn args [] (l1 ++ l2)]) [[k]] (JObj [(k, JArr (map Jj os))]) =
    Ok (JObj [(k, JArr (map Cj os))]).
  Proof.
    unfold scrub_all_paths. cbn [fold_left bind]. unfold scrub_location.
    destruct (flatten_one (S (S n)) sh rootT ka kn args (l1 ++ l2) t true nn k_shape) as [subf Ef]. rewrite Ef.
    unfold find_insertion_points. cbn [length Nat.ltb Nat.leb skipn find_points find_selection fs_key].
    rewrite String.eqb_refl. cbn [jget]. rewrite String.eqb_refl.
    rewrite (entries_of_J os 0 os_named). cbn [bind].
    exact (scrub_points_exact w [] vars l1 l2 good_sub good_l2 no_id_l2 n k k_clean os [] os_bound).
  Qed.

  (* The canonical federation join, end to end on the execution side.  For every data graph with
     atomic scalars, every root list field k (a GraphQL name, declared a list) answering fewer
     than 2^63 objects that are named by their ids and match the step's parent type T, every
     l1 and l2 in collected form that agree on common keys, l2 being scalar fields that neither
     are keyed id nor pass $id: running the plan as Gw/Fed.v does and scrubbing the path [k]
     returns exactly the reference answer to k { l1 l2 }. *)
  Theorem canonical_join_end_to_end :
    (data <- run_plan w vars sh fuel rootT canonical_plan ;;
     scrub_all_paths (flatten fuel sh rootT [Field ka kn args [] (l1 ++ l2)]) [[k]] data) =
    Ok (exec fuel w [] vars None rootT [Field ka kn args [] (l1 ++ l2)]).
  Proof.
    rewrite run_plan_exact. cbn [bind]. rewrite scrub_exact. f_equal.
    assert (Hres2 : resolve w vars None rootT (to_c (Field ka kn args [] (l1 ++ l2))) = FList (map (fun o => FRef (b_id o)) os))
      by (rewrite <- k_value; apply resolve_same; reflexivity).
    rewrite (list_field_answer w [] vars n k None rootT ka kn args (l1 ++ l2) os eq_refl Hres2 os_named). reflexivity.
  Qed.
End Canonical.

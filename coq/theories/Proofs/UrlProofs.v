(* gateway.go: fieldURLs / Concat / RegisterURL — the routing table lists, under each key, exactly
   the locations whose schema declares that key. *)
From Coq Require Import String Ascii List Bool Arith.
From GW Require Import Base.Res Base.GoStr Gql.Schema Gw.Merge Gw.MergeCheck Gw.Locate.
Import ListNotations.
Open Scope string_scope.
Open Scope list_scope.

Lemma register_url_In key loc k l m :
  In loc (assoc_l key (register_url k l m)) <-> (key = k /\ loc = l) \/ In loc (assoc_l key m).
Proof.
  induction m as [|[k' ls] r IH]; simpl.
  - destruct (String.eqb key k) eqn:E.
    + apply String.eqb_eq in E. simpl. split; [intros [->|[]]; auto|intros [[_ ->]|[]]; auto].
    + apply String.eqb_neq in E. simpl. split; [tauto|intros [[H _]|[]]; congruence].
  - destruct (String.eqb k' k) eqn:E; simpl.
    + apply String.eqb_eq in E. subst k'. destruct (String.eqb key k) eqn:E2.
      * apply String.eqb_eq in E2. rewrite in_app_iff. simpl. split; [intros [H|[->|[]]]; auto|intros [[_ ->]|H]; auto].
      * apply String.eqb_neq in E2. split; [auto|intros [[H _]|H]; [congruence|auto]].
    + destruct (String.eqb key k') eqn:E2.
      * apply String.eqb_eq in E2. subst k'. apply String.eqb_neq in E. split; [auto|intros [[H _]|H]; [congruence|auto]].
      * exact IH.
Qed.

(* what one definition of one source contributes *)
Definition def_keys (strip : bool) (d : definition) : list string :=
  if negb (is_internal_name (df_name d)) || negb strip then
    (df_name d ++ ".__typename")%string ::
    flat_map (fun f => if negb (String.eqb (df_name d) "Query" && is_internal_name (fd_name f)) then [(df_name d ++ "." ++ fd_name f)%string]
                       else if negb strip then [(df_name d ++ "." ++ fd_name f)%string] else []) (df_fields d)
  else [].

Lemma fold_fields_In key loc url dn strip : forall fs m,
  In loc (assoc_l key (fold_left (fun m f =>
          if negb (String.eqb dn "Query" && is_internal_name (fd_name f)) then
            register_url (dn ++ "." ++ fd_name f)%string url m
          else if negb strip then register_url (dn ++ "." ++ fd_name f)%string url m
          else m) fs m)) <->
  (loc = url /\ In key (flat_map (fun f => if negb (String.eqb dn "Query" && is_internal_name (fd_name f)) then [(dn ++ "." ++ fd_name f)%string]
                       else if negb strip then [(dn ++ "." ++ fd_name f)%string] else []) fs)) \/
  In loc (assoc_l key m).
Proof.
  induction fs as [|f r IH]; intros m; simpl; [tauto|].
  rewrite IH. rewrite in_app_iff.
  destruct (negb (String.eqb dn "Query" && is_internal_name (fd_name f))).
  - rewrite register_url_In. simpl. split; [intros [[A B]|[[A B]|C]]; auto|intros [[A [[B|[]]|B]]|C]; auto].
  - destruct (negb strip).
    + rewrite register_url_In. simpl. split; [intros [[A B]|[[A B]|C]]; auto|intros [[A [[B|[]]|B]]|C]; auto].
    + simpl. tauto.
Qed.

Lemma fold_defs_In key loc url strip : forall ds m,
  In loc (assoc_l key (fold_left (fun m d =>
      if negb (has_prefix2 (df_name d)) || negb strip then
        let m := register_url (df_name d ++ ".__typename")%string url m in
        fold_left (fun m f =>
          if negb (String.eqb (df_name d) "Query" && has_prefix2 (fd_name f)) then
            register_url (df_name d ++ "." ++ fd_name f)%string url m
          else if negb strip then register_url (df_name d ++ "." ++ fd_name f)%string url m
          else m) (df_fields d) m
      else m) ds m)) <->
  (loc = url /\ In key (flat_map (def_keys strip) ds)) \/ In loc (assoc_l key m).
Proof.
  induction ds as [|d r IH]; intros m; simpl; [tauto|].
  rewrite IH. rewrite in_app_iff. unfold def_keys at 2. unfold has_prefix2.
  destruct (negb (is_internal_name (df_name d)) || negb strip).
  - rewrite fold_fields_In, register_url_In. simpl. split.
    + intros [[A B]|[[A B]|[[A B]|C]]]; auto.
    + intros [[A [[B|B]|B]]|C]; auto.
  - simpl. tauto.
Qed.

Theorem field_urls_exact sources strip key loc :
  In loc (assoc_l key (field_urls sources strip)) <->
  exists sch, In (loc, sch) sources /\ In key (flat_map (def_keys strip) (s_types sch)).
Proof.
  unfold field_urls.
  assert (G: forall srcs m,
    In loc (assoc_l key (fold_left (fun m src =>
       let '(url, sch) := src in
       fold_left (fun m d =>
         if negb (has_prefix2 (df_name d)) || negb strip then
           let m := register_url (df_name d ++ ".__typename")%string url m in
           fold_left (fun m f =>
             if negb (String.eqb (df_name d) "Query" && has_prefix2 (fd_name f)) then
               register_url (df_name d ++ "." ++ fd_name f)%string url m
             else if negb strip then register_url (df_name d ++ "." ++ fd_name f)%string url m
             else m) (df_fields d) m
         else m) (s_types sch) m) srcs m)) <->
    (exists sch, In (loc, sch) srcs /\ In key (flat_map (def_keys strip) (s_types sch))) \/ In loc (assoc_l key m)).
  { induction srcs as [|[url sch] r IH]; intros m; simpl.
    - split; [auto|intros [[s [[] _]]|H]; auto].
    - rewrite IH, fold_defs_In. split.
      + intros [[s [Hs Hk]]|[[-> Hk]|H]]; auto.
        * left. exists s. auto.
        * left. exists sch. auto.
      + intros [[s [[E|Hs] Hk]]|H]; auto.
        * injection E as <- <-. auto.
        * left. exists s. auto. }
  rewrite G. simpl. tauto.
Qed.


(* ---- no entry of the table is empty: URLFor never hands the chooser an empty list ---- *)
Definition ne_map (m : urlmap) : Prop := Forall (fun kv => snd kv <> []) m.

Lemma register_url_ne key loc m : ne_map m -> ne_map (register_url key loc m).
Proof.
  unfold ne_map. induction m as [|[k l] r IH]; intros H; simpl.
  - constructor; [simpl; discriminate|constructor].
  - inversion H as [|? ? Hh Ht]; subst. destruct (String.eqb k key).
    + constructor; [simpl; intros E; apply app_eq_nil in E; destruct E; discriminate|exact Ht].
    + constructor; [exact Hh|apply IH; exact Ht].
Qed.

Lemma fold_left_preserves {A B} (P : A -> Prop) (f : A -> B -> A) :
  (forall a b, P a -> P (f a b)) -> forall l a, P a -> P (fold_left f l a).
Proof. intros Hf. induction l as [|b r IH]; intros a Ha; simpl; [exact Ha|]. apply IH, Hf, Ha. Qed.

Lemma field_urls_ne sources strip : ne_map (field_urls sources strip).
Proof.
  unfold field_urls. apply fold_left_preserves; [|constructor].
  intros m [url sch] Hm. apply fold_left_preserves; [|exact Hm].
  intros m' d Hm'. destruct (negb (has_prefix2 (df_name d)) || negb strip); [|exact Hm'].
  apply fold_left_preserves; [|apply register_url_ne; exact Hm'].
  intros m'' f Hm''. destruct (negb _); [apply register_url_ne; exact Hm''|].
  destruct (negb strip); [apply register_url_ne; exact Hm''|exact Hm''].
Qed.

Theorem gateway_urls_ne iloc sources internal qft : ne_map (gateway_urls iloc sources internal qft).
Proof.
  unfold gateway_urls. apply fold_left_preserves.
  - intros m t Hm. apply register_url_ne. exact Hm.
  - unfold concat_urls. apply fold_left_preserves; [|apply field_urls_ne].
    intros m kv Hm. apply fold_left_preserves; [|exact Hm]. intros m' loc Hm'. apply register_url_ne. exact Hm'.
Qed.

Lemma ne_map_assoc m key l : ne_map m -> Locate.assoc key m = Some l -> l <> [].
Proof.
  unfold ne_map. induction m as [|[k v] r IH]; intros H E; simpl in E; [discriminate|].
  inversion H as [|? ? Hh Ht]; subst. destruct (String.eqb key k).
  - injection E as <-. exact Hh.
  - apply IH; assumption.
Qed.

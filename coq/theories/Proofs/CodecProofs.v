(* The insertion-point codec: strconv.Itoa / Atoi round trip, and decoding of the points the
   executor builds ("key", "key#id", "key:i", "key:i#id"). *)
From Coq Require Import String Ascii List Bool Arith ZArith Lia.
From GW Require Import Base.Res Base.GoStr Base.Json Gw.Points.
Import ListNotations.
Open Scope list_scope.
Open Scope string_scope.

(* ---------- digits ---------- *)
Lemma digit_digit_char d : d < 10 -> digit (digit_char d) = Some (Z.of_nat d).
Proof.
  intros H. do 10 (destruct d as [|d]; [reflexivity|]). lia.
Qed.

Lemma digit_char_not_sep d : d < 10 ->
  Ascii.eqb (digit_char d) ":" = false /\ Ascii.eqb (digit_char d) "#" = false /\
  Ascii.eqb (digit_char d) "-" = false /\ Ascii.eqb (digit_char d) "+" = false.
Proof.
  intros H. do 10 (destruct d as [|d]; [repeat split; reflexivity|]). lia.
Qed.

(* every character of s is a decimal digit *)
Fixpoint all_digits (s : string) : Prop :=
  match s with EmptyString => True | String c r => (exists d, d < 10 /\ c = digit_char d) /\ all_digits r end.

Lemma itoa_aux_spec : forall fuel n acc, n < fuel ->
  exists k, (forall a, digits (itoa_aux fuel n acc) a = digits acc (a * 10 ^ Z.of_nat k + Z.of_nat n)%Z) /\
            (all_digits acc -> all_digits (itoa_aux fuel n acc)) /\
            itoa_aux fuel n acc <> acc /\
            (forall c, contains_char c (itoa_aux fuel n acc) = true ->
                       contains_char c acc = true \/ exists d, d < 10 /\ c = digit_char d).
Proof.
  induction fuel as [|f IH]; intros n acc Hn; [lia|].
  cbn [itoa_aux].
  assert (Hd: n mod 10 < 10) by (apply Nat.mod_upper_bound; lia).
  destruct (Nat.eqb (n / 10) 0) eqn:E.
  - apply Nat.eqb_eq in E. exists 1. split; [|split; [|split]].
    + intros a. cbn [digits]. rewrite (digit_digit_char _ Hd).
      assert (n mod 10 = n) by (apply Nat.mod_small; apply Nat.div_small_iff in E; lia).
      rewrite H. f_equal; try reflexivity; try lia.
    + intros Ha. split; [exists (n mod 10); auto|exact Ha].
    + intros H. apply (f_equal String.length) in H. simpl in H. lia.
    + intros c Hc. cbn [contains_char] in Hc. apply orb_true_iff in Hc. destruct Hc as [Hc|Hc]; [|left; exact Hc].
      apply Ascii.eqb_eq in Hc. right. exists (n mod 10). auto.
  - apply Nat.eqb_neq in E.
    assert (Hlt: n / 10 < f).
    { assert (0 < n) by (destruct n; [simpl in E; congruence|lia]).
      assert (n / 10 < n) by (apply Nat.div_lt; lia). lia. }
    destruct (IH (n / 10) (String (digit_char (n mod 10)) acc) Hlt) as [k [H1 [H2 [H3 H4]]]].
    exists (S k). split; [|split; [|split]].
    + intros a. rewrite H1. cbn [digits]. rewrite (digit_digit_char _ Hd). f_equal.
      rewrite Nat2Z.inj_succ, Z.pow_succ_r by lia.
      assert (Z.of_nat n = Z.of_nat (n / 10) * 10 + Z.of_nat (n mod 10))%Z.
      { rewrite (Nat.div_mod n 10) at 1 by lia. lia. }
      lia.
    + intros Ha. apply H2. split; [exists (n mod 10); auto|exact Ha].
    + intros H. apply (f_equal String.length) in H.
      assert (Hlen: forall fuel n acc, String.length acc < String.length (itoa_aux fuel n acc) \/ fuel = 0).
      { clear. induction fuel as [|f IHf]; intros n acc; [right; reflexivity|]. left. cbn [itoa_aux].
        destruct (Nat.eqb (n / 10) 0); [cbn [String.length]; lia|].
        destruct (IHf (n / 10) (String (digit_char (n mod 10)) acc)) as [L|L]; [cbn [String.length] in L; lia|]. subst f. cbn [itoa_aux String.length]. lia. }
      destruct (Hlen f (n / 10) (String (digit_char (n mod 10)) acc)) as [L|L]; [cbn [String.length] in L, H; lia|]. lia.
    + intros c Hc. destruct (H4 c Hc) as [Hc'|Hc']; [|right; exact Hc'].
      cbn [contains_char] in Hc'. apply orb_true_iff in Hc'. destruct Hc' as [Hc'|Hc']; [|left; exact Hc'].
      apply Ascii.eqb_eq in Hc'. right. exists (n mod 10). auto.
Qed.

Lemma itoa_digits n : digits (itoa n) 0%Z = Some (Z.of_nat n).
Proof.
  unfold itoa. destruct (itoa_aux_spec (S n) n "" (Nat.lt_succ_diag_r n)) as [k [H _]].
  rewrite H. cbn [digits]. f_equal; lia.
Qed.

Lemma itoa_all_digits n : all_digits (itoa n).
Proof.
  unfold itoa. destruct (itoa_aux_spec (S n) n "" (Nat.lt_succ_diag_r n)) as [k [_ [H _]]]. apply H. exact I.
Qed.

Lemma itoa_nonempty n : itoa n <> "".
Proof.
  unfold itoa. destruct (itoa_aux_spec (S n) n "" (Nat.lt_succ_diag_r n)) as [k [_ [_ [H _]]]]. exact H.
Qed.

Theorem atoi_itoa n : (Z.of_nat n <= int64_max)%Z -> atoi (itoa n) = Some (Z.of_nat n).
Proof.
  intros Hn. pose proof (itoa_digits n) as Hd. pose proof (itoa_all_digits n) as Ha. pose proof (itoa_nonempty n) as Hne.
  unfold atoi. destruct (itoa n) as [|c r]; [congruence|].
  destruct Ha as [[d [Hd10 ->]] _]. destruct (digit_char_not_sep d Hd10) as (_ & _ & Hm & Hp).
  rewrite Hm, Hp, Hd. unfold in_int64.
  assert ((- int64_max - 1 <=? Z.of_nat n)%Z = true) by (apply Z.leb_le; unfold int64_max; lia).
  assert ((Z.of_nat n <=? int64_max)%Z = true) by (apply Z.leb_le; exact Hn).
  rewrite H, H0. reflexivity.
Qed.

(* ---------- cut / split on clean text ---------- *)
Lemma cut_app sep a b : contains_char sep a = false -> cut sep (a ++ String sep b) = Some (a, b).
Proof.
  induction a as [|c r IH]; intros H; cbn [append cut].
  - rewrite Ascii.eqb_refl. reflexivity.
  - cbn [contains_char] in H. apply orb_false_iff in H. destruct H as [H1 H2].
    rewrite Ascii.eqb_sym in H1. rewrite H1, (IH H2). reflexivity.
Qed.

Lemma cut_none sep a : contains_char sep a = false -> cut sep a = None.
Proof.
  induction a as [|c r IH]; intros H; cbn [cut]; [reflexivity|].
  cbn [contains_char] in H. apply orb_false_iff in H. destruct H as [H1 H2].
  rewrite Ascii.eqb_sym in H1. rewrite H1, (IH H2). reflexivity.
Qed.

Lemma contains_app c a b : contains_char c (a ++ b) = contains_char c a || contains_char c b.
Proof. induction a as [|x r IH]; cbn [append contains_char]; [reflexivity|]. rewrite IH, orb_assoc. reflexivity. Qed.

Lemma append_nil_r s : s ++ "" = s.
Proof. induction s as [|c r IH]; simpl; [reflexivity|]. f_equal. exact IH. Qed.

Lemma split_aux_clean sep s cur : contains_char sep s = false -> split_aux sep s cur = [cur ++ s].
Proof.
  revert cur. induction s as [|c r IH]; intros cur H; cbn [split_aux].
  - rewrite append_nil_r. reflexivity.
  - cbn [contains_char] in H. apply orb_false_iff in H. destruct H as [H1 H2].
    rewrite Ascii.eqb_sym in H1. rewrite H1, (IH _ H2). f_equal.
    clear. induction cur as [|x t IHc]; simpl; [reflexivity|]. f_equal. exact IHc.
Qed.

Lemma split_two sep a b : contains_char sep a = false -> contains_char sep b = false ->
  split sep (a ++ String sep b) = [a; b].
Proof.
  intros Ha Hb. unfold split.
  assert (G: forall cur, split_aux sep (a ++ String sep b) cur = [cur ++ a; b]).
  { induction a as [|c r IH]; intros cur; cbn [append split_aux].
    - rewrite Ascii.eqb_refl, (split_aux_clean _ _ _ Hb). rewrite append_nil_r. reflexivity.
    - cbn [contains_char] in Ha. apply orb_false_iff in Ha. destruct Ha as [H1 H2].
      rewrite Ascii.eqb_sym in H1. rewrite H1, (IH H2). f_equal.
      clear. induction cur as [|x t IHc]; simpl; [reflexivity|]. f_equal. exact IHc. }
  rewrite G. reflexivity.
Qed.

Lemma itoa_clean n c : (forall d, d < 10 -> Ascii.eqb (digit_char d) c = false) -> contains_char c (itoa n) = false.
Proof.
  intros Hc. unfold itoa. destruct (itoa_aux_spec (S n) n "" (Nat.lt_succ_diag_r n)) as [k [_ [_ [_ H]]]].
  destruct (contains_char c (itoa_aux (S n) n "")) eqn:E; [|reflexivity].
  destruct (H c E) as [F|[d [Hd ->]]]; [discriminate|]. specialize (Hc d Hd). rewrite Ascii.eqb_refl in Hc. discriminate.
Qed.

(* a response key: no ':' and no '#' (GraphQL names are letters, digits and '_') *)
Definition clean_key (k : string) : Prop := contains_char ":" k = false /\ contains_char "#" k = false.

(* ---------- the four shapes of point decode to what was encoded; ids are arbitrary text ---------- *)
Theorem decode_key key : clean_key key ->
  get_point_data key = Ok {| pd_field := key; pd_index := (-1)%Z; pd_id := "" |}.
Proof.
  intros [H1 H2]. unfold get_point_data. rewrite (cut_none _ _ H2), H1. reflexivity.
Qed.

Theorem decode_key_id key id : clean_key key ->
  get_point_data (with_id key id) = Ok {| pd_field := key; pd_index := (-1)%Z; pd_id := id |}.
Proof.
  intros [H1 H2]. unfold get_point_data, with_id. cbn [append].
  change (key ++ String "#" id) with (key ++ String "#"%char id). rewrite (cut_app _ _ _ H2), H1. reflexivity.
Qed.

Lemma enc_elem_clean key i : clean_key key -> contains_char "#" (enc_elem key i) = false.
Proof.
  intros [H1 H2]. unfold enc_elem. rewrite contains_app, H2. cbn [append contains_char orb].
  apply itoa_clean. intros d Hd. apply (digit_char_not_sep d Hd).
Qed.

Lemma decode_elem_field key i : clean_key key -> (Z.of_nat i <= int64_max)%Z ->
  contains_char ":" (enc_elem key i) = true /\
  split ":" (enc_elem key i) = [key; itoa i].
Proof.
  intros [H1 H2] Hi. unfold enc_elem. cbn [append]. split.
  - rewrite contains_app. cbn [contains_char]. rewrite Ascii.eqb_refl. apply orb_true_r.
  - apply split_two; [exact H1|]. apply itoa_clean. intros d Hd. apply (digit_char_not_sep d Hd).
Qed.

Theorem decode_elem key i : clean_key key -> (Z.of_nat i <= int64_max)%Z ->
  get_point_data (enc_elem key i) = Ok {| pd_field := key; pd_index := Z.of_nat i; pd_id := "" |}.
Proof.
  intros Hk Hi. destruct (decode_elem_field key i Hk Hi) as [A B].
  unfold get_point_data. rewrite (cut_none _ _ (enc_elem_clean key i Hk)), A, B, (atoi_itoa i Hi). reflexivity.
Qed.

Theorem decode_elem_id key i id : clean_key key -> (Z.of_nat i <= int64_max)%Z ->
  get_point_data (with_id (enc_elem key i) id) = Ok {| pd_field := key; pd_index := Z.of_nat i; pd_id := id |}.
Proof.
  intros Hk Hi. destruct (decode_elem_field key i Hk Hi) as [A B].
  unfold get_point_data, with_id. cbn [append].
  change (enc_elem key i ++ String "#" id) with (enc_elem key i ++ String "#"%char id).
  rewrite (cut_app _ _ _ (enc_elem_clean key i Hk)), A, B, (atoi_itoa i Hi). reflexivity.
Qed.

(* isListElement looks only at the part before the id *)
Theorem list_element_elem_id key i id : clean_key key -> (Z.of_nat i <= int64_max)%Z ->
  is_list_element (with_id (enc_elem key i) id) = true /\ is_list_element (enc_elem key i) = true.
Proof.
  intros Hk Hi. destruct (decode_elem_field key i Hk Hi) as [A _]. split.
  - unfold is_list_element, with_id. cbn [append].
    change (enc_elem key i ++ String "#" id) with (enc_elem key i ++ String "#"%char id).
    rewrite (cut_app _ _ _ (enc_elem_clean key i Hk)).
    destruct (enc_elem key i) as [|c r] eqn:E; [discriminate|exact A].
  - unfold is_list_element. rewrite (cut_none _ _ (enc_elem_clean key i Hk)). exact A.
Qed.

(* (the empty key is excluded: Go does not strip an id that starts at position 0, and GraphQL
   names are never empty) *)
Theorem list_element_key_id key id : clean_key key -> key <> "" ->
  is_list_element (with_id key id) = false /\ is_list_element key = false.
Proof.
  intros [H1 H2] Hne. split.
  - unfold is_list_element, with_id. cbn [append].
    change (key ++ String "#" id) with (key ++ String "#"%char id). rewrite (cut_app _ _ _ H2).
    destruct key as [|c r]; [congruence|exact H1].
  - unfold is_list_element. rewrite (cut_none _ _ H2). exact H1.
Qed.

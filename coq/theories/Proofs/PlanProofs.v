(* The planner groups a selection set by location: one group -- hence one step -- per location
   at a level (groupSelectionSet), and the join id is added to the selection that stays exactly
   when something leaves for another location. *)
From Coq Require Import String List Bool Arith Lia.
From GW Require Import Base.Res Base.GoStr Gql.Syntax Gw.Locate Gw.Plan.
Import ListNotations.
Open Scope string_scope.
Open Scope list_scope.

Lemma bind_ok_inv {A B} (r : res A) (f : A -> res B) y : bind r f = Ok y -> exists x, r = Ok x /\ f x = Ok y.
Proof. destruct r; simpl; intros H; try discriminate. eauto. Qed.

Lemma nodup_snoc {A} (l : list A) x : NoDup l -> ~ In x l -> NoDup (l ++ [x]).
Proof.
  induction l as [|y r IH]; intros H Hx; cbn [app]; [constructor; [intros []|constructor]|].
  inversion H as [|? ? Hy Hr]; subst. constructor.
  - intros Hin. apply in_app_or in Hin. destruct Hin as [Hin|[<-|[]]]; [contradiction|]. apply Hx. left. reflexivity.
  - apply IH; [exact Hr|]. intros Hin. apply Hx. right. exact Hin.
Qed.

Lemma add_at_keys l s m : map fst (add_at l s m) = if str_mem l (map fst m) then map fst m else map fst m ++ [l].
Proof.
  induction m as [|[l' ss] r IH]; [reflexivity|].
  cbn [add_at]. unfold str_mem in *. cbn [map fst existsb]. destruct (String.eqb l l') eqn:E; cbn [map fst orb]; [reflexivity|].
  rewrite IH. destruct (existsb (String.eqb l) (map fst r)); reflexivity.
Qed.

Lemma add_at_nodup l s m : NoDup (map fst m) -> NoDup (map fst (add_at l s m)).
Proof.
  intros H. rewrite add_at_keys. destruct (str_mem l (map fst m)) eqn:E; [exact H|].
  apply nodup_snoc; [exact H|]. intros Hin. apply str_mem_In in Hin. congruence.
Qed.

Lemma fold_add_nodup (f : string * list sel -> sel) : forall parts acc,
  NoDup (map fst acc) -> NoDup (map fst (fold_left (fun acc lp => add_at (fst lp) (f lp) acc) parts acc)).
Proof.
  induction parts as [|p r IH]; intros acc H; cbn [fold_left]; [exact H|]. apply IH. apply add_at_nodup. exact H.
Qed.

Section Grouping.
  Variables (prios : list string) (urls : urlmap).

  (* one group per location: no location occurs twice among the groups of a level *)
  Theorem group_one_per_location : forall sels ptype ploc acc gs,
    NoDup (map fst acc) -> group prios urls ptype ploc sels acc = Ok gs -> NoDup (map fst gs).
  Proof.
    induction sels as [|s rest IH]; intros ptype ploc acc gs Hacc H; cbn [group] in H.
    - injection H as <-. exact Hacc.
    - destruct s as [alias name args dirs sub|tcond dirs sub|name dirs]; [| |discriminate].
      + apply bind_ok_inv in H. destruct H as [l [_ H]]. eapply IH; [|exact H]. apply add_at_nodup. exact Hacc.
      + apply bind_ok_inv in H. destruct H as [parts [_ H]]. eapply IH; [|exact H].
        apply (fold_add_nodup (fun lp => Inline tcond dirs (snd lp))). exact Hacc.
  Qed.

  Corollary group_levels_are_disjoint sels ptype ploc gs :
    group prios urls ptype ploc sels [] = Ok gs -> NoDup (map fst gs).
  Proof. apply group_one_per_location. constructor. Qed.
End Grouping.

(* ---------- confinement of every step's selection ---------- *)
Section Confinement.
  Variables (prios : list string) (urls : urlmap) (ft : ftypes).
  Notation choose := (choose prios urls).
  Notation group := (group prios urls).
  Notation extract := (extract prios urls ft).
  Notation build := (build prios urls ft).

  (* a selection of a step at [loc] on type [ptype]: every field is the join id the planner adds or
     a field the chooser places at loc (given loc as the enclosing location), all the way down *)
  Fixpoint sel_confined (fuel : nat) (ptype loc : string) (s : sel) {struct fuel} : Prop :=
    match fuel with
    | O => True
    | S f =>
        match s with
        | Field alias name _ _ sub =>
            ((alias = "" /\ name = "id") \/ choose ptype name loc = Ok loc) /\
            match sub with
            | [] => True
            | _ => match assoc (url_key ptype name) ft with
                   | Some t => Forall (sel_confined f t loc) sub
                   | None => True
                   end
            end
        | Inline tcond _ sub => Forall (sel_confined f (if String.eqb tcond "" then ptype else tcond) loc) sub
        | Spread _ _ => False
        end
    end.

  (* what groupSelectionSet puts under location l *)
  Definition placed (ptype ploc l : string) (s : sel) : Prop :=
    match s with
    | Field _ name _ _ _ => choose ptype name ploc = Ok l
    | Inline tcond _ sub =>
        Forall (fun x => match x with
                         | Field _ n _ _ _ => choose (if String.eqb tcond "" then ptype else tcond) n ploc = Ok l
                         | _ => l = ploc
                         end) sub
    | Spread _ _ => False
    end.

  Definition all_placed (ptype ploc : string) (m : list (string * list sel)) : Prop :=
    Forall (fun lp => Forall (placed ptype ploc (fst lp)) (snd lp)) m.

  Lemma add_at_placed ptype ploc l s m :
    all_placed ptype ploc m -> placed ptype ploc l s -> all_placed ptype ploc (add_at l s m).
  Proof.
    unfold all_placed. induction m as [|[l' ss] r IH]; intros Hm Hs; cbn [add_at].
    - constructor; [cbn [fst snd]; constructor; [exact Hs|constructor]|constructor].
    - inversion Hm as [|? ? Hh Ht]; subst. destruct (String.eqb l l') eqn:E.
      + apply String.eqb_eq in E. subst l'. constructor; [|exact Ht]. cbn [fst snd] in *.
        apply Forall_app. split; [exact Hh|constructor; [exact Hs|constructor]].
      + constructor; [exact Hh|apply IH; assumption].
  Qed.

  (* the per-location parts of one inline fragment *)
  Definition part_ok (tc ploc : string) (m : list (string * list sel)) : Prop :=
    Forall (fun lp => Forall (fun x => match x with
                                       | Field _ n _ _ _ => choose tc n ploc = Ok (fst lp)
                                       | _ => fst lp = ploc
                                       end) (snd lp)) m.

  Lemma add_at_part tc ploc l s m :
    part_ok tc ploc m ->
    match s with Field _ n _ _ _ => choose tc n ploc = Ok l | _ => l = ploc end ->
    part_ok tc ploc (add_at l s m).
  Proof.
    unfold part_ok. induction m as [|[l' ss] r IH]; intros Hm Hs; cbn [add_at].
    - constructor; [cbn [fst snd]; constructor; [exact Hs|constructor]|constructor].
    - inversion Hm as [|? ? Hh Ht]; subst. destruct (String.eqb l l') eqn:E.
      + apply String.eqb_eq in E. subst l'. constructor; [|exact Ht]. cbn [fst snd] in *.
        apply Forall_app. split; [exact Hh|constructor; [exact Hs|constructor]].
      + constructor; [exact Hh|apply IH; assumption].
  Qed.

  Lemma split_part tc ploc : forall sub m parts,
    part_ok tc ploc m -> split_inline prios urls tc ploc sub m = Ok parts -> part_ok tc ploc parts.
  Proof.
    induction sub as [|x r IH]; intros m parts Hm H; cbn [split_inline] in H.
    - injection H as <-. exact Hm.
    - destruct x as [alias name args dirs sub'|tcond dirs sub'|name dirs].
      + apply bind_ok_inv in H. destruct H as [l [Hl H]]. eapply IH; [|exact H]. apply add_at_part; [exact Hm|exact Hl].
      + eapply IH; [|exact H]. apply add_at_part; [exact Hm|reflexivity].
      + eapply IH; [|exact H]. apply add_at_part; [exact Hm|reflexivity].
  Qed.

  Lemma fold_pieces_placed ptype ploc tcond dirs : forall parts acc,
    part_ok (if String.eqb tcond "" then ptype else tcond) ploc parts -> all_placed ptype ploc acc ->
    all_placed ptype ploc (fold_left (fun acc lp => add_at (fst lp) (Inline tcond dirs (snd lp)) acc) parts acc).
  Proof.
    induction parts as [|[l ss] r IH]; intros acc Hp Hacc; cbn [fold_left]; [exact Hacc|].
    inversion Hp as [|? ? Hh Ht]; subst. apply IH; [exact Ht|]. apply add_at_placed; [exact Hacc|]. exact Hh.
  Qed.

  Lemma group_placed : forall sels ptype ploc acc gs,
    all_placed ptype ploc acc -> group ptype ploc sels acc = Ok gs -> all_placed ptype ploc gs.
  Proof.
    induction sels as [|s rest IH]; intros ptype ploc acc gs Hacc H; cbn [Plan.group] in H.
    - injection H as <-. exact Hacc.
    - destruct s as [alias name args dirs sub|tcond dirs sub|name dirs]; [| |discriminate].
      + apply bind_ok_inv in H. destruct H as [l [Hl H]]. eapply IH; [|exact H].
        apply add_at_placed; [exact Hacc|exact Hl].
      + apply bind_ok_inv in H. destruct H as [parts [Hp H]]. eapply IH; [|exact H].
        apply fold_pieces_placed; [|exact Hacc]. eapply split_part; [|exact Hp]. constructor.
  Qed.

  Lemma get_at_placed ptype ploc l gs ss :
    all_placed ptype ploc gs -> get_at l gs = Some ss -> Forall (placed ptype ploc l) ss.
  Proof.
    unfold all_placed. induction gs as [|[l' ss'] r IH]; intros H E; cbn [get_at] in E; [discriminate|].
    inversion H as [|? ? Hh Ht]; subst. destruct (String.eqb l l') eqn:El.
    - apply String.eqb_eq in El. subst l'. injection E as <-. exact Hh.
    - apply IH; assumption.
  Qed.

  Lemma placed_field_confined fuel ptype ploc alias name args dirs :
    placed ptype ploc ploc (Field alias name args dirs []) -> sel_confined (S fuel) ptype ploc (Field alias name args dirs []).
  Proof. intros H. cbn [sel_confined]. split; [right; exact H|exact I]. Qed.

  (* keeping: when the level below confines what it keeps, so does this level *)
  Lemma keep_confined fuel (below : string -> list string -> list sel -> list sel -> res (list sel * list payload))
        ptype ploc ipoint wrapper :
    (forall t ip w sub r, below t ip w sub = Ok r -> Forall (sel_confined fuel t ploc) (fst r)) ->
    forall cur kept,
      Forall (fun s => placed ptype ploc ploc s \/ s = id_field) cur ->
      keep_with ft below ptype ipoint wrapper cur = Ok kept ->
      Forall (sel_confined (S fuel) ptype ploc) (fst kept).
  Proof.
    intros Hbelow. induction cur as [|s r IH]; intros kept Hcur H; cbn [keep_with] in H.
    - injection H as <-. constructor.
    - inversion Hcur as [|? ? Hs Hr]; subst.
      apply bind_ok_inv in H. destruct H as [here [Hh H]]. apply bind_ok_inv in H. destruct H as [more [Hm H]].
      injection H as <-. cbn [fst]. constructor; [|apply (IH more Hr Hm)].
      destruct s as [alias name args dirs sub|tcond dirs sub|name dirs].
      + assert (Hhead: (alias = "" /\ name = "id") \/ choose ptype name ploc = Ok ploc).
        { destruct Hs as [Hs|Hs]; [right; exact Hs|left]. injection Hs as -> -> _ _ _. auto. }
        destruct sub as [|s0 sub'].
        * injection Hh as <-. cbn [fst sel_confined]. split; [exact Hhead|exact I].
        * destruct (assoc (url_key ptype name) ft) as [t|] eqn:Et; [|discriminate].
          apply bind_ok_inv in Hh. destruct Hh as [b [Hb Hh]]. injection Hh as <-. cbn [fst sel_confined].
          split; [exact Hhead|]. destruct (fst b) eqn:Eb; [exact I|]. rewrite Et. rewrite <- Eb. eapply Hbelow. exact Hb.
      + apply bind_ok_inv in Hh. destruct Hh as [b [Hb Hh]]. injection Hh as <-. cbn [fst sel_confined]. eapply Hbelow. exact Hb.
      + discriminate.
  Qed.

  Theorem extract_confined : forall fuel ptype ploc ipoint wrapper sels r,
    extract fuel ptype ploc ipoint wrapper sels = Ok r -> Forall (sel_confined fuel ptype ploc) (fst r).
  Proof.
    induction fuel as [|fuel IH]; intros ptype ploc ipoint wrapper sels r H; [discriminate|].
    cbn [Plan.extract] in H.
    apply bind_ok_inv in H. destruct H as [groups [Hg H]].
    apply bind_ok_inv in H. destruct H as [others [Ho H]].
    apply bind_ok_inv in H. destruct H as [kept [Hk H]]. injection H as <-. cbn [fst].
    eapply keep_confined; [| |exact Hk].
    - intros t ip w sub r0 Hr0. eapply IH. exact Hr0.
    - assert (Hp: all_placed ptype ploc groups) by (eapply group_placed; [constructor|exact Hg]).
      assert (Hcur: Forall (fun s => placed ptype ploc ploc s \/ s = id_field)
                      (match get_at ploc groups with Some ss => ss | None => [] end)).
      { destruct (get_at ploc groups) as [ss|] eqn:Eg; [|constructor].
        eapply Forall_impl; [|eapply get_at_placed; eassumption]. intros a Ha. left. exact Ha. }
      destruct others; [exact Hcur|]. apply Forall_app. split; [exact Hcur|]. constructor; [right; reflexivity|constructor].
  Qed.

  (* every step of the plan: its selection is sel_confined to its location *)
  Fixpoint step_confined (fuel : nat) (s : pstep) {struct fuel} : Prop :=
    match fuel with
    | O => True
    | S f => match s with
             | PStep loc ptype _ sels thens => Forall (sel_confined (S f) ptype loc) sels /\ Forall (step_confined f) thens
             end
    end.

  Lemma map_res_forall {A B} (f : A -> res B) (P : B -> Prop) :
    (forall x y, f x = Ok y -> P y) -> forall l ys, map_res f l = Ok ys -> Forall P ys.
  Proof.
    intros Hf. induction l as [|x r IH]; intros ys H; cbn [map_res] in H.
    - injection H as <-. constructor.
    - apply bind_ok_inv in H. destruct H as [y [Hy H]]. apply bind_ok_inv in H. destruct H as [rest [Hr H]].
      injection H as <-. constructor; [eapply Hf; exact Hy|apply IH; exact Hr].
  Qed.

  Theorem build_confined : forall fuel p s, build fuel p = Ok s -> step_confined fuel s.
  Proof.
    induction fuel as [|fuel IH]; intros p s H; [discriminate|].
    cbn [Plan.build] in H. apply bind_ok_inv in H. destruct H as [e [He H]].
    apply bind_ok_inv in H. destruct H as [thens [Ht H]]. injection H as <-.
    cbn [step_confined]. split.
    - eapply extract_confined. exact He.
    - eapply map_res_forall; [|exact Ht]. intros x y Hxy. eapply IH. exact Hxy.
  Qed.

  Corollary plan_confined fuel root sels s :
    plan_operation prios urls ft fuel root sels = Ok s -> step_confined fuel s.
  Proof. unfold plan_operation. apply build_confined. Qed.
End Confinement.

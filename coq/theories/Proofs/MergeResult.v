(* The merged type of every name is the merge of all the definitions of that name, so (by
   MergeUnion) the resulting type system does not depend on the order of the services. *)
From Coq Require Import String List Bool Arith Lia Permutation.
From GW Require Import Base.Res Base.GoStr Gql.Schema Gw.Merge Gw.MergeCheck Proofs.MergeBasics Proofs.MergeProofs
  Proofs.MergeUnion Proofs.DirEq Proofs.MergeSym Proofs.MergeTrans Proofs.MergeGroup Proofs.MergeWhole.
Import ListNotations.
Open Scope string_scope.
Open Scope list_scope.

Lemma find_def_app k a b : find_def k (a ++ b) = match find_def k a with Some x => Some x | None => find_def k b end.
Proof. induction a as [|x r IH]; cbn [app find_def]; [reflexivity|]. destruct (String.eqb (df_name x) k); [reflexivity|exact IH]. Qed.

Lemma find_def_filter_keep k (f : definition -> bool) l :
  (forall x, df_name x = k -> f x = true) -> find_def k (filter f l) = find_def k l.
Proof.
  intros Hf. induction l as [|x r IH]; cbn [filter find_def]; [reflexivity|].
  destruct (String.eqb (df_name x) k) eqn:E.
  - apply String.eqb_eq in E. rewrite (Hf x E). cbn [find_def]. rewrite E, String.eqb_refl. reflexivity.
  - destruct (f x); cbn [find_def]; rewrite ?E; exact IH.
Qed.

Lemma find_def_filter_drop k (f : definition -> bool) l :
  (forall x, df_name x = k -> f x = false) -> find_def k (filter f l) = None.
Proof.
  intros Hf. induction l as [|x r IH]; cbn [filter]; [reflexivity|].
  destruct (f x) eqn:Ef; [|exact IH]. cbn [find_def].
  destruct (String.eqb (df_name x) k) eqn:E; [|exact IH]. apply String.eqb_eq in E. rewrite (Hf x E) in Ef. discriminate.
Qed.

(* what the second pass produces for a name *)
Lemma find_merged_others I O mi k :
  res_map merge_named_group (group_by df_name I) = Ok mi ->
  forall ks mo,
  (forall k', In k' ks -> In k' (map df_name O)) ->
  res_map (fun g => match find_def (fst g) mi with
                    | Some i => merge_group i (snd g)
                    | None => merge_named_group g
                    end) (map (fun k => (k, filter (fun x => String.eqb (df_name x) k) O)) ks) = Ok mo ->
  match find_def k mo with
  | Some o => exists d r, filter (named k) I ++ filter (named k) O = d :: r /\ merge_group d r = Ok o
  | None => ~ In k ks
  end.
Proof.
  intros Hm. induction ks as [|k0 ks IH]; intros mo Hks H.
  - cbn [map res_map] in H. assert (mo = []) by congruence. subst mo. cbn. tauto.
  - cbn [map res_map fst snd] in H.
    match type of H with (bind ?X _ = _) => destruct X as [o0|e|e] eqn:E0; cbn [bind] in H; try discriminate end.
    match type of H with (bind ?X _ = _) => destruct X as [mo'|e|e] eqn:Er; cbn [bind] in H; try discriminate end.
    injection H as <-. cbn [find_def].
    destruct (filter_nonempty k0 O (Hks k0 (or_introl eq_refl))) as [dO [rO EO]].
    fold (named k0) in E0.
    assert (Hk0 : exists d r, filter (named k0) I ++ filter (named k0) O = d :: r /\ merge_group d r = Ok o0).
    { unfold group_by in Hm.
      pose proof (find_merged I k0 (dedup (map df_name I)) mi (fun k' Hk' => proj1 (dedup_In _ _) Hk') Hm) as Hf.
      destruct (find_def k0 mi) as [i|].
      - destruct Hf as [d [r [Ef Eg]]]. exists d, (r ++ filter (named k0) O). split; [rewrite Ef; reflexivity|].
        rewrite merge_group_app, Eg. exact E0.
      - rewrite (filter_empty k0 I). 2:{ intros Hin. apply Hf. apply dedup_In. exact Hin. }
        cbn [app]. rewrite EO in *. unfold merge_named_group in E0. cbn [snd] in E0. eauto. }
    assert (Hn : df_name o0 = k0).
    { destruct Hk0 as [d [r [Ef Eg]]]. destruct (merge_group_name_kind _ _ _ Eg) as [Hn _]. rewrite Hn.
      assert (Hd : In d (filter (named k0) I ++ filter (named k0) O)) by (rewrite Ef; left; reflexivity).
      apply in_app_or in Hd. destruct Hd as [Hd|Hd]; apply filter_In in Hd; destruct Hd as [_ Hd]; apply String.eqb_eq; exact Hd. }
    destruct (String.eqb (df_name o0) k) eqn:Ek.
    + apply String.eqb_eq in Ek. assert (Hkk : k0 = k) by congruence. rewrite <- Hkk. exact Hk0.
    + apply String.eqb_neq in Ek. specialize (IH mo' (fun k' Hk' => Hks k' (or_intror Hk')) eq_refl).
      destruct (find_def k mo'); [exact IH|]. intros [->|Hin]; [congruence|tauto].
Qed.

(* the merged type of a name is the merge of all the definitions of that name, interfaces first *)
Theorem merge_types_find all out k : merge_types all = Ok out ->
  match find_def k out with
  | Some o => exists d r, Permutation (filter (named k) all) (d :: r) /\ merge_group d r = Ok o
  | None => ~ In k (map df_name all)
  end.
Proof.
  unfold merge_types. fold (I_of all). fold (O_of all). intros H.
  destruct (res_map merge_named_group (group_by df_name (I_of all))) as [mi|e|e] eqn:Em; cbn [bind] in H; try discriminate.
  match type of H with (bind ?X _ = _) => destruct X as [mo|e|e] eqn:Eo; cbn [bind] in H; try discriminate end.
  injection H as <-. rewrite find_def_app.
  assert (Hfst : map fst (group_by df_name (O_of all)) = dedup (map df_name (O_of all))).
  { unfold group_by. rewrite map_map. cbn [fst]. apply map_id. }
  rewrite Hfst.
  pose proof (find_merged_others (I_of all) (O_of all) mi k Em (dedup (map df_name (O_of all))) mo
                (fun k' Hk' => proj1 (dedup_In _ _) Hk') Eo) as HO.
  pose proof (find_merged (I_of all) k (dedup (map df_name (I_of all))) mi (fun k' Hk' => proj1 (dedup_In _ _) Hk') Em) as HI.
  destruct (in_dec string_dec k (map df_name (O_of all))) as [HkO|HkO].
  - rewrite find_def_filter_drop.
    2:{ intros x Hx. rewrite Hx. apply negb_false_iff. apply str_mem_In. apply dedup_In. exact HkO. }
    destruct (find_def k mo) as [o|].
    + destruct HO as [d [r [E Eg]]]. exists d, r. split; [rewrite <- E; apply named_split|exact Eg].
    + exfalso. apply HO. apply dedup_In. exact HkO.
  - rewrite find_def_filter_keep.
    2:{ intros x Hx. rewrite Hx. apply negb_true_iff. apply not_true_is_false. intros Hc. apply str_mem_In in Hc.
        apply HkO. apply (proj1 (dedup_In _ _)). exact Hc. }
    destruct (find_def k mi) as [i|].
    + destruct HI as [d [r [E Eg]]]. exists d, r. split; [|exact Eg].
      rewrite <- E. eapply Permutation_trans; [apply named_split|]. rewrite (filter_empty k _ HkO), app_nil_r. apply Permutation_refl.
    + destruct (find_def k mo) as [o|].
      * destruct HO as [d [r [E Eg]]]. exfalso. rewrite (filter_empty k _ HkO), app_nil_r in E.
        rewrite filter_empty in E; [discriminate|]. intros Hin. apply HI. apply dedup_In. exact Hin.
      * intros Hin. destruct (filter_nonempty k all Hin) as [d [r E]].
        pose proof (Permutation_length (named_split k all)) as Hl.
        rewrite E, (filter_empty k _ HkO) in Hl. rewrite filter_empty in Hl; [discriminate|].
        intros Hin'. apply HI. apply dedup_In. exact Hin'.
Qed.

Lemma perm_filter' {A} (f : A -> bool) l l' : Permutation l l' -> Permutation (filter f l) (filter f l').
Proof.
  induction 1 as [|x l l' _ IH|x y l|l l' l'' _ IH1 _ IH2]; cbn [filter].
  - constructor.
  - destruct (f x); [constructor|]; exact IH.
  - destruct (f x), (f y); try apply Permutation_refl. apply perm_swap.
  - eapply Permutation_trans; eassumption.
Qed.

(* The resulting type system: every name has, in the two results, the same kind, the same fields
   with the same signatures, the same interfaces / values / members -- for any two orderings of
   the same definitions that both merge. *)
Theorem merge_types_result_order_independent all all' out out' k :
  Permutation all all' -> Forall wf_def all -> is_internal_name k = false ->
  merge_types all = Ok out -> merge_types all' = Ok out' ->
  match find_def k out, find_def k out' with
  | Some a, Some b => same_typesystem a b
  | None, None => True
  | _, _ => False
  end.
Proof.
  intros Hp Hw Hk H1 H2.
  pose proof (merge_types_find all out k H1) as F1. pose proof (merge_types_find all' out' k H2) as F2.
  assert (Hnames : In k (map df_name all) <-> In k (map df_name all')).
  { split; apply Permutation_in; [|apply Permutation_sym]; apply Permutation_map; exact Hp. }
  destruct (find_def k out) as [a|], (find_def k out') as [b|].
  - destruct F1 as [d [r [P1 G1]]]. destruct F2 as [d' [r' [P2 G2]]].
    apply (group_result_order_independent d r d' r' a b G1 G2).
    + eapply Permutation_trans; [apply Permutation_sym; exact P1|].
      eapply Permutation_trans; [apply perm_filter'; exact Hp|exact P2].
    + eapply Permutation_Forall; [exact P1|]. apply Forall_forall. intros x Hx. apply filter_In in Hx. destruct Hx as [Hin Hn].
      apply String.eqb_eq in Hn. rewrite Forall_forall in Hw. split; [rewrite Hn; exact Hk|apply Hw; exact Hin].
  - destruct F1 as [d [r [P1 _]]]. apply F2, Hnames.
    assert (Hd : In d (filter (named k) all)) by (eapply Permutation_in; [apply Permutation_sym; exact P1|left; reflexivity]).
    apply filter_In in Hd. destruct Hd as [Hin Hn]. apply String.eqb_eq in Hn. rewrite <- Hn. apply in_map. exact Hin.
  - destruct F2 as [d [r [P2 _]]]. apply F1, Hnames.
    assert (Hd : In d (filter (named k) all')) by (eapply Permutation_in; [apply Permutation_sym; exact P2|left; reflexivity]).
    apply filter_In in Hd. destruct Hd as [Hin Hn]. apply String.eqb_eq in Hn. rewrite <- Hn. apply in_map. exact Hin.
  - exact Logic.I.
Qed.

(* When mergeSchemas fails there is a pair of definitions of one name that caused it: it never
   fails for another reason. *)
From Coq Require Import String List Bool Arith Lia Permutation.
From GW Require Import Base.Res Base.GoStr Gql.Schema Gw.Merge Gw.MergeCheck Proofs.MergeBasics Proofs.MergeProofs
  Proofs.DirEq Proofs.MergeSym Proofs.MergeTrans Proofs.MergeGroup Proofs.MergeWhole Proofs.MergeDirs Proofs.MergeOrder.
Import ListNotations.
Open Scope string_scope.
Open Scope list_scope.

Lemma forallb_false {A} (f : A -> bool) l : forallb f l = false -> exists x, In x l /\ f x = false.
Proof.
  induction l as [|a r IH]; cbn [forallb]; [discriminate|]. destruct (f a) eqn:E; cbn [andb].
  - intros H. destruct (IH H) as [x [Hx Hf]]. exists x. split; [right; exact Hx|exact Hf].
  - intros _. exists a. split; [left; reflexivity|exact E].
Qed.

Lemma gpairs_false {A} (cp : A -> A -> bool) : forall l, gpairs cp l = false -> exists a b, In a l /\ In b l /\ cp a b = false.
Proof.
  induction l as [|x r IH]; cbn [gpairs]; [discriminate|]. intros H. apply andb_false_iff in H. destruct H as [H|H].
  - destruct (forallb_false _ _ H) as [y [Hy Hc]]. exists x, y. split; [left; reflexivity|split; [right; exact Hy|exact Hc]].
  - destruct (IH H) as [a [b [Ha [Hb Hc]]]]. exists a, b. split; [right; exact Ha|split; [right; exact Hb|exact Hc]].
Qed.

Lemma pairs_ok_gpairs l : pairs_ok l = gpairs compat l.
Proof. induction l as [|x r IH]; cbn [pairs_ok gpairs]; [reflexivity|rewrite IH; reflexivity]. Qed.

Theorem merge_failure_has_a_witness srcs : sources_wf srcs -> is_ok (merge_schemas srcs) = false ->
  (exists a b, In a (flat_map s_types srcs) /\ In b (flat_map s_types srcs) /\ df_name a = df_name b /\
               is_internal_name (df_name a) = false /\ compat a b = false) \/
  (exists a b, In a (flat_map s_dirs srcs) /\ In b (flat_map s_dirs srcs) /\ dd_name a = dd_name b /\ dcompat a b = false).
Proof.
  intros Hw H. rewrite (merge_schemas_ok_iff srcs Hw) in H. apply andb_false_iff in H. destruct H as [H|H].
  - left. unfold types_ok in H. destruct (forallb_false _ _ H) as [k [_ Hk]]. unfold gok in Hk.
    apply orb_false_iff in Hk. destruct Hk as [Hi Hp]. rewrite pairs_ok_gpairs in Hp.
    destruct (gpairs_false compat _ Hp) as [a [b [Ha [Hb Hc]]]]. apply filter_In in Ha, Hb.
    destruct Ha as [Ha Na], Hb as [Hb Nb]. apply String.eqb_eq in Na, Nb. exists a, b.
    split; [exact Ha|]. split; [exact Hb|]. split; [congruence|]. split; [rewrite Na; exact Hi|exact Hc].
  - right. unfold dirs_ok in H. destruct (forallb_false _ _ H) as [k [_ Hk]]. unfold dpairs in Hk.
    destruct (gpairs_false dcompat _ Hk) as [a [b [Ha [Hb Hc]]]]. apply filter_In in Ha, Hb.
    destruct Ha as [Ha Na], Hb as [Hb Nb]. apply String.eqb_eq in Na, Nb. exists a, b.
    split; [exact Ha|]. split; [exact Hb|]. split; [congruence|exact Hc].
Qed.

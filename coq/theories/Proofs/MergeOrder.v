(* Whether mergeSchemas succeeds does not depend on the order of the services. *)
From Coq Require Import String List Bool Arith Lia Permutation.
From GW Require Import Base.Res Base.GoStr Gql.Schema Gw.Merge Gw.MergeCheck Proofs.MergeBasics Proofs.MergeProofs
  Proofs.DirEq Proofs.MergeSym Proofs.MergeTrans Proofs.MergeGroup Proofs.MergeWhole Proofs.MergeDirs.
Import ListNotations.
Open Scope string_scope.
Open Scope list_scope.

Lemma perm_filter {A} (f : A -> bool) l l' : Permutation l l' -> Permutation (filter f l) (filter f l').
Proof.
  induction 1 as [|x l l' _ IH|x y l|l l' l'' _ IH1 _ IH2]; cbn [filter].
  - constructor.
  - destruct (f x); [constructor|]; exact IH.
  - destruct (f x), (f y); try apply Permutation_refl. apply perm_swap.
  - eapply Permutation_trans; eassumption.
Qed.

Lemma forallb_same_members {A} (f : A -> bool) l l' : (forall x, In x l <-> In x l') -> forallb f l = forallb f l'.
Proof. intros H. apply bool_eq_iff. rewrite !forallb_forall. split; intros Hf x Hx; apply Hf, H; exact Hx. Qed.

Lemma dedup_names_perm {A} (name : A -> string) l l' : Permutation l l' ->
  forall k, In k (dedup (map name l)) <-> In k (dedup (map name l')).
Proof.
  intros Hp k. rewrite !dedup_In. split; apply Permutation_in; [|apply Permutation_sym]; apply Permutation_map; exact Hp.
Qed.

(* ---------- types ---------- *)
Theorem types_ok_perm all all' : Permutation all all' -> Forall dwf all -> types_ok all = types_ok all'.
Proof.
  intros Hp Wall. unfold types_ok.
  rewrite (forallb_same_members _ _ _ (dedup_names_perm df_name all all' Hp)).
  apply forallb_ext_in. intros k _. apply gok_perm; [apply perm_filter; exact Hp|apply Forall_filter; exact Wall|apply filter_all_named].
Qed.

Theorem merge_types_success_order_independent all all' :
  Permutation all all' -> Forall dwf all -> is_ok (merge_types all) = is_ok (merge_types all').
Proof.
  intros Hp Wall. rewrite (merge_types_ok_iff all Wall).
  rewrite (merge_types_ok_iff all' (Permutation_Forall Hp Wall)). apply types_ok_perm; assumption.
Qed.

(* ---------- directive definitions ---------- *)
Definition dnamed (k : string) (d : dirdef) : bool := String.eqb (dd_name d) k.

Definition dirs_wf (ds : list dirdef) : Prop :=
  Forall (fun d => adwf (dd_args d)) ds /\
  forall a b, In a ds -> In b ds -> dd_name a = dd_name b -> dd_builtin a = dd_builtin b.

Definition dirs_ok (ds : list dirdef) : bool :=
  forallb (fun k => dpairs (filter (dnamed k) ds)) (dedup (map dd_name ds)).

Definition merge_dirs (ds : list dirdef) : res (list dirdef) :=
  res_map (fun g => match snd g with [] => Err "empty" | d :: r => merge_dir_group d r end) (group_by dd_name ds).

Lemma group_DW ds k d r : dirs_wf ds -> filter (dnamed k) ds = d :: r -> Forall (DW (dd_builtin d)) (d :: r).
Proof.
  intros [Hn Hb] E. apply Forall_forall. intros x Hx. rewrite <- E in Hx. apply filter_In in Hx. destruct Hx as [Hin Hk].
  assert (Hd : In d (filter (dnamed k) ds)) by (rewrite E; left; reflexivity). apply filter_In in Hd. destruct Hd as [Hdin Hdk].
  unfold dnamed in *. apply String.eqb_eq in Hk, Hdk. split.
  - rewrite Forall_forall in Hn. apply Hn. exact Hin.
  - apply Hb; [exact Hin|exact Hdin|congruence].
Qed.

Lemma dfilter_nonempty k (l : list dirdef) : In k (map dd_name l) -> exists d r, filter (dnamed k) l = d :: r.
Proof.
  intros H. apply in_map_iff in H. destruct H as [d [E Hd]].
  assert (Hin : In d (filter (dnamed k) l)). { apply filter_In. split; [exact Hd|]. unfold dnamed. rewrite E. apply String.eqb_refl. }
  destruct (filter (dnamed k) l) as [|x r]; [destruct Hin|eauto].
Qed.

Theorem merge_dirs_ok_iff ds : dirs_wf ds -> is_ok (merge_dirs ds) = dirs_ok ds.
Proof.
  intros Wd. unfold merge_dirs, dirs_ok. rewrite res_map_ok. unfold group_by. rewrite forallb_map. apply forallb_ext_in. intros k Hk.
  apply (proj1 (dedup_In _ _)) in Hk. destruct (dfilter_nonempty k ds Hk) as [d [r E]]. cbn [snd]. fold (dnamed k). rewrite E.
  pose proof (group_DW ds k d r Wd E) as Hw. inversion Hw; subst. eapply dir_group_ok_pairs; eassumption.
Qed.

Lemma dirs_wf_perm ds ds' : Permutation ds ds' -> dirs_wf ds -> dirs_wf ds'.
Proof.
  intros Hp [Hn Hb]. split; [eapply Permutation_Forall; eassumption|].
  intros a b Ha Hb'. apply Hb; eapply Permutation_in; try apply Permutation_sym; eassumption.
Qed.

Theorem dirs_ok_perm ds ds' : Permutation ds ds' -> dirs_wf ds -> dirs_ok ds = dirs_ok ds'.
Proof.
  intros Hp Wd. unfold dirs_ok.
  rewrite (forallb_same_members _ _ _ (dedup_names_perm dd_name ds ds' Hp)).
  apply forallb_ext_in. intros k Hk. apply (proj1 (dedup_In _ _)) in Hk.
  assert (Hk0 : In k (map dd_name ds)) by (eapply Permutation_in; [apply Permutation_sym, Permutation_map; exact Hp|exact Hk]).
  destruct (dfilter_nonempty k ds Hk0) as [d [r E]].
  apply (dpairs_perm (dd_builtin d)); [apply perm_filter; exact Hp|]. rewrite E. eapply group_DW; eassumption.
Qed.

(* ---------- the whole schema ---------- *)
Definition sources_wf (srcs : list schema) : Prop :=
  Forall dwf (flat_map s_types srcs) /\ dirs_wf (flat_map s_dirs srcs).

Lemma merge_schemas_is_ok srcs :
  is_ok (merge_schemas srcs) = is_ok (merge_types (flat_map s_types srcs)) && is_ok (merge_dirs (flat_map s_dirs srcs)).
Proof.
  unfold merge_schemas, merge_dirs. destruct (merge_types _); cbn [bind is_ok andb]; try reflexivity.
  destruct (res_map _ _); reflexivity.
Qed.

Theorem merge_schemas_ok_iff srcs : sources_wf srcs ->
  is_ok (merge_schemas srcs) = types_ok (flat_map s_types srcs) && dirs_ok (flat_map s_dirs srcs).
Proof. intros [Wt Wd]. rewrite merge_schemas_is_ok, (merge_types_ok_iff _ Wt), (merge_dirs_ok_iff _ Wd). reflexivity. Qed.

Theorem merge_schemas_success_order_independent srcs srcs' :
  Permutation srcs srcs' -> sources_wf srcs -> is_ok (merge_schemas srcs) = is_ok (merge_schemas srcs').
Proof.
  intros Hp [Wt Wd].
  assert (Pt : Permutation (flat_map s_types srcs) (flat_map s_types srcs')) by (apply Permutation_flat_map; exact Hp).
  assert (Pd : Permutation (flat_map s_dirs srcs) (flat_map s_dirs srcs')) by (apply Permutation_flat_map; exact Hp).
  rewrite (merge_schemas_ok_iff srcs (conj Wt Wd)).
  rewrite (merge_schemas_ok_iff srcs' (conj (Permutation_Forall Pt Wt) (dirs_wf_perm _ _ Pd Wd))).
  rewrite (types_ok_perm _ _ Pt Wt), (dirs_ok_perm _ _ Pd Wd). reflexivity.
Qed.

(* ---------- the hypothesis, executable ----------
   What the loaders guarantee of every source (GraphQL validation): names distinct within each
   definition, argument names distinct within each applied directive, and one answer per directive
   name to "is it built in".  The harness evaluates sources_wfb on every generated case. *)
Definition args_wfb (l : list dirapp) : bool := forallb (fun d => nodupb (map fst (da_args d))) l.
Definition adwfb (l : list argdef) : bool := nodupb (map ad_name l) && forallb (fun a => args_wfb (ad_dirs a)) l.
Definition fwfb (f : fielddef) : bool := adwfb (fd_args f) && args_wfb (fd_dirs f).
Definition dwfb (d : definition) : bool :=
  nodupb (map fd_name (df_fields d)) && forallb fwfb (df_fields d) &&
  nodupb (map ev_name (df_enums d)) && forallb (fun v => args_wfb (ev_dirs v)) (df_enums d) &&
  nodupb (df_members d) && args_wfb (df_dirs d).
Definition dirs_wfb (ds : list dirdef) : bool :=
  forallb (fun d => adwfb (dd_args d)) ds &&
  forallb (fun a => forallb (fun b => negb (String.eqb (dd_name a) (dd_name b)) || Bool.eqb (dd_builtin a) (dd_builtin b)) ds) ds.
Definition sources_wfb (srcs : list schema) : bool :=
  forallb dwfb (flat_map s_types srcs) && dirs_wfb (flat_map s_dirs srcs).

Lemma args_wfb_sound l : args_wfb l = true -> args_wf l.
Proof. unfold args_wfb, args_wf. rewrite forallb_forall. intros H. apply Forall_forall. intros d Hd. apply nodupb_NoDup. exact (H d Hd). Qed.

Lemma adwfb_sound l : adwfb l = true -> adwf l.
Proof.
  unfold adwfb, adwf. rewrite andb_true_iff, forallb_forall. intros [A B]. split; [apply nodupb_NoDup; exact A|].
  apply Forall_forall. intros a Ha. apply args_wfb_sound. exact (B a Ha).
Qed.

Lemma dwfb_sound d : dwfb d = true -> dwf d.
Proof.
  unfold dwfb, dwf, fields_wf. rewrite !andb_true_iff. intros [[[[[A B] C] D] E] F].
  repeat split.
  - apply nodupb_NoDup. exact A.
  - apply Forall_forall. intros f Hf. rewrite forallb_forall in B. specialize (B f Hf). unfold fwfb in B.
    apply andb_true_iff in B. destruct B as [B1 B2]. split; [apply adwfb_sound; exact B1|apply args_wfb_sound; exact B2].
  - apply nodupb_NoDup. exact C.
  - apply Forall_forall. intros v Hv. rewrite forallb_forall in D. apply args_wfb_sound. exact (D v Hv).
  - apply nodupb_NoDup. exact E.
  - apply args_wfb_sound. exact F.
Qed.

Lemma dirs_wfb_sound ds : dirs_wfb ds = true -> dirs_wf ds.
Proof.
  unfold dirs_wfb, dirs_wf. rewrite andb_true_iff, !forallb_forall. intros [A B]. split.
  - apply Forall_forall. intros d Hd. apply adwfb_sound. exact (A d Hd).
  - intros a b Ha Hb En. specialize (B a Ha). rewrite forallb_forall in B. specialize (B b Hb).
    rewrite En, String.eqb_refl in B. cbn [negb orb] in B. apply eqb_prop. exact B.
Qed.

Theorem sources_wfb_sound srcs : sources_wfb srcs = true -> sources_wf srcs.
Proof.
  unfold sources_wfb, sources_wf. rewrite andb_true_iff, forallb_forall. intros [A B]. split.
  - apply Forall_forall. intros d Hd. apply dwfb_sound. exact (A d Hd).
  - apply dirs_wfb_sound. exact B.
Qed.

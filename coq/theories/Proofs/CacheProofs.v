From Coq Require Import String List Bool ZArith Arith Lia.
From GW Require Import Base.Res Base.GoStr Gw.Cache.
Import ListNotations.
Open Scope string_scope.
Open Scope list_scope.

Section CacheProofs.
  Variable plan_t : Type.
  Variable plan : string -> res plan_t.
  Variable sha : string -> string.
  Variable ttl : Z.
  Variable text_of : string -> string.     (* the query text a key stands for in the history at hand *)
  Hypothesis sha_nonempty : forall q, sha q <> "".   (* a sha256 in hex is 64 characters *)

  Notation cache := (cache plan_t).
  Notation lookup := (@lookup plan_t).
  Notation touch := (@touch plan_t).
  Notation retrieve := (retrieve plan_t plan sha).
  Notation sweep := (sweep plan_t ttl).
  Notation cacheless := (cacheless plan_t plan).

  Definition key_of (r : request) : string :=
    if String.eqb (r_hash r) "" then sha (r_query r) else r_hash r.

  (* a request is consistent with text_of when the text it carries is the text of its key *)
  Definition req_consistent (r : request) : Prop := r_query r <> "" -> text_of (key_of r) = r_query r.

  Definition Inv (c : cache) : Prop :=
    NoDup (map fst c) /\ lookup "" c = None /\
    forall k e, lookup k c = Some e -> plan (text_of k) = Ok (e_plans _ e).

  Lemma lookup_In k c e : lookup k c = Some e -> In k (map fst c).
  Proof.
    induction c as [|[k' e'] r IH]; simpl; [discriminate|].
    destruct (String.eqb k k') eqn:E; [apply String.eqb_eq in E; subst; auto|auto].
  Qed.

  Lemma lookup_None_notin k c : lookup k c = None -> ~ In k (map fst c).
  Proof.
    induction c as [|[k' e'] r IH]; simpl; [tauto|].
    destruct (String.eqb k k') eqn:E; [discriminate|]. apply String.eqb_neq in E.
    intros H [H1|H1]; [congruence|]. apply IH; auto.
  Qed.

  Lemma touch_keys k now c : map fst (touch k now c) = map fst c.
  Proof. induction c as [|[k' e'] r IH]; simpl; auto. destruct (String.eqb k k'); simpl; congruence. Qed.

  Lemma lookup_touch k k' now c :
    lookup k' (touch k now c) =
    match lookup k' c with
    | Some e => Some (if String.eqb k k' then {| e_plans := e_plans _ e; e_last := now |} else e)
    | None => None
    end.
  Proof.
    induction c as [|[k2 e2] r IH]; simpl; auto.
    destruct (String.eqb k k2) eqn:E; simpl.
    - apply String.eqb_eq in E. subst k2. destruct (String.eqb k' k) eqn:E2.
      + apply String.eqb_eq in E2. subst. rewrite String.eqb_refl. reflexivity.
      + destruct (lookup k' r); auto. rewrite String.eqb_sym, E2. reflexivity.
    - destruct (String.eqb k' k2) eqn:E2; [|exact IH].
      apply String.eqb_eq in E2. subst k2. rewrite E. reflexivity.
  Qed.

  Lemma lookup_app k c k' e' :
    lookup k (c ++ [(k', e')]) = match lookup k c with Some e => Some e | None => if String.eqb k k' then Some e' else None end.
  Proof. induction c as [|[k2 e2] r IH]; simpl; auto. destruct (String.eqb k k2); auto. Qed.

  Lemma NoDup_snoc (l : list string) x : NoDup l -> ~ In x l -> NoDup (l ++ [x]).
  Proof.
    induction l as [|y r IH]; simpl; intros Hn Hx; [constructor; [intros []|constructor]|].
    inversion Hn; subst. constructor.
    - intros Hin. apply in_app_or in Hin. destruct Hin as [Hin|[->|[]]]; [contradiction|]. apply Hx. auto.
    - apply IH; auto.
  Qed.

  Lemma touch_inv k now c : Inv c -> Inv (touch k now c).
  Proof.
    intros (Hnd & He & H). split; [rewrite touch_keys; exact Hnd|]. split.
    - rewrite lookup_touch, He. reflexivity.
    - intros k' e Hl. rewrite lookup_touch in Hl. destruct (lookup k' c) as [e0|] eqn:E; [|discriminate].
      injection Hl as <-. specialize (H _ _ E). destruct (String.eqb k k'); simpl; exact H.
  Qed.

  Lemma load_or_store_inv k p now c :
    Inv c -> k <> "" -> plan (text_of k) = Ok p -> Inv (load_or_store _ k p now c).
  Proof.
    intros HI Hk Hp. unfold load_or_store. destruct (lookup k c) eqn:E; [apply touch_inv; exact HI|].
    destruct HI as (Hnd & He & H). split; [|split].
    - rewrite map_app. simpl. apply NoDup_snoc; [exact Hnd|apply lookup_None_notin; exact E].
    - rewrite lookup_app, He. destruct (String.eqb "" k) eqn:E2; [apply String.eqb_eq in E2; congruence|reflexivity].
    - intros k' e Hl. rewrite lookup_app in Hl. destruct (lookup k' c) as [e0|] eqn:E2.
      + injection Hl as <-. apply H. exact E2.
      + destruct (String.eqb k' k) eqn:E3; [|discriminate]. injection Hl as <-.
        apply String.eqb_eq in E3. subst k'. exact Hp.
  Qed.

  Lemma key_of_nonempty r : key_of r <> "".
  Proof. unfold key_of. destruct (String.eqb (r_hash r) "") eqn:E; [apply sha_nonempty|apply String.eqb_neq; exact E]. Qed.

  (* the key under which a request is served: the client's hash on a hit, else the key it will be stored under *)
  Definition eff_key (c : cache) (r : request) : string :=
    match lookup (r_hash r) c with Some _ => r_hash r | None => key_of r end.

  Definition answer_ok (c : cache) (r : request) (a : answer plan_t) : Prop :=
    (r_query r = "" /\ lookup (r_hash r) c = None /\ a = ANotFound _) \/
    (a = cacheless (text_of (eff_key c r)) /\ (r_query r <> "" -> text_of (eff_key c r) = r_query r)).

  (* one request: the invariant is kept; the answer is the cache-less answer for the text its key
     stands for, or NotFound exactly for a hash-only request whose hash is not cached (and then the
     cache does not change); when plans are returned the key handed back is the one it is served under *)
  Lemma retrieve_ok c r now c' a k :
    Inv c -> req_consistent r -> retrieve c r now = (c', a, k) ->
    Inv c' /\ answer_ok c r a /\ (a = ANotFound _ -> c' = c) /\ (forall p, a = APlans _ p -> k = eff_key c r).
  Proof.
    intros HI Hc. unfold retrieve, answer_ok, eff_key.
    destruct (lookup (r_hash r) c) as [e|] eqn:El.
    - intros [= <- <- <-]. split; [apply touch_inv; exact HI|]. split; [|split; [discriminate|reflexivity]]. right.
      destruct HI as (_ & He & H). pose proof (H _ _ El) as Hp. unfold cacheless. rewrite Hp.
      assert (Hne: r_hash r <> "") by (intros E; rewrite E in El; congruence).
      split; [reflexivity|]. intros Hq. specialize (Hc Hq). unfold key_of in Hc.
      destruct (String.eqb (r_hash r) "") eqn:E; [apply String.eqb_eq in E; contradiction|exact Hc].
    - destruct (String.eqb (r_query r) "") eqn:Eq.
      + intros [= <- <- <-]. apply String.eqb_eq in Eq. split; [exact HI|]. split; [left; auto|split; [auto|discriminate]].
      + apply String.eqb_neq in Eq. specialize (Hc Eq).
        destruct (plan (r_query r)) as [p| |] eqn:Ep; intros [= <- <- <-].
        * fold (key_of r). split; [|split; [|split; [discriminate|reflexivity]]].
          -- apply load_or_store_inv; [exact HI|apply key_of_nonempty|rewrite Hc; exact Ep].
          -- right. unfold cacheless. rewrite Hc, Ep. split; [reflexivity|auto].
        * split; [exact HI|]. split; [|split; discriminate]. right. unfold cacheless. rewrite Hc, Ep. split; [reflexivity|auto].
        * split; [exact HI|]. split; [|split; discriminate]. right. unfold cacheless. rewrite Hc, Ep. split; [reflexivity|auto].
  Qed.

  (* ---- the sweep never evicts an entry used within the TTL, whenever it runs ---- *)
  Lemma lookup_filter_notin (f : string * entry plan_t -> bool) k c :
    ~ In k (map fst c) -> lookup k (filter f c) = None.
  Proof.
    induction c as [|[k' e'] r IH]; simpl; intros H; auto.
    destruct (f (k', e')); simpl; [|apply IH; tauto].
    destruct (String.eqb k k') eqn:E; [apply String.eqb_eq in E; subst; tauto|apply IH; tauto].
  Qed.

  Lemma lookup_sweep c now k :
    NoDup (map fst c) ->
    lookup k (sweep c now) =
    match lookup k c with
    | Some e => if (e_last _ e <? now - ttl)%Z then None else Some e
    | None => None
    end.
  Proof.
    unfold sweep. induction c as [|[k' e'] r IH]; simpl; intros Hnd; auto.
    inversion Hnd; subst.
    destruct (String.eqb k k') eqn:E.
    - apply String.eqb_eq in E. subst k'. destruct (e_last _ e' <? now - ttl)%Z eqn:Et; simpl.
      + apply lookup_filter_notin. assumption.
      + rewrite String.eqb_refl. reflexivity.
    - destruct (e_last _ e' <? now - ttl)%Z; simpl; [|rewrite E]; apply IH; assumption.
  Qed.

  Theorem sweep_keeps_recent c now k e :
    NoDup (map fst c) -> lookup k c = Some e -> (now - ttl <= e_last _ e)%Z -> lookup k (sweep c now) = Some e.
  Proof.
    intros Hnd Hl Ht. rewrite lookup_sweep, Hl by exact Hnd.
    destruct (e_last _ e <? now - ttl)%Z eqn:E; [apply Z.ltb_lt in E; lia|reflexivity].
  Qed.

  Lemma sweep_inv c now : Inv c -> Inv (sweep c now).
  Proof.
    intros (Hnd & He & H). split; [|split].
    - unfold sweep. clear He H. induction c as [|[k e] r IH]; simpl; [constructor|].
      inversion Hnd; subst. destruct (negb _); simpl; [constructor|apply IH; assumption].
      + intros Hin. apply in_map_iff in Hin. destruct Hin as [[k' e'] [Hk Hin]]. simpl in Hk. subst k'.
        apply filter_In in Hin. destruct Hin as [Hin _]. apply H1. apply in_map_iff. exists (k, e'). auto.
      + apply IH; assumption.
    - rewrite lookup_sweep, He by exact Hnd. reflexivity.
    - intros k e Hl. rewrite lookup_sweep in Hl by exact Hnd.
      destruct (lookup k c) as [e0|] eqn:E; [|discriminate].
      destruct (e_last _ e0 <? now - ttl)%Z; [discriminate|]. injection Hl as <-. apply H. exact E.
  Qed.

  (* ---- whole histories ---- *)
  Fixpoint hist_consistent (h : list event) : Prop :=
    match h with
    | [] => True
    | Req r _ :: rest => req_consistent r /\ hist_consistent rest
    | Sweep _ :: rest => hist_consistent rest
    end.

  (* the requests of a history with the cache each of them met *)
  Fixpoint caches_met (c : cache) (h : list event) : list (cache * request) :=
    match h with
    | [] => []
    | Req r now :: rest => (c, r) :: caches_met (fst (fst (retrieve c r now))) rest
    | Sweep now :: rest => caches_met (sweep c now) rest
    end.

  Theorem history_transparent : forall h c,
    Inv c -> hist_consistent h ->
    let out := snd (run plan_t plan sha ttl c h) in
    Inv (fst (run plan_t plan sha ttl c h)) /\
    Forall2 (fun cr ak => answer_ok (fst cr) (snd cr) (fst ak) /\
                          (forall p, fst ak = APlans _ p -> snd ak = eff_key (fst cr) (snd cr)))
            (caches_met c h) out.
  Proof.
    induction h as [|ev rest IH]; intros c HI Hh; simpl.
    - split; [exact HI|constructor].
    - destruct ev as [r now|now]; simpl in Hh.
      + destruct Hh as [Hr Hrest].
        destruct (retrieve c r now) as [[c' a] k] eqn:E.
        destruct (retrieve_ok _ _ _ _ _ _ HI Hr E) as (HI' & Ha & _ & Hk).
        specialize (IH c' HI' Hrest). simpl in IH.
        destruct (run plan_t plan sha ttl c' rest) as [c'' out] eqn:Er. simpl in *.
        destruct IH as [IH1 IH2]. split; [exact IH1|]. constructor; [split; assumption|exact IH2].
      + apply IH; [apply sweep_inv; exact HI|exact Hh].
  Qed.

  (* ---- concurrent lookups: any interleaving of the atomic steps keeps every answer right ---- *)
  Definition task_ok (t : task plan_t) : Prop :=
    req_consistent (fst t) /\
    match snd t with
    | PDone _ (APlans _ p) k => plan (text_of k) = Ok p /\ (r_query (fst t) <> "" -> text_of k = r_query (fst t))
    | PDone _ (ANotFound _) _ => r_query (fst t) = ""
    | PDone _ (APlanError _) _ => r_query (fst t) <> "" /\ is_ok (plan (r_query (fst t))) = false
    | PMissed _ => r_query (fst t) <> ""
    | PStart _ => True
    end.

  Lemma task_step_ok c t now c' t' :
    Inv c -> task_ok t -> task_step plan_t plan sha c t now = (c', t') -> Inv c' /\ task_ok t'.
  Proof.
    intros HI [Hc Ht]. destruct t as [r ph]. simpl in *. destruct ph as [| |a k].
    - destruct (lookup (r_hash r) c) as [e|] eqn:El.
      + intros [= <- <-]. split; [apply touch_inv; exact HI|]. split; [exact Hc|]. simpl.
        destruct HI as (_ & He & H). split; [apply H; exact El|].
        intros Hq. specialize (Hc Hq). unfold key_of in Hc.
        destruct (String.eqb (r_hash r) "") eqn:E; [apply String.eqb_eq in E; rewrite E in El; congruence|exact Hc].
      + destruct (String.eqb (r_query r) "") eqn:Eq; intros [= <- <-]; (split; [exact HI|]); (split; [exact Hc|]); simpl.
        * apply String.eqb_eq. exact Eq.
        * apply String.eqb_neq. exact Eq.
    - destruct (plan (r_query r)) as [p| |] eqn:Ep; intros [= <- <-].
      + fold (key_of r). pose proof (Hc Ht) as Hk. split.
        * apply load_or_store_inv; [exact HI|apply key_of_nonempty|rewrite Hk; exact Ep].
        * split; [exact Hc|]. simpl. split; [rewrite Hk; exact Ep|auto].
      + split; [exact HI|]. split; [exact Hc|]. simpl. rewrite Ep. auto.
      + split; [exact HI|]. split; [exact Hc|]. simpl. rewrite Ep. auto.
    - intros [= <- <-]. split; [exact HI|]. split; [exact Hc|exact Ht].
  Qed.

  Lemma Forall_set_nth {A} (P : A -> Prop) l n x : Forall P l -> P x -> Forall P (set_nth l n x).
  Proof.
    intros H Hx. revert n. induction H as [|a r Ha Hr IH]; intros [|n]; simpl; constructor; auto.
  Qed.

  Theorem concurrent_lookups_ok : forall sched c ts,
    Inv c -> Forall task_ok ts ->
    Inv (fst (crun plan_t plan sha ttl c ts sched)) /\ Forall task_ok (snd (crun plan_t plan sha ttl c ts sched)).
  Proof.
    induction sched as [|ev rest IH]; intros c ts HI Hts; simpl; [auto|].
    destruct ev as [i now|now].
    - destruct (nth_error ts i) as [t|] eqn:En; [|apply IH; assumption].
      destruct (task_step plan_t plan sha c t now) as [c' t'] eqn:Es.
      assert (Ht: task_ok t) by (rewrite Forall_forall in Hts; apply Hts; eapply nth_error_In; eauto).
      destruct (task_step_ok _ _ _ _ _ HI Ht Es) as [HI' Ht'].
      apply IH; [exact HI'|apply Forall_set_nth; assumption].
    - apply IH; [apply sweep_inv; exact HI|exact Hts].
  Qed.
End CacheProofs.

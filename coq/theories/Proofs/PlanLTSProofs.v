(* Planning is total: for every step tree -- any number of branch points in one step, any depth --
   the loop ends after exactly as many iterations as there are steps to build, with every step
   built once, or with the error of the first step that fails; it never runs out of room. *)
From Coq Require Import List Arith Bool Lia.
From GW Require Import Base.Res Gw.PlanLTS.
Import ListNotations.

Lemma psizes_app a b : psizes (a ++ b) = psizes a + psizes b.
Proof. unfold psizes. induction a as [|x r IH]; simpl; [reflexivity|]. rewrite IH. lia. Qed.

Lemma psize_unfold f kids : psize (PNode f kids) = S (psizes kids).
Proof. reflexivity. Qed.

Lemma psizes_cons t l : psizes (t :: l) = psize t + psizes l.
Proof. reflexivity. Qed.

(* no step fails: every step is built, exactly once *)
Theorem plan_loop_builds_all : forall fuel steps built,
  psizes steps < fuel -> existsb pfails steps = false ->
  plan_loop fuel steps built = Ok (built + psizes steps).
Proof.
  induction fuel as [|fuel IH]; intros steps built Hf Hn; [lia|].
  destruct steps as [|[fails kids] rest]; cbn [plan_loop].
  - cbn. f_equal. lia.
  - cbn [existsb pfails] in Hn. apply orb_false_iff in Hn. destruct Hn as [Hh Hr].
    apply orb_false_iff in Hh. destruct Hh as [-> Hk].
    rewrite IH.
    + f_equal. rewrite psizes_app, psizes_cons, psize_unfold. lia.
    + rewrite psizes_app. rewrite psizes_cons, psize_unfold in Hf. lia.
    + rewrite existsb_app, Hr, Hk. reflexivity.
Qed.

(* in every case the loop returns: a plan or an error, never stuck, never out of room *)
Theorem plan_loop_total : forall fuel steps built,
  psizes steps < fuel -> is_panic (plan_loop fuel steps built) = false.
Proof.
  induction fuel as [|fuel IH]; intros steps built Hf; [lia|].
  destruct steps as [|[fails kids] rest]; cbn [plan_loop]; [reflexivity|].
  destruct fails; [reflexivity|]. apply IH.
  rewrite psizes_app. rewrite psizes_cons, psize_unfold in Hf. lia.
Qed.

(* ... and it returns an error only if some step fails to build *)
Theorem plan_loop_error_only_if_a_step_fails : forall fuel steps built,
  psizes steps < fuel -> is_err (plan_loop fuel steps built) = true -> existsb pfails steps = true.
Proof.
  intros fuel steps built Hf He. destruct (existsb pfails steps) eqn:E; [reflexivity|].
  rewrite (plan_loop_builds_all fuel steps built Hf E) in He. discriminate.
Qed.

Theorem plan_one_operation t :
  (pfails t = false -> plan_loop (S (psize t)) [t] 0 = Ok (psize t)) /\
  is_panic (plan_loop (S (psize t)) [t] 0) = false.
Proof.
  assert (Hf: psizes [t] < S (psize t)) by (cbn; lia). split.
  - intros Hn. rewrite plan_loop_builds_all; [cbn; f_equal; lia|exact Hf|cbn; rewrite Hn; reflexivity].
  - apply plan_loop_total. exact Hf.
Qed.

(* a document of several operations: planned one after the other, each with room of its own *)
Theorem plan_all_total : forall ops fuel,
  Forall (fun o => psize o < fuel) ops -> is_panic (plan_all fuel ops) = false.
Proof.
  induction ops as [|o r IH]; intros fuel H; cbn [plan_all]; [reflexivity|].
  inversion H as [|? ? Ho Hr]; subst.
  pose proof (plan_loop_total fuel [o] 0) as T.
  destruct (plan_loop fuel [o] 0) as [n| |] eqn:E; cbn [bind]; try reflexivity.
  - specialize (IH fuel Hr). destruct (plan_all fuel r); cbn [bind]; try reflexivity. discriminate.
  - assert (Hlt: psizes [o] < fuel) by (cbn; lia). specialize (T Hlt). discriminate.
Qed.
